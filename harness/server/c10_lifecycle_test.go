//go:build verif

package server

// C10 — lifecycle unit: the range a subscription delivers, and the way it
// ends, must not depend on what happened to the partition object between
// publishing and subscribing.
//
// The forward / reverse / midclean units subscribe to partitions that were
// created a moment ago.  A partition object (and its commit log) is rebuilt
// from stored state many times in its life: PauseStream closes the log and the
// next subscribe with Resume=true (or a publish to another partition of a
// stream paused with resume-all) re-creates the partition; a restart replays
// the Raft log or restores a Raft snapshot.  Here a real single-node server
// hosts shaped streams (few-message dense, compacted, trimmed, multi-segment
// with an uncommitted tail, two partitions) and a seeded program of lifecycle
// events is run (read-only on / off through SetStreamReadonly — also while the
// stream is paused —, pause, pause with resume-all, forced Raft snapshot,
// restart, snapshot + restart, pause + restart).  After EVERY event the
// affected streams get a sample of start x stop requests judged by the same
// oracle as the forward unit (c10Forward): exactly the committed retained
// messages of the range, each once, in order; finite ranges and read-only
// partitions END with ResourceExhausted; everything else keeps waiting, shown
// by a fence message.  What the oracle believes about "read-only" comes from
// the MODEL (the last SetStreamReadonly answer), never from the rebuilt log's
// own flag; the first request after a pause is issued with Resume=true and is
// judged against the log content and HW read BEFORE the pause.

import (
	"context"
	"fmt"
	"strings"
	"testing"
	"time"

	client "github.com/liftbridge-io/liftbridge-api/v2/go"

	kit "github.com/liftbridge-io/liftbridge/internal/verifkit"
)

type c10LStream struct {
	e      *c10Env
	ro     bool // model: last acknowledged SetStreamReadonly value
	paused bool
	last   *c10State // state read when the log was last open and idle
}

type c10Life struct {
	rep     *kit.Report
	c       *vfCluster
	id      int
	rng     *kit.RNG
	events  []string
	streams []*c10LStream
	dead    bool
}

func (l *c10Life) srv() *Server { return l.c.Nodes["a"].Server() }

func (l *c10Life) inconc(what string) {
	l.rep.Inconc(fmt.Sprintf("lifecycle scenario %d [%s]: %s", l.id, strings.Join(l.events, " "), what))
	l.dead = true
}

func (l *c10Life) api(fn func(ctx context.Context) error) error {
	ctx, cancel := context.WithTimeout(context.Background(), c10Watchdog)
	defer cancel()
	return fn(ctx)
}

// refresh points the env at the current server / partition object.
func (l *c10Life) refresh(s *c10LStream) bool {
	srv := l.srv()
	if srv == nil {
		return false
	}
	p := srv.metadata.GetPartition(s.e.stream, 0)
	if p == nil {
		return false
	}
	s.e.srv, s.e.p = srv, p
	return true
}

// settle waits until the (re)started server leads the metadata and every
// stream's partition 0 is known and, unless paused, led.
func (l *c10Life) settle() bool {
	if _, err := l.c.MetaLeader(40 * time.Second); err != nil {
		l.inconc("no metadata leader: " + err.Error())
		return false
	}
	for _, s := range l.streams {
		s := s
		ok := vfWait(40*time.Second, func() bool {
			if !l.refresh(s) {
				return false
			}
			return s.e.p.IsPaused() || s.e.p.IsLeader()
		})
		if !ok {
			l.inconc("stream " + s.e.stream + " not back")
			return false
		}
		if s.e.p.IsPaused() != s.paused {
			l.inconc(fmt.Sprintf("stream %s paused=%v after the event, the model says %v", s.e.stream, s.e.p.IsPaused(), s.paused))
			return false
		}
	}
	return true
}

func (l *c10Life) setReadonly(s *c10LStream, ro bool) bool {
	err := l.api(func(ctx context.Context) error {
		_, err := l.srv().api.SetStreamReadonly(ctx, &client.SetStreamReadonlyRequest{Name: s.e.stream, Partitions: []int32{0}, Readonly: ro})
		return err
	})
	if err != nil {
		l.inconc("SetStreamReadonly: " + err.Error())
		return false
	}
	s.ro = ro
	if !s.paused {
		if !vfWait(c10Watchdog, func() bool { return l.refresh(s) && s.e.p.log.IsReadonly() == ro }) {
			l.inconc("read-only flag never applied")
			return false
		}
	}
	return true
}

func (l *c10Life) pause(s *c10LStream, resumeAll bool) bool {
	if s.paused {
		return true
	}
	req := &client.PauseStreamRequest{Name: s.e.stream, ResumeAll: resumeAll}
	if !resumeAll {
		req.Partitions = []int32{0}
	}
	err := l.api(func(ctx context.Context) error {
		_, err := l.srv().api.PauseStream(ctx, req)
		return err
	})
	if err != nil {
		l.inconc("PauseStream: " + err.Error())
		return false
	}
	if !vfWait(c10Watchdog, func() bool { return l.refresh(s) && s.e.p.IsPaused() }) {
		l.inconc("partition never paused")
		return false
	}
	s.paused = true
	return true
}

func (l *c10Life) restart() bool {
	if err := l.c.StopNode("a"); err != nil {
		l.inconc("stop: " + err.Error())
		return false
	}
	if err := l.c.StartNode("a"); err != nil {
		l.inconc("start: " + err.Error())
		return false
	}
	return l.settle()
}

func (l *c10Life) snapshot() bool {
	if err := l.srv().getRaft().Snapshot().Error(); err != nil {
		l.inconc("raft snapshot: " + err.Error())
		return false
	}
	return true
}

// resumeByOtherPartition publishes to partition 1 of a stream that was paused
// with resume-all; the publish call resumes every paused partition first.
func (l *c10Life) resumeByOtherPartition(s *c10LStream) bool {
	l.api(func(ctx context.Context) error { // nolint: errcheck
		// the answer to the publish itself does not matter (partition 1 may be read-only)
		l.srv().api.Publish(ctx, &client.PublishRequest{Stream: s.e.stream, Partition: 1, Value: []byte("resume"), AckPolicy: client.AckPolicy_LEADER}) // nolint: errcheck
		return nil
	})
	ok := vfWait(c10Watchdog, func() bool {
		return l.refresh(s) && !s.e.p.IsPaused() && s.e.p.IsLeader()
	})
	if !ok {
		l.inconc("partition 0 of " + s.e.stream + " was not resumed by a publish to partition 1 (resume-all)")
		return false
	}
	s.paused = false
	l.rep.Count("resumed_by_publish_to_other_partition", 1)
	return true
}

// sameCommitted: everything that was committed before a transparent event must
// still be there (same offsets, same content) and still be committed.
func c10SameCommitted(before, after *c10State) string {
	if after.HW < before.HW {
		return fmt.Sprintf("the HW was %d before and is %d after", before.HW, after.HW)
	}
	for _, m := range before.committed() {
		i, ok := after.idx[m.Off]
		if !ok {
			return fmt.Sprintf("committed offset %d is gone", m.Off)
		}
		if !c10Same(after.All[i], m) {
			return fmt.Sprintf("offset %d was %v and is %v", m.Off, m, after.All[i])
		}
	}
	return ""
}

// judge runs a sample of requests on s after the event.
func (l *c10Life) judge(s *c10LStream, event string, nReq int) {
	if l.dead {
		return
	}
	rep, e := l.rep, s.e
	e.tag = event
	e.extra = map[string]any{"lifecycle_scenario": l.id, "events": append([]string(nil), l.events...), "readonly_per_model": s.ro}
	var pre *c10State
	if s.paused {
		// resumed by the first subscribe; the oracle's view is the state before the pause
		pre = s.last
		if pre == nil {
			l.inconc("no state recorded before the pause of " + e.stream)
			return
		}
	} else {
		st, err := e.state()
		if err != nil {
			l.inconc("state of " + e.stream + " unreadable after " + event + ": " + err.Error())
			return
		}
		if s.last != nil {
			if d := c10SameCommitted(s.last, st); d != "" {
				rep.Violation("C10:life:"+event+":committed-range-changed",
					fmt.Sprintf("stream %s (%s log) after [%s]: %s — a subscription can no longer deliver what was committed and retained before the event", e.stream, e.shape.label(), event, d),
					map[string]any{"seed": kit.Seed(), "scenario": l.id, "events": l.events, "shape": e.shape, "before": s.last.summary(), "after": st.summary()})
				l.dead = true
				return
			}
		}
		if !s.ro && st.Readonly {
			rep.Violation("C10:life:"+event+":readonly-reappeared",
				fmt.Sprintf("stream %s after [%s]: the partition log is read-only although the last SetStreamReadonly said false; a keep-waiting subscription would be ended with 'end of readonly partition'", e.stream, event),
				map[string]any{"seed": kit.Seed(), "scenario": l.id, "events": l.events, "shape": e.shape})
			l.dead = true
			return
		}
	}
	// request classes: always some that end / wait depending on read-only
	stops := []string{"on-cancel", "on-cancel"}
	pool := []string{"off-existing", "off-hw", "off-newest", "off-fence", "off-beyond", "latest", "ts-at", "ts-between", "ts-at-newest", "ts-after-all", "off-in-gap", "off-uncommitted", "on-cancel"}
	for len(stops) < nReq {
		stops = append(stops, pool[l.rng.Intn(len(pool))])
	}
	for i := len(stops) - 1; i > 0; i-- {
		j := l.rng.Intn(i + 1)
		stops[i], stops[j] = stops[j], stops[i]
	}
	startPool := []string{"earliest", "off-oldest", "off-existing", "off-hw", "off-hw+1", "latest", "new-only", "off-below-oldest", "off-in-gap", "off-neg", "ts-at", "ts-between", "ts-before-all", "ts-after-all", "off-beyond", "off-uncommitted"}
	done := 0
	for _, tc := range stops {
		if l.dead || c10Unattributed.Load() >= c10UnattributedCap {
			break
		}
		var st *c10State
		resume := s.paused
		if resume {
			cp := *pre
			st = &cp
		} else {
			var err error
			st, err = e.state()
			if err != nil {
				l.inconc("state unreadable: " + err.Error())
				return
			}
		}
		st.Readonly = s.ro
		var (
			sp c10Start
			tt c10Stop
			ok bool
		)
		for try := 0; try < 12 && !ok; try++ {
			sc := startPool[l.rng.Intn(len(startPool))]
			if resume && (strings.HasPrefix(sc, "ts-") || strings.HasPrefix(tc, "ts-")) {
				// the log is closed while paused: the attribution probes (which
				// call the log's timestamp lookups) must not run; offset /
				// earliest / latest / new-only classes only
				if strings.HasPrefix(tc, "ts-") {
					tc = "on-cancel"
				}
				continue
			}
			sp, ok = st.resolveStart(sc, l.rng)
			if !ok {
				continue
			}
			w0 := st.wantForward(sp, c10Stop{Pos: client.StopPosition_STOP_ON_CANCEL})
			tt, ok = st.resolveStop(tc, l.rng, w0.SReq, w0.SEff)
			if !ok && try > 6 {
				tt, ok = st.resolveStop("on-cancel", l.rng, w0.SReq, w0.SEff)
			}
		}
		if !ok {
			continue
		}
		if e.causeForward(st, sp, tt, st.wantForward(sp, tt)) != "" {
			continue // a cause the forward unit already names; not this unit's business
		}
		e.reqMut, e.afterSub = nil, nil
		if resume {
			e.reqMut = func(r *client.SubscribeRequest) { r.Resume = true }
			e.afterSub = func() {
				l.refresh(s)
				s.paused = s.e.p.IsPaused()
			}
		}
		out := e.c10Forward(sp, tt, st, l.rng.Uint64())
		e.reqMut, e.afterSub = nil, nil
		if resume {
			if s.paused {
				l.inconc("subscribe with Resume=true left " + e.stream + " paused")
				return
			}
			rep.Count("resumed_by_subscribe", 1)
			if !vfWait(c10Watchdog, func() bool { return l.refresh(s) && s.e.p.IsLeader() }) {
				l.inconc("resumed partition never led")
				return
			}
		}
		if out.inconc {
			l.dead = true
			return
		}
		e.quiesce()
		if out.fenced {
			e.reshape()
		}
		done++
		rep.Eval()
		rep.Count("forward_requests", 1)
		rep.Count("requests_after_"+event, 1)
		rep.Count("messages_delivered_and_compared", int64(out.delivered))
		if out.terminal {
			rep.Count("terminal_statuses_seen", 1)
		}
		if out.fenced {
			rep.Count("fences", 1)
		}
		if s.ro {
			rep.Count("requests_on_readonly_after_"+event, 1)
		}
		if !out.ok {
			l.dead = true
			return
		}
		if out.delivered > 0 || out.terminal || out.fenced {
			ro := "rw"
			if s.ro {
				ro = "ro"
			}
			rep.Nontrivial("life|" + event + "|" + e.shape.label() + "|" + ro + "|" + sp.Class + "|" + tt.Class)
		}
	}
	e.tag = ""
	if l.dead || s.paused {
		return
	}
	// a couple of reverse requests (documented ones are compared exactly)
	if done > 0 && l.rng.Chance(1, 2) {
		e.runReverseCases(l.rng, 2)
		e.quiesce()
	}
	if st, err := e.state(); err == nil {
		s.last = st
	}
}

func c10LifeShape(rng *kit.RNG, i int) c10Shape {
	var sh c10Shape
	switch i {
	case 0: // few messages: HW 0, 1, 2
		sh = c10Shape{Kind: "dense", N: rng.Range(1, 3), SegBytes: []int64{1, 1 << 20}[rng.Intn(2)], Batch: 1, ViaAPI: rng.Bool()}
	case 1:
		sh = c10GenShape(rng, []int{0, 2, 3}[rng.Intn(3)], false) // compacted | trimmed | both
	default:
		sh = c10Shape{Kind: "dense", N: rng.Range(6, 30), SegBytes: []int64{1, 160, 420}[rng.Intn(3)], Batch: rng.Range(1, 3), Tail: rng.Intn(3)}
	}
	sh.Readonly, sh.CleanWaiting, sh.EmptyActive = false, false, false
	if rng.Bool() {
		sh.Parts = 2
	}
	return sh
}

func c10LifeScenario(rep *kit.Report, id int, rng *kit.RNG) {
	c, srv, err := vfSingle(fmt.Sprintf("c10l-%d", id), func(cfg *Config) {
		cfg.Streams.CleanerInterval = 3600 * 1e9
	})
	if err != nil {
		rep.Inconc("server start: " + err.Error())
		return
	}
	defer c.Cleanup()
	l := &c10Life{rep: rep, c: c, id: id, rng: rng}
	for i := 0; i < 3; i++ {
		seed := rng.Uint64()
		sh := c10LifeShape(kit.NewRNG(seed), i)
		e, err := c10Build(rep, c, srv, sh, seed)
		if err != nil {
			rep.Inconc(fmt.Sprintf("lifecycle scenario %d: shape %+v could not be built: %v", id, sh, err))
			return
		}
		s := &c10LStream{e: e}
		if st, err := e.state(); err == nil {
			s.last = st
		}
		l.streams = append(l.streams, s)
		rep.Count("shapes_"+sh.Kind, 1)
	}
	kinds := map[string]int{}
	nev := rng.Range(4, 6)
	for ev := 0; ev < nev && !l.dead && c10Unattributed.Load() < c10UnattributedCap; ev++ {
		s := l.streams[rng.Intn(len(l.streams))]
		kind := []string{"pause", "pause-resumeall", "restart", "snapshot-restart", "pause-restart", "readonly-on", "readonly-off", "readonly-on-while-paused", "pause"}[rng.Intn(9)]
		switch ev {
		case 0:
			kind = "readonly-on"
		case 1:
			// the stream that was just set read-only is paused and resumed
			s = l.lastTarget()
			kind = []string{"pause", "pause-resumeall", "pause-restart"}[rng.Intn(3)]
		}
		if kind == "pause-resumeall" && s.e.shape.Parts < 2 {
			kind = "pause"
		}
		if kind == "readonly-off" && !s.ro {
			kind = "readonly-on"
		}
		l.events = append(l.events, kind+"("+s.e.stream+")")
		kinds[kind]++
		rep.Count("event_"+kind, 1)
		targets := []*c10LStream{s}
		switch kind {
		case "pause":
			if !l.pause(s, false) {
				return
			}
		case "pause-resumeall":
			if !l.pause(s, true) || !l.resumeByOtherPartition(s) {
				return
			}
		case "readonly-on":
			if !l.setReadonly(s, true) {
				return
			}
		case "readonly-off":
			if !l.setReadonly(s, false) {
				return
			}
		case "readonly-on-while-paused":
			if !l.pause(s, false) || !l.setReadonly(s, true) {
				return
			}
		case "restart":
			if !l.restart() {
				return
			}
			targets = l.streams
		case "snapshot-restart":
			if !l.snapshot() || !l.restart() {
				return
			}
			targets = l.streams
		case "pause-restart":
			if !l.pause(s, false) {
				return
			}
			if rng.Bool() && !l.snapshot() {
				return
			}
			if !l.restart() {
				return
			}
			targets = l.streams
		}
		for _, t := range targets {
			n := 5
			if len(targets) > 1 && t != s {
				n = 3
			}
			l.judge(t, kind, n)
		}
	}
	if l.dead {
		return
	}
	rep.Count("scenarios_completed", 1)
	if id < 2 {
		rep.Sample(map[string]any{"scenario": id, "events": l.events, "shapes": []c10Shape{l.streams[0].e.shape, l.streams[1].e.shape, l.streams[2].e.shape}})
	}
}

// lastTarget returns the stream named in the most recent event.
func (l *c10Life) lastTarget() *c10LStream {
	if len(l.events) == 0 {
		return l.streams[0]
	}
	last := l.events[len(l.events)-1]
	for _, s := range l.streams {
		if strings.HasSuffix(last, "("+s.e.stream+")") {
			return s
		}
	}
	return l.streams[0]
}

func TestVerifC10Lifecycle(t *testing.T) {
	rep := kit.NewReport("C10", "lifecycle")
	defer rep.Write()
	c10InstallClock()
	c10Assumptions(rep)
	rep.SetRule("real single-node servers (Raft + snapshots on disk, private NATS), 3 shaped streams each (few-message dense N=1..3 incl. published through the API; compacted / trimmed / both; dense multi-segment with 0..2 uncommitted messages; 1 or 2 partitions); seeded program of 4..6 lifecycle events: SetStreamReadonly on / off (also while paused), PauseStream + resume by the next subscribe (Resume=true), PauseStream with resume-all + publish to partition 1, restart on the same data dir, forced Raft snapshot + restart, pause (+snapshot) + restart + resume by subscribe; the first two events are always read-only-on followed by a pause-type event on the same stream; after every event each affected stream receives 3..5 forward requests (random start class x stop class, at least two STOP_ON_CANCEL) judged by the forward unit's oracle on the log content read after the event (before the pause, when the request itself resumes the partition) with read-only taken from the model, plus now and then 2 reverse requests; additionally everything committed before a transparent event (restart, pause/resume) must still be retained and committed after it; non-trivial = request held after an event and delivered / ended / was fenced; distinct = event + shape label + read-only + start class + stop class")
	rep.Assume("a clean pause / resume and a graceful restart are transparent for the partition log: content, HW and the read-only flag last acknowledged by SetStreamReadonly carry over (documentation of PauseStream / SetStreamReadonly: paused partitions are resumed on demand; read-only is a stored stream property)")
	root := kit.NewRNG(kit.Mix(kit.Seed(), 0xC101F))
	n := kit.Scale(8, 48)
	rngs := make([]*kit.RNG, n)
	for i := range rngs {
		rngs[i] = root.Fork(uint64(i))
	}
	kit.Parallel(n, 4, func(i int) {
		if rep.NumViolations() >= 4 || c10Unattributed.Load() >= c10UnattributedCap {
			return
		}
		c10LifeScenario(rep, i, rngs[i])
	})
}
