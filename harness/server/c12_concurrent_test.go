//go:build verif

package server

// C12 unit `concurrent`: CONCURRENT requests through the real consumer group
// API of a running single-node server.
//
// The other C12 units apply operations one after the other (group objects,
// Server.apply).  Here the operations are gRPC-level requests
// (apiServer.JoinConsumerGroup / LeaveConsumerGroup / DeleteStream, called
// in-process) that are IN FLIGHT TOGETHER: duplicates of one join (a client
// retrying a join it has no answer to), joins racing leaves of the same
// consumer id, joins of different ids, duplicate leaves, stream deletions
// racing joins that name the stream.  Which request wins is not the harness'
// business; after every round, when all calls have returned and a Raft barrier
// has passed (quiescence), the ground truth is derived from the ANSWERS alone:
//
//   - per (group, consumer id) the accepted joins J and accepted leaves L of
//     the round must be explainable by one serial order: a join is accepted
//     only for a non-member and a leave only for a member, so with m0 in {0,1}
//     the membership before the round, m0+J-L must be 0 or 1 (at most one of N
//     duplicate joins of a non-member is accepted) and is the membership after;
//   - all joins of one (group, id) within a round carry the same stream list,
//     so the subscription after the round is that list (if a join was
//     accepted) minus the streams whose deletion was accepted;
//   - stream names are never reused.
//
// and the usual C12 oracle (c12Check) judges what the server holds and what it
// hands out (FetchConsumerGroupAssignments for every member at the current
// epoch): every partition of every subscribed stream is assigned to exactly one
// CURRENT member that subscribed to it, nothing else is assigned, single-stream
// groups are balanced, served == state.
//
// No wall-clock value decides anything: calls have a generous deadline and any
// answer other than OK / FailedPrecondition / NotFound makes the case
// inconclusive.

import (
	"context"
	"fmt"
	"sort"
	"strings"
	"sync"
	"sync/atomic"
	"testing"
	"time"

	client "github.com/liftbridge-io/liftbridge-api/v2/go"
	"google.golang.org/grpc/codes"
	"google.golang.org/grpc/status"

	kit "github.com/liftbridge-io/liftbridge/internal/verifkit"
)

var c12cWatchdog = time.Duration(kit.EnvInt("C12_WATCHDOG_MS", 60000)) * time.Millisecond

type c12cOp struct {
	Kind    string   `json:"kind"` // join | leave | delete
	G       int      `json:"group"`
	Cid     string   `json:"consumer,omitempty"`
	Streams []string `json:"streams,omitempty"`
	Stream  string   `json:"stream,omitempty"`

	inv, ret int64
	code     codes.Code
	msg      string
}

func (o *c12cOp) String() string {
	switch o.Kind {
	case "join":
		return fmt.Sprintf("join(g%d,%s,%v)", o.G, o.Cid, o.Streams)
	case "leave":
		return fmt.Sprintf("leave(g%d,%s)", o.G, o.Cid)
	}
	return fmt.Sprintf("deleteStream(%s)", o.Stream)
}

type c12cCase struct {
	rep    *kit.Report
	srv    *Server
	id     int
	seed   uint64
	groups []string
	parts  map[string]int32 // streams of this case that exist (truth)
	all    []string         // every stream the case created
	subs   []map[string]map[string]bool
	rounds [][]*c12cOp
	log    []string
	clock  atomic.Int64
	failed bool
	inconc bool
	sig    strings.Builder

	overlapRounds int
	nontrivial    bool
}

func (c *c12cCase) ctx() (context.Context, context.CancelFunc) {
	return context.WithTimeout(context.Background(), c12cWatchdog)
}

// gen builds the whole program from the PRNG alone.
func (c *c12cCase) gen(rng *kit.RNG) {
	ns := rng.Range(1, 3)
	c.parts = map[string]int32{}
	for i := 0; i < ns; i++ {
		name := fmt.Sprintf("c12c-%d-s%d", c.id, i)
		c.all = append(c.all, name)
		c.parts[name] = int32(rng.Range(1, 7))
	}
	ng := 1
	if rng.Chance(3, 10) {
		ng = 2
	}
	for g := 0; g < ng; g++ {
		c.groups = append(c.groups, fmt.Sprintf("c12c-%d-g%d", c.id, g))
		c.subs = append(c.subs, map[string]map[string]bool{})
	}
	ids := []string{"a", "b", "c", "d"}[:rng.Range(2, 4)]
	deleted := map[string]bool{}
	pickStreams := func() []string {
		var out []string
		for _, s := range c.all {
			if deleted[s] && !rng.Chance(1, 6) {
				continue
			}
			if rng.Chance(6, 10) {
				out = append(out, s)
			}
		}
		if len(out) == 0 {
			out = []string{c.all[rng.Intn(len(c.all))]}
		}
		return out
	}
	nr := rng.Range(4, 8)
	for r := 0; r < nr; r++ {
		var ops []*c12cOp
		streamsOf := map[string][]string{} // one stream list per (group,id) and round
		join := func(g int, id string) *c12cOp {
			k := fmt.Sprintf("%d/%s", g, id)
			if streamsOf[k] == nil {
				streamsOf[k] = pickStreams()
			}
			return &c12cOp{Kind: "join", G: g, Cid: id, Streams: streamsOf[k]}
		}
		ne := rng.Range(1, 3)
		if r == 0 {
			ne = rng.Range(2, 3)
		}
		for e := 0; e < ne; e++ {
			g := rng.Intn(ng)
			id := ids[rng.Intn(len(ids))]
			switch x := rng.Intn(100); {
			case x < 35: // duplicates of one join
				for k, n := 0, rng.Range(2, 6); k < n; k++ {
					ops = append(ops, join(g, id))
				}
			case x < 55:
				ops = append(ops, join(g, id))
			case x < 70:
				ops = append(ops, &c12cOp{Kind: "leave", G: g, Cid: id})
			case x < 78: // duplicate leaves
				ops = append(ops, &c12cOp{Kind: "leave", G: g, Cid: id}, &c12cOp{Kind: "leave", G: g, Cid: id})
			case x < 90 || len(deleted) >= len(c.all)-1: // join racing a leave of the same id (also when the plan must keep its last stream)
				ops = append(ops, join(g, id), &c12cOp{Kind: "leave", G: g, Cid: id})
				if rng.Bool() {
					ops = append(ops, join(g, id))
				}
			default: // stream deletion racing whatever else is in the round
				s := c.all[rng.Intn(len(c.all))]
				deleted[s] = true
				ops = append(ops, &c12cOp{Kind: "delete", Stream: s})
				// 1..4 joins (some of them naming the stream) race the deletion
				for k, n := 0, rng.Range(1, 4); k < n; k++ {
					jid := ids[rng.Intn(len(ids))]
					key := fmt.Sprintf("%d/%s", g, jid)
					if streamsOf[key] == nil && rng.Chance(3, 4) {
						l := pickStreams()
						has := false
						for _, x := range l {
							has = has || x == s
						}
						if !has {
							l = append(l, s)
							sort.Strings(l)
						}
						streamsOf[key] = l
					}
					ops = append(ops, join(g, jid))
				}
			}
		}
		// shuffle
		for i := len(ops) - 1; i > 0; i-- {
			j := rng.Intn(i + 1)
			ops[i], ops[j] = ops[j], ops[i]
		}
		c.rounds = append(c.rounds, ops)
	}
}

func (c *c12cCase) programString() string {
	var sb strings.Builder
	for i, r := range c.rounds {
		if i > 0 {
			sb.WriteString(" ; ")
		}
		for j, o := range r {
			if j > 0 {
				sb.WriteString(" || ")
			}
			sb.WriteString(o.String())
		}
	}
	return sb.String()
}

func (c *c12cCase) do(o *c12cOp) {
	ctx, cancel := c.ctx()
	defer cancel()
	var err error
	o.inv = c.clock.Add(1)
	switch o.Kind {
	case "join":
		_, err = c.srv.api.JoinConsumerGroup(ctx, &client.JoinConsumerGroupRequest{GroupId: c.groups[o.G], ConsumerId: o.Cid, Streams: o.Streams})
	case "leave":
		_, err = c.srv.api.LeaveConsumerGroup(ctx, &client.LeaveConsumerGroupRequest{GroupId: c.groups[o.G], ConsumerId: o.Cid})
	case "delete":
		_, err = c.srv.api.DeleteStream(ctx, &client.DeleteStreamRequest{Name: o.Stream})
	}
	o.ret = c.clock.Add(1)
	st := status.Convert(err)
	o.code, o.msg = st.Code(), st.Message()
}

func (c *c12cCase) truth(g int) *c12Truth {
	return &c12Truth{Parts: c.parts, Subs: c.subs[g]}
}

func (c *c12cCase) witness(round int, extra map[string]interface{}) map[string]interface{} {
	w := map[string]interface{}{
		"unit": "concurrent", "VERIF_SEED": kit.Seed(), "tier": kit.Tier(), "case": c.id, "case_seed": c.seed,
		"program":            c.programString(),
		"failing_round":      round,
		"rounds_and_answers": append([]string(nil), c.log...),
		"partitions":         fmt.Sprint(c.parts),
	}
	for k, v := range extra {
		w[k] = v
	}
	return w
}

func (c *c12cCase) violation(round int, class, what string, extra map[string]interface{}) {
	c.failed = true
	c.rep.Violation("C12:concurrent:"+class, what, c.witness(round, extra))
}

// setup creates the streams of the case.
func (c *c12cCase) setup() bool {
	for _, s := range c.all {
		ctx, cancel := c.ctx()
		_, err := c.srv.api.CreateStream(ctx, &client.CreateStreamRequest{Subject: s, Name: s, ReplicationFactor: 1, Partitions: c.parts[s]})
		cancel()
		if err != nil {
			c.inconc = true
			c.rep.Inconc(fmt.Sprintf("concurrent case %d: create stream %s: %v", c.id, s, err))
			return false
		}
	}
	return true
}

func (c *c12cCase) teardown() {
	for g := range c.groups {
		for id := range c.subs[g] {
			ctx, cancel := c.ctx()
			c.srv.api.LeaveConsumerGroup(ctx, &client.LeaveConsumerGroupRequest{GroupId: c.groups[g], ConsumerId: id}) // nolint: errcheck
			cancel()
		}
		// members the truth does not know (after a violation)
		if grp := c.srv.metadata.GetConsumerGroup(c.groups[g]); grp != nil {
			for id := range grp.GetMembers() {
				ctx, cancel := c.ctx()
				c.srv.api.LeaveConsumerGroup(ctx, &client.LeaveConsumerGroupRequest{GroupId: c.groups[g], ConsumerId: id}) // nolint: errcheck
				cancel()
			}
		}
	}
	for _, s := range c.all {
		ctx, cancel := c.ctx()
		c.srv.api.DeleteStream(ctx, &client.DeleteStreamRequest{Name: s}) // nolint: errcheck
		cancel()
	}
}

func (c *c12cCase) run() {
	if !c.setup() {
		return
	}
	defer c.teardown()
	for ri, ops := range c.rounds {
		if c.failed || c.inconc {
			return
		}
		start := make(chan struct{})
		var wg sync.WaitGroup
		for _, o := range ops {
			wg.Add(1)
			go func(o *c12cOp) {
				defer wg.Done()
				<-start
				c.do(o)
			}(o)
		}
		close(start)
		wg.Wait()
		c.judgeRound(ri, ops)
	}
}

func (c *c12cCase) judgeRound(ri int, ops []*c12cOp) {
	// the answers
	line := make([]string, 0, len(ops))
	for _, o := range ops {
		line = append(line, fmt.Sprintf("%s -> %s", o, o.code))
		switch o.code {
		case codes.OK, codes.FailedPrecondition, codes.NotFound:
		default:
			c.inconc = true
		}
	}
	c.log = append(c.log, fmt.Sprintf("round %d: %s", ri, strings.Join(line, " || ")))
	if c.inconc {
		c.rep.Inconc(fmt.Sprintf("concurrent case %d round %d: a call ended with an undecided outcome: %s", c.id, ri, strings.Join(line, " || ")))
		return
	}
	// overlap actually observed (logical stamps)
	overlap := false
	for i, a := range ops {
		for _, b := range ops[i+1:] {
			if a.inv < b.ret && b.inv < a.ret {
				overlap = true
			}
		}
	}
	if overlap {
		c.overlapRounds++
	}

	// ground truth from the answers alone
	delOK := map[string]bool{}
	for _, o := range ops {
		if o.Kind == "delete" && o.code == codes.OK {
			if _, exists := c.parts[o.Stream]; !exists {
				c.violation(ri, "delete-accepted-twice", fmt.Sprintf("DeleteStream(%s) was accepted although an earlier deletion of that stream had been accepted", o.Stream), nil)
				return
			}
			if delOK[o.Stream] {
				c.violation(ri, "delete-accepted-twice", fmt.Sprintf("two concurrent DeleteStream(%s) were both accepted", o.Stream), nil)
				return
			}
			delOK[o.Stream] = true
		}
	}
	type key struct {
		g   int
		cid string
	}
	type tally struct {
		nj, nl, j, l int
		streams      []string
	}
	tl := map[key]*tally{}
	var keys []key
	for _, o := range ops {
		if o.Kind == "delete" {
			continue
		}
		k := key{o.G, o.Cid}
		t := tl[k]
		if t == nil {
			t = &tally{}
			tl[k] = t
			keys = append(keys, k)
		}
		if o.Kind == "join" {
			t.nj++
			t.streams = o.Streams
			if o.code == codes.OK {
				t.j++
			}
		} else {
			t.nl++
			if o.code == codes.OK {
				t.l++
			}
		}
	}
	sort.Slice(keys, func(i, j int) bool {
		if keys[i].g != keys[j].g {
			return keys[i].g < keys[j].g
		}
		return keys[i].cid < keys[j].cid
	})
	for _, k := range keys {
		t := tl[k]
		m0 := 0
		if _, ok := c.subs[k.g][k.cid]; ok {
			m0 = 1
		}
		m1 := m0 + t.j - t.l
		fmt.Fprintf(&c.sig, "%d:j%d/%dl%d/%dm%d ", ri, t.j, t.nj, t.l, t.nl, m0)
		if t.nj >= 2 {
			c.rep.Count("rounds_with_duplicate_joins_of_one_consumer_id", 1)
			c.rep.Count("duplicate_joins_refused", int64(t.nj-t.j))
		}
		if t.nj >= 1 && t.nl >= 1 {
			c.rep.Count("rounds_with_join_racing_leave_of_one_consumer_id", 1)
		}
		if t.nj+t.nl >= 2 && t.j+t.l >= 1 {
			c.nontrivial = true
		}
		if m1 > 1 {
			c.violation(ri, "duplicate-join-accepted",
				fmt.Sprintf("group g%d consumer %s: %d of %d concurrent joins and %d of %d leaves were accepted with the consumer %s before the round: no serial order of these requests explains it (a join is accepted only for a non-member), at most %d joins can have been accepted",
					k.g, k.cid, t.j, t.nj, t.l, t.nl, map[int]string{0: "not a member", 1: "a member"}[m0], 1-m0+t.l), nil)
			return
		}
		if m1 < 0 {
			c.violation(ri, "leave-accepted-for-non-member",
				fmt.Sprintf("group g%d consumer %s: %d of %d leaves and %d of %d joins were accepted with the consumer %s before the round: a leave is accepted only for a member",
					k.g, k.cid, t.l, t.nl, t.j, t.nj, map[int]string{0: "not a member", 1: "a member"}[m0]), nil)
			return
		}
		switch {
		case m1 == 0:
			delete(c.subs[k.g], k.cid)
		case t.j > 0:
			set := map[string]bool{}
			for _, s := range t.streams {
				if _, exists := c.parts[s]; !exists {
					c.violation(ri, "join-of-deleted-stream-accepted", fmt.Sprintf("join(g%d,%s,%v) was accepted although the deletion of stream %s had been accepted in an earlier round", k.g, k.cid, t.streams, s), nil)
					return
				}
				set[s] = true
			}
			c.subs[k.g][k.cid] = set
		}
	}
	for s := range delOK {
		delete(c.parts, s)
		for g := range c.subs {
			for _, set := range c.subs[g] {
				delete(set, s)
			}
		}
		c.rep.Count("stream_deletions_accepted", 1)
		for _, o := range ops {
			if o.Kind == "join" {
				for _, js := range o.Streams {
					if js == s {
						c.rep.Count("joins_racing_the_deletion_of_a_stream_they_name_"+o.code.String(), 1)
						c.nontrivial = true
					}
				}
			}
		}
	}

	// quiescence: every call has returned; a barrier makes sure the FSM has
	// applied everything that was committed
	if err := c.srv.getRaft().Barrier(c12cWatchdog).Error(); err != nil {
		c.inconc = true
		c.rep.Inconc(fmt.Sprintf("concurrent case %d round %d: raft barrier: %v", c.id, ri, err))
		return
	}
	for s, n := range c.parts {
		if got := c.srv.metadata.countStreamPartitions(s); got != n {
			c.violation(ri, "partition-count", fmt.Sprintf("server counts %d partitions for stream %s, it was created with %d", got, s, n), nil)
			return
		}
	}
	for g, gid := range c.groups {
		grp := c.srv.metadata.GetConsumerGroup(gid)
		t := c.truth(g)
		if len(t.Subs) == 0 {
			if grp != nil {
				if v := c12Snapshot(grp); len(v.Members) > 0 {
					c.violation(ri, "membership", fmt.Sprintf("group g%d has members %v, the answers say it has none", g, v.memberIDs()), map[string]interface{}{"state": v.String()})
					return
				}
			}
			continue
		}
		if grp == nil {
			c.violation(ri, "membership", fmt.Sprintf("group g%d does not exist, the answers say it has members %v", g, c12Keys(t.Subs)), nil)
			return
		}
		v := c12Snapshot(grp)
		c.rep.Count("oracle_checks", 1)
		finds, shared := c12Check(v, t)
		if len(finds) > 0 {
			c.violation(ri, finds[0].Class, fmt.Sprintf("group g%d after round %d (all calls returned, raft barrier passed): %s", g, ri, finds[0].What),
				map[string]interface{}{"state": v.String(), "truth_from_answers": t.String(), "all_findings": finds})
			return
		}
		if shared >= 2 {
			c.rep.Count("checks_with_a_stream_shared_by_>=2_members", 1)
		}
		// what the server hands out
		for _, id := range v.memberIDs() {
			ctx, cancel := c.ctx()
			resp, err := c.srv.api.FetchConsumerGroupAssignments(ctx, &client.FetchConsumerGroupAssignmentsRequest{GroupId: gid, ConsumerId: id, Epoch: v.Epoch})
			cancel()
			if err != nil {
				c.violation(ri, "not-served", fmt.Sprintf("FetchConsumerGroupAssignments(g%d,%s,current epoch %d): %v", g, id, v.Epoch, err), map[string]interface{}{"state": v.String()})
				return
			}
			norm := map[string][]int32{}
			for _, a := range resp.Assignments {
				cp := append([]int32(nil), a.Partitions...)
				sort.Slice(cp, func(x, y int) bool { return cp[x] < cp[y] })
				norm[a.Stream] = cp
			}
			m := v.Members[id]
			if resp.Epoch != v.Epoch || !c12AssignSubset(norm, m.Assign) || !c12AssignSubset(m.Assign, norm) {
				c.violation(ri, "served-differs", fmt.Sprintf("g%d member %s is served %v epoch %d, state has %v epoch %d", g, id, norm, resp.Epoch, m.Assign, v.Epoch), map[string]interface{}{"state": v.String()})
				return
			}
			c.rep.Count("assignments_served_and_compared", 1)
		}
	}
}

// TestVerifC12Concurrent: concurrent requests through the API of a running server.
func TestVerifC12Concurrent(t *testing.T) {
	rep := kit.NewReport("C12", "concurrent")
	defer rep.Write()
	rep.SetRule("seeded programs of 4..8 rounds on a running single-node server; a round = 1..3 elements issued CONCURRENTLY through apiServer.JoinConsumerGroup / LeaveConsumerGroup / DeleteStream (in-process gRPC handlers -> metadataAPI -> Raft): 2..6 duplicates of one join, single joins, leaves, duplicate leaves, a join racing a leave of the same consumer id, a stream deletion racing 1..4 joins most of which name the stream; 1..2 groups, 2..4 consumer ids, 1..3 streams with 1..7 partitions. After every round (all calls returned + Raft barrier): per (group, id) accepted joins/leaves must fit one serial order (m0+J-L in {0,1}); the membership and subscriptions derived from the ANSWERS are the ground truth for the C12 oracle on the server's group (exactly one current holder per partition of every subscribed stream, nothing outside subscriptions, assignedCount, single-stream balance) and on what FetchConsumerGroupAssignments serves to every member at the current epoch. non-trivial = >=2 requests for one (group, id) in a round with >=1 accepted, or a join racing the deletion of a stream it names; distinct = per-round (accepted/issued joins and leaves, prior membership) strings")
	rep.Assume("consumer and coordinator time-outs are one hour: members do not expire in this unit (expiry is covered on group objects); any answer other than OK / FailedPrecondition / NotFound makes the case inconclusive")
	cl, srv, err := vfSingle("c12c", func(cfg *Config) {
		cfg.Groups.ConsumerTimeout = time.Hour
		cfg.Groups.CoordinatorTimeout = time.Hour
	})
	if err != nil {
		rep.Inconc("server did not start: " + err.Error())
		return
	}
	defer cl.Cleanup()
	n := kit.Scale(64, 640)
	root := kit.NewRNG(kit.Mix(kit.Seed(), 0xC12C))
	seeds := make([]uint64, n)
	for i := range seeds {
		seeds[i] = root.Uint64()
	}
	workers := kit.Workers()
	if workers > 6 {
		workers = 6
	}
	kit.Parallel(n, workers, func(i int) {
		if rep.NumViolations() >= 6 {
			return
		}
		c := &c12cCase{rep: rep, srv: srv, id: i, seed: seeds[i]}
		c.gen(kit.NewRNG(seeds[i]))
		c.run()
		rep.Eval()
		rep.Count("rounds", int64(len(c.rounds)))
		rep.Count("rounds_with_overlapping_calls(logical_stamps)", int64(c.overlapRounds))
		if c.nontrivial && !c.inconc {
			rep.Nontrivial(c.sig.String())
		}
		if i < 2 {
			rep.Sample(map[string]interface{}{"case": i, "program": c.programString(), "answers": c.log})
		}
	})
}
