//go:build verif

package server

// C04 — acknowledgements across a partition leader change.
//
// The other C04 units keep one leader for a whole scenario.  Here the
// leadership moves while acknowledgements are pending or while a follower is
// still acting on the previous leader epoch (the schedules use the gates and
// the controller-decision helper of the C02 harness, c02_gates_test.go):
//
//   A  follower F (ahead of the other follower X, holding an uncommitted tail
//      of the old leader) applies the leader change late; X leads and takes
//      ALL-policy publishes.  An ALL ack may only go out once every replica X
//      counts as in sync holds THAT message at THAT offset — F's progress
//      reports made under the previous epoch must not be credited.
//   B  the leader has ALL-policy messages appended but not committed (both
//      followers held); leadership moves to a follower that lacks them, which
//      takes other messages at the same offsets; leadership then returns to
//      the first server.  No acknowledgement may ever name an offset that
//      holds another message: the acks that were pending when it stepped down
//      died with that term.
//
// Oracle, evaluated at ack receipt on a publisher connection that lives for
// the whole scenario (late acks are seen): a positive ack (tag t, offset o)
//   (1) names an offset that holds t on the current leader,
//   (2) for policy ALL: every running member of the leader's ISR holds t at o
//       (a stalled follower cannot change its log, the others only grow), and
//       the leader's HW covers o,
//   (3) NONE-policy messages are never acked.

import (
	"fmt"
	"os"
	"strings"
	"sync"
	"testing"
	"time"

	client "github.com/liftbridge-io/liftbridge-api/v2/go"

	kit "github.com/liftbridge-io/liftbridge/internal/verifkit"
)

func init() {
	long := func(cfg *Config) {
		cfg.Clustering.ReplicaMaxLagTime = 6 * time.Second
		cfg.Clustering.ReplicaMaxLeaderTimeout = 30 * time.Second // leader changes are the controller's (harness') decision here
	}
	c02FamilyCfg["C04A"] = long
	c02FamilyCfg["C04B"] = long
}

type c04Fo struct {
	e    *c02Env
	rep  *kit.Report
	pub  *c04Pub
	kind string
	mu   sync.Mutex
	bad  bool
	seq  int
	nack int
	// leader changes started by the harness so far, and the count at each
	// message's publish (see onAck (1))
	term   int
	termOf map[string]int
}

func (f *c04Fo) fail(fp, what string) {
	f.mu.Lock()
	f.bad = true
	f.mu.Unlock()
	f.rep.Violation(fp, what, f.e.witness())
}

func (f *c04Fo) onAck(m *c04Msg, a *client.Ack) {
	f.mu.Lock()
	f.nack++
	f.mu.Unlock()
	f.e.logf("ack %s policy=%s err=%s offset=%d", m.Tag, m.Policy, a.AckError, a.Offset)
	if a.AckError != client.Ack_OK {
		return
	}
	if m.Policy == client.AckPolicy_NONE {
		f.fail("C04:failover:none-acked", fmt.Sprintf("message %s with policy NONE was acked", m.Tag))
		return
	}
	ln, lp := c04LeaderNow(f.e.c, f.e.stream)
	if ln == nil {
		f.rep.Count("acks_received_while_nobody_leads_under_the_newest_epoch_not_judged", 1)
		return // nothing to compare with right now (never waited for: the state is read at receipt)
	}
	// (1) the acked offset holds the message on the current leader.  An ALL ack
	// means committed, so this must hold on every later leader too; a LEADER
	// ack only speaks about the leader that sent it and is compared only if no
	// leader change has been started since the publish (checked before and
	// after the read).
	if m.Policy == client.AckPolicy_ALL || f.sameTerm(m.Tag) {
		v, d := c04MemberHolds(lp, m.Tag, a.Offset)
		bad := v == "other" || v == "hole" || (v == "behind" && m.Policy == client.AckPolicy_ALL)
		if bad && (m.Policy == client.AckPolicy_ALL || f.sameTerm(m.Tag)) {
			f.fail("C04:failover:ack-names-offset-holding-another-message:"+f.kind, fmt.Sprintf("positive %s ack for %s names offset %d, but leader %s %s", m.Policy, m.Tag, a.Offset, ln.ID, d))
			return
		}
	}
	if m.Policy != client.AckPolicy_ALL {
		return
	}
	// (2) every running member of the leader's ISR whose log covers the offset
	// holds the message there; a member whose log END is still below the offset
	// is decisive only while it is parked at the fetch gate (see
	// c04_content_test.go: a free-running member may have been admitted
	// between the sending and the receipt of the ack).
	isr := lp.GetISR()
	for _, id := range isr {
		if id == ln.ID {
			continue
		}
		n := f.e.c.Nodes[id]
		if n == nil || !n.IsUp() {
			continue // not running: cannot be read
		}
		frozen := f.frozen(id)
		v, d := c04MemberHolds(n.Partition(f.e.stream, 0), m.Tag, a.Offset)
		f.e.logf("ack %s offset %d: ISR member %s of leader %s: %s %s (parked=%v)", m.Tag, a.Offset, id, ln.ID, v, d, frozen)
		if v == "other" || v == "hole" || (v == "behind" && frozen && f.frozen(id)) {
			f.fail("C04:failover:all-acked-before-isr-stored:"+f.kind, fmt.Sprintf("ALL-policy ack for %s at offset %d received while replica %s, which leader %s counts as in sync (ISR %v), %s", m.Tag, a.Offset, id, ln.ID, isr, d))
			return
		}
		if v == "behind" {
			f.rep.Count("free_running_isr_member_behind_at_ack_receipt_not_judged", 1)
		}
	}
	if hw := lp.log.HighWatermark(); hw < a.Offset {
		f.fail("C04:failover:all-acked-before-commit:"+f.kind, fmt.Sprintf("ALL-policy ack for %s at offset %d received while the leader HW is %d", m.Tag, a.Offset, hw))
	}
}

// frozen: the replica's fetch loop is parked at the follower.beforeFetch gate.
func (f *c04Fo) frozen(id string) bool {
	f.e.mu.Lock()
	defer f.e.mu.Unlock()
	return f.e.gates[id] != nil && f.e.parked[id] > 0
}

// newTerm is called before the harness starts a leader change.
func (f *c04Fo) newTerm() {
	f.mu.Lock()
	f.term++
	f.mu.Unlock()
}

func (f *c04Fo) sameTerm(tag string) bool {
	f.mu.Lock()
	defer f.mu.Unlock()
	return f.termOf[tag] == f.term
}

func (f *c04Fo) publish(prefix string, n int, pol client.AckPolicy) []*c04Msg {
	f.e.step("publish(%s,%d,%s)", prefix, n, pol)
	var out []*c04Msg
	for i := 0; i < n; i++ {
		f.seq++
		m := &c04Msg{Tag: fmt.Sprintf("%s%s-%d-m%03d", prefix, f.kind, f.e.seed%1000, f.seq), Policy: pol, Expect: -1}
		f.mu.Lock()
		if f.termOf == nil {
			f.termOf = map[string]int{}
		}
		f.termOf[m.Tag] = f.term
		f.mu.Unlock()
		f.pub.send(f.e.stream, f.e.subject, m, c04Value(m.Tag, 40))
		out = append(out, m)
	}
	f.pub.nc.Flush()
	return out
}

func (f *c04Fo) roles(rng *kit.RNG) (l *vfNode, a, b string, ok bool) {
	l = f.e.leader()
	if l == nil {
		return nil, "", "", false
	}
	fol := c02Others(f.e.c, l.ID)
	a, b = fol[0], fol[1]
	if rng.Bool() {
		a, b = b, a
	}
	return l, a, b, true
}

// scenario A: late follower's stale-epoch reports.
func c04FoA(f *c04Fo, rng *kit.RNG) bool {
	e := f.e
	l, fl, x, ok := f.roles(rng)
	if !ok {
		return false
	}
	if ml, err := e.c.MetaLeader(20 * time.Second); err == nil && ml.config.Clustering.ServerID == fl {
		fl, x = x, fl // the stalled server must not be the metadata leader
	}
	if !f.pub.waitAcked(f.publish("base-", rng.Range(2, 3), client.AckPolicy_ALL), 30*time.Second) {
		e.inconclusive("initial publishes not acked")
		return false
	}
	lp := l.Partition(e.stream, 0)
	_, epoch := lp.GetLeader()
	e.hold(x)
	if !e.waitParked(x) {
		e.inconclusive("follower " + x + " did not park")
		return false
	}
	tail := f.publish("tail-", rng.Range(2, 3), client.AckPolicy_LEADER)
	if !f.pub.waitAcked(tail, 15*time.Second) {
		e.inconclusive("tail not written")
		return false
	}
	target := lp.log.NewestOffset()
	fp := e.c.Nodes[fl].Partition(e.stream, 0)
	if !vfWait(10*time.Second, func() bool { return fp.log.NewestOffset() >= target }) {
		e.inconclusive("follower " + fl + " did not fetch the tail")
		return false
	}
	ag := e.holdApply(fl, epoch)
	if lp.ISRSize() != 3 {
		e.inconclusive("ISR shrank too early")
		return false
	}
	e.pauseReplication(l.ID)
	f.newTerm()
	if !e.changeLeader(x) || !e.waitLeads(x) {
		return false
	}
	if xp := e.c.Nodes[x].Partition(e.stream, 0); xp == nil || xp.ISRSize() != 3 {
		e.inconclusive("ISR shrank before the leader change was committed")
		return false
	}
	e.release(x)
	e.unpause(l.ID)
	select {
	case <-ag.caught:
	case <-time.After(20 * time.Second):
		e.inconclusive(fl + " never started applying the leader change")
		return false
	}
	// ALL publishes at X while F still reports under the old epoch.  With F
	// (rightly) not credited they are acked once F has been removed for
	// lagging; either way the oracle judges each ack when it arrives.
	after := f.publish("new-", rng.Range(2, 3), client.AckPolicy_ALL)
	f.publish("newN-", 1, client.AckPolicy_NONE)
	f.pub.waitAcked(after, 25*time.Second)
	e.mu.Lock()
	stale := e.staleFetches
	e.mu.Unlock()
	e.step("stale-epoch fetches sent by %s while %s led: %d", fl, x, stale)
	e.releaseApply(fl)
	fin := f.publish("fin-", 2, client.AckPolicy_ALL)
	if !f.pub.waitAcked(fin, 40*time.Second) {
		e.inconclusive("final publishes not acked")
		return false
	}
	f.rep.Count("A_stale_epoch_fetches_sent_while_the_new_leader_led", int64(stale))
	return stale > 0
}

// scenario B: leadership round trip with acks pending.
func c04FoB(f *c04Fo, rng *kit.RNG) bool {
	e := f.e
	l, x, y, ok := f.roles(rng)
	if !ok {
		return false
	}
	if !f.pub.waitAcked(f.publish("base-", rng.Range(2, 3), client.AckPolicy_ALL), 30*time.Second) {
		e.inconclusive("initial publishes not acked")
		return false
	}
	e.settle("c04b-initial")
	lp := l.Partition(e.stream, 0)
	e.hold(x)
	e.hold(y)
	if !e.waitParked(x) || !e.waitParked(y) {
		e.inconclusive("followers did not park")
		return false
	}
	pend := f.publish("pend-", rng.Range(2, 3), client.AckPolicy_ALL)
	kick := f.publish("pendL-", 1, client.AckPolicy_LEADER)
	if !f.pub.waitAcked(kick, 15*time.Second) {
		e.inconclusive("leader did not append")
		return false
	}
	if lp.ISRSize() != 3 {
		e.inconclusive("ISR shrank before the leader change")
		return false
	}
	pendEnd := lp.log.NewestOffset()
	// leadership moves to x, which lacks the pending messages
	f.newTerm()
	if !e.changeLeader(x) || !e.waitLeads(x) || !e.waitFollows(l.ID, x) {
		return false
	}
	if xp := e.c.Nodes[x].Partition(e.stream, 0); xp == nil || xp.ISRSize() != 3 {
		e.inconclusive("ISR shrank before the leader change was committed")
		return false
	}
	e.release(x)
	e.release(y)
	other := f.publish("other-", len(pend)+2, client.AckPolicy_ALL)
	if !f.pub.waitAcked(other, 40*time.Second) {
		e.inconclusive("publishes at the second leader not acked")
		return false
	}
	e.settle("c04b-second-leader")
	// ... and back
	f.newTerm()
	if !e.changeLeader(l.ID) || !e.waitLeads(l.ID) {
		return false
	}
	back := f.publish("back-", 2, client.AckPolicy_ALL)
	if !f.pub.waitAcked(back, 40*time.Second) {
		e.inconclusive("publishes after the leadership returned not acked")
		return false
	}
	e.settle("c04b-back")
	// give late acks of the first term a chance to show (they are judged by
	// onAck whenever they arrive; this wait only bounds the observation)
	vfWait(1500*time.Millisecond, func() bool { f.mu.Lock(); defer f.mu.Unlock(); return f.bad })
	acked := 0
	for _, m := range pend {
		if len(f.pub.acks(m)) > 0 {
			acked++
		}
	}
	f.rep.Count("B_pending_messages_of_the_first_term", int64(len(pend)))
	f.rep.Count("B_pending_messages_acked_later", int64(acked))
	e.step("first-term pending ALL messages: %d (log end then %d), acked later: %d", len(pend), pendEnd, acked)
	return true
}

func TestVerifC04Failover(t *testing.T) {
	rep := kit.NewReport("C04", "failover")
	defer rep.Write()
	rep.SetRule("3-server clusters, RF=3, leadership moved by committed CHANGE_LEADER operations while acknowledgements are in play: (A) a follower that is ahead of the new leader applies the leader change late (partition.setLeader gate) and keeps sending fetches under the previous epoch while the new leader takes ALL-policy publishes; (B) the leader steps down with ALL-policy messages appended but uncommitted (both followers held), another replica leads and stores other messages at those offsets, then the first server leads again; oracle at ack receipt on a publisher connection that lives for the whole scenario: a positive ack names an offset holding that message on the leader, an ALL ack additionally requires every running ISR member to hold the message at that offset and the HW to cover it, NONE is never acked; non-trivial = scenario reached its decisive phase (A: stale-epoch fetches were sent while the new leader led; B: the round trip completed); distinct = kind + seed")
	root := kit.NewRNG(kit.Mix(kit.Seed(), 0xC04F))
	n := kit.Scale(4, 16)
	for i := 0; i < n && rep.NumViolations() < 3; i++ {
		kind := []string{"A", "B"}[i%2]
		seed := root.Uint64()
		e, err := c02NewEnv(rep, "C04"+kind, seed)
		if err != nil {
			rep.Inconc(fmt.Sprintf("cluster start failed: %v", err))
			continue
		}
		e.quietOracle = true
		f := &c04Fo{e: e, rep: rep, kind: kind}
		pub, err := c04NewPub(e.c.URL, f.onAck)
		if err != nil {
			rep.Inconc("publisher: " + err.Error())
			e.close()
			continue
		}
		f.pub = pub
		rng := kit.NewRNG(seed)
		var reached bool
		if kind == "A" {
			reached = c04FoA(f, rng)
		} else {
			reached = c04FoB(f, rng)
		}
		// quiescence (c04_content_test.go): every member of the final ISR holds
		// every ALL-acked message at its acked offset
		e.mu.Lock()
		finished, lossy := !e.inconc, len(e.fallbackLoss) > 0
		e.mu.Unlock()
		if finished && !lossy {
			if qn, isr, ok := c04Quiescent(e.c, e.stream, 0, 30*time.Second); ok {
				rep.Count("quiescent_member_ack_pairs_compared", int64(c04JudgeQuiescent(e.c, e.stream, qn, isr, c04PositiveAllAcks(pub), f.fail)))
			} else {
				rep.Count("quiescence_not_reached", 1)
			}
		}
		rep.Eval()
		e.mu.Lock()
		complete := !e.inconc
		steps := append([]string(nil), e.steps...)
		e.mu.Unlock()
		f.mu.Lock()
		rep.Count("acks_judged", int64(f.nack))
		f.mu.Unlock()
		if complete && reached {
			rep.Nontrivial(fmt.Sprintf("%s/%d", kind, seed))
		}
		rep.Sample(map[string]any{"kind": kind, "seed": seed, "steps": strings.Join(steps, " > ")})
		if os.Getenv("VERIF_C04_TRACE") != "" {
			e.mu.Lock()
			fmt.Fprintf(os.Stderr, "---- trace of failover scenario %s seed %d\n%s\n----\n", kind, seed, strings.Join(e.trace, "\n"))
			e.mu.Unlock()
		}
		pub.close()
		e.close()
	}
}
