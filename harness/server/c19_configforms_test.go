//go:build verif

package server

// C19 — telemetry can be switched off, whatever FORM the configuration source
// handed to the real entry point has (real binary part).
//
// The other binary units always give the binary either no --config at all or a
// well-formed file that carries the whole configuration.  Deployments do not:
// container images and init scripts pass a fixed --config path whether or not a
// file is mounted there, mounts come up empty, as a directory, unreadable for
// the service account, with a handful of unrelated keys, through a symlink,
// with a typo.  Here the binary gets everything it needs through FLAGS and
// --config points at every such form, crossed with every documented way of
// opting out that can be expressed next to that form (the environment variable
// in the documented and in other spellings; the config key, nested or dotted,
// where the form has content; both).
//
// Oracle (from the property only): telemetry is switched off through a
// documented route, so over the whole life of the process — whether the binary
// serves or refuses to start — the strace connect() trace holds no outbound
// attempt, the HTTPS_PROXY listener sees nothing and no .instance_id file
// appears.  A refusal to start is fine; a start that reports is the violation.
// Positive controls (telemetry on) with the same observers establish that an
// attempt / the id file would have been seen.

import (
	"bytes"
	"context"
	"fmt"
	"io/fs"
	"os"
	"os/exec"
	"path/filepath"
	"regexp"
	"sort"
	"strconv"
	"strings"
	"sync"
	"syscall"
	"testing"
	"time"

	client "github.com/liftbridge-io/liftbridge-api/v2/go"
	"google.golang.org/grpc"
	"google.golang.org/grpc/credentials/insecure"

	kit "github.com/liftbridge-io/liftbridge/internal/verifkit"
)

// c19cfForm is one form of the configuration source.  Kind is the class that a
// fingerprint names (one defect -> one fingerprint per class and route).
type c19cfForm struct {
	Name    string
	Kind    string // none | absent | not-a-file | unreadable | empty | unrelated-keys | malformed
	Content bool   // the form is a file whose text the harness writes: the config key can be put into it
	Uid     bool   // must run under an unprivileged uid (root ignores file modes)
}

var c19cfForms = []c19cfForm{
	{"no-config-flag", "none", false, false},
	{"empty-argument", "none", false, false},
	{"missing-file", "absent", false, false},
	{"missing-parent-directory", "absent", false, false},
	{"dangling-symlink", "absent", false, false},
	{"directory", "not-a-file", false, false},
	{"path-below-a-regular-file", "not-a-file", false, false},
	{"symlink-loop", "not-a-file", false, false},
	{"file-mode-000", "unreadable", true, true},
	{"file-in-directory-mode-000", "unreadable", true, true},
	{"zero-bytes", "empty", true, false},
	{"comments-only", "empty", true, false},
	{"document-marker-only", "empty", true, false},
	{"few-unrelated-keys", "unrelated-keys", true, false},
	{"whole-configuration-but-telemetry", "unrelated-keys", true, false},
	{"symlink-to-file", "unrelated-keys", true, false},
	{"relative-path-short-flag-no-yaml-extension", "unrelated-keys", true, false},
	{"invalid-yaml", "malformed", false, false},
	{"misspelled-section", "malformed", false, false},
}

type c19cfCase struct {
	Form    c19cfForm
	Route   string // env-var | config-key | both | control
	Expect  string // zero | some
	Proxy   bool
	EnvSp   c19Spelling
	FileSp  c19Spelling
	Dotted  bool
	AsNobdy bool
}

type c19cfResult struct {
	cs        c19cfCase
	outcome   string // served | refused
	exit      string
	attempts  []c19Connect
	proxy     []string
	idFiles   []string
	telemetry []string
	replay    map[string]any
}

var c19cfReExit = regexp.MustCompile(`\+\+\+ (exited with \d+|killed by \w+)`)

// c19cfLastExit: how the traced process ended according to the trace ("" when
// the trace does not say, i.e. is incomplete).
func c19cfLastExit(trace string) string {
	b, err := os.ReadFile(trace)
	if err != nil {
		return ""
	}
	m := c19cfReExit.FindAllStringSubmatch(string(b), -1)
	if len(m) == 0 {
		return ""
	}
	return m[len(m)-1][1]
}

func c19cfIDFiles(root string) []string {
	var out []string
	filepath.WalkDir(root, func(p string, d fs.DirEntry, err error) error {
		if err == nil && d.Name() == ".instance_id" {
			if rel, e := filepath.Rel(root, p); e == nil {
				out = append(out, rel)
			} else {
				out = append(out, p)
			}
		}
		return nil
	})
	return out
}

func TestVerifC19ConfigForms(t *testing.T) {
	rep := kit.NewReport("C19", "configforms")
	defer rep.Write()
	rep.SetRule("the real liftbridge binary (go build of $VERIF_REPO's main package) under `strace -f -e trace=connect`; NATS servers, port, data directory, ids come through FLAGS, and --config is given in every FORM a deployment produces: no --config, --config \"\"; a path at which nothing exists (missing file, missing parent directory, dangling symlink); something that is not a file (directory, path below a regular file, symlink loop); a file the process may not read (mode 000, or inside a directory of mode 000; the binary then runs under uid nobody); an empty file (0 bytes, comments only, `---` only); a file with unrelated keys only (a few; the whole configuration except telemetry; through a symlink; relative path with -c and no .yaml extension); a malformed file (invalid YAML; a misspelled section).  Every form is crossed with every opt-out route that can stand next to it: LIFTBRIDGE_TELEMETRY_ENABLED=false (documented spelling) and =<another spelling of off, seeded rotation over classes>; where the harness writes the file's text also telemetry.enabled: <off> in that text (nested / dotted alternating) and key + variable together.  Positive controls with telemetry on (no --config with and without proxy; an empty file under uid nobody) use the same observers.  A case ends when the binary has exited by itself (refusal) or has served gRPC (stream, publishes) and exited 0 after SIGINT.  Oracle over the complete life of an opt-out case: no connect() except unix sockets and loopback connections other than DNS / the proxy, the HTTPS_PROXY listener saw nothing, and no .instance_id file exists below the case directory.  non-trivial = the trace is complete (exit line; NATS connect for a served case); distinct = form x route x outcome x spelling class x proxy")
	rep.Assume("a refusal to start is always acceptable for an unusable configuration source; what is judged is only that a process that was told to keep telemetry off never contacts the endpoint and creates no instance-id file, whether it serves or not")
	rep.Assume("an opt-out written into a file the process is not allowed to read counts as an opt-out: a tree that starts without reading that file and reports is reported (route config-key, class unreadable)")
	rep.Assume("the sandbox has no network: an attempt shows as the resolver's connect() to port 53 or as a connect() to the HTTPS_PROXY listener; liveness of both observers and of the .instance_id observer comes from the positive controls of this unit")
	work := os.Getenv("VERIF_WORK")
	if work == "" {
		work = os.TempDir()
	}
	dir, err := os.MkdirTemp(work, "c19-cf-")
	if err != nil {
		rep.Inconc(err.Error())
		return
	}
	defer os.RemoveAll(dir)
	os.Chmod(dir, 0755)
	repo := os.Getenv("VERIF_REPO")
	if repo == "" {
		repo = "/repo"
	}
	bin := filepath.Join(dir, "liftbridge-c19cf")
	bcmd := exec.Command("go", "build", "-o", bin, ".")
	bcmd.Dir = repo
	bcmd.Env = append(c19CleanEnvKeepGo(), "GOFLAGS=-mod=mod", "GOPROXY=off")
	if out, err := bcmd.CombinedOutput(); err != nil {
		rep.Eval()
		rep.Inconc(fmt.Sprintf("cannot build the liftbridge binary: %v: %s", err, c19Tail(string(out), 600)))
		return
	}
	if real, err := filepath.EvalSymlinks(bin); err == nil {
		bin = real
	}
	strace, err := exec.LookPath("strace")
	if err == nil {
		probe := filepath.Join(dir, "probe.trace")
		if e := exec.Command(strace, "-f", "-e", "trace=connect", "-o", probe, "/bin/true").Run(); e != nil {
			err = fmt.Errorf("strace cannot trace here: %v", e)
		}
	}
	if err != nil {
		rep.Eval()
		rep.Inconc("strace not usable: " + err.Error())
		return
	}
	// can the binary be traced under an unprivileged uid from here?
	nobody := &syscall.Credential{Uid: 65534, Gid: 65534}
	uidOK := false
	if os.Geteuid() == 0 {
		pdir := filepath.Join(dir, "uidprobe")
		os.MkdirAll(pdir, 0777)
		os.Chmod(pdir, 0777)
		secret := filepath.Join(pdir, "secret")
		os.WriteFile(secret, []byte("x"), 0)
		os.Chmod(secret, 0)
		pc := exec.Command(strace, "-f", "-e", "trace=connect", "-o", filepath.Join(pdir, "t"), bin, "--version")
		pc.SysProcAttr = &syscall.SysProcAttr{Credential: nobody}
		pc.Dir = pdir
		e1 := pc.Run()
		cat := exec.Command("/bin/cat", secret)
		cat.SysProcAttr = &syscall.SysProcAttr{Credential: nobody}
		e2 := cat.Run()
		uidOK = e1 == nil && e2 != nil // runs, and mode 000 really keeps it out
		rep.SetInfo("unprivileged_uid_probe", fmt.Sprintf("binary under strace as uid 65534: %v; cat of a mode-000 file as uid 65534: %v", e1, e2))
	}
	if !uidOK {
		rep.Inconc("the binary cannot be run under an unprivileged uid here: the unreadable-file forms are not explored")
	}

	// ---- the case list (fixed by the seed)
	base := kit.Mix(kit.Seed(), 0xC19CF)
	envRot := c19SpellingRotation(kit.NewRNG(kit.Mix(base, 0xE7)), c19EnvSpellings)
	fileRot := c19SpellingRotation(kit.NewRNG(kit.Mix(base, 0xF11E)), c19FileSpellings)
	formByName := func(name string) c19cfForm {
		for _, f := range c19cfForms {
			if f.Name == name {
				return f
			}
		}
		panic(name)
	}
	cases := []c19cfCase{
		{Form: formByName("no-config-flag"), Route: "control", Expect: "some", Proxy: true},
		{Form: formByName("no-config-flag"), Route: "control", Expect: "some", Proxy: false},
		{Form: formByName("zero-bytes"), Route: "control", Expect: "some", Proxy: true, AsNobdy: uidOK},
	}
	ei, fi, cf := 0, 0, 0
	nextEnv := func() c19Spelling { sp := envRot[ei%len(envRot)]; ei++; return sp }
	nextFile := func() c19Spelling { sp := fileRot[fi%len(fileRot)]; fi++; return sp }
	k := int(kit.Seed() % 3)
	for _, f := range c19cfForms {
		if f.Uid && !uidOK {
			continue
		}
		add := func(c c19cfCase) {
			c.Form, c.Expect, c.AsNobdy = f, "zero", f.Uid
			k++
			c.Proxy = k%3 != 0 // two thirds behind the proxy listener, one third on the resolver
			cases = append(cases, c)
		}
		add(c19cfCase{Route: "env-var", EnvSp: c19Documented})
		if !f.Content || kit.Thorough() {
			add(c19cfCase{Route: "env-var", EnvSp: nextEnv()})
		}
		if f.Content {
			// documented spelling in the file for every second form with text,
			// another spelling otherwise; nested / dotted alternate
			fsp := c19Documented
			if cf%2 == 1 {
				fsp = nextFile()
			}
			add(c19cfCase{Route: "config-key", FileSp: fsp, Dotted: cf%2 == 1})
			add(c19cfCase{Route: "both", EnvSp: nextEnv(), FileSp: c19Documented, Dotted: cf%2 == 0})
			cf++
		}
	}

	var mu sync.Mutex
	var results []c19cfResult
	kit.Parallel(len(cases), kit.EnvInt("C19_CONFIGFORMS_WORKERS", 6), func(idx int) {
		cs := cases[idx]
		rng := kit.NewRNG(kit.Mix(base, uint64(idx)+1))
		n := c19NewNeedles(rng)
		rep.Eval()
		tag := fmt.Sprintf("case%02d(%s/%s)", idx, cs.Form.Name, cs.Route)
		cdir := filepath.Join(dir, fmt.Sprintf("case%02d", idx))
		os.MkdirAll(cdir, 0777)
		os.Chmod(cdir, 0777) // the binary may run as uid nobody and creates its data directory here
		defer func() {
			filepath.WalkDir(cdir, func(p string, d fs.DirEntry, err error) error {
				if err == nil && d.IsDir() {
					os.Chmod(p, 0755)
				}
				return nil
			})
			os.RemoveAll(cdir)
		}()
		ns, natsURL, natsPort := c19StartNATS(n.NATSUser, n.NATSPass)
		defer ns.Shutdown()
		var proxy *c19Proxy
		proxyPort := 0
		env := []string{}
		if cs.Proxy {
			p, err := c19NewProxy()
			if err != nil {
				rep.Inconc("proxy listener: " + err.Error())
				return
			}
			proxy = p
			defer proxy.Close()
			proxyPort = proxy.Port()
			pu := fmt.Sprintf("http://127.0.0.1:%d", proxyPort)
			env = append(env, "HTTPS_PROXY="+pu, "https_proxy="+pu, "HTTP_PROXY="+pu, "http_proxy="+pu)
		}
		port, err := c19FreePort(rng)
		if err != nil {
			rep.Inconc(err.Error())
			return
		}
		dataDir := filepath.Join(cdir, n.DirName)
		flags := []string{"--nats-servers", strings.Replace(natsURL, "nats://", fmt.Sprintf("nats://%s:%s@", n.NATSUser, n.NATSPass), 1),
			"--port", strconv.Itoa(port), "--data-dir", dataDir, "--raft-bootstrap-seed", "--id", n.ServerID, "--namespace", n.Namespace, "--level", "info"}

		// ---- the opt-out
		key := ""
		if cs.Route == "config-key" || cs.Route == "both" {
			if cs.Dotted {
				key = "telemetry.enabled: " + cs.FileSp.Text + "\n"
			} else {
				key = "telemetry:\n  enabled: " + cs.FileSp.Text + "\n"
			}
		}
		if cs.Route == "env-var" || cs.Route == "both" {
			env = append(env, c19EnvVar+"="+cs.EnvSp.Text)
		}
		// ---- the form
		file := filepath.Join(cdir, "liftbridge.yaml")
		var cfgArgs []string
		text, hasText := "", false
		write := func(path, s string) {
			text, hasText = s, true
			os.WriteFile(path, []byte(s), 0644)
		}
		switch cs.Form.Name {
		case "no-config-flag":
		case "empty-argument":
			cfgArgs = []string{"--config", ""}
		case "missing-file":
			cfgArgs = []string{"--config", file}
		case "missing-parent-directory":
			cfgArgs = []string{"--config", filepath.Join(cdir, "etc", "liftbridge", "liftbridge.yaml")}
		case "dangling-symlink":
			os.Symlink(filepath.Join(cdir, "not-mounted.yaml"), file)
			cfgArgs = []string{"--config", file}
		case "directory":
			os.MkdirAll(file, 0755)
			cfgArgs = []string{"--config=" + file}
		case "path-below-a-regular-file":
			os.WriteFile(filepath.Join(cdir, "etc"), []byte("logging:\n  level: info\n"), 0644)
			cfgArgs = []string{"--config", filepath.Join(cdir, "etc", "liftbridge.yaml")}
		case "symlink-loop":
			os.Symlink(file, filepath.Join(cdir, "b.yaml"))
			os.Symlink(filepath.Join(cdir, "b.yaml"), file)
			cfgArgs = []string{"--config", file}
		case "file-mode-000":
			write(file, "logging:\n  level: info\n"+key)
			os.Chmod(file, 0)
			cfgArgs = []string{"--config", file}
		case "file-in-directory-mode-000":
			sub := filepath.Join(cdir, "secrets")
			os.MkdirAll(sub, 0755)
			file = filepath.Join(sub, "liftbridge.yaml")
			write(file, "logging:\n  level: info\n"+key)
			os.Chmod(sub, 0)
			cfgArgs = []string{"--config", file}
		case "zero-bytes":
			write(file, key)
			cfgArgs = []string{"--config", file}
		case "comments-only":
			write(file, "# liftbridge configuration\n#\n# listen: 0.0.0.0:9292\n\n"+key)
			cfgArgs = []string{"--config=" + file}
		case "document-marker-only":
			write(file, "---\n"+key)
			cfgArgs = []string{"-c", file}
		case "few-unrelated-keys":
			write(file, "logging:\n  level: info\n  recovery: true\nbatch.max.messages: 64\nstreams:\n  retention.max.age: 1h\n"+key)
			cfgArgs = []string{"--config", file}
		case "whole-configuration-but-telemetry":
			y := strings.Replace(c19Yaml(n, natsURL, dataDir, key), "listen: 127.0.0.1:0", fmt.Sprintf("listen: 127.0.0.1:%d", port), 1)
			y = strings.Replace(y, "port: 0", fmt.Sprintf("port: %d", port), 1)
			write(file, y)
			cfgArgs = []string{"--config", file}
		case "symlink-to-file":
			target := filepath.Join(cdir, "..data-mounted.yaml")
			write(target, "logging:\n  level: info\n"+key)
			os.Symlink(target, file)
			cfgArgs = []string{"--config", file}
		case "relative-path-short-flag-no-yaml-extension":
			write(filepath.Join(cdir, "liftbridge.conf"), "logging.level: info\nbatch.max.time: 10ms\n"+key)
			cfgArgs = []string{"-c", "liftbridge.conf"}
		case "invalid-yaml":
			write(file, "logging:\n  level: info\n\tstreams: [unclosed\n: :\n")
			cfgArgs = []string{"--config", file}
		case "misspelled-section":
			write(file, "logging:\n  level: info\ntelemtry:\n  enabled: false\n")
			cfgArgs = []string{"--config", file}
		}
		args := append(append([]string(nil), cfgArgs...), flags...)
		replay := map[string]any{"seed": kit.Seed(), "case": idx, "form": cs.Form.Name, "form_class": cs.Form.Kind, "route": cs.Route, "proxy": cs.Proxy,
			"args": args, "env": env, "run_as_uid_nobody": cs.AsNobdy}
		if hasText {
			replay["config_file_text"] = text
		}
		if cs.Expect == "zero" {
			if cs.Route != "config-key" {
				replay["optout_spelling_env"] = cs.EnvSp
			}
			if key != "" {
				replay["optout_spelling_file"] = cs.FileSp
			}
		}

		// ---- one life of the binary
		trace := filepath.Join(cdir, "trace.txt")
		outPath := filepath.Join(cdir, "out.txt")
		outf, err := os.OpenFile(outPath, os.O_CREATE|os.O_WRONLY|os.O_TRUNC, 0644)
		if err != nil {
			rep.Inconc(err.Error())
			return
		}
		defer outf.Close()
		cmd := exec.Command(strace, append([]string{"-f", "-e", "trace=connect", "-o", trace, bin}, args...)...)
		cmd.Env = c19CleanEnv(env...)
		cmd.Dir = cdir
		cmd.Stdout, cmd.Stderr = outf, outf
		cmd.SysProcAttr = &syscall.SysProcAttr{Setpgid: true}
		if cs.AsNobdy {
			cmd.SysProcAttr.Credential = nobody
		}
		if err := cmd.Start(); err != nil {
			rep.Inconc(tag + ": cannot start strace: " + err.Error())
			return
		}
		waitCh := make(chan error, 1)
		go func() { waitCh <- cmd.Wait() }()
		kill := func() {
			syscall.Kill(-cmd.Process.Pid, syscall.SIGKILL)
			<-waitCh
		}
		exited := func() bool {
			select {
			case err := <-waitCh:
				waitCh <- err
				return true
			default:
				return false
			}
		}
		tail := func() string {
			b, _ := os.ReadFile(outPath)
			return c19Tail(string(b), 500)
		}
		conn, err := grpc.NewClient(fmt.Sprintf("127.0.0.1:%d", port), grpc.WithTransportCredentials(insecure.NewCredentials()))
		if err != nil {
			kill()
			rep.Inconc("grpc client: " + err.Error())
			return
		}
		defer conn.Close()
		api := client.NewAPIClient(conn)
		created := false
		up := vfWait(90*time.Second, func() bool {
			if exited() {
				return true
			}
			ctx, cancel := context.WithTimeout(context.Background(), 3*time.Second)
			defer cancel()
			_, err := api.CreateStream(ctx, &client.CreateStreamRequest{Name: n.Stream, Subject: n.Subject, ReplicationFactor: 1})
			if err == nil || strings.Contains(err.Error(), "already exists") {
				created = true
				return true
			}
			return false
		})
		if !up {
			kill()
			rep.Inconc(fmt.Sprintf("%s: watchdog: the binary neither exited nor served gRPC: %s", tag, tail()))
			return
		}
		outcome := "refused"
		if created {
			outcome = "served"
			for i := 0; i < 3; i++ {
				ctx, cancel := context.WithTimeout(context.Background(), 10*time.Second)
				api.Publish(ctx, &client.PublishRequest{Stream: n.Stream, Key: []byte(n.MsgKey), Value: []byte(n.MsgValue), AckPolicy: client.AckPolicy_LEADER})
				cancel()
			}
			if cs.Expect == "some" {
				// positive control: the attempt has been made and the id persisted
				// (logical condition; the watchdog only bounds the wait)
				vfWait(20*time.Second, func() bool {
					if len(c19cfIDFiles(cdir)) == 0 {
						return false
					}
					if proxy != nil && len(proxy.Lines()) > 0 {
						return true
					}
					conns, _, _ := c19ParseTrace(trace, natsPort, proxyPort)
					for _, c := range conns {
						if c19IsAttempt(c.Class) {
							return true
						}
					}
					return false
				})
			}
			tracee := 0
			if !vfWait(20*time.Second, func() bool { tracee = c19ChildOf(cmd.Process.Pid, bin); return tracee != 0 || exited() }) || tracee == 0 {
				kill()
				rep.Inconc(tag + ": traced process not found: " + tail())
				return
			}
			syscall.Kill(tracee, syscall.SIGINT)
			select {
			case <-waitCh:
			case <-time.After(60 * time.Second):
				kill()
				rep.Inconc(tag + ": watchdog: binary did not exit within 60 s after SIGINT: " + tail())
				return
			}
		}
		exit := c19cfLastExit(trace)
		if exit == "" {
			rep.Inconc(fmt.Sprintf("%s: the trace does not show how the process ended — trace incomplete: %s", tag, tail()))
			return
		}
		conns, _, err := c19ParseTrace(trace, natsPort, proxyPort)
		if err != nil {
			rep.Inconc(tag + ": trace unreadable: " + err.Error())
			return
		}
		res := c19cfResult{cs: cs, outcome: outcome, exit: exit, replay: replay}
		classes := map[string]int{}
		wantProxy := 0
		for _, c := range conns {
			classes[c.Class]++
			rep.Count("connect_"+c.Class, 1)
			if c.Class == "proxy" {
				wantProxy++
			}
			if c19IsAttempt(c.Class) && len(res.attempts) < 10 {
				res.attempts = append(res.attempts, c)
			}
		}
		if outcome == "served" {
			if exit != "exited with 0" {
				rep.Inconc(fmt.Sprintf("%s: binary served but ended %q after SIGINT: %s", tag, exit, tail()))
				return
			}
			if classes["nats"] == 0 {
				rep.Inconc(tag + ": trace shows no connect() to the NATS server — trace incomplete")
				return
			}
		}
		if proxy != nil {
			// every proxy connect() of the trace has been turned into a line
			vfWait(10*time.Second, func() bool { return len(proxy.Lines()) >= wantProxy })
			res.proxy = proxy.Lines()
			rep.Count("proxy_connections", int64(len(res.proxy)))
		}
		res.idFiles = c19cfIDFiles(cdir)
		if ob, err := os.ReadFile(outPath); err == nil {
			for _, l := range bytes.Split(ob, []byte("\n")) {
				if bytes.Contains(bytes.ToLower(l), []byte("telemetry")) && len(res.telemetry) < 6 {
					res.telemetry = append(res.telemetry, string(l))
				}
			}
			if outcome == "refused" {
				replay["binary_said"] = c19Tail(strings.TrimSpace(string(ob)), 300)
			}
		}
		replay["outcome"] = outcome
		replay["process_end"] = exit
		replay["connect_classes"] = classes
		replay["binary_log_lines_about_telemetry"] = res.telemetry
		replay["instance_id_files"] = res.idFiles
		mu.Lock()
		results = append(results, res)
		mu.Unlock()
		rep.Count("lives_"+outcome, 1)
		if cs.Expect == "zero" {
			rep.Count("optout_lives/"+cs.Form.Kind+"/"+outcome, 1)
			rep.Count("optout_lives_route/"+cs.Route, 1)
		}
		spc := cs.EnvSp.Class
		if cs.Route == "config-key" {
			spc = cs.FileSp.Class
		}
		rep.Nontrivial(fmt.Sprintf("%s|%s|%s|spelling=%s|proxy=%v", cs.Form.Name, cs.Route, outcome, spc, cs.Proxy))
	})

	// ---- verdict: observers' liveness first
	sort.SliceStable(results, func(i, j int) bool { return results[i].replay["case"].(int) < results[j].replay["case"].(int) })
	dnsSeen, proxySeen, idSeen := false, false, false
	for _, r := range results {
		if r.cs.Expect != "some" {
			continue
		}
		if r.outcome != "served" {
			rep.Inconc(fmt.Sprintf("positive control (%s) did not serve: %v", r.cs.Form.Name, r.replay["binary_said"]))
			continue
		}
		if len(r.idFiles) > 0 {
			idSeen = true
		}
		if !r.cs.Proxy && len(r.attempts) > 0 {
			dnsSeen = true
		}
		if r.cs.Proxy && (len(r.proxy) > 0 || len(r.attempts) > 0) {
			proxySeen = true
			for _, l := range r.proxy {
				if !strings.Contains(l, kit.C19DocumentedHost) {
					rep.Violation("C19:unexpected-endpoint", "the binary asked the proxy for "+l+" — documentation names "+kit.C19DocumentedHost, r.replay)
				}
			}
		}
		rep.Sample(map[string]any{"control": r.cs.Form.Name, "proxy": r.cs.Proxy, "as_uid_nobody": r.cs.AsNobdy, "attempts": r.attempts, "proxy_saw": r.proxy, "instance_id_files": r.idFiles})
	}
	rep.SetInfo("control_without_proxy_shows_attempt", dnsSeen)
	rep.SetInfo("control_with_proxy_shows_attempt", proxySeen)
	rep.SetInfo("control_leaves_instance_id_file", idSeen)
	sampled := map[string]bool{}
	for _, r := range results {
		if r.cs.Expect != "zero" {
			continue
		}
		sfx := ""
		switch r.cs.Route {
		case "env-var":
			route := "env-var:no-config-file"
			if r.cs.Form.Content {
				route = "env-var:with-config-file"
			}
			if c19SpellingIneffective(route, r.cs.EnvSp) {
				sfx = c19SpellingSuffix(r.cs.EnvSp)
			}
		case "config-key":
			route := "config-file-nested"
			if r.cs.Dotted {
				route = "config-file-dotted"
			}
			if c19SpellingIneffective(route, r.cs.FileSp) {
				sfx = c19SpellingSuffix(r.cs.FileSp)
			}
		}
		how := map[string]string{
			"env-var":    c19EnvVar + "=" + r.cs.EnvSp.Text,
			"config-key": "telemetry.enabled: " + r.cs.FileSp.Text + " in the file's text",
			"both":       c19EnvVar + "=" + r.cs.EnvSp.Text + " and telemetry.enabled: " + r.cs.FileSp.Text + " in the file's text",
		}[r.cs.Route]
		if len(r.attempts) > 0 || len(r.proxy) > 0 {
			r.replay["connect_attempts"] = r.attempts
			r.replay["proxy_saw"] = r.proxy
			first := ""
			if len(r.attempts) > 0 {
				first = r.attempts[0].Line
			} else {
				first = "proxy: " + r.proxy[0]
			}
			rep.Violation("C19:telemetry-sent-while-disabled:config-form-"+r.cs.Form.Kind+":"+r.cs.Route+sfx,
				fmt.Sprintf("real binary, --config given as %q (class %s), telemetry switched off through %s: the binary %s and the trace of its life shows an outbound connection attempt (%s); .instance_id files created: %v",
					r.cs.Form.Name, r.cs.Form.Kind, how, r.outcome, first, r.idFiles), r.replay)
			continue
		}
		if len(r.idFiles) > 0 {
			rep.Violation("C19:instance-id-created-while-disabled:config-form-"+r.cs.Form.Kind+":"+r.cs.Route+sfx,
				fmt.Sprintf("real binary, --config given as %q (class %s), telemetry switched off through %s: the binary %s and created %v (the telemetry collector was set up although telemetry is off)",
					r.cs.Form.Name, r.cs.Form.Kind, how, r.outcome, r.idFiles), r.replay)
			continue
		}
		if r.outcome == "served" {
			// a served life is only evidence when its observers are known to be live
			if (r.cs.Proxy && !proxySeen) || (!r.cs.Proxy && !dnsSeen) || !idSeen {
				rep.Inconc(fmt.Sprintf("%s/%s: nothing seen, but the positive control (proxy=%v) showed no attempt / no .instance_id either — cannot decide", r.cs.Form.Name, r.cs.Route, r.cs.Proxy))
				continue
			}
		}
		rep.Count("optout_lives_clean", 1)
		rep.Count("optout_lives_clean/"+r.outcome, 1)
		if !sampled[r.cs.Form.Name] {
			sampled[r.cs.Form.Name] = true
			rep.Sample(map[string]any{"form": r.cs.Form.Name, "route": r.cs.Route, "outcome": r.outcome, "process_end": r.exit, "binary_said": r.replay["binary_said"], "connect_classes": r.replay["connect_classes"]})
		}
	}
}
