//go:build verif

package server

// C02, family F12: a partition leader election at the controller that is in
// flight while the in-sync set of the same partition changes.
//
// The controller decides a failover in two steps that are not atomic: it reads
// the ISR and selects a candidate, then it waits for the Raft proposal mutex
// (and a barrier) before the leader change is proposed.  A ShrinkISR proposed
// by the partition leader for the very replica that was selected can be
// serialised in between.  From the moment that shrink is applied the leader
// commits and ALL-acks without the removed replica, so the election must not go
// through with it.  Three orders of the two proposals are driven on a real
// 3-server cluster (the committed-table / ALL-ack oracle of the other families
// judges all of them alike):
//
//   race          follower X is held at the fetch gate (it lags); ALL messages
//                 are published (pending: X is in the ISR); the failure reports
//                 of both followers reach the controller while the harness holds
//                 the controller's Raft proposal mutex — exactly what a
//                 concurrent applyOperation of another proposal does — so the
//                 election has selected its candidate and is parked in front of
//                 its proposal; the leader's ShrinkISR of X is serialised first
//                 (barrier, the real precondition check, Apply); the pending
//                 messages commit and are acknowledged, more are published and
//                 acknowledged; the mutex is released.
//   shrink-first  the same shrink is committed (through the real ShrinkISR API)
//                 BEFORE the reports arrive: the removed replica is no witness
//                 and no candidate any more.
//   shrink-after  the reports arrive first and the lagging (still in-sync)
//                 follower is elected; the deposed leader's ShrinkISR, carrying
//                 the old leader epoch, arrives afterwards and must change
//                 nothing; the pending messages were never acknowledged.
//
// Which of two equally loaded candidates the controller selects is a map
// iteration coin flip; an auxiliary stream led by the other follower makes the
// held follower the unique least-loaded candidate.  In the "alone" variant
// both followers are held and both are removed, so the selection does not
// matter.  Nothing here is judged by timing: if the election happens to read
// the ISR only after the shrink (the harness cannot see the read itself), the
// scenario is the shrink-first order and is counted as such, not as covered.

import (
	"context"
	"fmt"
	"strings"
	"sync"
	"sync/atomic"
	"time"
	"unsafe"

	client "github.com/liftbridge-io/liftbridge-api/v2/go"
	"github.com/nats-io/nats.go"
	"google.golang.org/grpc/status"

	kit "github.com/liftbridge-io/liftbridge/internal/verifkit"
	proto "github.com/liftbridge-io/liftbridge/server/protocol"
)

var c02F12Seq int

func init() {
	c02FamilyCfg["F12"] = func(cfg *Config) { cfg.Clustering.ReplicaMaxLagTime = 20 * time.Second }
	c02Families["F12"] = c02F12
}

// c02Pending: messages published without waiting for their acks.
type c02Pending struct {
	e      *c02Env
	sub    *nats.Subscription
	msgs   []*c02Msg
	byCorr map[string]*c02Msg
	policy client.AckPolicy
	got    int
}

func (e *c02Env) publishStart(n int, policy client.AckPolicy) *c02Pending {
	e.step("publishNoWait(%d,%s)", n, policy)
	inbox := nats.NewInbox()
	sub, err := e.c.NC.SubscribeSync(inbox)
	if err != nil {
		e.inconclusive("ack inbox: " + err.Error())
		return nil
	}
	pd := &c02Pending{e: e, sub: sub, byCorr: map[string]*c02Msg{}, policy: policy}
	for i := 0; i < n; i++ {
		e.nmsg++
		m := &c02Msg{Tag: fmt.Sprintf("%s-%d-m%04d", e.family, e.seed%1000, e.nmsg), Policy: policy, Offset: -1}
		pd.msgs = append(pd.msgs, m)
		pd.byCorr[m.Tag] = m
		data, err := proto.MarshalPublish(&client.Message{Value: []byte(m.Tag), Key: []byte(fmt.Sprintf("k%d", e.nmsg%3)), Stream: e.stream,
			Subject: e.subject, AckInbox: inbox, CorrelationId: m.Tag, AckPolicy: policy})
		if err != nil {
			panic(err)
		}
		if err := e.c.NC.Publish(e.subject, data); err != nil {
			e.inconclusive("publish: " + err.Error())
			break
		}
	}
	e.c.NC.Flush()
	return pd
}

// collect waits (watchdog) until every message of the set has been answered
// and returns how many positive acks there are; ALL-acks enter the oracle.
func (pd *c02Pending) collect(wait time.Duration) int {
	e := pd.e
	deadline := time.Now().Add(wait)
	for pd.got < len(pd.msgs) {
		am, err := pd.sub.NextMsg(time.Until(deadline))
		if err != nil {
			break
		}
		ack, err := proto.UnmarshalAck(am.Data)
		if err != nil {
			continue
		}
		m := pd.byCorr[ack.CorrelationId]
		if m == nil || m.Acked {
			continue
		}
		m.Acked = true
		pd.got++
		if ack.AckError != client.Ack_OK {
			m.Err = ack.AckError.String()
			continue
		}
		m.Offset = ack.Offset
		e.logf("ack tag=%s policy=%s offset=%d", m.Tag, pd.policy, ack.Offset)
		if pd.policy == client.AckPolicy_ALL {
			e.mu.Lock()
			e.acked[m.Tag] = ack.Offset
			e.mu.Unlock()
		}
	}
	ok := 0
	for _, m := range pd.msgs {
		if m.Acked && m.Err == "" {
			ok++
		}
	}
	return ok
}

func (pd *c02Pending) close() { pd.sub.Unsubscribe() }

func (e *c02Env) count(k string, n int64) {
	e.mu.Lock()
	if e.counts == nil {
		e.counts = map[string]int64{}
	}
	e.counts[k] += n
	e.mu.Unlock()
}

// reportLeader delivers one failure report of an in-sync follower to the
// controller (the call a follower makes from checkLeaderHealth).
func (e *c02Env) reportLeader(ml *Server, witness, leader string, epoch uint64) *status.Status {
	ctx, cancel := context.WithTimeout(context.Background(), 90*time.Second)
	defer cancel()
	return ml.metadata.ReportLeader(ctx, &proto.ReportLeaderOp{Stream: e.stream, Partition: 0, Replica: witness, Leader: leader, LeaderEpoch: epoch})
}

func (e *c02Env) shrinkOp(replica, leader string, epoch uint64) *proto.ShrinkISROp {
	return &proto.ShrinkISROp{Stream: e.stream, Partition: 0, ReplicaToRemove: replica, Leader: leader, LeaderEpoch: epoch}
}

// applySerialised does what raftNode.applyOperation does for a proposal with
// preconditions — barrier, precondition check, Apply, wait for the result —
// for a caller that already holds the proposal mutex.
func c02ApplySerialised(ml *Server, op *proto.RaftLog, check func(*proto.RaftLog) error) error {
	rn := ml.getRaft()
	if err := rn.Barrier(20 * time.Second).Error(); err != nil {
		return fmt.Errorf("barrier: %v", err)
	}
	if check != nil {
		if err := check(op); err != nil {
			return fmt.Errorf("precondition: %v", err)
		}
	}
	data, err := op.Marshal()
	if err != nil {
		return err
	}
	return rn.Apply(data, 20*time.Second).Error()
}

// c02MutexWaiters returns the number of goroutines queued at a sync.Mutex, or
// -1 if the mutex does not have the layout of the toolchain this was written
// for (state word first, waiter count above bit 3).  Used only to decide when
// to go on, never for a verdict.
func c02MutexWaiters(m *sync.Mutex) int {
	if unsafe.Sizeof(*m) != 8 {
		return -1
	}
	return int(atomic.LoadInt32((*int32)(unsafe.Pointer(m))) >> 3)
}

func c02F12(e *c02Env, rng *kit.RNG) {
	idx := c02F12Seq
	c02F12Seq++
	// quick: one scenario per order; thorough: three rounds, from the second
	// on with the "both followers lag and are removed" variant mixed in
	order := []string{"race", "shrink-first", "shrink-after"}[idx%3]
	alone := idx >= 3 && rng.Bool()
	if order == "shrink-after" {
		alone = false // the lagging follower must be the one that is elected
	}
	l := e.leader()
	if l == nil {
		return
	}
	if !e.publishAcked(rng.Range(2, 3), client.AckPolicy_ALL, 30*time.Second) {
		e.inconclusive("initial publishes not acked")
		return
	}
	e.settle("f12-initial")
	fol := c02Others(e.c, l.ID)
	// Make one follower the unique least-loaded election candidate: an
	// auxiliary stream (never written to) is led by the other one.
	var auxErr error
	for try := 0; try < 3; try++ { // Raft leadership may move under load; the stream may exist after a failed attempt
		if auxErr = e.c.CreateStream(&client.CreateStreamRequest{Subject: "c02aux.subj", Name: "c02aux", ReplicationFactor: 3}); auxErr == nil || strings.Contains(auxErr.Error(), "exists") {
			auxErr = nil
			break
		}
	}
	if auxErr != nil {
		e.inconclusive("auxiliary stream: " + auxErr.Error())
		return
	}
	ml, err := e.c.MetaLeader(20 * time.Second)
	if err != nil {
		e.inconclusive("no metadata leader")
		return
	}
	cp := ml.metadata.GetPartition(e.stream, 0)
	if cp == nil {
		e.inconclusive("controller does not know the partition")
		return
	}
	leaderID, epoch := cp.GetLeader()
	if leaderID != l.ID || cp.ISRSize() != 3 {
		e.inconclusive("controller's view differs from the leader's before the scenario started")
		return
	}
	ml.metadata.stats.RLock()
	load0, load1 := ml.metadata.stats.brokerLeaderLoad[fol[0]], ml.metadata.stats.brokerLeaderLoad[fol[1]]
	ml.metadata.stats.RUnlock()
	x, y := fol[0], fol[1]
	switch {
	case load1 < load0:
		x, y = y, x
	case load0 == load1:
		// no unique candidate: only the variant in which both followers lag
		// is independent of the controller's choice
		if order == "shrink-after" {
			order = "race"
		}
		alone = true
	}
	variant := order
	if alone {
		variant += "+both-followers-removed"
	}
	e.step("order=%s lagging=%s other=%s leader=%s/e%d controller=%s leaderLoad{%s:%d,%s:%d}", variant, x, y, l.ID, epoch, ml.config.Clustering.ServerID, fol[0], load0, fol[1], load1)
	e.count("f12_order_"+variant, 1)

	lp := l.Partition(e.stream, 0)
	e.hold(x)
	if !e.waitParked(x) {
		e.inconclusive("follower " + x + " did not park at the fetch gate")
		return
	}
	held := []string{x}
	if alone {
		e.hold(y)
		if !e.waitParked(y) {
			e.inconclusive("follower " + y + " did not park at the fetch gate")
			return
		}
		held = append(held, y)
	}
	releaseAll := func() {
		for _, id := range held {
			e.release(id)
		}
		held = nil
	}
	defer releaseAll()
	base := lp.log.NewestOffset()
	npend := rng.Range(1, 2)
	pend := e.publishStart(npend, client.AckPolicy_ALL)
	if pend == nil {
		return
	}
	defer pend.close()
	target := base + int64(npend)
	ok := vfWait(20*time.Second, func() bool {
		if lp.log.NewestOffset() < target {
			return false
		}
		if !alone {
			yp := e.c.Nodes[y].Partition(e.stream, 0)
			return yp != nil && yp.log.NewestOffset() >= target
		}
		return true
	})
	if !ok {
		e.inconclusive("pending messages were not stored by the leader / the fetching follower")
		return
	}
	if lp.ISRSize() != 3 {
		e.inconclusive("ISR changed before the scenario's own proposals")
		return
	}
	w1, w2 := y, x
	if rng.Bool() {
		w1, w2 = x, y
	}
	removed := []string{x}
	if alone {
		removed = append(removed, y)
	}
	gapN := rng.Range(0, 2)
	if npend+gapN == 0 {
		gapN = 1
	}
	commitInGap := func() bool {
		// the leader has applied the shrink(s): it commits without the removed replica(s)
		if !vfWait(30*time.Second, func() bool { return lp.ISRSize() == 3-len(removed) }) {
			e.inconclusive("the partition leader never applied the ISR shrink")
			return false
		}
		if got := pend.collect(40 * time.Second); got != npend {
			e.inconclusive(fmt.Sprintf("only %d of %d pending ALL messages were acknowledged after the ISR shrink", got, npend))
			return false
		}
		if gapN > 0 && !e.allAcked(e.publish(gapN, client.AckPolicy_ALL, 40*time.Second)) {
			e.inconclusive("ALL publishes after the ISR shrink not acknowledged")
			return false
		}
		e.observe("f12-committed-without-" + x)
		e.step("committed and ALL-acked without %v: leader newest=%d hw=%d, %s newest=%d", removed, lp.log.NewestOffset(), lp.log.HighWatermark(), x, e.c.Nodes[x].Partition(e.stream, 0).log.NewestOffset())
		return true
	}

	var st *status.Status
	switch order {
	case "race":
		rn := ml.getRaft()
		rn.Lock()
		locked := true
		unlock := func() {
			if locked {
				locked = false
				rn.Unlock()
			}
		}
		defer unlock()
		e.step("controller: proposal mutex taken by a concurrent proposal (the leader's ShrinkISR)")
		if s := e.reportLeader(ml, w1, l.ID, epoch); s != nil {
			e.inconclusive("first failure report refused: " + s.Message())
			return
		}
		done := make(chan *status.Status, 1)
		go func() { done <- e.reportLeader(ml, w2, l.ID, epoch) }()
		// the second report completes the quorum: the witness set is consumed
		// and the election starts (reads the ISR, selects, queues for the mutex)
		quorum := vfWait(20*time.Second, func() bool {
			ml.metadata.mu.RLock()
			f := ml.metadata.partitionFailovers[cp]
			ml.metadata.mu.RUnlock()
			if f == nil {
				return false
			}
			f.mu.Lock()
			n := len(f.witnesses)
			f.mu.Unlock()
			return n == 0
		})
		if !quorum {
			e.inconclusive("the failure reports did not reach a quorum")
			return
		}
		// Let the election reach the mutex.  Coverage only (see header): the
		// waiter count of the mutex is read where its layout is the known one,
		// otherwise (and in addition, briefly) the harness just waits a moment.
		if c02MutexWaiters(&rn.Mutex) >= 0 {
			if vfWait(15*time.Second, func() bool { return c02MutexWaiters(&rn.Mutex) >= 1 }) {
				e.count("f12_election_seen_queued_at_the_proposal_mutex", 1)
			}
		} else {
			time.Sleep(400 * time.Millisecond)
		}
		time.Sleep(20 * time.Millisecond)
		e.step("controller: reports of %s,%s reached the quorum; election in flight", w1, w2)
		for _, r := range removed {
			op := &proto.RaftLog{Op: proto.Op_SHRINK_ISR, ShrinkISROp: e.shrinkOp(r, l.ID, epoch)}
			if err := c02ApplySerialised(ml, op, ml.metadata.checkShrinkISRPreconditions); err != nil {
				e.inconclusive("ShrinkISR(" + r + ") ahead of the election: " + err.Error())
				return
			}
			e.step("controller: ShrinkISR(%s) by leader %s/e%d committed ahead of the election's proposal", r, l.ID, epoch)
		}
		if !commitInGap() {
			return
		}
		unlock()
		e.step("controller: proposal mutex released")
		select {
		case st = <-done:
		case <-time.After(90 * time.Second):
			e.inconclusive("the election never returned")
			return
		}
	case "shrink-first":
		for _, r := range removed {
			ctx, cancel := context.WithTimeout(context.Background(), 30*time.Second)
			s := ml.metadata.ShrinkISR(ctx, e.shrinkOp(r, l.ID, epoch))
			cancel()
			if s != nil {
				e.inconclusive("ShrinkISR(" + r + "): " + s.Message())
				return
			}
			e.step("controller: ShrinkISR(%s) by leader %s/e%d committed", r, l.ID, epoch)
		}
		if !commitInGap() {
			return
		}
		for _, w := range []string{w1, w2} {
			s := e.reportLeader(ml, w, l.ID, epoch)
			msg := "accepted"
			if s != nil {
				msg = "refused: " + s.Message()
			}
			e.step("failure report of %s: %s", w, msg)
		}
	case "shrink-after":
		if s := e.reportLeader(ml, w1, l.ID, epoch); s != nil {
			e.inconclusive("first failure report refused: " + s.Message())
			return
		}
		st = e.reportLeader(ml, w2, l.ID, epoch)
		if st != nil {
			e.inconclusive("election with an unchanged ISR failed: " + st.Message())
			return
		}
		nl0, _ := cp.GetLeader()
		e.step("controller: election done, leader=%s", nl0)
		ctx, cancel := context.WithTimeout(context.Background(), 30*time.Second)
		s := ml.metadata.ShrinkISR(ctx, e.shrinkOp(x, l.ID, epoch))
		cancel()
		msg := "ACCEPTED"
		if s != nil {
			msg = "refused: " + s.Message()
		}
		e.step("deposed leader's ShrinkISR(%s) under the old epoch e%d: %s", x, epoch, msg)
		if nl0 == x {
			e.count("f12_lagging_in_sync_follower_elected_then_stale_shrink", 1)
			e.mu.Lock()
			e.covered = true
			e.mu.Unlock()
		}
		got := pend.collect(2 * time.Second)
		e.step("pending ALL messages acknowledged although the leader was deposed before they committed: %d", got)
	}

	nlID, nepoch := cp.GetLeader()
	if order == "race" {
		res := "proposed"
		if st != nil {
			res = "refused: " + st.Message()
		}
		e.step("election result: %s; controller now has leader=%s/e%d ISR=%v", res, nlID, nepoch, cp.GetISR())
		stale := false
		for _, r := range removed {
			if nlID == r {
				stale = true
			}
		}
		switch {
		case st != nil && nlID == l.ID && strings.Contains(st.Message(), "No ISR candidates"):
			// (coverage accounting only) the election found the ISR already reduced to the leader
			e.count("f12_election_read_the_isr_after_the_shrink", 1)
		case st != nil && nlID == l.ID:
			// candidate selected from the ISR read before the shrink, refused at the proposal
			e.count("f12_election_selected_before_shrink_and_was_refused_at_proposal", 1)
			e.mu.Lock()
			e.covered = true
			e.mu.Unlock()
		case stale:
			e.count("f12_election_made_a_removed_replica_leader", 1)
			e.mu.Lock()
			e.covered = true
			e.mu.Unlock()
		default:
			e.count("f12_election_read_the_isr_after_the_shrink", 1)
		}
	}
	if order == "shrink-first" {
		e.step("controller now has leader=%s/e%d ISR=%v", nlID, nepoch, cp.GetISR())
		e.mu.Lock()
		e.covered = true
		e.mu.Unlock()
		if nlID != l.ID {
			e.count("f12_failover_after_shrink", 1)
		}
	}
	releaseAll()
	if nlID != l.ID && !e.waitLeads(nlID) {
		return
	}
	e.checkLeaderComplete("f12-after-" + order)
	e.publish(2, client.AckPolicy_ALL, 45*time.Second)
	e.settle("f12-end")
}
