//go:build verif

package server

// C11 — sets that fail because the cursors partition cannot COMMIT for a while
// (3 servers, replication factor 3, both followers held at the
// follower.beforeFetch gate): the caller's deadline passes, SetCursor reports
// an error, the message sits uncommitted in the leader's log and is committed
// later, when replication resumes — possibly after other operations of the
// same cursor.  Neighbour of the abandoned-set unit (there the message commits
// at once and only the caller is gone).
//
// After the stall the harness reads the leader's log until it has seen each
// failed set's message below the high watermark (c11_abandonset_test.go,
// awaitCommitted), then consumers commit again (their old position, a new
// one, nothing), and the cache is dropped: purge at the leader, then a real
// leader change (controller election or isolation), after which the new
// leader answers from its own copy of the log.  Same oracle as the
// abandoned-set unit (c11JudgeRepeat + porcupine with the latent model).

import (
	"fmt"
	"os"
	"sync/atomic"
	"testing"
	"time"

	kit "github.com/liftbridge-io/liftbridge/internal/verifkit"
)

const c11StalledRule = "3-server clusters (cursors stream: 1 partition, replication factor 3, cache on; thorough: every third cluster cache off), 2 (thorough 4) rounds each: at the cursors-partition leader L 8-12 cursors are fetched and a seeded 2/3 get a new acknowledged value; ISR complete and settled; " +
	"both followers are held at the follower.beforeFetch gate, so nothing can commit; 3-4 cursors get a SetCursor of a new value with a deadline of 250-450 ms (fails: deadline exceeded; the message is in L's log above the high watermark), in half of the rounds one of them also gets a re-commit of its old value with such a deadline, and they are fetched during the stall; " +
	"the gates open; the harness reads the leader's log until each failed set's message is below the high watermark (<= 600 reads, else the set stays open); follow-up SetCursor at the leader {the value acknowledged last | a new value | none} for the stalled cursors and re-commits for the others; fetch of every cursor as is, after a cache purge, and - after the leadership was moved (controller election with the ISR complete; thorough: 1 in 4 by pauseReplication isolation) - at the new leader. " +
	"Oracle = register rule for repeated values with commit observations (c11JudgeRepeat) + porcupine with the latent model. non-trivial = all rounds completed, >= 3 sets failed while nothing could commit, were not committed when they failed and were seen committed after the gates opened, >= 1 of them was followed by an acknowledged re-commit of the old value, >= 1 leader change; distinct = scenario seed"

func c11RunStalledSet(rep *kit.Report, unit string, g int, seed uint64) {
	rng := kit.NewRNG(seed)
	cfg := c11Cfg{Parts: 1, SegBytes: []int64{1200, 4000}[rng.Intn(2)], Clients: 1, CleanMode: "forced", Steps: []string{"stalled-set"}}
	cfg.CacheOff = kit.Thorough() && g%3 == 2
	cc, err := c11NewCluster(rep, unit, seed, cfg)
	if err != nil {
		rep.Inconc(fmt.Sprintf("cluster start failed: %v", err))
		return
	}
	defer cc.close()
	cc.repeat = true
	rep.Eval()
	type cons struct {
		k         c11Key
		lastAcked int64
	}
	consumers := make([]*cons, rng.Range(8, 12))
	for i := range consumers {
		consumers[i] = &cons{k: c11Key{fmt.Sprintf("st%d", i), fmt.Sprintf("sts%d", i%2), int32(i % 3)}, lastAcked: -1}
	}
	set := func(n *vfNode, c *cons, v int64, phase string) c11Op {
		op := cc.doSetCtx(n, 0, c.k, phase, v, "normal", cc.timeout())
		if op.OK {
			c.lastAcked = v
		}
		return op
	}
	fetchAll := func(n *vfNode, phase string) {
		for _, c := range consumers {
			if f := cc.fetchQuiescent(n, c.k, phase); f.OK {
				cc.judgeNow(f, false)
				rep.Count("quiescent_fetches", 1)
			}
		}
	}
	type stalled struct {
		c    *cons
		op   c11Op
		from map[int32]int64
	}
	var nStalled, nUncommittedAtFailure, nSeen, nRecommitAfterSeen, nStalledRecommit int64
	rounds, done := kit.Scale(2, 4), 0
	for r := 0; r < rounds && cc.alive(); r++ {
		l := cc.leader()
		if l == nil {
			break
		}
		cc.step("round %d leader=%s", r, l.ID)
		for _, c := range consumers {
			if f := cc.fetchQuiescent(l, c.k, "at-leader"); f.OK {
				cc.judgeNow(f, false)
			}
			if c.lastAcked < 0 || rng.Chance(2, 3) {
				set(l, c, cc.absetNewVal(), "at-leader")
			}
		}
		if !cc.alive() || !cc.waitISR(cc.c.IDs...) || !cc.settle() {
			break
		}
		// ---- nothing can commit
		for _, id := range cc.c.IDs {
			if id != l.ID {
				cc.hold(id)
			}
		}
		perm := make([]int, len(consumers))
		for i := range perm {
			perm[i] = i
		}
		for i := len(perm) - 1; i > 0; i-- {
			j := rng.Intn(i + 1)
			perm[i], perm[j] = perm[j], perm[i]
		}
		victims := perm[:rng.Range(3, 4)]
		var sts []stalled
		recommitInStall := rng.Bool()
		for vi, i := range victims {
			c := consumers[i]
			d := time.Duration(rng.Range(250, 450)) * time.Millisecond
			from := c11LogEnds(l.Server())
			op := cc.doSetCtx(l, 0, c.k, "stalled/set", cc.absetNewVal(), "deadline", d)
			if op.OK {
				c.lastAcked = op.Val // committed after all (the ISR shrank, or the gate was passed)
				rep.Count("set_during_stall_acknowledged", 1)
				continue
			}
			if op.Refused != "" {
				continue
			}
			nStalled++
			if cc.awaitCommitted(l, from, c.k, op.Val, 1) == 0 {
				nUncommittedAtFailure++
			}
			sts = append(sts, stalled{c, op, from})
			if vi == 0 && recommitInStall && c.lastAcked >= 0 {
				// the consumer, told that its update failed, commits its old
				// position again while the partition still cannot commit
				from := c11LogEnds(l.Server())
				op := cc.doSetCtx(l, 0, c.k, "stalled/recommit", c.lastAcked, "deadline", d)
				if op.OK {
					rep.Count("recommit_during_stall_acknowledged", 1)
				} else if op.Refused == "" {
					nStalledRecommit++
					sts = append(sts, stalled{c, op, from})
				}
			}
			if f := cc.doFetch(l, 0, c.k, "stalled/fetch"); f.OK {
				cc.judgeNow(f, false)
			}
		}
		for _, id := range cc.c.IDs {
			if id != l.ID {
				cc.releaseGate(id)
			}
		}
		// ---- replication resumes: watch the failed sets commit
		seenOf := map[*cons]bool{}
		for _, s := range sts {
			if at := cc.awaitCommitted(l, s.from, s.c.k, s.op.Val, 600); at > 0 {
				cc.markCommitted(s.op.Seq, at)
				nSeen++
				seenOf[s.c] = true
			} else {
				rep.Count("stalled_set_never_seen_committed", 1)
			}
		}
		cur := cc.leader()
		if cur == nil {
			break
		}
		if cur.ID != l.ID {
			cc.step("leader moved to %s during the stall", cur.ID)
			rep.Count("leader_changed_during_stall", 1)
		}
		// ---- consumers commit again
		stalledCons := map[*cons]bool{}
		for _, s := range sts {
			stalledCons[s.c] = true
		}
		for _, c := range consumers {
			kind := []string{"recommit-acked", "recommit-acked", "recommit-acked", "new", "none"}[rng.Intn(5)]
			if !stalledCons[c] && rng.Bool() {
				kind = "none"
			}
			switch {
			case kind == "none":
			case kind == "recommit-acked" && c.lastAcked >= 0:
				if op := set(cur, c, c.lastAcked, "followup/recommit-acked"); op.OK && seenOf[c] {
					nRecommitAfterSeen++
				}
			default:
				set(cur, c, cc.absetNewVal(), "followup/new")
			}
		}
		fetchAll(cur, "after-followup")
		if !cfg.CacheOff {
			cc.purge(cur.Server())
			fetchAll(cur, "after-purge")
		}
		if !cc.alive() || !cc.waitISR(cc.c.IDs...) || !cc.settle() {
			break
		}
		// ---- the next leader answers from its own log
		// (isolation races the leader's own ISR shrink against the followers'
		// leader timeout and can end without a successor, i.e. inconclusive:
		// thorough tier only; the quick tier moves the leadership by election)
		mode := "elect"
		if rng.Chance(1, 4) && kit.Thorough() {
			mode = "isolate"
		}
		if mode == "elect" {
			if !cc.electAway(cur.ID) {
				break
			}
		} else {
			keys := make([]c11Key, len(consumers))
			for i, c := range consumers {
				keys[i] = c.k
			}
			cc.isolate(cur, keys, rng)
		}
		n := cc.waitLeaderNot(cur.ID)
		if n == nil {
			break
		}
		if mode == "isolate" {
			cc.unpause(cur)
		}
		rep.Count("leader_moves_"+mode, 1)
		fetchAll(n, "after-leader-change")
		if cc.alive() {
			done++
		}
	}
	cc.finish()
	cc.mu.Lock()
	complete, changes, steps, nops := !cc.inconc, cc.leaderChanges, append([]string(nil), cc.steps...), len(cc.ops)
	cc.mu.Unlock()
	rep.Count("ops", int64(nops))
	rep.Count("leader_changes", int64(changes))
	rep.Count("rounds_completed", int64(done))
	rep.Count("sets_failed_while_nothing_could_commit", nStalled)
	rep.Count("recommits_failed_while_nothing_could_commit", nStalledRecommit)
	rep.Count("stalled_sets_not_committed_when_they_failed", nUncommittedAtFailure)
	rep.Count("stalled_sets_seen_committed_later", nSeen)
	rep.Count("acknowledged_recommit_of_old_value_after_committed_stalled_set", nRecommitAfterSeen)
	rep.Count("cache_purges", atomic.LoadInt64(&cc.purges))
	rep.Count("sets_with_unknown_outcome", atomic.LoadInt64(&cc.setUnknown))
	if complete && done == rounds && nUncommittedAtFailure >= 3 && nSeen >= 3 && nRecommitAfterSeen >= 1 && changes >= 1 {
		rep.Nontrivial(fmt.Sprintf("stalled-set/%s/%d", cfg.sig(), seed))
	}
	rep.Sample(map[string]any{"history_seed": seed, "config": cfg.sig(), "steps": steps, "ops": nops, "stalled": nStalled, "seen_committed": nSeen})
}

// TestVerifC11StalledSet runs the commit-stall scenarios.
func TestVerifC11StalledSet(t *testing.T) {
	unit := os.Getenv("VERIF_UNIT")
	if unit == "" {
		unit = "stalledset"
	}
	rep := kit.NewReport("C11", unit)
	defer rep.Write()
	rep.SetRule(c11StalledRule)
	rep.Assume("replication is stalled with gates at the follower.beforeFetch hook of both followers (no NATS-level partition); whatever the cluster does meanwhile (ISR shrink, leader report), every operation is recorded as its caller saw it and judged by the same rule; the deadlines and the number of log reads are workload parameters, no oracle uses a time value")
	rep.Assume("a failed set whose message the harness has read below the leader's high watermark is ordered before every SetCursor called after that read (committed messages survive leader changes: property C02)")
	total := kit.Scale(1, 3)
	root := kit.NewRNG(kit.Mix(kit.Seed(), 0xC11AC))
	for g := 0; g < total; g++ {
		seed := root.Uint64()
		if only := c11ReplaySeed(); only != "" && only != fmt.Sprint(seed) {
			continue
		}
		if rep.NumViolations() >= 4 {
			break
		}
		c11RunStalledSet(rep, unit, g, seed)
	}
}
