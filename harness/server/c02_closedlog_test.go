//go:build verif

package server

// C02 family F17 — a follower's partition goes away while it HOLDS an answer of
// the leader that it has received but not stored yet.
//
// The follower's replication loop is parked at the follower.afterFetch gate
// with a non-empty answer in hand.  Meanwhile the partition object that loop
// belongs to is closed on that server by one of the ordinary ways a partition
// is closed while the process lives on — the stream is paused, the follower's
// server is stopped and restarted — and only then the loop is released and
// handles the answer against the closed log.  The server must survive (a Go
// panic in the loop kills the whole process and with it every other partition
// it leads: the driver reports the death of the unit as crash:<frame>), and
// after the partition is back (resume by a publish / restart) the usual
// committed-table oracle must hold: everything committed before, the tail the
// follower never stored, and what is published afterwards is served
// identically by every later leader.

import (
	"context"
	"strings"
	"time"

	client "github.com/liftbridge-io/liftbridge-api/v2/go"

	kit "github.com/liftbridge-io/liftbridge/internal/verifkit"
)

func init() {
	c02Families["F17"] = c02F17
	c02FamilyCfg["F17"] = func(cfg *Config) { cfg.Clustering.ReplicaMaxLagTime = 10 * time.Second }
}

func c02F17(e *c02Env, rng *kit.RNG) {
	l := e.leader()
	if l == nil {
		return
	}
	if !e.publishAcked(rng.Range(2, 4), client.AckPolicy_ALL, 30*time.Second) {
		e.inconclusive("initial publishes not acked")
		return
	}
	e.settle("f17-initial")
	fol := c02Others(e.c, l.ID)
	f := fol[rng.Intn(2)]
	mode := []string{"pause", "stop", "pause-then-stop"}[rng.Intn(3)]
	// pausing is proposed through the metadata leader; a stalled FSM on the
	// metadata leader itself would stall the proposal, so prefer a follower
	// that is not the metadata leader for the pause modes
	if ml, err := e.c.MetaLeader(20 * time.Second); err == nil && ml.config.Clustering.ServerID == f && mode != "stop" {
		for _, o := range fol {
			if o != f {
				f = o
				break
			}
		}
	}
	lp := l.Partition(e.stream, 0)
	_, epoch := lp.GetLeader()
	// where the loop is parked: with the answer received and not looked at
	// (follower.afterFetch), or after it has checked that it still follows this
	// leader epoch and immediately before it appends (follower.beforeAppend)
	at := []string{"afterFetch", "beforeAppend"}[rng.Intn(2)]
	mode = at + "/" + mode
	var g *c02RespGate
	if at == "afterFetch" {
		g = e.holdResponse(f, epoch)
	} else {
		g = &c02RespGate{epoch: epoch, ch: make(chan struct{}), caught: make(chan struct{})}
		e.removers = append(e.removers, vfHooks.On("follower.beforeAppend", func(a ...interface{}) error {
			if a[1].(string) != e.stream || a[0].(string) != f || a[3].(uint64) != epoch {
				return nil
			}
			e.mu.Lock()
			if g.held {
				e.mu.Unlock()
				return nil
			}
			g.held = true
			close(g.caught)
			e.mu.Unlock()
			e.logf("beforeAppend gate: %s is about to append %d bytes fetched under epoch %d", f, a[4].(int), epoch)
			<-g.ch
			return nil
		}))
	}
	tail := e.publish(rng.Range(1, 3), client.AckPolicy_LEADER, 15*time.Second)
	if !e.allAcked(tail) {
		if at == "afterFetch" {
			e.releaseResponse(f)
		} else {
			close(g.ch)
		}
		e.inconclusive("tail on the leader not written")
		return
	}
	select {
	case <-g.caught:
	case <-time.After(15 * time.Second):
		if at == "afterFetch" {
			e.releaseResponse(f)
		} else {
			close(g.ch)
		}
		e.inconclusive("follower " + f + " never received an answer with data")
		return
	}
	e.step("F17 mode=%s: %s holds an answer it has not stored", mode, f)
	fp := e.c.Nodes[f].Partition(e.stream, 0)
	released := false
	release := func() {
		if !released {
			released = true
			if at == "afterFetch" {
				e.releaseResponse(f)
			} else {
				e.step("releaseAppend(%s)", f)
				close(g.ch)
			}
		}
	}
	defer release()
	if strings.HasSuffix(mode, "/pause") || strings.HasSuffix(mode, "/pause-then-stop") {
		ml, err := e.c.MetaLeader(20 * time.Second)
		if err != nil {
			e.inconclusive("no metadata leader")
			return
		}
		e.step("pauseStream")
		perrc := make(chan error, 1)
		go func() {
			ctx, cancel := context.WithTimeout(context.Background(), 20*time.Second)
			defer cancel()
			_, perr := ml.api.PauseStream(ctx, &client.PauseStreamRequest{Name: e.stream})
			perrc <- perr
		}()
		// the pause may or may not be able to complete on f while its loop is
		// parked: wait for the others, give f a moment, then release
		vfWait(15*time.Second, func() bool {
			for _, n := range e.c.Running() {
				if n.ID == f {
					continue
				}
				p := n.Partition(e.stream, 0)
				if p == nil || !p.IsPaused() {
					return false
				}
			}
			return true
		})
		closedOnF := vfWait(3*time.Second, func() bool {
			return c02xLogClosed(fp)
		})
		e.countYN("f17_partition_closed_on_holder_before_release:"+mode, closedOnF)
		if strings.HasSuffix(mode, "/pause-then-stop") {
			done := make(chan struct{})
			go func() { e.stop(f); close(done) }()
			select {
			case <-done:
			case <-time.After(3 * time.Second):
			}
			release()
			select {
			case <-done:
			case <-time.After(60 * time.Second):
				e.inconclusive("stop of " + f + " did not return")
				return
			}
		} else {
			release()
		}
		select {
		case perr := <-perrc:
			if perr != nil {
				e.inconclusive("pause: " + perr.Error())
				return
			}
		case <-time.After(40 * time.Second):
			e.inconclusive("pause did not return")
			return
		}
		time.Sleep(200 * time.Millisecond) // let the released loop run into the closed log
		if strings.HasSuffix(mode, "/pause-then-stop") {
			if !e.restart(f) {
				return
			}
		}
		e.step("resume (by a publish through the API)")
		ok := vfWait(40*time.Second, func() bool {
			ml, err := e.c.MetaLeader(10 * time.Second)
			if err != nil {
				return false
			}
			ctx, cancel := context.WithTimeout(context.Background(), 10*time.Second)
			defer cancel()
			_, perr := ml.api.Publish(ctx, &client.PublishRequest{Stream: e.stream, Value: []byte("f17-resume"), Key: []byte("kr"), AckPolicy: client.AckPolicy_LEADER})
			return perr == nil
		})
		if !ok {
			e.inconclusive("resuming publish failed")
			return
		}
	} else {
		done := make(chan struct{})
		go func() { e.stop(f); close(done) }()
		// Stop may wait for the parked loop or not: give it a moment to close
		// the partition, then let the loop run
		closedOnF := vfWait(3*time.Second, func() bool { return c02xLogClosed(fp) })
		e.countYN("f17_partition_closed_on_holder_before_release:"+mode, closedOnF)
		release()
		select {
		case <-done:
		case <-time.After(60 * time.Second):
			e.inconclusive("stop of " + f + " did not return")
			return
		}
		time.Sleep(200 * time.Millisecond)
		if !e.restart(f) {
			return
		}
	}
	e.mu.Lock()
	e.covered = true
	e.mu.Unlock()
	if !e.publishAcked(rng.Range(1, 3), client.AckPolicy_ALL, 60*time.Second) {
		e.inconclusive("publishes after the partition came back not acked")
		return
	}
	e.settle("f17-after-partition-came-back")
	// fail the leader so that a later leader has to serve everything
	nl := e.leader()
	if nl == nil {
		return
	}
	e.stop(nl.ID)
	if e.waitLeaderNot(nl.ID) == nil {
		return
	}
	if !e.publishAcked(2, client.AckPolicy_ALL, 60*time.Second) {
		e.inconclusive("publishes at the next leader not acked")
		return
	}
	e.settle("f17-after-failover")
	if e.restart(nl.ID) {
		e.publish(1, client.AckPolicy_ALL, 40*time.Second)
		e.settle("f17-former-leader-rejoined")
	}
}

func (e *c02Env) countYN(k string, yes bool) {
	if !yes {
		k += ":no"
	}
	e.count(k, 1)
}

// c02xLogClosed reports whether the commit log of partition object p has been
// closed (the partition object itself stays reachable by the parked loop).
func c02xLogClosed(p *partition) bool {
	if p == nil {
		return false
	}
	c, ok := p.log.(interface{ IsClosed() bool })
	return ok && c.IsClosed()
}
