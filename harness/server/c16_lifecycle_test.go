//go:build verif

package server

// C16 — lifecycle unit: the verdict on a conditional publish must not depend
// on what happened to the stream's partition object before it.
//
// The concurrent histories of c16_server_test.go all run on a partition that
// was created a moment ago.  A partition object is however re-created from
// the stream's stored configuration many times in its life: when a paused
// stream is resumed by the next publish, when the server restarts and replays
// its Raft log, and when it restarts from a Raft snapshot.  Here a real
// single-node server hosts streams with optimistic concurrency control
// (per-stream flag, or the server-wide setting) and a seeded program of
// lifecycle events (pause, pause with resume-all, read-only on/off, Raft
// snapshot, restart, pause-then-restart) is run; after EVERY event each
// stream gets a short sequential run of conditional publishes whose verdicts
// are fully determined by the model "state = next offset" (stale, future,
// equal, -1), the very first one after the event being one that must be
// REJECTED whenever the stream already holds messages.  After each run the
// partition log is read back and must hold exactly the accepted tags, in
// order.
//
// Publishes are sequential per stream, so nothing here needs a linearizability
// search; the point is the state the partition was rebuilt from.

import (
	"context"
	"fmt"
	"strings"
	"testing"
	"time"

	client "github.com/liftbridge-io/liftbridge-api/v2/go"
	"google.golang.org/grpc/status"

	kit "github.com/liftbridge-io/liftbridge/internal/verifkit"
)

type c16LStream struct {
	name   string
	how    string // how concurrency control was requested
	tags   []string
	paused bool
	seq    int
}

type c16Life struct {
	rep    *kit.Report
	c      *vfCluster
	id     int
	events []string
	dead   bool
}

func (l *c16Life) srv() *Server { return l.c.Nodes["a"].Server() }

func (l *c16Life) inconc(what string) {
	l.rep.Inconc(fmt.Sprintf("scenario %d [%s]: %s", l.id, strings.Join(l.events, " "), what))
	l.dead = true
}

func (l *c16Life) fail(fp, what string, st *c16LStream) {
	l.rep.Violation(fp, what, map[string]any{"scenario": l.id, "seed": kit.Seed(), "events": append([]string(nil), l.events...),
		"stream": st.name, "concurrency_control_requested_by": st.how, "accepted_tags_so_far": len(st.tags)})
	l.dead = true
}

// publish makes one conditional publish through the API and classifies the answer.
func (l *c16Life) publish(st *c16LStream, tag string, e int64) (out string, off int64, msg string) {
	ctx, cancel := context.WithTimeout(context.Background(), 20*time.Second)
	defer cancel()
	resp, err := l.srv().api.Publish(ctx, &client.PublishRequest{Stream: st.name, Value: []byte(tag), Key: []byte("k"),
		AckPolicy: client.AckPolicy_LEADER, CorrelationId: tag, ExpectedOffset: e})
	if err != nil {
		msg = err.Error()
		if s, ok := status.FromError(err); ok {
			msg = s.Message()
		}
		if msg == c16IncorrectMsg {
			return c16OutRejected, 0, msg
		}
		if strings.Contains(msg, "readonly partition") {
			return "readonly", 0, msg
		}
		return c16OutOpen, 0, msg
	}
	if resp == nil || resp.Ack == nil {
		return c16OutOpen, 0, "no ack"
	}
	return c16OutOK, resp.Ack.Offset, ""
}

// judge runs a short sequential series of conditional publishes on st.  event
// names what happened to the stream just before (for the fingerprint).
func (l *c16Life) judge(st *c16LStream, event string, rng *kit.RNG) {
	n := rng.Range(3, 6)
	for i := 0; i < n && !l.dead; i++ {
		next := int64(len(st.tags))
		var class string
		if i == 0 {
			// the first publish after the event decides whether the rebuilt
			// partition still checks expected offsets
			class = []string{"stale", "future", "stale", "equal", "negative"}[rng.Intn(5)]
		} else {
			class = []string{"stale", "future", "equal", "equal", "any", "zero", "negative"}[rng.Intn(7)]
		}
		if (class == "stale" || class == "zero") && next == 0 {
			class = "future"
		}
		var e int64
		switch class {
		case "stale":
			e = int64(rng.Intn(int(next)))
		case "zero":
			e = 0
		case "future":
			e = next + int64(rng.Range(1, 5))
		case "equal":
			e = next
		case "any":
			e = -1
		case "negative":
			e = []int64{-2, -7, -1 << 40, -1 << 63}[rng.Intn(4)]
		}
		st.seq++
		tag := fmt.Sprintf("%s#%d:%s:e=%d", st.name, st.seq, class, e)
		wasPaused := st.paused
		out, off, msg := l.publish(st, tag, e)
		st.paused = false // a publish resumes the partition before anything else
		l.rep.Eval()
		l.rep.Count("judged_"+class+"_"+out, 1)
		if i == 0 {
			l.rep.Count("first_publish_after_"+event+"_"+class+"_"+out, 1)
		}
		if wasPaused {
			l.rep.Count("publishes_that_resumed_a_paused_partition", 1)
		}
		desc := fmt.Sprintf("stream %s (concurrency control by %s) holds %d messages; after [%s] a publish with expected offset %d (%s)", st.name, st.how, next, event, e, class)
		wantOK := e == -1 || e == next
		switch {
		case out == c16OutOpen || out == "readonly":
			l.inconc(fmt.Sprintf("%s got no verdict: %s", desc, msg))
		case wantOK && out == c16OutRejected:
			l.fail("C16:lifecycle:correct-rejected:"+event, desc+" was rejected as incorrect", st)
		case wantOK && off != next:
			l.fail("C16:lifecycle:wrong-offset:"+event, fmt.Sprintf("%s was acknowledged at offset %d", desc, off), st)
		case !wantOK && out == c16OutOK:
			l.fail("C16:lifecycle:mismatch-accepted:"+event, fmt.Sprintf("%s was accepted and acknowledged at offset %d", desc, off), st)
		case wantOK:
			st.tags = append(st.tags, tag)
		}
	}
	if l.dead {
		return
	}
	p := l.c.Nodes["a"].Partition(st.name, 0)
	if p == nil {
		l.inconc("partition object of " + st.name + " not found after publishes")
		return
	}
	recs, err := vfReadLog(p.log, 0, true)
	if err != nil {
		l.inconc("reading the log of " + st.name + ": " + err.Error())
		return
	}
	l.rep.Count("log_readbacks", 1)
	l.rep.Count("log_records_compared", int64(len(recs)))
	bad := len(recs) != len(st.tags)
	for i := 0; !bad && i < len(recs); i++ {
		bad = recs[i].Offset != int64(i) || string(recs[i].Value) != st.tags[i]
	}
	if bad {
		var got []string
		for _, r := range recs {
			got = append(got, fmt.Sprintf("%d=%s", r.Offset, r.Value))
		}
		l.fail("C16:lifecycle:log-mismatch:"+event, fmt.Sprintf("after [%s] the log of %s holds %v but the accepted publishes were %v", event, st.name, got, st.tags), st)
	}
}

// settle waits until the server is the metadata leader again and every stream
// is known (and, unless paused, led).
func (l *c16Life) settle(streams []*c16LStream) bool {
	if _, err := l.c.MetaLeader(40 * time.Second); err != nil {
		l.inconc("no metadata leader after restart: " + err.Error())
		return false
	}
	for _, st := range streams {
		st := st
		ok := vfWait(40*time.Second, func() bool {
			s := l.srv()
			if s == nil {
				return false
			}
			stream := s.metadata.GetStream(st.name)
			if stream == nil {
				return false
			}
			p := stream.GetPartition(0)
			return p != nil && (p.IsPaused() || p.IsLeader())
		})
		if !ok {
			l.inconc("stream " + st.name + " not back after restart")
			return false
		}
	}
	return true
}

func (l *c16Life) restart(streams []*c16LStream) bool {
	if err := l.c.StopNode("a"); err != nil {
		l.inconc("stop: " + err.Error())
		return false
	}
	if err := l.c.StartNode("a"); err != nil {
		l.inconc("restart: " + err.Error())
		return false
	}
	return l.settle(streams)
}

func c16LifeScenario(rep *kit.Report, id int, rng *kit.RNG) {
	serverWide := rng.Bool()
	c, _, err := vfSingle(fmt.Sprintf("c16l-%d", id), func(cfg *Config) {
		cfg.Streams.ConcurrencyControl = serverWide
	})
	if err != nil {
		rep.Inconc("server did not start: " + err.Error())
		return
	}
	defer c.Cleanup()
	l := &c16Life{rep: rep, c: c, id: id}
	l.events = append(l.events, fmt.Sprintf("server(streams.concurrency.control=%v)", serverWide))
	var streams []*c16LStream
	for i := 0; i < 3; i++ {
		st := &c16LStream{name: fmt.Sprintf("c16l%d-%d", id, i), how: "CreateStreamRequest.OptimisticConcurrencyControl=true"}
		req := &client.CreateStreamRequest{Subject: st.name, Name: st.name, ReplicationFactor: 1}
		if serverWide && i == 1 {
			st.how = "the server-wide setting streams.concurrency.control=true"
		} else {
			req.OptimisticConcurrencyControl = &client.NullableBool{Value: true}
		}
		if i == 2 {
			req.SegmentMaxBytes = &client.NullableInt64{Value: 256}
		}
		if err := c.CreateStream(req); err != nil {
			rep.Inconc("create stream: " + err.Error())
			return
		}
		if _, err := c.PartitionLeader(st.name, 0, 30*time.Second); err != nil {
			rep.Inconc(err.Error())
			return
		}
		streams = append(streams, st)
	}
	for _, st := range streams {
		l.judge(st, "create", rng)
	}
	nev := rng.Range(4, 7)
	kinds := map[string]int{}
	ctx := context.Background()
	for e := 0; e < nev && !l.dead; e++ {
		ev := []string{"pause", "pause-resumeall", "readonly-cycle", "snapshot", "restart", "snapshot-restart", "pause-restart", "pause"}[rng.Intn(8)]
		st := streams[rng.Intn(len(streams))]
		l.events = append(l.events, ev+"("+st.name+")")
		kinds[ev]++
		rep.Count("event_"+ev, 1)
		pause := func(all bool) bool {
			cctx, cancel := context.WithTimeout(ctx, 20*time.Second)
			defer cancel()
			if _, err := l.srv().api.PauseStream(cctx, &client.PauseStreamRequest{Name: st.name, ResumeAll: all}); err != nil {
				l.inconc("pause " + st.name + ": " + err.Error())
				return false
			}
			st.paused = true
			return true
		}
		snapshot := func() bool {
			if err := l.srv().getRaft().Snapshot().Error(); err != nil {
				l.inconc("raft snapshot: " + err.Error())
				return false
			}
			return true
		}
		targets := []*c16LStream{st}
		switch ev {
		case "pause":
			if !pause(false) {
				return
			}
		case "pause-resumeall":
			if !pause(true) {
				return
			}
		case "readonly-cycle":
			for _, ro := range []bool{true, false} {
				cctx, cancel := context.WithTimeout(ctx, 20*time.Second)
				_, err := l.srv().api.SetStreamReadonly(cctx, &client.SetStreamReadonlyRequest{Name: st.name, Readonly: ro})
				cancel()
				if err != nil {
					l.inconc("set readonly: " + err.Error())
					return
				}
				if ro {
					// a conditional publish on a read-only stream changes nothing
					out, off, msg := l.publish(st, st.name+"#readonly", int64(len(st.tags)))
					rep.Count("publish_on_readonly_"+out, 1)
					if out == c16OutOK {
						l.fail("C16:lifecycle:readonly-accepted", fmt.Sprintf("a publish on read-only stream %s was acknowledged at %d (%s)", st.name, off, msg), st)
						return
					}
				}
			}
		case "snapshot":
			if !snapshot() {
				return
			}
			targets = streams
		case "restart":
			if !l.restart(streams) {
				return
			}
			targets = streams
		case "snapshot-restart":
			if !snapshot() || !l.restart(streams) {
				return
			}
			targets = streams
		case "pause-restart":
			if !pause(false) {
				return
			}
			if rng.Bool() && !snapshot() {
				return
			}
			if !l.restart(streams) {
				return
			}
			targets = streams
		}
		for _, t := range targets {
			l.judge(t, ev, rng)
		}
	}
	if l.dead {
		return
	}
	rep.Count("scenarios", 1)
	if kinds["pause"]+kinds["pause-resumeall"]+kinds["pause-restart"] > 0 && kinds["restart"]+kinds["snapshot-restart"]+kinds["pause-restart"] > 0 {
		rep.Nontrivial(strings.Join(l.events, " "))
	}
	if id < 2 {
		total := 0
		for _, st := range streams {
			total += len(st.tags)
		}
		rep.Sample(map[string]any{"scenario": strings.Join(l.events, " "), "accepted_publishes": total})
	}
}

func TestVerifC16Lifecycle(t *testing.T) {
	rep := kit.NewReport("C16", "lifecycle")
	defer rep.Write()
	rep.SetRule("real single-node servers (Raft + BoltDB + file snapshots, private NATS), 3 streams with optimistic concurrency control each (per-stream request flag; one by the server-wide setting when that is on; one with 256-byte segments); seeded program of 4..7 lifecycle events (PauseStream, PauseStream with resume-all, read-only on/off, forced Raft snapshot, stop+start on the same data dir, snapshot then restart, pause then restart); after every event 3..6 sequential conditional publishes per affected stream through apiServer.Publish with expected offset stale / 0 / future / equal / -1 / below -1, the first one after the event mostly one that must be rejected; oracle = model 'next offset' (accept iff e == -1 or e == next, at offset next; otherwise INCORRECT_OFFSET) + read-back of the partition log == accepted tags in order; a publish without verdict makes the scenario inconclusive; non-trivial = scenario contained a pause resumed by a conditional publish and a restart; distinct = event text")
	root := kit.NewRNG(kit.Mix(kit.Seed(), 0xC16F))
	n := kit.Scale(8, 40)
	rngs := make([]*kit.RNG, n)
	for i := range rngs {
		rngs[i] = root.Fork(uint64(i))
	}
	kit.Parallel(n, 4, func(i int) {
		if rep.NumViolations() >= 3 {
			return
		}
		c16LifeScenario(rep, i, rngs[i])
	})
}
