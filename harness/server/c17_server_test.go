//go:build verif

package server

// C17 — encrypted streams never store plaintext and always return it (server
// level).  A real single-node server with an encrypted stream:
//
//   - TestVerifC17Server: publish seeded values, subscribe and compare, scan
//     the stored message values and the raw segment files for the plaintext,
//     restart (new data key, same master key) and read everything again,
//     restart under a different master key (must yield an error, not data).
//   - TestVerifC17ServerTamper (+ TestVerifC17ServerChild): the stored form of
//     one message is corrupted in the segment file while the server is down; a
//     subscriber must get an error at that message.  Runs in child processes
//     because a crash of the server process is a possible outcome.

import (
	"bytes"
	"context"
	"encoding/binary"
	"encoding/hex"
	"encoding/json"
	"errors"
	"fmt"
	"hash/crc32"
	"os"
	"os/exec"
	"path/filepath"
	"regexp"
	"runtime"
	"sort"
	"strings"
	"sync"
	"testing"
	"time"

	client "github.com/liftbridge-io/liftbridge-api/v2/go"
	"google.golang.org/grpc/status"

	kit "github.com/liftbridge-io/liftbridge/internal/verifkit"
)

const c17KeyEnv = "LIFTBRIDGE_ENCRYPTION_KEY"

func c17PrintableKey(rng *kit.RNG, n int) string {
	b := make([]byte, n)
	for i := range b {
		b[i] = byte(33 + rng.Intn(94))
	}
	return string(b)
}

type c17Val struct {
	Class  string
	V      []byte
	Needle bool // high entropy and >= 8 bytes: may be searched for in raw files
}

func c17Text(rng *kit.RNG, n int) []byte {
	var b bytes.Buffer
	for i := 0; b.Len() < n; i++ {
		fmt.Fprintf(&b, `{"order":%d,"iban":"DE%020d","pin":"%06d","tok":"%016x"}`, i, rng.Uint64()%1e18, rng.Intn(1000000), rng.Uint64())
	}
	return b.Bytes()[:n]
}

func c17ServerValues(rng *kit.RNG, n int) []c17Val {
	var out []c17Val
	add := func(class string, v []byte, needle bool) {
		out = append(out, c17Val{class, v, needle && len(v) >= 8})
	}
	add("empty", []byte{}, false)
	for _, l := range []int{1, 2, 7} {
		add("short", rng.Bytes(l), false)
	}
	for _, l := range []int{8, 9, 15, 16, 17, 31, 32, 33, 64, 100, 255, 256, 1000, 4096, 16384, 65536} {
		add("random", rng.Bytes(l), true)
	}
	add("zeros", make([]byte, 64), false)
	add("ff", bytes.Repeat([]byte{0xff}, 300), false)
	add("text", c17Text(rng, 40), true)
	add("text", c17Text(rng, 700), true)
	for len(out) < n {
		var l int
		switch rng.Intn(4) {
		case 0:
			l = rng.Range(8, 64)
		case 1:
			l = rng.Range(64, 1024)
		case 2:
			l = rng.Range(1024, 20000)
		default:
			l = rng.Range(0, 12)
		}
		if rng.Chance(1, 3) {
			add("text", c17Text(rng, l), l >= 24)
		} else {
			add("random", rng.Bytes(l), true)
		}
	}
	return out[:n]
}

func c17LenClassS(n int) string {
	switch {
	case n == 0:
		return "0"
	case n < 8:
		return "1-7"
	case n <= 16:
		return "8-16"
	case n <= 256:
		return "17-256"
	case n <= 4096:
		return "257-4K"
	default:
		return "4K-64K"
	}
}

type c17Got struct {
	Vals    [][]byte
	Offs    []int64
	Err     *status.Status
	Timeout bool
}

// c17Collect subscribes from the earliest offset and takes `want` messages, an
// error status, or gives up at the watchdog (inconclusive for the caller).
func c17Collect(s *Server, stream string, want int, watchdog time.Duration) c17Got {
	var g c17Got
	ctx, cancel := context.WithCancel(context.Background())
	defer cancel()
	sub, err := s.api.SubscribeInternal(ctx, &client.SubscribeRequest{Stream: stream, Partition: 0, StartPosition: client.StartPosition_EARLIEST})
	if err != nil {
		g.Err = status.Convert(err)
		return g
	}
	defer sub.Close()
	wd := time.After(watchdog)
	for len(g.Vals) < want {
		select {
		case m := <-sub.Messages():
			g.Vals = append(g.Vals, append([]byte(nil), m.Value...))
			g.Offs = append(g.Offs, m.Offset)
		case st := <-sub.Errors():
			g.Err = st
			return g
		case <-wd:
			g.Timeout = true
			return g
		}
	}
	return g
}

// c17PublishNoVerdict: a publish that failed because something TIMED OUT or
// the server was not reachable says nothing about this property (the machine
// may be heavily loaded): such errors make the scenario inconclusive.  A
// refusal for any other reason (e.g. the encryption nack) is judged.
func c17PublishNoVerdict(err error) bool {
	if err == nil {
		return false
	}
	s := strings.ToLower(err.Error())
	for _, w := range []string{"timed out", "timeout", "deadline exceeded", "context canceled", "no responders", "unavailable"} {
		if strings.Contains(s, w) {
			return true
		}
	}
	return false
}

// c17CreateNoVerdict: a CreateStream that failed because of a timeout or a
// Raft leadership change (elections happen on a loaded machine) says nothing
// about this property either.
func c17CreateNoVerdict(err error) bool {
	if c17PublishNoVerdict(err) || errors.Is(err, errVfTimeout) {
		// (errVfTimeout: the harness' own watchdog inside vfCluster.CreateStream)
		return true
	}
	s := strings.ToLower(err.Error())
	for _, w := range []string{"leadership lost", "leadership transfer", "not the leader", "not leader", "no leader", "no known leader", "node is not the leader"} {
		if strings.Contains(s, w) {
			return true
		}
	}
	return false
}

// c17Publish publishes one value and returns the offset of its ack.  An error
// that carries no verdict (see c17PublishNoVerdict) is returned with the
// prefix "inconclusive: "; callers turn that into rep.Inconc, never into a
// violation.  Only a failure of the resume step that precedes the publish
// ("Failed to resume stream: ... timed out" — nothing was published yet) is
// retried, up to 3 times with the same value; a publish whose ACK did not
// arrive is NOT retried, because the message may have been appended and a
// second copy would shift every later offset.
func c17Publish(s *Server, stream string, v []byte) (int64, error) {
	var last error
	for attempt := 0; attempt < 3; attempt++ {
		ctx, cancel := context.WithTimeout(context.Background(), 20*time.Second)
		resp, err := s.api.Publish(ctx, &client.PublishRequest{Stream: stream, Value: v, AckPolicy: client.AckPolicy_LEADER})
		cancel()
		if err == nil {
			if resp.Ack == nil {
				return -1, fmt.Errorf("inconclusive: no ack in the publish response")
			}
			return resp.Ack.Offset, nil
		}
		if !c17PublishNoVerdict(err) {
			return -1, err
		}
		last = err
		if !strings.Contains(err.Error(), "Failed to resume stream") {
			break
		}
	}
	return -1, fmt.Errorf("inconclusive: publish got no verdict: %v", last)
}

// c17PublishAll publishes vals with `workers` publishers in flight (so that the
// leader forms batches and the batch-fill Seal call sites are used) and
// returns the values ordered by the offsets the acks reported; base is the
// offset expected for the first one.
func c17PublishAll(srv *Server, stream string, base int, vals []c17Val, workers int) ([]c17Val, error) {
	ordered := make([]c17Val, len(vals))
	seen := make([]bool, len(vals))
	var mu sync.Mutex
	var first error
	kit.Parallel(len(vals), workers, func(i int) {
		off, err := c17Publish(srv, stream, vals[i].V)
		mu.Lock()
		defer mu.Unlock()
		if first != nil {
			return
		}
		if err != nil {
			if strings.HasPrefix(err.Error(), "inconclusive") {
				first = err
			} else {
				first = fmt.Errorf("publish of a %d-byte %s value failed: %v", len(vals[i].V), vals[i].Class, err)
			}
			return
		}
		k := int(off) - base
		if k < 0 || k >= len(vals) || seen[k] {
			first = fmt.Errorf("inconclusive: ack offset %d outside / repeated in [%d,%d)", off, base, base+len(vals))
			return
		}
		seen[k], ordered[k] = true, vals[i]
	})
	return ordered, first
}

// c17SealSites counts the calls of Seal per call site in
// partition.messageProcessingLoop (first message of a batch / batch fill
// without wait / batch fill with batch.max.time), identified by the line of the
// caller of the "partition.seal" instrumentation point.
type c17SealSites struct {
	mu    sync.Mutex
	lines map[int]int64
}

func (c *c17SealSites) hook(args ...interface{}) error {
	pcs := make([]uintptr, 12)
	n := runtime.Callers(1, pcs)
	fr := runtime.CallersFrames(pcs[:n])
	for {
		f, more := fr.Next()
		if strings.HasSuffix(f.Function, "messageProcessingLoop") {
			c.mu.Lock()
			c.lines[f.Line]++
			c.mu.Unlock()
			break
		}
		if !more {
			break
		}
	}
	return nil
}

func (c *c17SealSites) report(rep *kit.Report) {
	c.mu.Lock()
	defer c.mu.Unlock()
	var ls []int
	for l := range c.lines {
		ls = append(ls, l)
	}
	sort.Ints(ls)
	for _, l := range ls {
		rep.Count(fmt.Sprintf("seal_calls_at_partition.go:%d", l), c.lines[l])
	}
	rep.Max("seal_call_sites_reached", int64(len(ls)))
}

// c17SegmentFiles returns name -> content of the partition's files.
func c17SegmentFiles(dataDir, stream string) (map[string][]byte, error) {
	dir := filepath.Join(dataDir, "streams", stream, "0")
	ents, err := os.ReadDir(dir)
	if err != nil {
		return nil, err
	}
	out := map[string][]byte{}
	for _, e := range ents {
		if e.IsDir() {
			continue
		}
		b, err := os.ReadFile(filepath.Join(dir, e.Name()))
		if err != nil {
			return nil, err
		}
		out[filepath.Join(dir, e.Name())] = b
	}
	return out, nil
}

func c17WaitLeader(c *vfCluster, stream string) error {
	if _, err := c.MetaLeader(30 * time.Second); err != nil {
		return err
	}
	_, err := c.PartitionLeader(stream, 0, 30*time.Second)
	return err
}

func c17Hex(b []byte) string {
	if len(b) > 96 {
		return hex.EncodeToString(b[:96]) + fmt.Sprintf("...(%d bytes)", len(b))
	}
	return hex.EncodeToString(b)
}

// c17CheckDelivery compares subscriber output with what was published.
func c17CheckDelivery(rep *kit.Report, phase string, g c17Got, vals []c17Val, replay map[string]any) bool {
	if g.Timeout {
		rep.Inconc(fmt.Sprintf("watchdog: subscriber received %d of %d messages (%s)", len(g.Vals), len(vals), phase))
		return false
	}
	if g.Err != nil {
		r := c17With(replay, "phase", phase, "received", len(g.Vals), "status", g.Err.Message())
		rep.Violation("C17:subscriber-error:"+phase, fmt.Sprintf("subscriber of an encrypted stream got an error after %d of %d messages (%s): %s", len(g.Vals), len(vals), phase, g.Err.Message()), r)
		return false
	}
	ok := true
	for i := range vals {
		if g.Offs[i] != int64(i) {
			rep.Violation("C17:subscriber-offset:"+phase, fmt.Sprintf("message %d delivered with offset %d", i, g.Offs[i]), c17With(replay, "phase", phase))
			ok = false
			break
		}
		if !bytes.Equal(g.Vals[i], vals[i].V) {
			rep.Violation("C17:subscriber-value-mismatch:"+phase, fmt.Sprintf("offset %d: subscriber received %d bytes that differ from the %d-byte %s value published (%s)", i, len(g.Vals[i]), len(vals[i].V), vals[i].Class, phase),
				c17With(replay, "phase", phase, "offset", i, "published_hex", c17Hex(vals[i].V), "received_hex", c17Hex(g.Vals[i])))
			ok = false
			break
		}
	}
	return ok
}

func c17With(m map[string]any, kv ...any) map[string]any {
	out := map[string]any{}
	for k, v := range m {
		out[k] = v
	}
	for i := 0; i+1 < len(kv); i += 2 {
		out[fmt.Sprint(kv[i])] = kv[i+1]
	}
	return out
}

// c17ScanStored checks the stored message values and the raw segment files.
func c17ScanStored(rep *kit.Report, c *vfCluster, srv *Server, stream string, vals []c17Val, replay map[string]any) bool {
	p := c.Nodes["a"].Partition(stream, 0)
	if p == nil {
		rep.Inconc("partition object not found for the stored-form scan")
		return false
	}
	recs, err := vfReadLog(p.log, 0, true)
	if err != nil || len(recs) != len(vals) {
		rep.Inconc(fmt.Sprintf("stored-form scan: read %d of %d records (err=%v)", len(recs), len(vals), err))
		return false
	}
	ok := true
	for i, r := range recs {
		v := vals[i].V
		rep.Count("stored_values_scanned", 1)
		if bytes.Equal(r.Value, v) {
			ok = false
			rep.Violation("C17:stored-equals-plaintext", fmt.Sprintf("offset %d of the encrypted stream stores the %d-byte value unchanged", i, len(v)), c17With(replay, "offset", i, "value_hex", c17Hex(v)))
		} else if len(v) >= 8 && bytes.Contains(r.Value, v) {
			ok = false
			rep.Violation("C17:stored-contains-plaintext", fmt.Sprintf("offset %d: the stored value (%d bytes) contains the %d-byte published value in clear at byte %d", i, len(r.Value), len(v), bytes.Index(r.Value, v)), c17With(replay, "offset", i, "value_hex", c17Hex(v), "stored_hex", c17Hex(r.Value)))
		}
	}
	files, err := c17SegmentFiles(c.Nodes["a"].Cfg.DataDir, stream)
	if err != nil {
		rep.Inconc("cannot read the segment files: " + err.Error())
		return false
	}
	var logBytes int64
	nlog := 0
	for name, b := range files {
		if strings.HasSuffix(name, ".log") {
			nlog++
			logBytes += int64(len(b))
		}
	}
	var need int64
	for _, v := range vals {
		need += int64(len(v.V))
	}
	if nlog == 0 || logBytes < need {
		rep.Inconc(fmt.Sprintf("segment files hold %d bytes in %d .log files, less than the %d bytes published: raw scan not meaningful", logBytes, nlog, need))
		return false
	}
	rep.Max("segment_log_files", int64(nlog))
	rep.Count("segment_bytes_scanned", logBytes)
	for i, v := range vals {
		if !v.Needle {
			continue
		}
		rep.Count("needles_searched_in_raw_files", 1)
		for name, b := range files {
			if at := bytes.Index(b, v.V); at >= 0 {
				ok = false
				rep.Violation("C17:segment-file-contains-plaintext", fmt.Sprintf("the %d-byte value published at offset %d is in clear in %s at byte %d", len(v.V), i, filepath.Base(name), at),
					c17With(replay, "offset", i, "value_hex", c17Hex(v.V), "file", name, "at", at))
				break
			}
		}
	}
	return ok
}

func TestVerifC17Server(t *testing.T) {
	rep := kit.NewReport("C17", "server")
	defer rep.Write()
	rep.SetRule("single-node server, encrypted stream enabled (a) per CreateStream request and (b) by streams.encryption in the server config (there with batch.max.time set, so that all three Seal call sites of the leader's batching loop are used; publishes are issued 8 at a time), master key of 16 or 32 bytes in LIFTBRIDGE_ENCRYPTION_KEY; seeded values (empty, 1..7 bytes, 8 bytes .. 64 KiB, random / constant / structured text) published through the API; a subscriber from the earliest offset must receive exactly the published values; every stored message value and every file of the partition directory is searched for the values; then restart (new data key) -> same output, more publishes, restart under a different master key -> error and no data.  A plain (unencrypted) control stream must show its needles in the raw files (proves the scanner sees plaintext).  non-trivial = message published, delivered identically and its stored form scanned; distinct = route x phase x content class x length class")
	rep.Assume("raw segment files are searched only for values that are >= 8 bytes and high-entropy (random bytes / text with random tokens): constant values such as 8 zero bytes legitimately occur in the message framing (offsets, sizes); such values are still compared with the stored value field")
	rep.Assume("keys and headers are stored in clear by design (documentation: 'encryption of messages' values'); only values carry needles")
	root := kit.NewRNG(kit.Mix(kit.Seed(), 0xC175))
	runs := kit.Scale(4, 24)
	perRun := kit.Scale(60, 300)
	after := kit.Scale(20, 60)
	sites := &c17SealSites{lines: map[int]int64{}}
	defer vfHooks.On("partition.seal", sites.hook)()
	defer sites.report(rep)
	for run := 0; run < runs; run++ {
		rng := root.Fork(uint64(run))
		route := []string{"request", "config"}[run%2]
		keyLen := []int{16, 32}[(run/2+int(kit.Seed()))%2]
		if run%2 == 1 {
			keyLen = 48 - keyLen
		}
		key := c17PrintableKey(rng, keyLen)
		os.Setenv(c17KeyEnv, key)
		replay := map[string]any{"run": run, "route": route, "master_key": key, "seed": kit.Seed()}
		c, srv, err := vfSingle(fmt.Sprintf("c17-%d", run), func(cfg *Config) {
			if route == "config" {
				cfg.Streams.Encryption = true
				// batch.max.time > 0 selects the third Seal call site (batch
				// fill while waiting for the batch timer)
				cfg.BatchMaxTime = 3 * time.Millisecond
			}
		})
		if err != nil {
			rep.Inconc("server did not start: " + err.Error())
			continue
		}
		func() {
			defer c.Cleanup()
			stream := fmt.Sprintf("c17enc%d", run)
			req := &client.CreateStreamRequest{Subject: stream, Name: stream, ReplicationFactor: 1,
				SegmentMaxBytes: &client.NullableInt64{Value: 256 * 1024}}
			if route == "request" {
				req.Encryption = &client.NullableBool{Value: true}
			}
			if err := c.CreateStream(req); err != nil {
				if c17CreateNoVerdict(err) {
					rep.Inconc(fmt.Sprintf("run %d: creating the stream got no verdict: %v", run, err))
					return
				}
				rep.Violation("C17:create-encrypted-stream-failed", "creating an encrypted stream with a valid master key failed: "+err.Error(), replay)
				return
			}
			if err := c17WaitLeader(c, stream); err != nil {
				rep.Inconc(err.Error())
				return
			}
			if p := c.Nodes["a"].Partition(stream, 0); p == nil || p.encryptionHandler == nil {
				rep.Violation("C17:stream-not-encrypted:"+route, "stream requested as encrypted has no encryption handler (values would be stored in clear)", replay)
				return
			}
			vals := c17ServerValues(rng, perRun)
			// the 24 fixed values one at a time, the rest with 8 publishers in flight
			for i, v := range vals[:24] {
				off, err := c17Publish(srv, stream, v.V)
				if err != nil {
					if strings.HasPrefix(err.Error(), "inconclusive") {
						rep.Inconc(fmt.Sprintf("run %d: %v", run, err))
					} else {
						rep.Violation("C17:publish-failed", fmt.Sprintf("publish of a %d-byte %s value to the encrypted stream failed: %v", len(v.V), v.Class, err), c17With(replay, "index", i))
					}
					return
				}
				if off != int64(i) {
					rep.Inconc(fmt.Sprintf("ack offset %d for message %d", off, i))
					return
				}
			}
			rest, err := c17PublishAll(srv, stream, 24, vals[24:], 8)
			if err != nil {
				if strings.HasPrefix(err.Error(), "inconclusive") {
					rep.Inconc(err.Error())
				} else {
					rep.Violation("C17:publish-failed", err.Error(), replay)
				}
				return
			}
			vals = append(append([]c17Val(nil), vals[:24]...), rest...)
			rep.Count("messages_published", int64(len(vals)))
			// stored forms first: if a value is stored in clear, subscribing
			// would hand plaintext to Read (undefined input for it), so the run
			// ends with the scan's verdict
			scanned := c17ScanStored(rep, c, srv, stream, vals, replay)
			if !scanned && rep.NumViolations() > 0 {
				for range vals {
					rep.Eval()
				}
				return
			}
			g := c17Collect(srv, stream, len(vals), 90*time.Second)
			delivered := c17CheckDelivery(rep, "live", g, vals, replay)
			mark := func(phase string, list []c17Val, from, to int) {
				for i := from; i < to; i++ {
					rep.Eval()
					rep.Nontrivial(fmt.Sprintf("%s|%s|%s|%s", route, phase, list[i].Class, c17LenClassS(len(list[i].V))))
				}
			}
			if delivered && scanned {
				mark("live", vals, 0, len(vals))
				rep.Count("messages_delivered_identically", int64(len(vals)))
			} else {
				for range vals {
					rep.Eval()
				}
			}
			if run == 0 {
				rep.Sample(map[string]any{"route": route, "master_key_len": keyLen, "messages": len(vals), "delivered_ok": delivered, "stored_scan_ok": scanned, "first_values": []string{c17Hex(vals[0].V), c17Hex(vals[4].V)}})
			}

			// control: an unencrypted stream must show its needles in the files
			// (only meaningful on the request route; with streams.encryption
			// every stream is encrypted)
			if route == "request" {
				plain := fmt.Sprintf("c17plain%d", run)
				if err := c.CreateStream(&client.CreateStreamRequest{Subject: plain, Name: plain, ReplicationFactor: 1}); err == nil && c17WaitLeader(c, plain) == nil {
					found := 0
					var needles [][]byte
					for i := 0; i < 4; i++ {
						n := rng.Bytes(24)
						needles = append(needles, n)
						c17Publish(srv, plain, n)
					}
					if files, err := c17SegmentFiles(c.Nodes["a"].Cfg.DataDir, plain); err == nil {
						for _, n := range needles {
							for _, b := range files {
								if bytes.Contains(b, n) {
									found++
									break
								}
							}
						}
					}
					rep.Count("control_plain_needles_found_in_files", int64(found))
					if found != len(needles) {
						rep.Inconc(fmt.Sprintf("control: only %d of %d needles of an UNencrypted stream were found in its segment files — the raw scan would not see plaintext", found, len(needles)))
					}
				}
			}

			// restart: new handler, new data key, same master key
			if err := c.StopNode("a"); err != nil {
				rep.Inconc("stop failed: " + err.Error())
				return
			}
			if err := c.StartNode("a"); err != nil {
				rep.Inconc("restart failed: " + err.Error())
				return
			}
			srv = c.Nodes["a"].Srv
			if err := c17WaitLeader(c, stream); err != nil {
				rep.Inconc(err.Error())
				return
			}
			g = c17Collect(srv, stream, len(vals), 90*time.Second)
			if c17CheckDelivery(rep, "after-restart", g, vals, replay) {
				mark("after-restart", vals, 0, len(vals))
				rep.Count("messages_delivered_identically_after_restart", int64(len(vals)))
			}
			more := c17ServerValues(rng.Fork(99), after+24)[24:]
			more, err = c17PublishAll(srv, stream, len(vals), more, 8)
			if err != nil {
				if strings.HasPrefix(err.Error(), "inconclusive") {
					rep.Inconc(err.Error())
				} else {
					rep.Violation("C17:publish-failed", "after restart: "+err.Error(), replay)
				}
				return
			}
			all := append(append([]c17Val(nil), vals...), more...)
			s2 := c17ScanStored(rep, c, srv, stream, all, replay)
			if !s2 && rep.NumViolations() > 0 {
				for range more {
					rep.Eval()
				}
				return
			}
			g = c17Collect(srv, stream, len(all), 90*time.Second)
			d2 := c17CheckDelivery(rep, "mixed-data-keys", g, all, replay)
			if d2 && s2 {
				mark("mixed-data-keys", all, len(vals), len(all))
			} else {
				for range more {
					rep.Eval()
				}
			}

			// restart under a different master key: error, never data
			if err := c.StopNode("a"); err != nil {
				rep.Inconc("stop failed: " + err.Error())
				return
			}
			other := c17PrintableKey(rng, 48-keyLen)
			if rng.Bool() {
				other = c17PrintableKey(rng, keyLen)
			}
			os.Setenv(c17KeyEnv, other)
			if err := c.StartNode("a"); err != nil {
				rep.Inconc("restart under another master key failed: " + err.Error())
				return
			}
			srv = c.Nodes["a"].Srv
			if err := c17WaitLeader(c, stream); err != nil {
				rep.Inconc(err.Error())
				return
			}
			rep.Eval()
			g = c17Collect(srv, stream, 1, 60*time.Second)
			switch {
			case g.Timeout:
				rep.Inconc("watchdog: subscriber under a foreign master key got neither data nor error")
			case len(g.Vals) > 0:
				same := "other bytes"
				if bytes.Equal(g.Vals[0], all[0].V) {
					same = "the original plaintext"
				}
				rep.Violation("C17:foreign-master-key-delivers-data", fmt.Sprintf("server restarted under a different master key delivered %d bytes (%s) for offset 0 instead of an error", len(g.Vals[0]), same), c17With(replay, "other_master_key", other))
			default:
				rep.Count("foreign_master_key_refused", 1)
				rep.Nontrivial(fmt.Sprintf("%s|foreign-key|%d->%d", route, keyLen, len(other)))
			}
		}()
	}
	os.Unsetenv(c17KeyEnv)
}

// ---------------------------------------------------------------- tampered log

type c17TamperSpec struct {
	Kind   string `json:"kind"` // region to corrupt
	Pos    int    `json:"pos"`  // position inside the stored form (resolved by the child for named kinds)
	Val    int    `json:"val"`  // new byte value, -1 = xor 1
	Target int    `json:"target"`
	N      int    `json:"n"`
	Key    string `json:"key"`
	Seed   uint64 `json:"seed"`
	Out    string `json:"out"`
	Dir    string `json:"dir"`
}

type c17TamperResult struct {
	Stage     string `json:"stage"`
	Err       string `json:"err,omitempty"`
	Delivered int    `json:"delivered"`
	ValuesOK  bool   `json:"values_ok"`
	Status    string `json:"status,omitempty"`
	Timeout   bool   `json:"timeout"`
	StoredHex string `json:"stored_hex,omitempty"`
	TamperHex string `json:"tampered_hex,omitempty"`
	Pos       int    `json:"pos"`
	Old       int    `json:"old"`
	New       int    `json:"new"`
	GotHex    string `json:"got_hex,omitempty"`
}

func TestVerifC17ServerChild(t *testing.T) {
	sp := os.Getenv("VERIF_C17_SRV_CHILD")
	if sp == "" {
		t.Skip("child only")
	}
	var spec c17TamperSpec
	if err := json.Unmarshal([]byte(sp), &spec); err != nil {
		t.Fatal(err)
	}
	res := c17TamperResult{Stage: "start"}
	write := func() {
		b, _ := json.Marshal(res)
		os.WriteFile(spec.Out+".tmp", b, 0644)
		os.Rename(spec.Out+".tmp", spec.Out)
	}
	fail := func(stage string, err error) {
		res.Stage, res.Err = stage, err.Error()
		write()
	}
	os.Setenv("VERIF_WORK", spec.Dir)
	os.Setenv(c17KeyEnv, spec.Key)
	rng := kit.NewRNG(spec.Seed)
	c, srv, err := vfSingle("c17t", nil)
	if err != nil {
		fail("server-start", err)
		return
	}
	defer c.Cleanup()
	stream := "c17tamper"
	if err := c.CreateStream(&client.CreateStreamRequest{Subject: stream, Name: stream, ReplicationFactor: 1, Encryption: &client.NullableBool{Value: true}}); err != nil {
		fail("create", err)
		return
	}
	if err := c17WaitLeader(c, stream); err != nil {
		fail("leader", err)
		return
	}
	var vals [][]byte
	for i := 0; i < spec.N; i++ {
		v := rng.Bytes(rng.Range(20, 80))
		vals = append(vals, v)
		if _, err := c17Publish(srv, stream, v); err != nil {
			fail("publish", err)
			return
		}
	}
	recs, err := vfReadLog(c.Nodes["a"].Partition(stream, 0).log, 0, true)
	if err != nil || len(recs) != spec.N {
		fail("readlog", fmt.Errorf("%d records, err=%v", len(recs), err))
		return
	}
	g := c17Collect(srv, stream, spec.N, 60*time.Second)
	if g.Timeout || g.Err != nil || len(g.Vals) != spec.N {
		fail("control-subscribe", fmt.Errorf("untampered log: %d messages, timeout=%v err=%v", len(g.Vals), g.Timeout, g.Err))
		return
	}
	stored := recs[spec.Target].Value
	res.StoredHex = hex.EncodeToString(stored)
	if err := c.StopNode("a"); err != nil {
		fail("stop", err)
		return
	}
	// corrupt one byte of the stored form in the segment file
	ks := int(stored[0])
	pos := spec.Pos
	switch spec.Kind {
	case "keysize":
		pos = 0
	case "wrappedkey":
		pos = 1 + spec.Pos%ks
	case "nonce":
		pos = ks + 1 + spec.Pos%12
	case "ciphertext":
		pos = ks + 13 + spec.Pos%(len(stored)-ks-13-16)
	case "tag":
		pos = len(stored) - 16 + spec.Pos%16
	}
	newv := spec.Val
	if newv < 0 || byte(newv) == stored[pos] {
		newv = int(stored[pos]) ^ 1
	}
	res.Pos, res.Old, res.New = pos, int(stored[pos]), newv
	files, err := c17SegmentFiles(c.Nodes["a"].Cfg.DataDir, stream)
	if err != nil {
		fail("files", err)
		return
	}
	patched := false
	for name, b := range files {
		if !strings.HasSuffix(name, ".log") {
			continue
		}
		if at := bytes.Index(b, stored); at >= 0 {
			b[at+pos] = byte(newv)
			// Re-seal the frame with a fresh CRC-32C, as anyone rewriting the
			// file would: frame = offset(8) timestamp(8) epoch(8) size(4) |
			// message = crc(4) rest...; the checksum covers message[4:].
			fixed := false
			for fp := 0; fp+28 <= len(b); {
				sz := int(binary.BigEndian.Uint32(b[fp+24:]))
				ms, me := fp+28, fp+28+sz
				if sz < 4 || me > len(b) {
					break
				}
				if at >= ms && at+len(stored) <= me {
					binary.BigEndian.PutUint32(b[ms:], crc32.Checksum(b[ms+4:me], crc32.MakeTable(crc32.Castagnoli)))
					fixed = true
					break
				}
				fp = me
			}
			if !fixed {
				fail("patch", fmt.Errorf("frame of the stored form not found"))
				return
			}
			if err := os.WriteFile(name, b, 0644); err != nil {
				fail("patch", err)
				return
			}
			patched = true
		}
	}
	if !patched {
		fail("patch", fmt.Errorf("stored form not found in the segment files"))
		return
	}
	t2 := append([]byte(nil), stored...)
	t2[pos] = byte(newv)
	res.TamperHex = hex.EncodeToString(t2)
	res.Stage = "restarting"
	write()
	if err := c.StartNode("a"); err != nil {
		fail("restart", err)
		return
	}
	srv = c.Nodes["a"].Srv
	if err := c17WaitLeader(c, stream); err != nil {
		fail("leader2", err)
		return
	}
	res.Stage = "subscribing"
	write()
	g = c17Collect(srv, stream, spec.N, 60*time.Second)
	res.Stage = "done"
	res.Delivered = len(g.Vals)
	res.Timeout = g.Timeout
	if g.Err != nil {
		res.Status = g.Err.Message()
	}
	res.ValuesOK = true
	for i, v := range g.Vals {
		if !bytes.Equal(v, vals[i]) {
			res.ValuesOK = false
		}
	}
	if len(g.Vals) > spec.Target {
		res.GotHex = hex.EncodeToString(g.Vals[spec.Target])
	}
	write()
}

var c17SrvFrameRe = regexp.MustCompile(`(?m)^(\S*liftbridge/server\S*)\(.*\)\n\t(\S+\.go):(\d+)`)

func TestVerifC17ServerTamper(t *testing.T) {
	rep := kit.NewReport("C17", "server-tamper")
	defer rep.Write()
	rep.SetRule("child process per case: single-node server, encrypted stream, N random values published and read back (control), server stopped, ONE byte of the stored form of message k changed in the .log file and the frame CRC recomputed (regions: key size, wrapped key, nonce, ciphertext, tag; seeded positions/values), server restarted, subscriber from the earliest offset.  Oracle: messages before k are delivered unchanged, then an error status — message k delivered as data, or the server process dying, is a violation.  non-trivial = control passed and the corrupted byte was written; distinct = region x new-value class")
	rep.Assume("the corrupted frame gets a recomputed CRC-32C (the checksum is not a secret, anyone rewriting the file can do that); a corruption WITHOUT a matching CRC never reaches the encryption layer: commitlog.readMessage panics on purpose ('data on disk is corrupted ... unrecoverable state') — that policy of the commit log is not judged by this property")
	self := os.Getenv("VERIF_SELF")
	if self == "" {
		self, _ = os.Executable()
	}
	work := os.Getenv("VERIF_WORK")
	if work == "" {
		work = os.TempDir()
	}
	dir, err := os.MkdirTemp(work, "c17-srvtamper-")
	if err != nil {
		rep.Inconc(err.Error())
		return
	}
	defer os.RemoveAll(dir)
	rng := kit.NewRNG(kit.Mix(kit.Seed(), 0xC17B))
	var specs []c17TamperSpec
	add := func(kind string, pos, val int) {
		keyLen := []int{16, 32}[len(specs)%2]
		specs = append(specs, c17TamperSpec{Kind: kind, Pos: pos, Val: val, N: 4, Target: 1 + len(specs)%3, Key: c17PrintableKey(rng, keyLen), Seed: rng.Uint64()})
	}
	add("keysize", 0, 0xff) // larger than the form
	add("keysize", 0, 0)    // zero-length wrapped key
	add("keysize", 0, 41)   // one more than the real size
	add("wrappedkey", rng.Intn(1000), -1)
	add("nonce", rng.Intn(1000), -1)
	add("ciphertext", rng.Intn(1000), -1)
	add("tag", rng.Intn(1000), -1)
	regions := []string{"keysize", "wrappedkey", "nonce", "ciphertext", "tag"}
	for i := 0; i < kit.Scale(13, 190); i++ {
		add(regions[rng.Intn(len(regions))], rng.Intn(1000), rng.Intn(256))
	}
	var mu sync.Mutex
	nsample := 0
	kit.Parallel(len(specs), 4, func(i int) {
		spec := specs[i]
		spec.Out = filepath.Join(dir, fmt.Sprintf("case%03d.json", i))
		spec.Dir = filepath.Join(dir, fmt.Sprintf("case%03d", i))
		os.MkdirAll(spec.Dir, 0755)
		sb, _ := json.Marshal(spec)
		cmd := exec.Command(self, "-test.run", "^TestVerifC17ServerChild$", "-test.count", "1", "-test.timeout", "10m")
		cmd.Env = append(os.Environ(), "VERIF_C17_SRV_CHILD="+string(sb), "VERIF_OUT="+filepath.Join(spec.Dir, "ignored.json"))
		var ob bytes.Buffer
		cmd.Stdout, cmd.Stderr = &ob, &ob
		if err := cmd.Start(); err != nil {
			rep.Inconc("cannot start child: " + err.Error())
			return
		}
		timedOut := false
		timer := time.AfterFunc(8*time.Minute, func() { timedOut = true; cmd.Process.Kill() })
		werr := cmd.Wait()
		timer.Stop()
		rep.Eval()
		var res c17TamperResult
		if b, err := os.ReadFile(spec.Out); err == nil {
			json.Unmarshal(b, &res)
		}
		os.RemoveAll(spec.Dir)
		valClass := "flip"
		if res.Pos == 0 && res.Stage != "" && res.StoredHex != "" {
			switch {
			case res.New > res.Old && res.New >= len(res.StoredHex)/2:
				valClass = "keysize>len"
			case res.New > res.Old:
				valClass = "keysize-larger"
			default:
				valClass = "keysize-smaller"
			}
		}
		replay := map[string]any{"master_key": spec.Key, "case_seed": spec.Seed, "messages": spec.N, "tampered_message_offset": spec.Target, "region": spec.Kind,
			"byte_pos_in_stored_form": res.Pos, "old": res.Old, "new": res.New, "stored_form_hex": res.StoredHex, "tampered_form_hex": res.TamperHex}
		out := ob.String()
		switch {
		case timedOut:
			rep.Inconc(fmt.Sprintf("watchdog: tamper child %d (%s) did not finish", i, spec.Kind))
			return
		case res.Stage == "done":
			rep.Count("children_completed", 1)
		case res.Stage == "restarting" || res.Stage == "subscribing":
			// died after the corruption was in place
			if m := regexp.MustCompile(`(?m)^(panic: .*|fatal error: .*)$`).FindString(out); m != "" {
				fn := "?"
				if fm := c17SrvFrameRe.FindStringSubmatch(out[strings.Index(out, m):]); fm != nil {
					fn = fm[1][strings.LastIndex(fm[1], "/")+1:]
					fn = strings.NewReplacer("(*", "", ")", "").Replace(fn)
				}
				rep.Count("server_process_crashes", 1)
				replay["crash"] = m
				replay["child_output_tail"] = c17TailS(out, 3000)
				rep.Nontrivial(fmt.Sprintf("%s|%s", spec.Kind, valClass))
				rep.Violation(fmt.Sprintf("C17:server-crash:%s:%s", fn, valClass),
					fmt.Sprintf("the server process died (%s, first server frame %s) when a subscriber reached a message whose stored form had one corrupted byte (%s, byte %d: %02x->%02x)", m, fn, spec.Kind, res.Pos, res.Old, res.New), replay)
				return
			}
			rep.Inconc(fmt.Sprintf("tamper child %d died at stage %s without a panic message (wait: %v): %s", i, res.Stage, werr, c17TailS(out, 400)))
			return
		default:
			rep.Inconc(fmt.Sprintf("tamper child %d did not reach the corruption step (stage %q, err %q, wait %v): %s", i, res.Stage, res.Err, werr, c17TailS(out, 400)))
			return
		}
		rep.Nontrivial(fmt.Sprintf("%s|%s", spec.Kind, valClass))
		mu.Lock()
		if nsample < 4 {
			nsample++
			rep.Sample(map[string]any{"region": spec.Kind, "byte": res.Pos, "old": res.Old, "new": res.New, "tampered_offset": spec.Target, "delivered_before_error": res.Delivered, "status": res.Status})
		}
		mu.Unlock()
		replay["delivered"] = res.Delivered
		replay["status"] = res.Status
		switch {
		case res.Timeout:
			rep.Inconc(fmt.Sprintf("watchdog: subscriber on the corrupted log got %d messages and no error", res.Delivered))
		case res.Delivered > spec.Target:
			replay["delivered_for_tampered_hex"] = res.GotHex
			rep.Violation("C17:server-delivers-tampered:"+spec.Kind, fmt.Sprintf("subscriber received data for offset %d although its stored form had a corrupted byte (%s, byte %d: %02x->%02x)", spec.Target, spec.Kind, res.Pos, res.Old, res.New), replay)
		case !res.ValuesOK:
			rep.Violation("C17:server-corrupts-untampered", "messages before the corrupted one were delivered with wrong values", replay)
		case res.Delivered < spec.Target:
			rep.Violation("C17:server-error-before-tampered", fmt.Sprintf("subscriber got an error after %d messages, before the corrupted offset %d: %s", res.Delivered, spec.Target, res.Status), replay)
		case res.Status == "":
			rep.Inconc("subscriber ended without data and without status")
		default:
			rep.Count("tampered_message_refused_with_error", 1)
		}
	})
}

func c17TailS(s string, n int) string {
	if len(s) > n {
		return s[len(s)-n:]
	}
	return s
}
