//go:build verif

package server

// C06 — cluster metadata is a deterministic, restart-stable state machine.
//
// Level 1 (volume): never-started Server objects whose id is in no replica set
// (so no NATS / Raft is needed) receive seeded VALID histories of metadata
// operations through the real Server.apply, with Raft indexes as epochs.
//   * determinism: two servers applying the same history have equal state
//     digests after every step (and a third one on which the asynchronous
//     "stream deleted" notification of the consumer groups is scheduled one
//     operation late has the same final digest);
//   * snapshot+replay: for EVERY split k, Snapshot()+Persist() taken after k
//     operations is Restore()d into a fresh server on a copy of the data
//     directory as it is at the end of the history, the suffix is replayed with
//     the recovered flag exactly as Server.Apply sets it, finishedRecovery runs;
//     the digest must equal the uninterrupted server's, marker messages of
//     streams that exist at the end must still be in their directories, streams
//     deleted at the end must have neither a metadata entry nor a directory;
//     a few more operations are then applied to both and compared again;
//   * concurrent: Persist of a snapshot runs in another goroutine while further
//     operations are applied (the schedule hashicorp/raft produces) under the
//     race detector; a deterministic "late Persist" variant checks that what is
//     persisted is still the state at the snapshot index.
// Level 2 (realism): single-node servers with real Raft / BoltDB / file
// snapshots run the same kind of histories through the metadata API, force
// raft.Snapshot() at seeded positions and are stopped / restarted on the same
// data directory; digest after restart must equal the digest before the stop.

import (
	"bytes"
	"context"
	"fmt"
	"io"
	"math"
	"os"
	"path/filepath"
	"runtime"
	"sort"
	"strconv"
	"strings"
	"sync"
	"sync/atomic"
	"testing"
	"time"

	client "github.com/liftbridge-io/liftbridge-api/v2/go"

	kit "github.com/liftbridge-io/liftbridge/internal/verifkit"
	"github.com/liftbridge-io/liftbridge/server/commitlog"
	proto "github.com/liftbridge-io/liftbridge/server/protocol"
)

// ---------------------------------------------------------------- model

var (
	c06Brokers  = []string{"b1", "b2", "b3", "b4"}
	c06Streams  = []string{"s1", "s2", "s3"}
	c06GroupIDs = []string{"g1", "g2"}
	c06Cons     = []string{"c1", "c2", "c3"}
)

type c06MPart struct {
	Replicas    []string
	ISR         map[string]bool
	Leader      string
	LeaderEpoch uint64
	Paused      bool
	Readonly    bool
	Markers     []string // marker values appended to the current incarnation
}

type c06MStream struct {
	Name  string
	Parts []*c06MPart
	Inc   int
}

type c06MGroup struct {
	Members map[string][]string
	Coord   string
}

type c06Model struct {
	Streams map[string]*c06MStream
	Groups  map[string]*c06MGroup
	incs    map[string]int
	// Level 2 only: the stream of this name is created through the gRPC-level
	// API of the running server, so its only replica / leader is that server.
	apiStream, local string
	lastKind         string
	// "redundant" units only (c06_redundant_test.go): real is the server that
	// has applied every operation generated so far; before each draw the model's
	// partition and group state is re-read from it, and redundantPct percent of
	// the draws are operations that are redundant / no-ops / ill-timed in the
	// state reached but that the REAL precondition function still lets through.
	real         *Server
	redundantPct int
	redStats     func(kind string, accepted bool)
	follow       *c06Follow // the ordinary inverse of the last accepted redundant operation, still to be drawn
	// "volatile" units only (c06_volatile_test.go): streams get 3..5 replicas out
	// of five brokers (so that one or two leader reports stay below the quorum)
	// and three fifths of the draws are ISR / leader / pause / resume / read-only
	// operations (focus 1) resp. consumer-group operations (focus 2).
	focus int
}

func newC06Model() *c06Model {
	return &c06Model{Streams: map[string]*c06MStream{}, Groups: map[string]*c06MGroup{}, incs: map[string]int{}}
}

// c06Op is one committed metadata operation (a Raft log entry).
type c06Op struct {
	Kind   string
	Index  uint64
	Desc   string
	Stream string
	Group  string
	// Redundant: drawn by genRedundant (accepted by the real precondition
	// function although it is a no-op / repeated / ill-timed in the state reached)
	Redundant bool
	data      []byte // marshalled proto.RaftLog, unmarshalled afresh for every apply (as Server.Apply does)
}

func c06MkOp(kind string, index uint64, desc string, l *proto.RaftLog) *c06Op {
	b, err := l.Marshal()
	if err != nil {
		panic(err)
	}
	return &c06Op{Kind: kind, Index: index, Desc: fmt.Sprintf("%s@%d", desc, index), data: b}
}

func c06Pick(rng *kit.RNG, xs []string) string { return xs[rng.Intn(len(xs))] }

func c06SortedKeysB(m map[string]bool) []string {
	out := make([]string, 0, len(m))
	for k, v := range m {
		if v {
			out = append(out, k)
		}
	}
	sort.Strings(out)
	return out
}

func (m *c06Model) streamNames() []string { return kit.SortedKeys(m.Streams) }
func (m *c06Model) groupNames() []string  { return kit.SortedKeys(m.Groups) }

func c06Subset(rng *kit.RNG, n int) []int32 {
	// a non-empty proper-or-full subset of partition ids, or nil meaning "all"
	if rng.Chance(1, 3) {
		return nil
	}
	var out []int32
	for i := 0; i < n; i++ {
		if rng.Bool() {
			out = append(out, int32(i))
		}
	}
	if len(out) == 0 {
		out = []int32{int32(rng.Intn(n))}
	}
	return out
}

func c06Configs(rng *kit.RNG) *proto.StreamConfig {
	switch rng.Intn(6) {
	case 0:
		return nil
	case 1:
		return &proto.StreamConfig{RetentionMaxMessages: &proto.NullableInt64{Value: int64(1000 + rng.Intn(50))}}
	case 2:
		return &proto.StreamConfig{MinIsr: &proto.NullableInt32{Value: 1}, CleanerInterval: &proto.NullableInt64{Value: 3600000}}
	case 3:
		return &proto.StreamConfig{AutoPauseDisableIfSubscribers: &proto.NullableBool{Value: true}, RetentionMaxBytes: &proto.NullableInt64{Value: 1 << 30}}
	}
	// a random subset of ALL the per-stream settings (every field of the
	// message must survive replay, snapshot and restart), values that keep the
	// partition inert during a scenario
	c := &proto.StreamConfig{}
	i64 := func(v int64) *proto.NullableInt64 { return &proto.NullableInt64{Value: v + int64(rng.Intn(7))} }
	for c.Size() == 0 {
		if rng.Chance(1, 3) {
			c.RetentionMaxBytes = i64(1 << 30)
		}
		if rng.Chance(1, 3) {
			c.RetentionMaxMessages = i64(100000)
		}
		if rng.Chance(1, 3) {
			c.RetentionMaxAge = i64(86400000)
		}
		if rng.Chance(1, 3) {
			c.CleanerInterval = i64(3600000)
		}
		if rng.Chance(1, 3) {
			c.SegmentMaxBytes = i64(1 << 20)
		}
		if rng.Chance(1, 3) {
			c.SegmentMaxAge = i64(86400000)
		}
		if rng.Chance(1, 3) {
			c.CompactMaxGoroutines = &proto.NullableInt32{Value: int32(1 + rng.Intn(4))}
		}
		if rng.Chance(1, 3) {
			c.CompactEnabled = &proto.NullableBool{Value: rng.Bool()}
		}
		if rng.Chance(1, 3) {
			c.AutoPauseTime = i64(86400000)
		}
		if rng.Chance(1, 3) {
			c.AutoPauseDisableIfSubscribers = &proto.NullableBool{Value: rng.Bool()}
		}
		if rng.Chance(1, 3) {
			c.MinIsr = &proto.NullableInt32{Value: 1}
		}
		if rng.Chance(1, 2) {
			c.OptimisticConcurrencyControl = &proto.NullableBool{Value: rng.Bool()}
		}
		if rng.Chance(1, 3) {
			c.Encryption = &proto.NullableBool{Value: false}
		}
	}
	return c
}

// gen produces the next VALID operation (one whose preconditions — the ones the
// metadata API checks before proposing — hold in the model) and applies it to
// the model.
func (m *c06Model) gen(rng *kit.RNG, index uint64) *c06Op {
	if m.real != nil {
		m.syncFromReal()
		if op := m.genFollowUp(rng, index); op != nil {
			m.lastKind = op.Kind
			return op
		}
		if rng.Intn(100) < m.redundantPct {
			if op := m.genRedundant(rng, index); op != nil {
				m.lastKind = op.Kind
				return op
			}
		}
	}
	op := m.gen0(rng, index)
	m.lastKind = op.Kind
	return op
}

func (m *c06Model) gen0(rng *kit.RNG, index uint64) *c06Op {
	for try := 0; try < 200; try++ {
		x := rng.Intn(100)
		if m.focus != 0 && len(m.Streams) > 0 && rng.Chance(3, 5) {
			switch {
			case m.focus == 2:
				x = 83 + rng.Intn(17) // group create / join / leave / coordinator change
			case rng.Chance(2, 3):
				x = 60 + rng.Intn(23) // shrink / expand / change leader
			default:
				x = 30 + rng.Intn(30) // pause / resume / read-only
			}
		}
		if m.lastKind == "delete" && len(m.Groups) > 0 && try == 0 && rng.Chance(1, 2) {
			x = 83 + rng.Intn(17) // a group operation right after a delete (it can overtake the async group notification)
		}
		switch {
		case x < 18: // create (incl. re-create of a deleted name)
			var free []string
			for _, n := range c06Streams {
				if m.Streams[n] == nil {
					free = append(free, n)
				}
			}
			if len(free) == 0 {
				continue
			}
			name := c06Pick(rng, free)
			nparts := rng.Range(1, 2)
			if rng.Chance(1, 5) {
				nparts = 3
			}
			ms := &c06MStream{Name: name}
			m.incs[name]++
			ms.Inc = m.incs[name]
			ps := &proto.Stream{Name: name, Subject: "subj." + name + fmt.Sprint(ms.Inc%2), Config: c06Configs(rng),
				CreationTimestamp: int64(1600000000000000000) + int64(index)*1000}
			rf := 0
			for p := 0; p < nparts; p++ {
				perm := append([]string(nil), c06Brokers...)
				if m.focus != 0 {
					perm = append(perm, "b5")
				}
				for i := len(perm) - 1; i > 0; i-- {
					j := rng.Intn(i + 1)
					perm[i], perm[j] = perm[j], perm[i]
				}
				rf = rng.Range(1, 3)
				if m.focus != 0 {
					rf = rng.Range(3, 5)
				}
				reps := perm[:rf]
				if name == m.apiStream {
					rf, reps = 1, []string{m.local}
				}
				mp := &c06MPart{Replicas: append([]string(nil), reps...), ISR: map[string]bool{}, Leader: reps[0], LeaderEpoch: index}
				for _, r := range reps {
					mp.ISR[r] = true
				}
				ms.Parts = append(ms.Parts, mp)
				subj := ps.Subject
				if p > 0 {
					subj = fmt.Sprintf("%s.%d", ps.Subject, p)
				}
				ps.Partitions = append(ps.Partitions, &proto.Partition{Subject: subj, Stream: name, Id: int32(p),
					ReplicationFactor: int32(rf), Replicas: append([]string(nil), reps...), Isr: append([]string(nil), reps...), Leader: reps[0]})
			}
			m.Streams[name] = ms
			op := c06MkOp("create", index, fmt.Sprintf("create(%s#%d,p=%d,rf=%d)", name, ms.Inc, nparts, rf),
				&proto.RaftLog{Op: proto.Op_CREATE_STREAM, CreateStreamOp: &proto.CreateStreamOp{Stream: ps}})
			op.Stream = name
			return op
		case x < 30: // delete
			names := m.streamNames()
			if len(names) == 0 {
				continue
			}
			name := c06Pick(rng, names)
			delete(m.Streams, name)
			for _, g := range m.Groups {
				for c, ss := range g.Members {
					var keep []string
					for _, s := range ss {
						if s != name {
							keep = append(keep, s)
						}
					}
					g.Members[c] = keep
				}
			}
			op := c06MkOp("delete", index, fmt.Sprintf("delete(%s)", name),
				&proto.RaftLog{Op: proto.Op_DELETE_STREAM, DeleteStreamOp: &proto.DeleteStreamOp{Stream: name}})
			op.Stream = name
			return op
		case x < 40: // pause
			names := m.streamNames()
			if len(names) == 0 {
				continue
			}
			name := c06Pick(rng, names)
			ms := m.Streams[name]
			parts := c06Subset(rng, len(ms.Parts))
			ra := rng.Bool()
			if parts == nil {
				for _, p := range ms.Parts {
					p.Paused = true
				}
			} else {
				for _, id := range parts {
					ms.Parts[id].Paused = true
				}
			}
			op := c06MkOp("pause", index, fmt.Sprintf("pause(%s,%v,resumeAll=%v)", name, parts, ra),
				&proto.RaftLog{Op: proto.Op_PAUSE_STREAM, PauseStreamOp: &proto.PauseStreamOp{Stream: name, Partitions: parts, ResumeAll: ra}})
			op.Stream = name
			return op
		case x < 50: // resume (the API proposes the paused partitions; an already resumed one is a no-op)
			var cands []string
			for _, n := range m.streamNames() {
				for _, p := range m.Streams[n].Parts {
					if p.Paused {
						cands = append(cands, n)
						break
					}
				}
			}
			if len(cands) == 0 {
				continue
			}
			name := c06Pick(rng, cands)
			ms := m.Streams[name]
			var parts []int32
			for i, p := range ms.Parts {
				if p.Paused && (rng.Chance(2, 3) || len(parts) == 0) {
					parts = append(parts, int32(i))
				}
			}
			if rng.Chance(1, 6) { // a resume that also names a partition that is not paused (no-op for it)
				for i, p := range ms.Parts {
					if !p.Paused {
						parts = append(parts, int32(i))
						break
					}
				}
			}
			for _, id := range parts {
				ms.Parts[id].Paused = false
			}
			op := c06MkOp("resume", index, fmt.Sprintf("resume(%s,%v)", name, parts),
				&proto.RaftLog{Op: proto.Op_RESUME_STREAM, ResumeStreamOp: &proto.ResumeStreamOp{Stream: name, Partitions: parts}})
			op.Stream = name
			return op
		case x < 60: // read-only toggle
			names := m.streamNames()
			if len(names) == 0 {
				continue
			}
			name := c06Pick(rng, names)
			ms := m.Streams[name]
			parts := c06Subset(rng, len(ms.Parts))
			ro := rng.Chance(3, 5)
			if parts == nil {
				for _, p := range ms.Parts {
					p.Readonly = ro
				}
			} else {
				for _, id := range parts {
					ms.Parts[id].Readonly = ro
				}
			}
			op := c06MkOp("readonly", index, fmt.Sprintf("readonly(%s,%v,%v)", name, parts, ro),
				&proto.RaftLog{Op: proto.Op_SET_STREAM_READONLY, SetStreamReadonlyOp: &proto.SetStreamReadonlyOp{Stream: name, Partitions: parts, Readonly: ro}})
			op.Stream = name
			return op
		case x < 83: // shrink / expand / change leader on a running (not paused) partition
			type cand struct {
				s string
				p int
			}
			var cs []cand
			for _, n := range m.streamNames() {
				for i, p := range m.Streams[n].Parts {
					if !p.Paused && len(p.Replicas) > 1 {
						cs = append(cs, cand{n, i})
					}
				}
			}
			if len(cs) == 0 {
				continue
			}
			c := cs[rng.Intn(len(cs))]
			mp := m.Streams[c.s].Parts[c.p]
			isr := c06SortedKeysB(mp.ISR)
			switch {
			case x < 68: // shrink: a current ISR member that is not the leader, proposed with the current leader/epoch
				var f []string
				for _, r := range isr {
					if r != mp.Leader {
						f = append(f, r)
					}
				}
				if len(f) == 0 {
					continue
				}
				r := c06Pick(rng, f)
				delete(mp.ISR, r)
				op := c06MkOp("shrink", index, fmt.Sprintf("shrink(%s/%d,%s)", c.s, c.p, r),
					&proto.RaftLog{Op: proto.Op_SHRINK_ISR, ShrinkISROp: &proto.ShrinkISROp{Stream: c.s, Partition: int32(c.p),
						ReplicaToRemove: r, Leader: mp.Leader, LeaderEpoch: mp.LeaderEpoch}})
				op.Stream = c.s
				return op
			case x < 76: // expand: a replica that is currently outside the ISR
				var out []string
				for _, r := range mp.Replicas {
					if !mp.ISR[r] {
						out = append(out, r)
					}
				}
				if len(out) == 0 {
					continue
				}
				sort.Strings(out)
				r := c06Pick(rng, out)
				mp.ISR[r] = true
				op := c06MkOp("expand", index, fmt.Sprintf("expand(%s/%d,%s)", c.s, c.p, r),
					&proto.RaftLog{Op: proto.Op_EXPAND_ISR, ExpandISROp: &proto.ExpandISROp{Stream: c.s, Partition: int32(c.p),
						ReplicaToAdd: r, Leader: mp.Leader, LeaderEpoch: mp.LeaderEpoch}})
				op.Stream = c.s
				return op
			default: // change leader: an ISR member other than the current leader
				var f []string
				for _, r := range isr {
					if r != mp.Leader {
						f = append(f, r)
					}
				}
				if len(f) == 0 {
					continue
				}
				r := c06Pick(rng, f)
				mp.Leader, mp.LeaderEpoch = r, index
				op := c06MkOp("leader", index, fmt.Sprintf("leader(%s/%d,%s)", c.s, c.p, r),
					&proto.RaftLog{Op: proto.Op_CHANGE_LEADER, ChangeLeaderOp: &proto.ChangeLeaderOp{Stream: c.s, Partition: int32(c.p), Leader: r}})
				op.Stream = c.s
				return op
			}
		case x < 89: // create consumer group with its first member
			names := m.streamNames()
			if len(names) == 0 {
				continue
			}
			var free []string
			for _, g := range c06GroupIDs {
				if m.Groups[g] == nil {
					free = append(free, g)
				}
			}
			if len(free) == 0 {
				continue
			}
			g := c06Pick(rng, free)
			cons := c06Pick(rng, c06Cons)
			ss := c06StreamSubset(rng, names)
			coord := c06Pick(rng, c06Brokers)
			m.Groups[g] = &c06MGroup{Members: map[string][]string{cons: append([]string(nil), ss...)}, Coord: coord}
			op := c06MkOp("gcreate", index, fmt.Sprintf("gcreate(%s,%s,%v,coord=%s)", g, cons, ss, coord),
				&proto.RaftLog{Op: proto.Op_CREATE_CONSUMER_GROUP, CreateConsumerGroupOp: &proto.CreateConsumerGroupOp{
					ConsumerGroup: &proto.ConsumerGroup{Id: g, Coordinator: coord, Members: []*proto.Consumer{{Id: cons, Streams: ss}}}}})
			op.Group = g
			return op
		case x < 94: // join
			names := m.streamNames()
			gs := m.groupNames()
			if len(names) == 0 || len(gs) == 0 {
				continue
			}
			g := c06Pick(rng, gs)
			var free []string
			for _, c := range c06Cons {
				if _, ok := m.Groups[g].Members[c]; !ok {
					free = append(free, c)
				}
			}
			if len(free) == 0 {
				continue
			}
			cons := c06Pick(rng, free)
			ss := c06StreamSubset(rng, names)
			m.Groups[g].Members[cons] = append([]string(nil), ss...)
			op := c06MkOp("join", index, fmt.Sprintf("join(%s,%s,%v)", g, cons, ss),
				&proto.RaftLog{Op: proto.Op_JOIN_CONSUMER_GROUP, JoinConsumerGroupOp: &proto.JoinConsumerGroupOp{GroupId: g, ConsumerId: cons, Streams: ss}})
			op.Group = g
			return op
		case x < 98: // leave (the last member leaving deletes the group)
			gs := m.groupNames()
			if len(gs) == 0 {
				continue
			}
			g := c06Pick(rng, gs)
			cons := c06Pick(rng, kit.SortedKeys(m.Groups[g].Members))
			delete(m.Groups[g].Members, cons)
			if len(m.Groups[g].Members) == 0 {
				delete(m.Groups, g)
			}
			op := c06MkOp("leave", index, fmt.Sprintf("leave(%s,%s)", g, cons),
				&proto.RaftLog{Op: proto.Op_LEAVE_CONSUMER_GROUP, LeaveConsumerGroupOp: &proto.LeaveConsumerGroupOp{GroupId: g, ConsumerId: cons}})
			op.Group = g
			return op
		default: // change group coordinator
			gs := m.groupNames()
			if len(gs) == 0 {
				continue
			}
			g := c06Pick(rng, gs)
			var f []string
			for _, b := range c06Brokers {
				if b != m.Groups[g].Coord {
					f = append(f, b)
				}
			}
			coord := c06Pick(rng, f)
			m.Groups[g].Coord = coord
			op := c06MkOp("coord", index, fmt.Sprintf("coord(%s,%s)", g, coord),
				&proto.RaftLog{Op: proto.Op_CHANGE_CONSUMER_GROUP_COORDINATOR,
					ChangeConsumerGroupCoordinatorOp: &proto.ChangeConsumerGroupCoordinatorOp{GroupId: g, Coordinator: coord}})
			op.Group = g
			return op
		}
	}
	panic("c06: generator found no applicable operation")
}

func c06StreamSubset(rng *kit.RNG, names []string) []string {
	var out []string
	for _, n := range names {
		if rng.Bool() {
			out = append(out, n)
		}
	}
	if len(out) == 0 {
		out = []string{c06Pick(rng, names)}
	}
	return out
}

// ---------------------------------------------------------------- servers

var c06SrvSeq atomic.Int64

// c06NewServer makes a Server that is never started: no NATS, no Raft.  Its id
// is unique in the process and is never part of a replica set or a group
// coordinator, so partitions are neither led nor followed and no timers run.
func c06NewServer(dir string) *Server {
	cfg := NewDefaultConfig()
	cfg.DataDir = dir
	cfg.Clustering.ServerID = fmt.Sprintf("c06-%d-%d", os.Getpid(), c06SrvSeq.Add(1))
	cfg.Clustering.Namespace = "c06"
	cfg.LogSilent = true
	cfg.LogRecovery = true // finishedRecovery would otherwise un-silence the logger
	cfg.Telemetry.Enabled = false
	return New(cfg)
}

func c06Apply(s *Server, op *c06Op, recovered bool) error {
	l := &proto.RaftLog{}
	if err := l.Unmarshal(op.data); err != nil {
		return err
	}
	_, err := s.apply(l, op.Index, recovered)
	return err
}

// c06Quiesce waits for the goroutines the server started through
// startGoroutine (on a never-started server: only the asynchronous
// "stream deleted" notification of removeStream).
func c06Quiesce(s *Server) { s.goroutineWait.Wait() }

func c06Close(s *Server) {
	c06Quiesce(s)
	s.metadata.Reset() // nolint: errcheck
}

type c06Sink struct {
	bytes.Buffer
	closed, cancelled bool
}

func (s *c06Sink) ID() string    { return "c06" }
func (s *c06Sink) Cancel() error { s.cancelled = true; return nil }
func (s *c06Sink) Close() error  { s.closed = true; return nil }

// c06Snapshot = what raft's snapshot goroutine does, atomically.
func c06Snapshot(s *Server) ([]byte, error) {
	snap, err := s.Snapshot()
	if err != nil {
		return nil, err
	}
	sink := &c06Sink{}
	if err := snap.Persist(sink); err != nil {
		return nil, err
	}
	snap.Release()
	if !sink.closed || sink.cancelled {
		return nil, fmt.Errorf("Persist did not close the sink")
	}
	return append([]byte(nil), sink.Bytes()...), nil
}

// c06CopyDir copies a data directory while its logs are open.  Index files
// are 10 MiB pre-allocated and zero after the last entry: only the non-zero
// prefix is copied and the size is kept.
func c06CopyDir(src, dst string) error {
	return filepath.Walk(src, func(p string, fi os.FileInfo, err error) error {
		if err != nil {
			if os.IsNotExist(err) {
				return nil
			}
			return err
		}
		rel, _ := filepath.Rel(src, p)
		to := filepath.Join(dst, rel)
		if fi.IsDir() {
			return os.MkdirAll(to, 0755)
		}
		if !fi.Mode().IsRegular() {
			return nil
		}
		in, err := os.Open(p)
		if err != nil {
			if os.IsNotExist(err) {
				return nil
			}
			return err
		}
		defer in.Close()
		out, err := os.Create(to)
		if err != nil {
			return err
		}
		defer out.Close()
		sparse := strings.HasSuffix(p, ".index")
		buf := make([]byte, 64<<10)
		var off int64
		for {
			n, rerr := in.Read(buf)
			if n > 0 {
				zero := sparse
				if zero {
					for _, b := range buf[:n] {
						if b != 0 {
							zero = false
							break
						}
					}
				}
				if zero {
					break
				}
				if _, werr := out.WriteAt(buf[:n], off); werr != nil {
					return werr
				}
				off += int64(n)
			}
			if rerr == io.EOF {
				break
			}
			if rerr != nil {
				return rerr
			}
		}
		if sparse {
			return out.Truncate(fi.Size())
		}
		return nil
	})
}

// ---------------------------------------------------------------- digest

type c06PartD struct {
	ID          int32
	Replicas    []string
	Leader      string
	LeaderEpoch uint64
	ISR         []string // in-memory ISR set
	ProtoISR    []string // ISR as carried by the protobuf (what a snapshot stores)
	Epoch       uint64
	Paused      bool // effective: partition.IsPaused()
	PausedMeta  bool // protobuf flag (reported by FetchMetadata, stored in snapshots)
	Readonly    bool // effective: partition.IsReadonly() (what Publish checks)
	ReadonlyMet bool // protobuf flag
}

type c06StreamD struct {
	Name, Subject, Config string
	Created               int64
	Tombstoned            bool
	Parts                 []c06PartD
	ResumeAll             bool // observation only
}

type c06GroupD struct {
	ID, Coord string
	Epoch     uint64
	Members   map[string][]string
	Assign    string // observation only
}

type c06Digest struct {
	Streams []c06StreamD
	Groups  []c06GroupD
}

func c06Sorted(in []string) []string {
	out := append([]string(nil), in...)
	sort.Strings(out)
	return out
}

func c06DigestOf(s *Server) c06Digest {
	var d c06Digest
	streams := s.metadata.GetStreams()
	sort.Slice(streams, func(i, j int) bool { return streams[i].GetName() < streams[j].GetName() })
	for _, st := range streams {
		sd := c06StreamD{Name: st.GetName(), Subject: st.GetSubject(), Created: st.GetCreationTime().UnixNano(),
			Tombstoned: st.IsTombstoned(), ResumeAll: st.GetResumeAll()}
		// the stored configuration itself, not what an accessor chooses to return
		st.mu.RLock()
		cfg := st.config
		st.mu.RUnlock()
		if cfg != nil {
			b, _ := cfg.Marshal()
			sd.Config = fmt.Sprintf("%x", b)
		} else {
			sd.Config = "nil"
		}
		st.mu.RLock()
		ids := make([]int32, 0, len(st.partitions))
		parts := map[int32]*partition{}
		for id, p := range st.partitions {
			ids = append(ids, id)
			parts[id] = p
		}
		st.mu.RUnlock()
		sort.Slice(ids, func(i, j int) bool { return ids[i] < ids[j] })
		for _, id := range ids {
			p := parts[id]
			pd := c06PartD{ID: id, Replicas: c06Sorted(p.GetReplicas()), ISR: c06Sorted(p.GetISR()), Epoch: p.GetEpoch(),
				Paused: p.IsPaused(), Readonly: p.IsReadonly()}
			pd.Leader, pd.LeaderEpoch = p.GetLeader()
			p.mu.RLock()
			pd.ProtoISR = c06Sorted(p.Isr)
			pd.PausedMeta = p.Partition.Paused
			pd.ReadonlyMet = p.Partition.Readonly
			p.mu.RUnlock()
			sd.Parts = append(sd.Parts, pd)
		}
		d.Streams = append(d.Streams, sd)
	}
	groups := s.metadata.GetConsumerGroups()
	sort.Slice(groups, func(i, j int) bool { return groups[i].GetID() < groups[j].GetID() })
	for _, g := range groups {
		gd := c06GroupD{ID: g.GetID(), Members: map[string][]string{}}
		gd.Coord, gd.Epoch = g.GetCoordinator()
		for m, ss := range g.GetMembers() {
			gd.Members[m] = c06Sorted(ss)
		}
		g.mu.RLock()
		var as []string
		for id, m := range g.members {
			for st, ps := range m.assignments {
				as = append(as, fmt.Sprintf("%s:%s=%v", id, st, ps))
			}
		}
		g.mu.RUnlock()
		sort.Strings(as)
		gd.Assign = strings.Join(as, ";")
		d.Groups = append(d.Groups, gd)
	}
	return d
}

func (d c06Digest) String() string {
	var sb strings.Builder
	for _, s := range d.Streams {
		fmt.Fprintf(&sb, "stream %s subj=%s cfg=%s created=%d tomb=%v\n", s.Name, s.Subject, s.Config, s.Created, s.Tombstoned)
		for _, p := range s.Parts {
			fmt.Fprintf(&sb, "  p%d replicas=%v leader=%s/%d isr=%v protoIsr=%v epoch=%d paused=%v pausedMeta=%v ro=%v roMeta=%v\n",
				p.ID, p.Replicas, p.Leader, p.LeaderEpoch, p.ISR, p.ProtoISR, p.Epoch, p.Paused, p.PausedMeta, p.Readonly, p.ReadonlyMet)
		}
	}
	for _, g := range d.Groups {
		fmt.Fprintf(&sb, "group %s coord=%s epoch=%d members=", g.ID, g.Coord, g.Epoch)
		for _, m := range kit.SortedKeys(g.Members) {
			fmt.Fprintf(&sb, "%s%v ", m, g.Members[m])
		}
		sb.WriteString("\n")
	}
	return sb.String()
}

type c06Diff struct {
	Class  string // stable field class (part of the fingerprint)
	Detail string
}

// c06Compare lists the property-relevant fields in which got differs from ref.
func c06Compare(ref, got c06Digest) []c06Diff {
	var out []c06Diff
	add := func(class, format string, a ...interface{}) {
		for _, d := range out {
			if d.Class == class {
				return
			}
		}
		out = append(out, c06Diff{class, fmt.Sprintf(format, a...)})
	}
	rs := map[string]c06StreamD{}
	for _, s := range ref.Streams {
		rs[s.Name] = s
	}
	gs := map[string]c06StreamD{}
	for _, s := range got.Streams {
		gs[s.Name] = s
		if _, ok := rs[s.Name]; !ok {
			add("stream.extra", "stream %s exists but does not exist on the reference", s.Name)
		}
	}
	eq := func(a, b []string) bool { return strings.Join(a, ",") == strings.Join(b, ",") }
	for _, r := range ref.Streams {
		g, ok := gs[r.Name]
		if !ok {
			add("stream.missing", "stream %s is missing", r.Name)
			continue
		}
		if g.Tombstoned != r.Tombstoned {
			add("stream.tombstoned", "stream %s tombstoned=%v, reference %v", r.Name, g.Tombstoned, r.Tombstoned)
		}
		if g.Subject != r.Subject {
			add("stream.subject", "stream %s subject %q, reference %q", r.Name, g.Subject, r.Subject)
		}
		if g.Config != r.Config {
			add("stream.config", "stream %s config %s, reference %s", r.Name, g.Config, r.Config)
		}
		if g.Created != r.Created {
			add("stream.creationTime", "stream %s creation time %d, reference %d", r.Name, g.Created, r.Created)
		}
		if len(g.Parts) != len(r.Parts) {
			add("stream.partitions", "stream %s has %d partitions, reference %d", r.Name, len(g.Parts), len(r.Parts))
			continue
		}
		for i, rp := range r.Parts {
			gp := g.Parts[i]
			where := fmt.Sprintf("%s/%d", r.Name, rp.ID)
			if gp.ID != rp.ID {
				add("stream.partitions", "%s partition id %d", where, gp.ID)
				continue
			}
			if !eq(gp.Replicas, rp.Replicas) {
				add("partition.replicas", "%s replicas %v, reference %v", where, gp.Replicas, rp.Replicas)
			}
			if gp.Leader != rp.Leader {
				add("partition.leader", "%s leader %s, reference %s", where, gp.Leader, rp.Leader)
			}
			if gp.LeaderEpoch != rp.LeaderEpoch {
				add("partition.leaderEpoch", "%s leader epoch %d, reference %d", where, gp.LeaderEpoch, rp.LeaderEpoch)
			}
			if !eq(gp.ISR, rp.ISR) {
				add("partition.isr", "%s ISR %v, reference %v", where, gp.ISR, rp.ISR)
			}
			if !eq(gp.ProtoISR, rp.ProtoISR) {
				add("partition.isr-proto", "%s protobuf ISR %v, reference %v", where, gp.ProtoISR, rp.ProtoISR)
			}
			if gp.Epoch != rp.Epoch {
				add("partition.epoch", "%s epoch %d, reference %d", where, gp.Epoch, rp.Epoch)
			}
			if gp.Paused != rp.Paused {
				add(fmt.Sprintf("partition.paused(ref=%v,got=%v)", rp.Paused, gp.Paused), "%s paused=%v, reference %v", where, gp.Paused, rp.Paused)
			}
			if gp.PausedMeta != rp.PausedMeta {
				add(fmt.Sprintf("partition.paused-proto(ref=%v,got=%v)", rp.PausedMeta, gp.PausedMeta), "%s protobuf paused=%v, reference %v", where, gp.PausedMeta, rp.PausedMeta)
			}
			if gp.Readonly != rp.Readonly {
				add(fmt.Sprintf("partition.readonly(ref=%v,got=%v)", rp.Readonly, gp.Readonly), "%s read-only(effective)=%v, reference %v", where, gp.Readonly, rp.Readonly)
			}
			if gp.ReadonlyMet != rp.ReadonlyMet {
				add(fmt.Sprintf("partition.readonly-proto(ref=%v,got=%v)", rp.ReadonlyMet, gp.ReadonlyMet), "%s protobuf read-only=%v, reference %v", where, gp.ReadonlyMet, rp.ReadonlyMet)
			}
		}
	}
	rg := map[string]c06GroupD{}
	for _, g := range ref.Groups {
		rg[g.ID] = g
	}
	gg := map[string]c06GroupD{}
	for _, g := range got.Groups {
		gg[g.ID] = g
		if _, ok := rg[g.ID]; !ok {
			add("group.extra", "group %s exists but does not exist on the reference", g.ID)
		}
	}
	for _, r := range ref.Groups {
		g, ok := gg[r.ID]
		if !ok {
			add("group.missing", "group %s is missing", r.ID)
			continue
		}
		if g.Coord != r.Coord {
			add("group.coordinator", "group %s coordinator %s, reference %s", r.ID, g.Coord, r.Coord)
		}
		if g.Epoch != r.Epoch {
			add("group.epoch", "group %s epoch %d, reference %d", r.ID, g.Epoch, r.Epoch)
		}
		ms := func(m map[string][]string) string {
			var sb strings.Builder
			for _, k := range kit.SortedKeys(m) {
				fmt.Fprintf(&sb, "%s%v", k, m[k])
			}
			return sb.String()
		}
		if ms(g.Members) != ms(r.Members) {
			add("group.members", "group %s members %s, reference %s", r.ID, ms(g.Members), ms(r.Members))
		}
	}
	return out
}

// ---------------------------------------------------------------- data survival (markers)

func c06ReadValues(l commitlog.CommitLog) ([]string, error) {
	recs, err := vfReadLog(l, 0, true)
	if err != nil {
		return nil, err
	}
	out := make([]string, len(recs))
	for i, r := range recs {
		out[i] = string(r.Value)
	}
	return out, nil
}

// c06PartitionValues returns what is stored for a partition of server s: from
// the open log when the partition runs, from the directory when it is paused
// (its log is closed then).
func c06PartitionValues(s *Server, stream string, id int32) ([]string, error) {
	p := s.metadata.GetPartition(stream, id)
	if p != nil && !p.IsPaused() {
		return c06ReadValues(p.log)
	}
	path := filepath.Join(s.config.DataDir, "streams", stream, fmt.Sprint(id))
	if _, err := os.Stat(path); err != nil {
		return nil, nil
	}
	l, err := commitlog.New(commitlog.Options{Path: path, MaxSegmentBytes: 1 << 28, Logger: s.logger})
	if err != nil {
		return nil, err
	}
	defer l.Close()
	return c06ReadValues(l)
}

// c06CheckData is oracle (3): data of streams that exist at the end survived,
// streams deleted at the end have no metadata entry and no directory.
func c06CheckData(s *Server, m *c06Model) (diffs []c06Diff, checked int) {
	for _, name := range c06Streams {
		ms := m.Streams[name]
		dir := filepath.Join(s.config.DataDir, "streams", name)
		if ms == nil {
			if s.metadata.GetStream(name) != nil {
				diffs = append(diffs, c06Diff{"deleted-stream.metadata-entry", fmt.Sprintf("stream %s was deleted but has a metadata entry after replay", name)})
			}
			if _, err := os.Stat(dir); err == nil {
				diffs = append(diffs, c06Diff{"deleted-stream.directory", fmt.Sprintf("stream %s was deleted but directory %s exists after replay", name, dir)})
			}
			continue
		}
		for id, mp := range ms.Parts {
			got, err := c06PartitionValues(s, name, int32(id))
			if err != nil {
				diffs = append(diffs, c06Diff{"markers.unreadable", fmt.Sprintf("%s/%d: %v", name, id, err)})
				continue
			}
			checked += len(mp.Markers)
			have := map[string]bool{}
			for _, v := range got {
				have[v] = true
			}
			for _, v := range mp.Markers {
				if !have[v] {
					diffs = append(diffs, c06Diff{"markers.lost", fmt.Sprintf("%s/%d: marker %q (of %d) is gone after replay; log holds %d messages", name, id, v, len(mp.Markers), len(got))})
					break
				}
			}
		}
	}
	return
}

// ---------------------------------------------------------------- gate for the async "stream deleted" goroutine

type c06Gate struct {
	mu       sync.Mutex
	cond     *sync.Cond
	relBelow uint64 // goroutines whose epoch is below this may pass
	arrived  int
	passed   int
	sync     int          // notifications delivered synchronously on the applying goroutine (never held)
	applyGID atomic.Uint64 // goroutine that is applying operations to the gated server
}

// c06GoID returns the id of the calling goroutine (parsed from the stack
// header; used only to tell a notification that is delivered synchronously by
// the applying goroutine - which must never be held - from an asynchronous one).
func c06GoID() uint64 {
	var b [64]byte
	n := runtime.Stack(b[:], false)
	f := strings.Fields(string(b[:n]))
	if len(f) < 2 {
		return 0
	}
	id, _ := strconv.ParseUint(f[1], 10, 64)
	return id
}

var (
	c06Gates    sync.Map // server id -> *c06Gate
	c06GateOnce sync.Once
)

func c06InstallGateHook() {
	c06GateOnce.Do(func() {
		vfHooks.On("meta.streamDeletedAsync", func(args ...interface{}) error {
			if len(args) < 3 {
				return nil
			}
			id, _ := args[0].(string)
			epoch, _ := args[2].(uint64)
			v, ok := c06Gates.Load(id)
			if !ok {
				return nil
			}
			g := v.(*c06Gate)
			g.mu.Lock()
			g.arrived++
			g.cond.Broadcast()
			if gid := c06GoID(); gid != 0 && gid == g.applyGID.Load() {
				// delivered inline by the applying goroutine: there is no late schedule to explore
				g.sync++
				g.passed++
				g.cond.Broadcast()
				g.mu.Unlock()
				return nil
			}
			for epoch >= g.relBelow {
				g.cond.Wait()
			}
			g.passed++
			g.cond.Broadcast()
			g.mu.Unlock()
			return nil
		})
	})
}

func c06NewGate(s *Server) *c06Gate {
	c06InstallGateHook()
	g := &c06Gate{}
	g.cond = sync.NewCond(&g.mu)
	g.applyGID.Store(c06GoID())
	c06Gates.Store(s.config.Clustering.ServerID, g)
	return g
}

func (g *c06Gate) drop(s *Server) { c06Gates.Delete(s.config.Clustering.ServerID) }

// release lets the notifications with epoch < below run to completion before
// returning: the groups lock is held while they are let through the gate, so
// they queue on it; a second Lock() then waits for them to finish.
func (g *c06Gate) release(s *Server, below uint64, expectPassed int) bool {
	s.metadata.consumerGroupsMu.Lock()
	g.mu.Lock()
	g.relBelow = below
	g.cond.Broadcast()
	g.mu.Unlock()
	// The expected number of notifications is derived from what removeStream
	// does on the unchanged code; if they never show up (watchdog) the caller
	// reports "inconclusive" instead of hanging.
	ok := vfWait(10*time.Second, func() bool {
		g.mu.Lock()
		defer g.mu.Unlock()
		return g.passed >= expectPassed
	})
	if ok {
		time.Sleep(300 * time.Microsecond) // let them reach RLock (schedule shaping only, no oracle depends on it)
	}
	s.metadata.consumerGroupsMu.Unlock()
	s.metadata.consumerGroupsMu.Lock()
	s.metadata.consumerGroupsMu.Unlock() // nolint: staticcheck
	return ok
}

// ---------------------------------------------------------------- history

type c06Hist struct {
	rep    *kit.Report
	id     int
	seed   uint64
	ops    []*c06Op
	failed bool
}

func (h *c06Hist) text(upto int) string {
	var parts []string
	for i, o := range h.ops {
		if upto >= 0 && i >= upto {
			break
		}
		parts = append(parts, o.Desc)
	}
	return strings.Join(parts, " ")
}

func (h *c06Hist) violation(fp, what string, extra map[string]interface{}) {
	h.failed = true
	w := map[string]interface{}{"history_seed": h.seed, "history": h.text(-1)}
	for k, v := range extra {
		w[k] = v
	}
	h.rep.Violation(fp, what, w)
}

// kindsBefore / kindsFrom: which operation kinds occur in ops[:k] / ops[k:n]
func (h *c06Hist) kinds(from, to int) map[string]bool {
	out := map[string]bool{}
	for i := from; i < to && i < len(h.ops); i++ {
		out[h.ops[i].Kind] = true
	}
	return out
}

// c06Tag refines a field class by the history shape that is known to matter
// for it, so that one defect has one fingerprint and a different defect of the
// same field shows up under another.
func c06Tag(class string, before, replayed map[string]bool, deleteAfterRestart bool) string {
	switch {
	case strings.HasPrefix(class, "partition.paused(ref=false,got=true)"):
		if before["resume"] {
			return class + ":snapshot-after-resume"
		}
	case strings.HasPrefix(class, "group.epoch"), strings.HasPrefix(class, "group.members"):
		if replayed["delete"] {
			return class + ":replayed-delete"
		}
		if deleteAfterRestart {
			return class + ":delete-after-restart"
		}
	}
	return class
}

func c06AppendMarkers(srv *Server, m *c06Model, rng *kit.RNG, hid, step int) int {
	n := 0
	for _, name := range m.streamNames() {
		ms := m.Streams[name]
		if name == m.apiStream {
			continue // published through the API by the Level-2 unit
		}
		for id, mp := range ms.Parts {
			if mp.Paused || !rng.Chance(1, 2) {
				continue
			}
			p := srv.metadata.GetPartition(name, int32(id))
			if p == nil || p.IsPaused() || p.IsReadonly() {
				continue
			}
			v := fmt.Sprintf("m-h%d-%s#%d-p%d-t%d", hid, name, ms.Inc, id, step)
			if _, err := p.log.Append([]*commitlog.Message{{Value: []byte(v), Timestamp: int64(1700000000000000000) + int64(step), LeaderEpoch: 1}}); err != nil {
				continue
			}
			mp.Markers = append(mp.Markers, v)
			n++
		}
	}
	return n
}

func c06TempDir(tag string) string { return vfWorkDir("c06" + tag) }

// c06RemoveLater deletes a data directory a few seconds after its logs were
// closed: commitLog.checkpointHWLoop can run one more checkpoint after Close
// (its select may pick a ticker tick that is ready at the same instant as the
// closed channel) and panics if the directory is already gone.  Cleanup only;
// no oracle depends on the delay.
var (
	c06GraveMu   sync.Mutex
	c06Grave     []c06Dead
	c06GraveOnce sync.Once
)

type c06Dead struct {
	dir string
	at  time.Time
}

func c06RemoveLater(dir string) {
	c06GraveOnce.Do(func() {
		go func() {
			for {
				time.Sleep(500 * time.Millisecond)
				var due []string
				c06GraveMu.Lock()
				keep := c06Grave[:0]
				for _, d := range c06Grave {
					if time.Since(d.at) > 3*time.Second {
						due = append(due, d.dir)
					} else {
						keep = append(keep, d)
					}
				}
				c06Grave = keep
				c06GraveMu.Unlock()
				for _, d := range due {
					os.RemoveAll(d)
				}
			}
		}()
	})
	c06GraveMu.Lock()
	c06Grave = append(c06Grave, c06Dead{dir, time.Now()})
	c06GraveMu.Unlock()
}

// c06Restart emulates what happens on a restart with a snapshot taken after k
// operations and a log holding operations k+1..n: NewRaft calls Restore, then
// Server.Apply is called for every later entry with recovered=true (the whole
// suffix is at or below the commit index when the first entry is applied on a
// single-node restart) and finishedRecovery runs after the last one.  With
// nothing to replay Apply is never called, so neither is finishedRecovery.
// late: the asynchronous stream-deleted notifications started by the replay are
// scheduled one operation late.
type c06RestartErr struct{ class, msg string }

func (e *c06RestartErr) Error() string { return e.msg }

func c06ErrClass(err error) string {
	if e, ok := err.(*c06RestartErr); ok {
		return e.class
	}
	return "error"
}

func (h *c06Hist) restart(frozen string, snap []byte, k, n int, late bool) (*Server, string, error) {
	dir := c06TempDir("r")
	if err := c06CopyDir(frozen, dir); err != nil {
		return nil, dir, &c06RestartErr{"harness-copy", fmt.Sprintf("copy: %v", err)}
	}
	s := c06NewServer(dir)
	if snap != nil {
		if err := s.Restore(io.NopCloser(bytes.NewReader(snap))); err != nil {
			return s, dir, &c06RestartErr{"restore-error", fmt.Sprintf("Restore of the snapshot taken after op %d failed: %v", k, err)}
		}
	}
	var gate *c06Gate
	expect := 0
	if late {
		gate = c06NewGate(s)
		defer gate.drop(s)
	}
	var pendingBelow uint64
	for i := k; i < n; i++ {
		op := h.ops[i]
		launches := 0
		if late && op.Kind == "create" {
			if st := s.metadata.GetStream(op.Stream); st != nil && st.IsTombstoned() {
				launches = 1
			}
		}
		if err := c06Apply(s, op, true); err != nil {
			if gate != nil {
				gate.release(s, math.MaxUint64, expect)
			}
			return s, dir, &c06RestartErr{"replay-error:" + op.Kind, fmt.Sprintf("replayed %s (recovered=true) is rejected by the FSM (Server.Apply would panic): %v", op.Desc, err)}
		}
		if late {
			if pendingBelow > 0 {
				if !gate.release(s, op.Index, expect) {
					h.rep.Inconc(fmt.Sprintf("history %d: the asynchronous stream-deleted notification expected after a replayed re-create never started (late schedule not exercised)", h.id))
					expect = 0
				}
			}
			pendingBelow = 0
			if launches > 0 {
				expect += launches
				pendingBelow = op.Index
			}
		} else {
			c06Quiesce(s)
		}
	}
	if n > k {
		if late {
			// notifications started by finishedRecovery run freely
			gate.mu.Lock()
			gate.relBelow = math.MaxUint64
			gate.cond.Broadcast()
			gate.mu.Unlock()
		}
		if _, _, err := s.finishedRecovery(h.ops[n-1].Index); err != nil {
			return s, dir, &c06RestartErr{"finished-recovery-error", fmt.Sprintf("finishedRecovery failed (Server.Apply would panic): %v", err)}
		}
	}
	c06Quiesce(s)
	return s, dir, nil
}

// ---------------------------------------------------------------- unit 1: determinism + snapshot/replay splits

func TestVerifC06Replay(t *testing.T) {
	rep := kit.NewReport("C06", "replay")
	defer rep.Write()
	rep.SetRule("seeded VALID histories (3..12 ops over 3 stream names, 2 groups: create / delete / re-create / pause / resume / read-only / ISR shrink / expand / change-leader / group create / join / leave / coordinator change, Raft indexes with gaps as epochs) applied through the real Server.apply to never-started servers; marker messages appended to partition logs; oracles: (1) twin servers equal after every step, a third with the async stream-deleted notification one op late equal at the end; (2) for EVERY split k: Snapshot+Persist@k -> Restore into a fresh server on a copy of the final data dir -> replay k+1..n recovered -> finishedRecovery: digest == uninterrupted, then 0..3 more ops on both, digest equal again; (3) markers of surviving streams present, no entry/dir for deleted ones; non-trivial = history has a delete->re-create, or pause->resume, or a group op after a delete, or ISR/leader change, and >=1 marker; distinct = history text")
	rep.Assume("histories are valid: every op satisfies the precondition checks the metadata API makes before proposing it (shrink names a non-leader ISR member with the current leader/epoch, ISR/leader ops only on running partitions, join/create-group only name existing streams)")
	rep.Assume("restart model = single-node restart: the whole log suffix after the snapshot is at or below the commit index when the first entry is applied, so all of it is applied with recovered=true (validated against the real Apply by the restart unit)")
	rep.Assume("stream.resumeAll, group partition assignments and the activity index are not part of the compared digest (observations only)")
	c06VolatileNote(rep, 1)
	root := kit.NewRNG(kit.Mix(kit.Seed(), 0xC06))
	nh := kit.EnvInt("C06_HISTORIES", kit.Scale(200, 1800))
	seeds := make([]uint64, nh)
	for i := range seeds {
		seeds[i] = root.Uint64()
	}
	c06DirectedFreeRunning(rep)
	kit.Parallel(nh, kit.Workers(), func(i int) {
		if rep.NumViolations() >= 60 {
			return
		}
		c06RunHistory(rep, i, seeds[i])
	})
}

// c06DirectedFreeRunning applies a few fixed histories back to back (no waiting
// for the asynchronous notifications) in which the notification of a delete has
// to rebalance ANOTHER stream of the group while the next operations change
// that stream (pause/resume replaces the partition object in the stream's
// map).  The only monitor here is the race detector.
func c06DirectedFreeRunning(rep *kit.Report) {
	mk := func(name string, nparts int, idx uint64) *c06Op {
		ps := &proto.Stream{Name: name, Subject: "d." + name, CreationTimestamp: 1}
		for p := 0; p < nparts; p++ {
			ps.Partitions = append(ps.Partitions, &proto.Partition{Subject: "d." + name, Stream: name, Id: int32(p), ReplicationFactor: 2,
				Replicas: []string{"b1", "b2"}, Isr: []string{"b1", "b2"}, Leader: "b1"})
		}
		return c06MkOp("create", idx, "create("+name+")", &proto.RaftLog{Op: proto.Op_CREATE_STREAM, CreateStreamOp: &proto.CreateStreamOp{Stream: ps}})
	}
	for round := 0; round < 4; round++ {
		dir := c06TempDir("dir")
		s := c06NewServer(dir)
		ops := []*c06Op{
			mk("s1", 2, 2), mk("s2", 2, 3),
			c06MkOp("gcreate", 4, "gcreate", &proto.RaftLog{Op: proto.Op_CREATE_CONSUMER_GROUP, CreateConsumerGroupOp: &proto.CreateConsumerGroupOp{
				ConsumerGroup: &proto.ConsumerGroup{Id: "g1", Coordinator: "b1", Members: []*proto.Consumer{{Id: "c1", Streams: []string{"s1", "s2"}}}}}}),
			c06MkOp("join", 5, "join", &proto.RaftLog{Op: proto.Op_JOIN_CONSUMER_GROUP, JoinConsumerGroupOp: &proto.JoinConsumerGroupOp{GroupId: "g1", ConsumerId: "c2", Streams: []string{"s1", "s2"}}}),
			c06MkOp("pause", 6, "pause", &proto.RaftLog{Op: proto.Op_PAUSE_STREAM, PauseStreamOp: &proto.PauseStreamOp{Stream: "s2", Partitions: []int32{0, 1}}}),
			c06MkOp("delete", 7, "delete", &proto.RaftLog{Op: proto.Op_DELETE_STREAM, DeleteStreamOp: &proto.DeleteStreamOp{Stream: "s1"}}),
			c06MkOp("resume", 8, "resume", &proto.RaftLog{Op: proto.Op_RESUME_STREAM, ResumeStreamOp: &proto.ResumeStreamOp{Stream: "s2", Partitions: []int32{0, 1}}}),
			c06MkOp("delete", 9, "delete", &proto.RaftLog{Op: proto.Op_DELETE_STREAM, DeleteStreamOp: &proto.DeleteStreamOp{Stream: "s2"}}),
		}
		for _, op := range ops {
			if err := c06Apply(s, op, false); err != nil {
				rep.Violation("C06:apply-error:"+op.Kind, fmt.Sprintf("directed history: %s rejected: %v", op.Desc, err), nil)
				break
			}
			if round%2 == 1 && op.Kind == "delete" {
				time.Sleep(200 * time.Microsecond) // schedule shaping only
			}
		}
		c06Quiesce(s)
		c06Close(s)
		c06RemoveLater(dir)
		rep.Count("directed_free_running_histories", 1)
	}
}

func c06RunHistory(rep *kit.Report, id int, seed uint64) { c06RunHistoryMode(rep, id, seed, 0) }

// c06RunHistoryMode: redundantPct > 0 = the "redundant" unit (longer histories,
// that share of the operations drawn by genRedundant against server A).
func c06RunHistoryMode(rep *kit.Report, id int, seed uint64, redundantPct int, focus ...int) {
	rng := kit.NewRNG(seed)
	h := &c06Hist{rep: rep, id: id, seed: seed}
	model := newC06Model()
	if len(focus) > 0 {
		model.focus = focus[0]
	}
	n := rng.Range(3, 12)
	cont := rng.Range(0, 3)
	if redundantPct > 0 {
		n = rng.Range(5, 12)
		cont = rng.Range(1, 4)
	}

	dirA, dirB, dirC := c06TempDir("a"), c06TempDir("b"), c06TempDir("c")
	A, B, C := c06NewServer(dirA), c06NewServer(dirB), c06NewServer(dirC)
	var cleanup []func()
	cleanup = append(cleanup, func() {
		c06Close(A)
		c06Close(B)
		c06Close(C)
		c06RemoveLater(dirA)
		c06RemoveLater(dirB)
		c06RemoveLater(dirC)
	})
	defer func() {
		for _, f := range cleanup {
			f()
		}
	}()
	if redundantPct > 0 {
		model.real, model.redundantPct = A, redundantPct
		model.redStats = func(kind string, accepted bool) {
			if accepted {
				rep.Count("redundant_accepted_by_real_precondition_"+kind, 1)
			} else {
				rep.Count("redundant_refused_by_real_precondition_"+kind, 1)
			}
		}
	}
	gateC := c06NewGate(C)
	defer gateC.drop(C)
	expectC := 0
	var pendingC bool
	// Volatile controller-local state (pending leader / coordinator reports) on
	// server A only, see c06_volatile_test.go.
	c06MakeController(A)
	vol := c06NewVol(rep, seed)

	snaps := make([][]byte, 0, n+1)
	digests := make([]c06Digest, 0, n+1)
	s0, err := c06Snapshot(A)
	if err != nil {
		h.violation("C06:snapshot-error", "Snapshot/Persist of an empty state failed: "+err.Error(), nil)
		return
	}
	snaps = append(snaps, s0)
	digests = append(digests, c06DigestOf(A))
	index := uint64(rng.Range(2, 6))
	markers := 0
	for i := 0; i < n; i++ {
		op := model.gen(rng, index)
		h.ops = append(h.ops, op)
		index += uint64(rng.Range(1, 3))
		vol.before(A, op)
		for _, s := range []*Server{A, B} {
			if err := c06Apply(s, op, false); err != nil {
				h.violation("C06:apply-error:"+op.Kind, fmt.Sprintf("a valid operation was rejected by the FSM (Server.Apply would panic): %s: %v", op.Desc, err), nil)
				return
			}
			c06Quiesce(s)
		}
		if err := c06Apply(C, op, false); err != nil {
			gateC.release(C, math.MaxUint64, expectC)
			h.violation("C06:apply-error:"+op.Kind, fmt.Sprintf("a valid operation was rejected by the FSM: %s: %v", op.Desc, err), nil)
			return
		}
		if pendingC {
			if !gateC.release(C, op.Index, expectC) {
				rep.Inconc(fmt.Sprintf("history %d: the asynchronous stream-deleted notification expected after %s never started (late schedule not exercised)", id, h.ops[len(h.ops)-2].Desc))
				expectC = 0
			}
			pendingC = false
		}
		if op.Kind == "delete" {
			expectC++
			pendingC = true
		}
		markers += c06AppendMarkers(A, model, rng, id, i)
		dA, dB := c06DigestOf(A), c06DigestOf(B)
		rep.Count("twin_steps_compared", 1)
		if diffs := c06SelfCheck(dA); len(diffs) > 0 && !h.failed {
			for _, d := range diffs {
				h.violation("C06:self:"+d.Class, fmt.Sprintf("after %s the server's live state and the state it would persist in a snapshot disagree: %s", op.Desc, d.Detail),
					map[string]interface{}{"after_op": i + 1, "server": dA.String()})
			}
			// not fatal for the history: the differential oracles below show the consequences
		}
		if diffs := c06Compare(dA, dB); len(diffs) > 0 {
			for _, d := range diffs {
				h.violation("C06:determinism:"+d.Class, fmt.Sprintf("two servers applying the same history differ after %s: %s", op.Desc, d.Detail),
					map[string]interface{}{"after_op": i + 1, "server1": dA.String(), "server2": dB.String()})
			}
			return
		}
		sn, err := c06Snapshot(A)
		if err != nil {
			h.violation("C06:snapshot-error", fmt.Sprintf("Snapshot/Persist after %s failed: %v", op.Desc, err), nil)
			return
		}
		snaps = append(snaps, sn)
		digests = append(digests, dA)
	}
	gateC.release(C, math.MaxUint64, expectC)
	c06Quiesce(C)
	gateC.mu.Lock()
	rep.Count("notifications_delivered_synchronously", int64(gateC.sync))
	rep.Count("notifications_asynchronous_held_one_op_late", int64(gateC.arrived-gateC.sync))
	gateC.mu.Unlock()
	if diffs := c06Compare(digests[n], c06DigestOf(C)); len(diffs) > 0 {
		for _, d := range diffs {
			h.violation("C06:determinism:late-stream-deleted:"+d.Class,
				fmt.Sprintf("a server on which removeStream's asynchronous group notification ran one operation late ends in a different state: %s", d.Detail),
				map[string]interface{}{"prompt": digests[n].String(), "late": c06DigestOf(C).String()})
		}
	}

	// free-running server: the operations are applied back to back without waiting for the
	// asynchronous notifications, as raft's FSM loop does; under -race this exposes unordered
	// accesses between removeStream's goroutine and the following applies.
	{
		dirD := c06TempDir("d")
		D := c06NewServer(dirD)
		okD := true
		for _, op := range h.ops {
			if err := c06Apply(D, op, false); err != nil {
				// possible only as a consequence of a notification overtaken by later operations
				rep.Count("free_running_apply_errors", 1)
				okD = false
				break
			}
		}
		c06Quiesce(D)
		rep.Count("free_running_histories", 1)
		if okD {
			for _, d := range c06Compare(digests[n], c06DigestOf(D)) {
				h.violation("C06:determinism:free-running:"+d.Class,
					fmt.Sprintf("a server applying the history back to back (asynchronous group notifications not awaited, as in raft's FSM loop) ends in a different state: %s", d.Detail),
					map[string]interface{}{"prompt": digests[n].String(), "free_running": c06DigestOf(D).String()})
			}
		}
		c06Close(D)
		c06RemoveLater(dirD)
	}

	// freeze the data directory as it is at the restart point (end of the history)
	frozen := c06TempDir("f")
	cleanup = append(cleanup, func() { os.RemoveAll(frozen) })
	if err := c06CopyDir(dirA, frozen); err != nil {
		rep.Inconc("copying the data directory failed: " + err.Error())
		return
	}
	endModel := model
	// continuation: more operations after the restart (applied to A now, to every restarted server later)
	contModel := c06CloneModel(model)
	var contOps []*c06Op
	contDigests := []c06Digest{}
	for j := 0; j < cont; j++ {
		op := contModel.gen(rng, index)
		index += uint64(rng.Range(1, 3))
		contOps = append(contOps, op)
		vol.before(A, op)
		if err := c06Apply(A, op, false); err != nil {
			h.ops = append(h.ops, contOps...)
			h.violation("C06:apply-error:"+op.Kind, fmt.Sprintf("a valid operation was rejected by the FSM: %s: %v", op.Desc, err), nil)
			return
		}
		c06Quiesce(A)
		contDigests = append(contDigests, c06DigestOf(A))
	}
	contText := ""
	for _, o := range contOps {
		contText += o.Desc + " "
	}

	kindsAll := h.kinds(0, n)
	lateK := -1
	if kindsAll["delete"] {
		lateK = rng.Intn(n)
	}
	for k := 0; k <= n; k++ {
		for _, late := range []bool{false, true} {
			if late && k != lateK {
				continue
			}
			var snap []byte
			if k > 0 || rng.Bool() {
				snap = snaps[k]
			}
			s, dir, err := h.restart(frozen, snap, k, n, late)
			mode := "snapshot-replay"
			if late {
				mode = "snapshot-replay:late-stream-deleted"
			}
			extra := map[string]interface{}{"snapshot_after_op": k, "replayed": fmt.Sprintf("ops %d..%d", k+1, n), "with_snapshot": snap != nil, "continuation": contText}
			func() {
				defer func() {
					if s != nil {
						c06Close(s)
					}
					c06RemoveLater(dir)
				}()
				rep.Count("splits_checked", 1)
				if late {
					rep.Count("splits_replayed_with_late_notification", 1)
				}
				if err != nil {
					if c06ErrClass(err) == "harness-copy" {
						rep.Inconc(err.Error())
						return
					}
					h.violation("C06:"+mode+":"+c06ErrClass(err), fmt.Sprintf("restart with snapshot after op %d of %d: %v", k, n, err), extra)
					return
				}
				before, replayed := h.kinds(0, k), h.kinds(k, n)
				got := c06DigestOf(s)
				diffs := c06Compare(digests[n], got)
				dd, checked := c06CheckData(s, endModel)
				rep.Count("markers_checked", int64(checked))
				diffs = append(diffs, dd...)
				seen := map[string]bool{}
				for _, d := range diffs {
					seen[d.Class] = true
					extra["uninterrupted"] = digests[n].String()
					extra["restarted"] = got.String()
					h.violation("C06:"+mode+":"+c06Tag(d.Class, before, replayed, false),
						fmt.Sprintf("snapshot after op %d + replay of ops %d..%d differs from the uninterrupted server: %s", k, k+1, n, d.Detail), extra)
				}
				// observations (fields the property does not list)
				if len(diffs) == 0 {
					for si, rs := range digests[n].Streams {
						if rs.ResumeAll != got.Streams[si].ResumeAll {
							rep.Count("obs_resumeAll_differs_after_restart", 1)
						}
					}
					for gi, rg := range digests[n].Groups {
						if rg.Assign != got.Groups[gi].Assign {
							rep.Count("obs_assignments_differ_after_restart", 1)
						}
					}
				}
				// continuation: new operations after the restart; only differences that were not
				// already there at the restart point are reported
				contDelete := false
				for j, op := range contOps {
					contDelete = contDelete || op.Kind == "delete"
					if err := c06Apply(s, op, false); err != nil {
						h.violation("C06:"+mode+":continuation-error:"+op.Kind,
							fmt.Sprintf("after the restart a valid new operation is rejected by the FSM (Server.Apply would panic): %s: %v", op.Desc, err), extra)
						return
					}
					c06Quiesce(s)
					rep.Count("continuation_steps_compared", 1)
					g2 := c06DigestOf(s)
					for _, d := range c06Compare(contDigests[j], g2) {
						if seen[d.Class] {
							continue
						}
						seen[d.Class] = true
						extra["uninterrupted"] = contDigests[j].String()
						extra["restarted"] = g2.String()
						h.violation("C06:"+mode+":continuation:"+c06Tag(d.Class, before, replayed, contDelete),
							fmt.Sprintf("after the restart (snapshot after op %d) and %d further operation(s) the state differs from the uninterrupted server: %s", k, j+1, d.Detail), extra)
					}
				}
			}()
		}
	}
	rep.Eval()
	rep.Count("ops_applied", int64(n))
	rep.Count("markers_appended", int64(markers))
	for k := range kindsAll {
		rep.Count("op_"+k, 1)
	}
	shape := c06Shape(h.ops[:n])
	for _, s := range shape {
		rep.Count("shape_"+s, 1)
	}
	hasRedundant := false
	for _, s := range shape {
		hasRedundant = hasRedundant || s == "redundant-op"
	}
	if len(shape) > 0 && markers > 0 && (redundantPct == 0 || hasRedundant) {
		rep.Nontrivial(h.text(n))
	}
	if id < 3 {
		rep.Sample(map[string]interface{}{"history": h.text(n), "continuation": contText, "markers": markers, "shape": shape})
	}
}

// c06Shape names the interesting situations a history reaches.
func c06Shape(ops []*c06Op) []string {
	set := map[string]bool{}
	deleted := map[string]bool{}
	paused := map[string]bool{}
	anyDelete := false
	for i, o := range ops {
		if o.Redundant {
			set["redundant-op"] = true
			for _, later := range ops[i+1:] {
				if later.Stream != "" && later.Stream == o.Stream && !later.Redundant {
					set["redundant-op-then-ordinary-op-on-same-stream"] = true
				}
			}
		}
		switch o.Kind {
		case "delete":
			deleted[o.Stream] = true
			anyDelete = true
		case "create":
			if deleted[o.Stream] {
				set["delete-recreate"] = true
			}
		case "pause":
			paused[o.Stream] = true
		case "resume":
			if paused[o.Stream] {
				set["pause-resume"] = true
			}
		case "shrink", "expand", "leader":
			set["isr-or-leader-change"] = true
		case "readonly":
			set["readonly"] = true
		case "gcreate", "join", "leave", "coord":
			if anyDelete {
				set["group-op-after-delete"] = true
			}
			set["group-op"] = true
		}
	}
	return kit.SortedKeys(set)
}

func c06CloneModel(m *c06Model) *c06Model {
	c := newC06Model()
	c.real, c.redundantPct, c.redStats, c.focus = m.real, m.redundantPct, m.redStats, m.focus
	for k, v := range m.incs {
		c.incs[k] = v
	}
	for n, s := range m.Streams {
		ns := &c06MStream{Name: s.Name, Inc: s.Inc}
		for _, p := range s.Parts {
			np := &c06MPart{Replicas: append([]string(nil), p.Replicas...), ISR: map[string]bool{}, Leader: p.Leader, LeaderEpoch: p.LeaderEpoch,
				Paused: p.Paused, Readonly: p.Readonly, Markers: append([]string(nil), p.Markers...)}
			for k, v := range p.ISR {
				np.ISR[k] = v
			}
			ns.Parts = append(ns.Parts, np)
		}
		c.Streams[n] = ns
	}
	for n, g := range m.Groups {
		ng := &c06MGroup{Members: map[string][]string{}, Coord: g.Coord}
		for k, v := range g.Members {
			ng.Members[k] = append([]string(nil), v...)
		}
		c.Groups[n] = ng
	}
	return c
}

// ---------------------------------------------------------------- unit 2: Persist concurrent with / later than Apply

// TestVerifC06Concurrent reproduces the schedule hashicorp/raft produces:
// FSM.Snapshot() is called on the FSM goroutine (between two Apply calls),
// FSMSnapshot.Persist() later on the snapshot goroutine, concurrently with the
// following Apply calls.
func TestVerifC06Concurrent(t *testing.T) {
	rep := kit.NewReport("C06", "concurrent")
	defer rep.Write()
	rep.SetRule("per history (10..24 valid ops, same generator): after every op i a Snapshot() is taken on the applying goroutine and its Persist runs in ANOTHER goroutine while ops i+1.. are applied (even histories), or sequentially but only after 1..4 more ops (odd histories: deterministic 'late Persist'); under -race (reports touching Snapshot/Persist/apply/partition code become violations via the driver); each persisted snapshot is then Restore()d + the suffix after its index replayed recovered + finishedRecovery and compared with the uninterrupted digest; a panic or error inside Persist/Restore is a violation; non-trivial = at least one op that mutates an already snapshotted partition (ISR/leader/pause/read-only) was applied between Snapshot() and the end of Persist; distinct = history text")
	root := kit.NewRNG(kit.Mix(kit.Seed(), 0xC06C))
	nh := kit.EnvInt("C06_CONC_HISTORIES", kit.Scale(40, 500))
	seeds := make([]uint64, nh)
	for i := range seeds {
		seeds[i] = root.Uint64()
	}
	kit.Parallel(nh, kit.Workers(), func(i int) {
		if rep.NumViolations() >= 60 {
			return
		}
		c06RunConcurrent(rep, i, seeds[i])
	})
}



func c06RunConcurrent(rep *kit.Report, id int, seed uint64) {
	rng := kit.NewRNG(seed)
	h := &c06Hist{rep: rep, id: id, seed: seed}
	model := newC06Model()
	n := rng.Range(10, 24)
	concurrent := id%2 == 0
	dirA := c06TempDir("ca")
	A := c06NewServer(dirA)
	defer func() { c06Close(A); c06RemoveLater(dirA) }()

	type pend struct {
		k      int
		sink   *c06Sink
		done   chan struct{}
		err    error
		panicv interface{}
		dueAt  int
		run    func()
	}
	var pends []*pend
	mutKinds := map[string]bool{"shrink": true, "expand": true, "leader": true, "pause": true, "readonly": true, "resume": true}
	overlapped := 0
	index := uint64(rng.Range(2, 6))
	for i := 0; i < n; i++ {
		op := model.gen(rng, index)
		index += uint64(rng.Range(1, 3))
		h.ops = append(h.ops, op)
		// late mode: persist the snapshots that are due before this op
		if !concurrent {
			for _, p := range pends {
				if p.run != nil && p.dueAt <= i {
					p.run()
					p.run = nil
				}
			}
		}
		if err := c06Apply(A, op, false); err != nil {
			h.violation("C06:apply-error:"+op.Kind, fmt.Sprintf("a valid operation was rejected by the FSM: %s: %v", op.Desc, err), nil)
			break
		}
		c06Quiesce(A)
		for _, p := range pends {
			if (concurrent || p.run != nil) && p.k <= i && mutKinds[op.Kind] {
				overlapped++
				break
			}
		}
		// Snapshot() on the applying goroutine, as raft's runFSM does between two Apply calls
		snap, err := A.Snapshot()
		if err != nil {
			h.violation("C06:snapshot-error", fmt.Sprintf("Snapshot after %s failed: %v", op.Desc, err), nil)
			break
		}
		p := &pend{k: i + 1, sink: &c06Sink{}, done: make(chan struct{}), dueAt: i + 1 + rng.Range(1, 4)}
		persist := func() {
			defer close(p.done)
			defer func() {
				if r := recover(); r != nil {
					p.panicv = r
				}
			}()
			p.err = snap.Persist(p.sink)
		}
		if concurrent {
			go persist()
		} else {
			p.run = persist
		}
		pends = append(pends, p)
		rep.Count("snapshots_taken", 1)
	}
	for _, p := range pends {
		if p.run != nil {
			p.run()
			p.run = nil
		}
		<-p.done
	}
	if h.failed {
		return
	}
	applied := len(h.ops)
	final := c06DigestOf(A)
	frozen := c06TempDir("cf")
	defer os.RemoveAll(frozen)
	if err := c06CopyDir(dirA, frozen); err != nil {
		rep.Inconc("copying the data directory failed: " + err.Error())
		return
	}
	mode := "late-persist"
	if concurrent {
		mode = "concurrent-persist"
	}
	// check a sample of the persisted snapshots (all when few)
	for pi, p := range pends {
		if len(pends) > 8 && !rng.Chance(8, len(pends)) {
			continue
		}
		extra := map[string]interface{}{"snapshot_after_op": p.k, "mode": mode}
		if p.panicv != nil {
			h.violation("C06:"+mode+":persist-panic", fmt.Sprintf("Persist of the snapshot taken after op %d panicked while later operations were applied: %v", p.k, p.panicv), extra)
			continue
		}
		if p.err != nil || !p.sink.closed {
			h.violation("C06:"+mode+":persist-error", fmt.Sprintf("Persist of the snapshot taken after op %d failed: %v", p.k, p.err), extra)
			continue
		}
		s, dir, err := h.restart(frozen, append([]byte(nil), p.sink.Bytes()...), p.k, applied, false)
		rep.Count("persisted_snapshots_restored", 1)
		if err != nil {
			h.violation("C06:"+mode+":"+c06ErrClass(err), fmt.Sprintf("restart from the snapshot taken after op %d (persisted %s): %v", p.k, mode, err), extra)
		} else {
			got := c06DigestOf(s)
			for _, d := range c06Compare(final, got) {
				extra["uninterrupted"] = final.String()
				extra["restarted"] = got.String()
				h.violation("C06:"+mode+":"+c06Tag(d.Class, h.kinds(0, p.k), h.kinds(p.k, applied), false),
					fmt.Sprintf("snapshot taken after op %d but persisted later/concurrently + replay of ops %d..%d differs from the uninterrupted server: %s", p.k, p.k+1, applied, d.Detail), extra)
			}
		}
		if s != nil {
			c06Close(s)
		}
		c06RemoveLater(dir)
		_ = pi
	}
	rep.Eval()
	rep.Count("ops_applied", int64(applied))
	rep.Count("mutations_between_snapshot_and_persist", int64(overlapped))
	if overlapped > 0 {
		rep.Nontrivial(mode + "|" + h.text(-1))
	}
	if id < 2 {
		rep.Sample(map[string]interface{}{"mode": mode, "history": h.text(-1), "mutating_ops_overlapping_a_pending_persist": overlapped})
	}
}

// ---------------------------------------------------------------- unit 3: Level 2, real Raft / BoltDB / file snapshots / restart

func TestVerifC06Restart(t *testing.T) {
	rep := kit.NewReport("C06", "restart")
	defer rep.Write()
	rep.SetRule("single-node servers with real Raft, BoltDB log store and file snapshot store on a private NATS server: 8..16 valid ops per scenario (same generator; streams s1,s2 carry phantom replicas b1..b4 and are proposed through raftNode.applyOperation with the real precondition functions / the metadata API for delete, pause, read-only, ShrinkISR, ExpandISR, join, leave; stream s3 is created through the gRPC-level API, led by the server itself, published to and resumed through the metadata API), raft.Snapshot() forced at seeded positions (half of them left running while the next op is applied), server stopped and restarted on the same data dir at seeded positions (>=1 per scenario); oracle: digest after restart (leader elected + Raft barrier) == digest before the stop, markers of surviving streams still stored, no entry/dir for deleted streams; non-trivial = a restart whose replayed suffix or snapshot prefix contains delete/re-create, pause/resume, read-only, ISR or group ops; distinct = scenario op text + restart/snapshot positions")
	rep.Assume("Level 2 waits for logical conditions only (leader elected, Raft barrier applied, group members no longer list a deleted stream); a watchdog expiry is reported as inconclusive")
	c06VolatileNote(rep, 2)
	root := kit.NewRNG(kit.Mix(kit.Seed(), 0xC0612))
	nsc := kit.EnvInt("C06_L2_SCENARIOS", kit.Scale(6, 56))
	seeds := make([]uint64, nsc)
	for i := range seeds {
		seeds[i] = root.Uint64()
	}
	workers := kit.EnvInt("C06_L2_WORKERS", 3)
	kit.Parallel(nsc, workers, func(i int) {
		if rep.NumViolations() >= 60 {
			return
		}
		c06RunL2(rep, i, seeds[i])
	})
}

func c06Status(st interface{ Err() error }) error {
	if st == nil {
		return nil
	}
	return st.Err()
}

// c06L2Exec routes one generated operation through the running server.
func c06L2Exec(s *Server, m *c06Model, op *c06Op) error {
	l := &proto.RaftLog{}
	if err := l.Unmarshal(op.data); err != nil {
		return err
	}
	ctx, cancel := context.WithTimeout(context.Background(), 15*time.Second)
	defer cancel()
	raw := func(pre func(*proto.RaftLog) error) error {
		fut, err := s.getRaft().applyOperation(ctx, l, pre)
		if err != nil {
			return err
		}
		return fut.Error()
	}
	patchLeader := func(stream string, part int32) (string, uint64, error) {
		p := s.metadata.GetPartition(stream, part)
		if p == nil {
			return "", 0, fmt.Errorf("partition %s/%d unknown", stream, part)
		}
		ld, ep := p.GetLeader()
		return ld, ep, nil
	}
	switch op.Kind {
	case "create":
		st := l.CreateStreamOp.Stream
		if st.Name == m.apiStream {
			_, err := s.api.CreateStream(ctx, &client.CreateStreamRequest{Name: st.Name, Subject: st.Subject,
				Partitions: int32(len(st.Partitions)), ReplicationFactor: 1})
			return err
		}
		return raw(s.metadata.checkCreateStreamPreconditions)
	case "delete":
		if st := s.metadata.DeleteStream(ctx, l.DeleteStreamOp); st != nil {
			return st.Err()
		}
	case "pause":
		if st := s.metadata.PauseStream(ctx, l.PauseStreamOp); st != nil {
			return st.Err()
		}
	case "resume":
		if l.ResumeStreamOp.Stream == m.apiStream {
			if st := s.metadata.ResumeStream(ctx, l.ResumeStreamOp); st != nil {
				return st.Err()
			}
			return nil
		}
		return raw(s.metadata.checkResumeStreamPreconditions)
	case "readonly":
		if st := s.metadata.SetStreamReadonly(ctx, l.SetStreamReadonlyOp); st != nil {
			return st.Err()
		}
	case "shrink":
		ld, ep, err := patchLeader(l.ShrinkISROp.Stream, l.ShrinkISROp.Partition)
		if err != nil {
			return err
		}
		l.ShrinkISROp.Leader, l.ShrinkISROp.LeaderEpoch = ld, ep
		if st := s.metadata.ShrinkISR(ctx, l.ShrinkISROp); st != nil {
			return st.Err()
		}
	case "expand":
		ld, ep, err := patchLeader(l.ExpandISROp.Stream, l.ExpandISROp.Partition)
		if err != nil {
			return err
		}
		l.ExpandISROp.Leader, l.ExpandISROp.LeaderEpoch = ld, ep
		if st := s.metadata.ExpandISR(ctx, l.ExpandISROp); st != nil {
			return st.Err()
		}
	case "leader":
		return raw(s.metadata.checkChangeLeaderPreconditions)
	case "gcreate":
		g := l.CreateConsumerGroupOp.ConsumerGroup
		if _, _, st := s.metadata.JoinConsumerGroup(ctx, &proto.JoinConsumerGroupOp{GroupId: g.Id, ConsumerId: g.Members[0].Id, Streams: g.Members[0].Streams}); st != nil {
			return st.Err()
		}
	case "join":
		if _, _, st := s.metadata.JoinConsumerGroup(ctx, l.JoinConsumerGroupOp); st != nil {
			return st.Err()
		}
	case "leave":
		if st := s.metadata.LeaveConsumerGroup(ctx, l.LeaveConsumerGroupOp); st != nil {
			return st.Err()
		}
	case "coord":
		return raw(s.metadata.checkChangeGroupCoordinatorPreconditions)
	}
	return nil
}

// c06L2Settle waits for the FSM to have applied everything proposed so far and
// for the asynchronous group notifications of deletes to have taken effect.
func c06L2Settle(s *Server, m *c06Model) error {
	if err := s.getRaft().Barrier(15 * time.Second).Error(); err != nil {
		return fmt.Errorf("raft barrier: %v", err)
	}
	ok := vfWait(8*time.Second, func() bool {
		for _, g := range s.metadata.GetConsumerGroups() {
			for _, ss := range g.GetMembers() {
				for _, st := range ss {
					if m.Streams[st] == nil {
						return false
					}
				}
			}
		}
		return true
	})
	if !ok {
		return fmt.Errorf("a group member still lists a deleted stream: %w", errVfTimeout)
	}
	return nil
}

func c06RunL2(rep *kit.Report, id int, seed uint64) { c06RunL2Mode(rep, id, seed, 0) }

// c06RunL2Mode: redundantPct > 0 = the "redundant-restart" unit (that share of
// the operations drawn by genRedundant; whether such an operation is accepted
// is decided by the running server's metadata API).
func c06RunL2Mode(rep *kit.Report, id int, seed uint64, redundantPct int, focus ...int) {
	rng := kit.NewRNG(seed)
	h := &c06Hist{rep: rep, id: id, seed: seed}
	model := newC06Model()
	if len(focus) > 0 {
		model.focus = focus[0]
	}
	model.apiStream, model.local = "s3", "a"
	c, s, err := vfSingle("c06l2", func(cfg *Config) {
		cfg.Groups.ConsumerTimeout = time.Hour
		cfg.Groups.CoordinatorTimeout = time.Hour
		cfg.LogRecovery = true
	})
	if err != nil {
		rep.Inconc(fmt.Sprintf("scenario %d: server did not start: %v", id, err))
		return
	}
	defer c.Cleanup()
	nops := rng.Range(8, 16)
	redundantDone := 0
	if redundantPct > 0 {
		nops = rng.Range(10, 18)
		model.real, model.redundantPct = s, redundantPct
		model.redStats = func(kind string, accepted bool) {
			if !accepted {
				rep.Count("redundant_refused_by_real_precondition_"+kind, 1)
			}
		}
	}
	vol := c06NewVol(rep, seed) // pending leader / coordinator reports on the running server, see c06_volatile_test.go
	lastSnap := 0
	restarts := 0
	overlappedSnaps := 0
	var events []string
	var pendingSnap interface{ Error() error }
	interesting := false
	finishSnap := func() {
		if pendingSnap != nil {
			if err := pendingSnap.Error(); err != nil {
				rep.Count("raft_snapshot_errors", 1)
			} else {
				rep.Count("raft_snapshots_taken", 1)
			}
			pendingSnap = nil
		}
	}
	defer finishSnap()
	published := 0
	publish := func(step int) {
		ms := model.Streams[model.apiStream]
		if ms == nil {
			return
		}
		for pid, mp := range ms.Parts {
			p := s.metadata.GetPartition(model.apiStream, int32(pid))
			if p == nil || p.IsPaused() || p.IsReadonly() || !p.IsLeader() || !rng.Chance(2, 3) {
				continue
			}
			v := fmt.Sprintf("m-l2-%d-%s#%d-p%d-t%d", id, model.apiStream, ms.Inc, pid, step)
			ctx, cancel := context.WithTimeout(context.Background(), 10*time.Second)
			resp, err := s.api.Publish(ctx, &client.PublishRequest{Stream: model.apiStream, Partition: int32(pid), Value: []byte(v), AckPolicy: client.AckPolicy_LEADER})
			cancel()
			if err == nil && resp != nil && resp.Ack != nil {
				mp.Markers = append(mp.Markers, v)
				published++
			}
		}
	}
	syncAPIStream := func() {
		if ms := model.Streams[model.apiStream]; ms != nil {
			for pid, mp := range ms.Parts {
				if p := s.metadata.GetPartition(model.apiStream, int32(pid)); p != nil {
					mp.Paused = p.IsPaused()
				}
			}
		}
	}
	restart := func(at int) bool {
		finishSnap()
		if err := c06L2Settle(s, model); err != nil {
			rep.Inconc(fmt.Sprintf("scenario %d before restart at op %d: %v", id, at, err))
			return false
		}
		before := c06DigestOf(s)
		for _, d := range c06SelfCheck(before) {
			h.violation("C06:restart:self:"+d.Class, fmt.Sprintf("before the stop after %d ops the server's live state and the state it would persist in a snapshot disagree: %s", at, d.Detail),
				map[string]interface{}{"events": strings.Join(events, " "), "before_stop": before.String()})
		}
		if err := c.StopNode("a"); err != nil {
			rep.Inconc(fmt.Sprintf("scenario %d: stop failed: %v", id, err))
			return false
		}
		if err := c.StartNode("a"); err != nil {
			fp := "C06:restart:start-error"
			if overlappedSnaps > 0 && strings.Contains(strings.ToLower(err.Error()), "snapshot") {
				// a snapshot written while the next operation was applied cannot be restored
				fp += ":snapshot-unrestorable-after-overlapping-persist"
			}
			h.violation(fp, fmt.Sprintf("the server does not start again on its own data directory after %d ops (snapshot after op %d): %v", at, lastSnap, err),
				map[string]interface{}{"events": strings.Join(events, " ")})
			return false
		}
		s = c.Nodes["a"].Srv
		if model.real != nil {
			model.real = s
		}
		if _, err := c.MetaLeader(30 * time.Second); err != nil {
			rep.Inconc(fmt.Sprintf("scenario %d: no leader after restart: %v", id, err))
			return false
		}
		if err := c06L2Settle(s, model); err != nil {
			rep.Inconc(fmt.Sprintf("scenario %d after restart at op %d: %v", id, at, err))
			return false
		}
		after := c06DigestOf(s)
		restarts++
		rep.Count("restarts", 1)
		events = append(events, fmt.Sprintf("[RESTART after op %d, last snapshot after op %d]", at, lastSnap))
		bk, rk := h.kinds(0, lastSnap), h.kinds(lastSnap, at)
		if lastSnap == at {
			rep.Count("restarts_from_snapshot_only", 1)
		} else if lastSnap == 0 {
			rep.Count("restarts_from_log_only", 1)
		} else {
			rep.Count("restarts_from_snapshot_plus_log", 1)
		}
		for _, k := range []string{"delete", "resume", "readonly", "shrink", "expand", "leader", "join", "leave", "gcreate", "pause"} {
			if bk[k] || rk[k] {
				interesting = true
			}
		}
		extra := map[string]interface{}{"events": strings.Join(events, " "), "ops_before_restart": at, "last_snapshot_after_op": lastSnap}
		diffs := c06Compare(before, after)
		dd, checked := c06CheckData(s, model)
		rep.Count("markers_checked", int64(checked))
		diffs = append(diffs, dd...)
		for _, d := range diffs {
			extra["before_stop"] = before.String()
			extra["after_restart"] = after.String()
			h.violation("C06:restart:"+c06Tag(d.Class, bk, rk, false),
				fmt.Sprintf("real restart after %d ops (raft snapshot after op %d): state differs from the state before the stop: %s", at, lastSnap, d.Detail), extra)
		}
		// observation: is the locally led stream running again?
		if ms := model.Streams[model.apiStream]; ms != nil {
			for pid := range ms.Parts {
				if p := s.metadata.GetPartition(model.apiStream, int32(pid)); p != nil && !p.IsPaused() {
					started := vfWait(2*time.Second, func() bool { return p.IsLeader() })
					if !started {
						if lastSnap == at {
							rep.Count("obs_led_partition_not_started_after_snapshot_only_restart", 1)
						} else {
							rep.Count("obs_led_partition_not_started_after_restart", 1)
						}
					}
				}
			}
		}
		return true
	}
	for i := 0; i < nops; i++ {
		op := model.gen(rng, uint64(i+1))
		h.ops = append(h.ops, op)
		events = append(events, op.Desc)
		if op.Kind == "shrink" || op.Kind == "expand" {
			// An ISR size change landing inside Persist's marshalling can panic on raft's
			// snapshot goroutine and kill this process (shown in a recoverable way by the
			// "concurrent" unit); here the overlap is kept to fixed-size mutations.
			finishSnap()
		}
		vol.before(s, op)
		err := error(nil)
		if note, done := vol.failoverByReports(s, model, op); done {
			// the leader change of the history was decided by the controller itself after
			// a quorum of reports (its failover bookkeeping stays behind on this server)
			events[len(events)-1] += note
		} else {
			err = c06L2Exec(s, model, op)
		}
		if err != nil {
			if op.Redundant {
				// the metadata API is the judge of whether a redundant operation is let through
				rep.Count("redundant_refused_by_metadata_api_"+op.Kind, 1)
				h.ops = h.ops[:len(h.ops)-1]
				events = events[:len(events)-1]
				finishSnap()
				continue
			}
			rep.Inconc(fmt.Sprintf("scenario %d: %s was not accepted by the running server: %v", id, op.Desc, err))
			return
		}
		if op.Redundant {
			redundantDone++
			rep.Count("redundant_accepted_by_metadata_api_"+op.Kind, 1)
		}
		finishSnap()
		if op.Kind == "delete" || op.Kind == "create" || op.Kind == "resume" {
			if err := c06L2Settle(s, model); err != nil {
				rep.Inconc(fmt.Sprintf("scenario %d after %s: %v", id, op.Desc, err))
				return
			}
		}
		syncAPIStream()
		c06AppendMarkers(s, model, rng, 100000+id, i)
		publish(i)
		rep.Count("ops_applied", 1)
		if rng.Chance(1, 4) {
			pendingSnap = s.getRaft().Snapshot()
			lastSnap = len(h.ops) // == i+1 unless a refused redundant operation was dropped
			events = append(events, "[SNAPSHOT]")
			if rng.Bool() {
				finishSnap()
			} else {
				rep.Count("raft_snapshots_overlapping_next_apply", 1)
				overlappedSnaps++
			}
		}
		if (rng.Chance(1, 6) && restarts < 3 && i > 1) || (i == nops-1 && restarts == 0) {
			if !restart(len(h.ops)) {
				return
			}
		}
	}
	rep.Eval()
	rep.Count("markers_published", int64(published))
	if interesting && restarts > 0 && (redundantPct == 0 || redundantDone > 0) {
		rep.Nontrivial(strings.Join(events, " "))
	}
	if id < 2 {
		rep.Sample(map[string]interface{}{"scenario": strings.Join(events, " "), "restarts": restarts})
	}
}
