//go:build verif

package server

// C11 — scenario units: key independence, a pause / stop landing inside a
// cleaner pass, and the 3-node cluster with cursors-partition leader changes.

import (
	"context"
	"fmt"
	"os"
	"strings"
	"sync"
	"sync/atomic"
	"testing"
	"time"

	client "github.com/liftbridge-io/liftbridge-api/v2/go"

	kit "github.com/liftbridge-io/liftbridge/internal/verifkit"
)

// ---------------------------------------------------------------- keys

type c11Pair struct {
	A, B  c11Key
	Class string
	Phase string
}

// c11Sloppy: ways of writing a key component that do NOT keep the separator
// and the escape character apart (used to derive look-alike triples).
var c11Sloppy = []struct {
	name     string
	enc, dec func(string) string
}{
	{"none", func(s string) string { return s }, func(s string) string { return s }},
	{"comma-only", func(s string) string { return strings.ReplaceAll(s, ",", "\\,") }, func(s string) string { return strings.ReplaceAll(s, "\\,", ",") }},
	{"backslash-only", func(s string) string { return strings.ReplaceAll(s, "\\", "\\\\") }, func(s string) string { return strings.ReplaceAll(s, "\\\\", "\\") }},
	{"comma-then-backslash", func(s string) string {
		return strings.ReplaceAll(strings.ReplaceAll(s, ",", "\\,"), "\\", "\\\\")
	}, func(s string) string {
		return strings.ReplaceAll(strings.ReplaceAll(s, "\\\\", "\\"), "\\,", ",")
	}},
}

func c11GenPairs(rng *kit.RNG, n int) []c11Pair {
	tok := func() string {
		const al = "abcdefgh"
		l := rng.Range(1, 3)
		b := make([]byte, l)
		for i := range b {
			b[i] = al[rng.Intn(len(al))]
		}
		return string(b)
	}
	// decorations made of the key separator and its escape character, placed
	// at token joints (class backslash-comma-decorations)
	deco := []string{"", "", ",", "\\", "\\\\", "\\,", ",\\", ",,", "\\,\\"}
	decorate := func(pre string) (string, string) {
		// four letter tokens, three joints; one joint is the id|stream
		// boundary, the others and the boundary's two sides get decorations
		t := []string{tok(), tok(), tok(), tok()}
		cut := rng.Range(1, 3)
		id, st := pre+t[0], ""
		for j := 1; j < 4; j++ {
			d := deco[rng.Intn(len(deco))]
			switch {
			case j < cut:
				id += d + t[j]
			case j == cut:
				id += []string{"", "", "\\", "\\\\", ",", "\\,"}[rng.Intn(6)]
				st = []string{"", "", "\\", ",", "\\,", "\\\\"}[rng.Intn(6)] + t[j]
			default:
				st += d + t[j]
			}
		}
		return id, st
	}
	var out []c11Pair
	for i := 0; i < n; i++ {
		pre := fmt.Sprintf("p%d", i) // keeps the pairs apart from each other
		x, y, z := tok(), tok(), tok()
		part := int32(rng.Intn(20))
		var p c11Pair
		switch i % 11 {
		case 0:
			p = c11Pair{A: c11Key{pre + x, y, part}, B: c11Key{pre + x, y, part + 1 + int32(rng.Intn(3))}, Class: "partition-differs"}
		case 1:
			p = c11Pair{A: c11Key{pre + x, y, 1}, B: c11Key{pre + x, y, 11}, Class: "partition-digit-prefix"}
		case 2:
			p = c11Pair{A: c11Key{pre + x, y, part}, B: c11Key{pre + x, y + z, part}, Class: "stream-differs"}
		case 3:
			p = c11Pair{A: c11Key{pre + x, y, part}, B: c11Key{pre + x + z, y, part}, Class: "id-differs"}
		case 4:
			p = c11Pair{A: c11Key{pre + x + y, z, part}, B: c11Key{pre + x, y + z, part}, Class: "id-stream-boundary"}
		case 5:
			p = c11Pair{A: c11Key{pre + x, y + "1", 2}, B: c11Key{pre + x, y, 12}, Class: "stream-partition-boundary"}
		case 6:
			// cursor ids are opaque strings and stream names are not
			// restricted either: a comma may appear in both
			p = c11Pair{A: c11Key{pre + x + "," + y, z, part}, B: c11Key{pre + x, y + "," + z, part}, Class: "comma-in-id-vs-stream"}
		case 7:
			// ... and so may a backslash: a field that ENDS in the escape
			// character, next to a field that holds the separator
			bs := []string{"\\", "\\\\\\"}[rng.Intn(2)] // one or three: an odd run
			p = c11Pair{A: c11Key{pre + x + bs, y + "," + z, part}, B: c11Key{pre + x + "," + y + bs, z, part}, Class: "backslash-before-separator"}
		case 8:
			// the escape character on either side of the id|stream boundary
			bs := []string{"\\", "\\\\"}[rng.Intn(2)]
			p = c11Pair{A: c11Key{pre + x + bs, y, part}, B: c11Key{pre + x, bs + y, part}, Class: "backslash-across-boundary"}
		case 9:
			// escaped-looking sequences written literally: "\\," inside one
			// field vs the boundary after a trailing backslash, doubled
			// backslashes vs single ones
			switch rng.Intn(3) {
			case 0:
				p = c11Pair{A: c11Key{pre + x + "\\," + y, z, part}, B: c11Key{pre + x + "\\", y + "," + z, part}}
			case 1:
				p = c11Pair{A: c11Key{pre + x + "\\\\", y + "," + z, part}, B: c11Key{pre + x + "\\", "\\" + y + "," + z, part}}
			default:
				p = c11Pair{A: c11Key{pre + x, "\\" + y + "\\," + z, part}, B: c11Key{pre + x + ",\\" + y + "\\", z, part}}
			}
			p.Class = "backslash-literal-escape-sequences"
		case 10:
			// triple A with separators and escape characters sprinkled over it;
			// B = what A's key reads as when it is written with a SLOPPY
			// escaping (none / comma only / backslash only / comma first, then
			// backslash) and split at another comma: a different triple that an
			// injective key must keep apart
			p.Class = "backslash-comma-reparsed"
			for try := 0; try < 12 && p.B.ID == ""; try++ {
				ai, as := decorate(pre)
				g := c11Sloppy[rng.Intn(len(c11Sloppy))]
				w := g.enc(ai) + "," + g.enc(as)
				bound := len(g.enc(ai))
				var cuts []int
				for c := len(pre) + 1; c < len(w)-1; c++ {
					if w[c] == ',' && c != bound {
						cuts = append(cuts, c)
					}
				}
				if len(cuts) == 0 {
					continue
				}
				c := cuts[rng.Intn(len(cuts))]
				bi, bs := g.dec(w[:c]), g.dec(w[c+1:])
				if bi == "" || bs == "" || (bi == ai && bs == as) {
					continue
				}
				p.A, p.B = c11Key{ai, as, part}, c11Key{bi, bs, part}
			}
		}
		p.Phase = "keys-distinct"
		if p.Class == "comma-in-id-vs-stream" {
			p.Phase = "keys-comma"
		}
		if strings.HasPrefix(p.Class, "backslash") {
			p.Phase = "keys-backslash"
		}
		if p.A == p.B || p.A.ID == "" || p.B.ID == "" || p.A.Stream == "" || p.B.Stream == "" {
			// degenerate draw: fall back to the plainest class
			p = c11Pair{A: c11Key{pre + x, y, part}, B: c11Key{pre + x, y, part + 1}, Class: "partition-differs", Phase: "keys-distinct"}
		}
		out = append(out, p)
	}
	return out
}

// TestVerifC11Keys: cursors of different (cursor id, stream, partition)
// triples are independent registers.
func TestVerifC11Keys(t *testing.T) {
	rep := kit.NewReport("C11", "keys")
	defer rep.Write()
	rep.SetRule("pairs of distinct (cursor id, stream, partition) triples that differ in exactly one component or only in where the component boundaries fall " +
		"(11 classes, seeded tokens and partition ids; ids and stream names are opaque strings, so the key separator ',' and its escape character '\\' are part of the alphabet: trailing / leading / doubled backslashes, a backslash before a comma, on either side of the id|stream boundary), on a single-node server, cache on and cache off: fetch B (never set) -> set A -> fetch B -> set B -> fetch A (as is, and from the log after a cache purge) -> fetch B; " +
		"oracle = the same per-triple register rule; non-trivial = all six steps answered; distinct = class + cache mode + tokens")
	root := kit.NewRNG(kit.Mix(kit.Seed(), 0xC11B))
	for mode := 0; mode < 2; mode++ {
		cfg := c11Cfg{Parts: int32(1 + mode), SegBytes: 1500, CacheOff: mode == 1, Clients: 1, CleanMode: "forced", Steps: []string{"keys"}}
		e, err := c11NewSingle(rep, "keys", root.Uint64(), cfg)
		if err != nil {
			rep.Inconc(fmt.Sprintf("server start failed: %v", err))
			continue
		}
		n := e.c.Nodes["a"]
		pairs := c11GenPairs(root, kit.Scale(66, 330))
		for _, p := range pairs {
			rep.Eval()
			answered := 0
			chk := func(k c11Key) {
				if f := e.fetchQuiescent(n, k, p.Phase); f.OK {
					answered++
					e.judgeNow(f, false)
				}
			}
			chk(p.B)
			if s := e.doSet(n, 0, p.A, p.Phase); !s.OK {
				continue
			}
			chk(p.B)
			if s := e.doSet(n, 0, p.B, p.Phase); !s.OK {
				continue
			}
			chk(p.A)
			if !cfg.CacheOff {
				e.purge(n.Server())
			}
			chk(p.A)
			chk(p.B)
			rep.Count("pairs_"+p.Class, 1)
			if answered == 5 {
				rep.Nontrivial(fmt.Sprintf("%s/cacheOff=%v/%s/%s", p.Class, cfg.CacheOff, p.A, p.B))
			}
			if len(pairs) > 0 && rep.NumViolations() >= 6 {
				break
			}
		}
		rep.Sample(map[string]any{"config": cfg.sig(), "pairs": len(pairs), "first": fmt.Sprintf("%s vs %s", pairs[0].A, pairs[0].B)})
		e.finish()
		e.close()
	}
}

// ---------------------------------------------------------------- close during a cleaner pass

// TestVerifC11CloseRace: the cursors partition is paused (PauseStream, the
// operation the auto-pause timer issues) or the server is stopped while the
// log's cleaner is inside a pass.  The schedule is produced with a gate at the
// compact.afterCreateCleaned hook (between creating the cleaned segment and
// scanning the old one).  Afterwards every cursor must still be fetched.
func TestVerifC11CloseRace(t *testing.T) {
	rep := kit.NewReport("C11", "closerace")
	defer rep.Write()
	rep.SetRule("schedule: acknowledged cursors in a multi-segment cursors log; Clean() is started and held at the compact.afterCreateCleaned hook of the k-th segment (seeded k); " +
		"meanwhile PauseStream(__cursors) (what the auto-pause timer issues) or Server.Stop() closes the log; the cleaner is released; after resume / restart every cursor is fetched; " +
		"variants {pause, stop} x {cache on, off} x seeded k; non-trivial = the cleaner was held inside the pass while the log was closed and >= 3 segments existed; distinct = variant + k")
	root := kit.NewRNG(kit.Mix(kit.Seed(), 0xC11C))
	n := kit.Scale(4, 16)
	for i := 0; i < n; i++ {
		mode := []string{"pause", "stop"}[i%2]
		cfg := c11Cfg{Parts: 1, SegBytes: 600, CacheOff: (i/2)%2 == 1, Clients: 1, CleanMode: "forced", Steps: []string{"close-during-compaction:" + mode}}
		seed := root.Uint64()
		rng := kit.NewRNG(seed)
		e, err := c11NewSingle(rep, "closerace", seed, cfg)
		if err != nil {
			rep.Inconc(fmt.Sprintf("server start failed: %v", err))
			continue
		}
		rep.Eval()
		c11CloseRace(e, rng, mode)
		e.finish()
		e.close()
	}
}

func c11CloseRace(e *c11Env, rng *kit.RNG, mode string) {
	n := e.c.Nodes["a"]
	srv := n.Server()
	keys := c11WarmKeys(rng.Range(24, 40))
	rounds := rng.Range(2, 4)
	for r := 0; r < rounds; r++ {
		for _, k := range keys {
			e.doSet(n, 0, k, "fill")
		}
	}
	p := srv.metadata.GetPartition(cursorsStream, 0)
	if p == nil {
		e.inconclusive("no cursors partition")
		return
	}
	segs := len(c11SegmentBases(srv, 0))
	e.rep.Max("max_segment_files_all_partitions", int64(segs))
	for _, k := range keys {
		if f := e.fetchQuiescent(n, k, "before-close"); f.OK {
			e.judgeNow(f, false)
		}
	}
	holdAt := int64(rng.Range(1, max(1, segs-2)))
	var hits int64
	entered, release := make(chan struct{}), make(chan struct{})
	var once sync.Once
	rm := vfHooks.On("compact.afterCreateCleaned", func(a ...interface{}) error {
		if atomic.AddInt64(&hits, 1) == holdAt {
			once.Do(func() { close(entered) })
			<-release
		}
		return nil
	})
	defer rm()
	done := make(chan error, 1)
	go func() { done <- p.log.Clean() }()
	select {
	case <-entered:
	case err := <-done:
		close(release)
		e.rep.Count("cleaner_finished_before_gate", 1)
		_ = err
		return
	case <-time.After(20 * time.Second):
		close(release)
		e.inconclusive("cleaner never reached the gate")
		return
	}
	e.step("cleaner held at segment %d of %d; %s", holdAt, segs, mode)
	switch mode {
	case "pause":
		ctx, cancel := context.WithTimeout(context.Background(), 15*time.Second)
		_, err := srv.api.PauseStream(ctx, &client.PauseStreamRequest{Name: cursorsStream})
		cancel()
		if err != nil || !vfWait(10*time.Second, func() bool { return p.IsPaused() }) {
			close(release)
			<-done
			e.inconclusive(fmt.Sprintf("pause did not happen: %v", err))
			return
		}
	case "stop":
		if err := e.c.StopNode("a"); err != nil {
			close(release)
			<-done
			e.inconclusive("stop: " + err.Error())
			return
		}
	}
	close(release)
	var cleanErr error
	select {
	case cleanErr = <-done:
	case <-time.After(30 * time.Second):
		e.inconclusive("cleaner did not finish after the log was closed")
		return
	}
	e.rep.Count("cleaner_held_while_log_closed", 1)
	if cleanErr != nil {
		e.rep.Count("clean_returned_error_after_close", 1)
	}
	if mode == "stop" {
		if err := e.c.StartNode("a"); err != nil {
			e.inconclusive("restart: " + err.Error())
			return
		}
		srv = n.Server()
		e.applyServerKnobs(srv)
		if !c11Ready(srv, e.cfg.Parts, 30*time.Second) {
			e.inconclusive("cursors partition not led after restart")
			return
		}
		e.mu.Lock()
		e.restarts++
		e.mu.Unlock()
	} else {
		e.mu.Lock()
		e.pauses++
		e.mu.Unlock()
	}
	answered := 0
	for _, k := range keys {
		if f := e.fetchQuiescent(n, k, "close-during-compaction"); f.OK {
			answered++
			e.judgeNow(f, false)
		}
	}
	if !e.cfg.CacheOff {
		e.purge(n.Server())
		for _, k := range keys {
			if f := e.fetchQuiescent(n, k, "close-during-compaction/cold"); f.OK {
				e.judgeNow(f, false)
			}
		}
	}
	e.rep.Count("quiescent_fetches", int64(answered))
	e.mu.Lock()
	ok := !e.inconc
	steps := append([]string(nil), e.steps...)
	e.mu.Unlock()
	if ok && segs >= 3 && answered > 0 {
		e.rep.Nontrivial(fmt.Sprintf("%s/cacheOff=%v/k=%d/%d", mode, e.cfg.CacheOff, holdAt, segs))
	}
	e.rep.Sample(map[string]any{"history_seed": e.seed, "config": e.cfg.sig(), "steps": steps})
}

// ---------------------------------------------------------------- cluster

const c11ClusterRule = "3-server clusters (cursors stream: 1 partition, replication factor 3, small segments): concurrent clients at the cursors-partition leader L0, " +
	"forced Clean() on every replica, checks; L0 is isolated (pauseReplication) and given sets that cannot commit (kept open); checks at the elected leader N1; " +
	"new values for the hot keys at N1; L0 (running, deposed, still holding the cache of its term) and the third server are sent FetchCursor for every hot and warm key (a refusal is no observation, an answer is judged like any fetch; again at the end of the scenario); L0's isolation ends and it rejoins the ISR as follower; the third replica is held out of the ISR (follower fetch gate) and N1 is isolated and stopped, " +
	"so L0 - whose cache still holds the values of its first term - leads again; checks at L0; concurrent clients at L0; N1 restarts on its data directory; final check. Same oracle as the single-node histories. " +
	"non-trivial = both leader changes happened and all checks ran; distinct = scenario seed"

type c11Cluster struct {
	*c11Env
	gates map[string]chan struct{}
	gmu   sync.Mutex
}

func c11NewCluster(rep *kit.Report, unit string, seed uint64, cfg c11Cfg) (*c11Cluster, error) {
	e := &c11Env{rep: rep, seed: seed, cfg: cfg, unit: unit, val: 1000}
	cc := &c11Cluster{c11Env: e, gates: map[string]chan struct{}{}}
	c, err := vfNewCluster("c11c", 3, func(c *Config) {
		// The seed server is elected metadata leader while it is alone; with
		// the cursors stream configured at replication factor 3 its
		// cursors.Initialize() would fail there (and the server panics on the
		// step-down that follows).  So the cluster forms with the cursors
		// stream off and the stream is created below, through the manager's
		// own Initialize(), once all three servers are members.
		c.CursorsStream.Partitions = 0
		c.CursorsStream.ReplicationFactor = 3
		c.CursorsStream.AutoPauseTime = 0
		c.Streams.SegmentMaxBytes = cfg.SegBytes
		c.Streams.CleanerInterval = time.Hour
		c.Clustering.ReplicaMaxLeaderTimeout = 1200 * time.Millisecond
		c.Clustering.ReplicaMaxIdleWait = 250 * time.Millisecond
		c.Clustering.ReplicaFetchTimeout = 400 * time.Millisecond
		c.Clustering.ReplicaMaxLagTime = 1500 * time.Millisecond
		c.Clustering.MinISR = 1
	})
	if err != nil {
		return nil, err
	}
	e.c = c
	for _, n := range c.Running() {
		e.applyServerKnobs(n.Server())
	}
	e.removers = append(e.removers, vfHooks.On("follower.beforeFetch", func(a ...interface{}) error {
		if a[1].(string) != cursorsStream {
			return nil
		}
		cc.gmu.Lock()
		g := cc.gates[a[0].(string)]
		cc.gmu.Unlock()
		if g == nil {
			return nil
		}
		stop, _ := a[5].(<-chan struct{})
		select {
		case <-g:
		case <-stop:
		}
		return nil
	}))
	for _, id := range c.IDs {
		c.Nodes[id].Cfg.CursorsStream.Partitions = cfg.Parts // also used by later restarts
	}
	ml, err := c.MetaLeader(20 * time.Second)
	if err != nil {
		cc.close()
		return nil, err
	}
	if !vfWait(20*time.Second, func() bool { return ml.cursors.Initialize() == nil }) {
		cc.close()
		return nil, fmt.Errorf("cursors.Initialize failed: %w", errVfTimeout)
	}
	ok := vfWait(30*time.Second, func() bool {
		for _, n := range c.Running() {
			if n.Partition(cursorsStream, 0) == nil {
				return false
			}
		}
		return true
	})
	if !ok {
		cc.close()
		return nil, fmt.Errorf("cursors stream not created everywhere: %w", errVfTimeout)
	}
	return cc, nil
}

func (cc *c11Cluster) close() {
	cc.gmu.Lock()
	for id, g := range cc.gates {
		close(g)
		delete(cc.gates, id)
	}
	cc.gmu.Unlock()
	cc.c11Env.close()
}

func (cc *c11Cluster) hold(id string) {
	cc.step("hold(%s)", id)
	cc.gmu.Lock()
	if cc.gates[id] == nil {
		cc.gates[id] = make(chan struct{})
	}
	cc.gmu.Unlock()
}

func (cc *c11Cluster) releaseGate(id string) {
	cc.step("release(%s)", id)
	cc.gmu.Lock()
	if g := cc.gates[id]; g != nil {
		close(g)
		delete(cc.gates, id)
	}
	cc.gmu.Unlock()
}

func (cc *c11Cluster) leader() *vfNode {
	n, err := cc.c.PartitionLeader(cursorsStream, 0, 45*time.Second)
	if err != nil {
		cc.inconclusive(err.Error())
		return nil
	}
	return n
}

func (cc *c11Cluster) waitLeaderNot(old string) *vfNode {
	var found *vfNode
	ok := vfWait(60*time.Second, func() bool {
		n, err := cc.c.PartitionLeader(cursorsStream, 0, 10*time.Millisecond)
		if err != nil || n.ID == old {
			return false
		}
		found = n
		return true
	})
	if !ok {
		cc.inconclusive("no new cursors-partition leader after " + old)
		return nil
	}
	cc.step("newLeader=%s", found.ID)
	cc.mu.Lock()
	cc.leaderChanges++
	cc.mu.Unlock()
	return found
}

// waitISR waits until the leader's ISR is exactly the given set.
func (cc *c11Cluster) waitISR(want ...string) bool {
	ok := vfWait(60*time.Second, func() bool {
		l, err := cc.c.PartitionLeader(cursorsStream, 0, 10*time.Millisecond)
		if err != nil {
			return false
		}
		isr := l.Partition(cursorsStream, 0).GetISR()
		if len(isr) != len(want) {
			return false
		}
		for _, w := range want {
			found := false
			for _, x := range isr {
				if x == w {
					found = true
				}
			}
			if !found {
				return false
			}
		}
		return true
	})
	if !ok {
		cc.inconclusive(fmt.Sprintf("ISR %v not reached", want))
	}
	return ok
}

// settle waits until every running, unheld replica has the leader's log end
// and HW.
func (cc *c11Cluster) settle() bool {
	l := cc.leader()
	if l == nil {
		return false
	}
	lp := l.Partition(cursorsStream, 0)
	target := lp.log.NewestOffset()
	ok := vfWait(60*time.Second, func() bool {
		if lp.log.HighWatermark() < target {
			return false
		}
		for _, n := range cc.c.Running() {
			cc.gmu.Lock()
			held := cc.gates[n.ID] != nil
			cc.gmu.Unlock()
			if held {
				continue
			}
			p := n.Partition(cursorsStream, 0)
			if p == nil || p.log.NewestOffset() < target || p.log.HighWatermark() < target {
				return false
			}
		}
		return true
	})
	if !ok {
		cc.inconclusive(fmt.Sprintf("replicas did not settle at %d", target))
	}
	return ok
}

func (cc *c11Cluster) cleanEverywhere() {
	cc.step("clean-all-replicas")
	for _, n := range cc.c.Running() {
		if srv := n.Server(); srv != nil {
			before, _ := c11LogStats(srv)
			cc.cleanAll(srv)
			after, _ := c11LogStats(srv)
			if before > after {
				atomic.AddInt64(&cc.compactRemoved, before-after)
			}
		}
	}
}

// isolate cuts the leader off from its followers (test-only switch of the
// repository) and gives it sets that cannot commit: they time out and stay
// open in the history.
func (cc *c11Cluster) isolate(n *vfNode, hot []c11Key, rng *kit.RNG) {
	cc.step("isolate(%s)", n.ID)
	if p := n.Partition(cursorsStream, 0); p != nil {
		p.pauseReplication()
	}
	old := cc.opTimeout
	cc.opTimeout = 1200 * time.Millisecond
	for i, m := 0, rng.Range(1, 2); i < m; i++ {
		k := hot[rng.Intn(len(hot))]
		cc.doSet(n, 0, k, "isolated")
		// Still the leader every server names: it must answer with what is
		// stored, not with the value of the set that just failed.
		if f := cc.doFetch(n, 0, k, "isolated"); f.OK {
			cc.judgeNow(f, false)
		}
	}
	cc.opTimeout = old
}

// unpause ends the isolation of a deposed leader (the switch has no reset in
// the repository; a real isolation ends when connectivity returns).
func (cc *c11Cluster) unpause(n *vfNode) {
	cc.step("unpause(%s)", n.ID)
	if p := n.Partition(cursorsStream, 0); p != nil {
		p.mu.Lock()
		p.pause = false
		p.mu.Unlock()
	}
}

func (cc *c11Cluster) isolateAndStop(n *vfNode, hot []c11Key, rng *kit.RNG) {
	cc.isolate(n, hot, rng)
	cc.step("stop(%s)", n.ID)
	if err := cc.c.StopNode(n.ID); err != nil {
		cc.inconclusive("stop " + n.ID + ": " + err.Error())
	}
}

func (cc *c11Cluster) restart(id string) bool {
	cc.step("restart(%s)", id)
	if err := cc.c.StartNode(id); err != nil {
		cc.inconclusive("restart " + id + ": " + err.Error())
		return false
	}
	cc.applyServerKnobs(cc.c.Nodes[id].Server())
	if !vfWait(45*time.Second, func() bool { return cc.c.Nodes[id].Partition(cursorsStream, 0) != nil }) {
		cc.inconclusive("restarted " + id + " never recovered the cursors partition")
		return false
	}
	cc.mu.Lock()
	cc.restarts++
	cc.mu.Unlock()
	return true
}

func (cc *c11Cluster) alive() bool {
	cc.mu.Lock()
	defer cc.mu.Unlock()
	return !cc.inconc
}

func c11RunCluster(rep *kit.Report, unit string, seed uint64) {
	rng := kit.NewRNG(seed)
	cfg := c11Cfg{Parts: 1, SegBytes: []int64{400, 1200, 4000}[rng.Intn(3)], CacheOff: rng.Chance(1, 4), Clients: rng.Range(3, 6), CleanMode: "forced", Steps: []string{"cluster"}}
	cfg.Ops = 160 / cfg.Clients
	cc, err := c11NewCluster(rep, unit, seed, cfg)
	if err != nil {
		rep.Inconc(fmt.Sprintf("cluster start failed: %v", err))
		return
	}
	defer cc.close()
	rep.Eval()
	hot, warm := c11HotKeys(rng.Range(4, 8)), c11WarmKeys(rng.Range(10, 20))
	others := func(not ...string) []string {
		var out []string
		for _, id := range cc.c.IDs {
			skip := false
			for _, x := range not {
				skip = skip || x == id
			}
			if !skip {
				out = append(out, id)
			}
		}
		return out
	}
	func() {
		l0 := cc.leader()
		if l0 == nil {
			return
		}
		cc.step("leader=%s", l0.ID)
		cc.concurrent(l0, rng, "concurrent-1", hot, warm)
		if !cc.settle() {
			return
		}
		cc.cleanEverywhere()
		cc.checkpoint(l0, rng, "after-compaction", hot, warm)
		if !cc.settle() {
			return
		}
		// first leader change: L0 is only isolated (it stays up, keeps the
		// cache of its time as leader and learns from Raft that it was
		// replaced)
		cc.isolate(l0, hot, rng)
		n1 := cc.waitLeaderNot(l0.ID)
		if n1 == nil {
			return
		}
		cc.unpause(l0)
		cc.checkpoint(n1, rng, "after-leader-change", hot, warm)
		cc.concurrent(n1, rng, "concurrent-2", hot, warm)
		for _, k := range hot { // every hot key gets a value L0 has never stored or cached
			cc.doSet(n1, 0, k, "at-new-leader")
		}
		if !cc.alive() {
			return
		}
		// L0 is still running and every server, L0 included, names N1: a
		// client with stale metadata would still send its fetch to L0, which
		// may refuse but must not answer from what it cached while in office
		cc.askNonLeaders(n1, append(append([]c11Key(nil), hot...), warm...), map[string]bool{l0.ID: true})
		if !cc.waitISR(cc.c.IDs...) || !cc.settle() {
			return
		}
		cc.cleanEverywhere()
		cc.checkpoint(n1, rng, "after-old-leader-rejoin", hot, warm)
		if !cc.settle() {
			return
		}
		// second leader change, back to L0
		third := others(l0.ID, n1.ID)[0]
		cc.hold(third)
		if !cc.waitISR(l0.ID, n1.ID) {
			return
		}
		cc.isolateAndStop(n1, hot, rng)
		back := cc.waitLeaderNot(n1.ID)
		if back == nil {
			return
		}
		cc.checkpoint(back, rng, "after-leader-change", hot, warm)
		cc.releaseGate(third)
		cc.concurrent(back, rng, "concurrent-3", hot, warm)
		if !cc.alive() || !cc.restart(n1.ID) {
			return
		}
		if !cc.waitISR(cc.c.IDs...) || !cc.settle() {
			return
		}
		if l := cc.leader(); l != nil {
			cc.checkpoint(l, rng, "final", hot, warm)
			cc.askNonLeaders(l, append(append([]c11Key(nil), hot...), warm...), map[string]bool{l0.ID: true, n1.ID: true})
		}
	}()
	cc.finish()
	cc.mu.Lock()
	complete, changes, steps, nops := !cc.inconc, cc.leaderChanges, append([]string(nil), cc.steps...), len(cc.ops)
	cc.mu.Unlock()
	rep.Count("ops", int64(nops))
	rep.Count("leader_changes", int64(changes))
	rep.Count("restarts", int64(cc.restarts))
	rep.Count("clean_calls", atomic.LoadInt64(&cc.cleans))
	rep.Count("compaction_removed_records", atomic.LoadInt64(&cc.compactRemoved))
	rep.Count("cache_purges", atomic.LoadInt64(&cc.purges))
	rep.Count("sets_with_unknown_outcome", atomic.LoadInt64(&cc.setUnknown))
	rep.Count("fetch_errors_in_concurrent_phases", atomic.LoadInt64(&cc.fetchErrConc))
	if complete && changes >= 2 {
		rep.Nontrivial(fmt.Sprintf("cluster/%s/%d", cfg.sig(), seed))
	}
	rep.Sample(map[string]any{"history_seed": seed, "config": cfg.sig(), "steps": steps, "ops": nops})
}

// TestVerifC11Cluster runs the cluster scenarios of one shard.
func TestVerifC11Cluster(t *testing.T) {
	shard, shards := kit.EnvInt("C11_SHARD", 0), kit.EnvInt("C11_SHARDS", 1)
	unit := os.Getenv("VERIF_UNIT")
	if unit == "" {
		unit = fmt.Sprintf("cluster%d", shard)
	}
	rep := kit.NewReport("C11", unit)
	defer rep.Write()
	rep.SetRule(c11ClusterRule)
	rep.Assume("network partitions are not simulated: the cursors-partition leader is isolated with the test-only pauseReplication switch and then stopped with Server.Stop(); operations are sent to the server that every running server names as leader")
	total := kit.Scale(1, 6)
	root := kit.NewRNG(kit.Mix(kit.Seed(), 0xC11D))
	for g := 0; g < total; g++ {
		seed := root.Uint64()
		if g%shards != shard {
			continue
		}
		if rep.NumViolations() >= 4 {
			break
		}
		c11RunCluster(rep, unit, seed)
	}
}
