//go:build verif

package server

// C02, families F8 and F9: schedules that need a delay at a suspension point
// of ONE server while the others move on (what asymmetric slowness or a
// descheduled goroutine produces in production):
//
//   F8  follower.afterFetch gate: follower F has RECEIVED the leader's answer
//       to a fetch (it carries a message the other follower X never got) but
//       has not handled it yet; the leader is deposed, X is elected, F becomes
//       X's follower and reconciles its log; only then does F's old
//       replication loop handle the deposed leader's answer.  It must be
//       dropped: otherwise F keeps an orphan at the offset where X commits
//       something else.
//   F9  partition.setLeader gate: follower F (ahead of X, holding an
//       uncommitted tail of the old leader) applies the leader change late;
//       until then its replication loop keeps sending fetches with the OLD
//       leader epoch, and the new leader X listens on the same subject.  X must
//       not serve them: the offset they carry describes F's unreconciled log,
//       and crediting F with it lets X commit (and ALL-ack) messages F does
//       not hold; F, still in the ISR, is elected after X dies.
//
// The leader change itself is committed as a raw CHANGE_LEADER operation
// through the metadata leader (the controller's decision "X is the new
// leader" is legitimate: X is in the ISR); every server applies it through
// its real FSM.

import (
	"context"
	"fmt"
	"time"

	client "github.com/liftbridge-io/liftbridge-api/v2/go"

	kit "github.com/liftbridge-io/liftbridge/internal/verifkit"
	proto "github.com/liftbridge-io/liftbridge/server/protocol"
)

type c02RespGate struct {
	epoch  uint64        // hold answers fetched under this leader epoch
	minLen int           // ... that are longer than an empty response
	ch     chan struct{} // closed = open
	caught chan struct{} // closed when an answer is being held
	held   bool
}

type c02ApplyGate struct {
	above  uint64 // hold leader changes to an epoch above this one
	ch     chan struct{}
	caught chan struct{}
	held   bool
}

func init() {
	c02FamilyCfg["F9"] = func(cfg *Config) { cfg.Clustering.ReplicaMaxLagTime = 4 * time.Second }
	c02FamilyCfg["F8"] = func(cfg *Config) { cfg.Clustering.ReplicaMaxLagTime = 3 * time.Second }
	c02FamilyCfg["F11"] = func(cfg *Config) { cfg.Clustering.ReplicaMaxLagTime = 10 * time.Second }
}

func on0(e *c02Env) func(name string, fn vfHookFn) {
	return func(name string, fn vfHookFn) { e.removers = append(e.removers, vfHooks.On(name, fn)) }
}

func (e *c02Env) installGates(on func(name string, fn vfHookFn)) {
	e.respGates = map[string]*c02RespGate{}
	e.applyGates = map[string]*c02ApplyGate{}
	on("follower.afterFetch", func(a ...interface{}) error {
		if a[1].(string) != e.stream {
			return nil
		}
		srv, epoch, n := a[0].(string), a[3].(uint64), a[4].(int)
		e.mu.Lock()
		g := e.respGates[srv]
		if g == nil || g.held || g.epoch != epoch || n <= g.minLen {
			e.mu.Unlock()
			return nil
		}
		g.held = true
		close(g.caught)
		ch := g.ch
		e.mu.Unlock()
		e.logf("afterFetch gate: %s holds an answer of %d bytes fetched under epoch %d", srv, n, epoch)
		<-ch
		e.logf("afterFetch gate: %s now handles the held answer (epoch %d)", srv, epoch)
		return nil
	})
	on("partition.setLeader", func(a ...interface{}) error {
		if a[1].(string) != e.stream {
			return nil
		}
		srv, leader, epoch := a[0].(string), a[3].(string), a[4].(uint64)
		e.mu.Lock()
		g := e.applyGates[srv]
		if g == nil || g.held || epoch <= g.above {
			e.mu.Unlock()
			return nil
		}
		g.held = true
		close(g.caught)
		ch := g.ch
		e.mu.Unlock()
		e.logf("setLeader gate: %s delays applying leader=%s epoch=%d", srv, leader, epoch)
		<-ch
		e.logf("setLeader gate: %s applies leader=%s epoch=%d now", srv, leader, epoch)
		return nil
	})
	// count fetches a follower sends under an epoch older than the one the
	// partition leader (as the metadata leader sees it) already has
	on("follower.beforeFetch", func(a ...interface{}) error {
		if a[1].(string) != e.stream {
			return nil
		}
		srv, epoch := a[0].(string), a[4].(uint64)
		e.mu.Lock()
		g := e.applyGates[srv]
		if g != nil && g.held && epoch <= g.above {
			e.staleFetches++
		}
		e.mu.Unlock()
		return nil
	})
}

func (e *c02Env) openAllGates() {
	e.mu.Lock()
	defer e.mu.Unlock()
	for id, g := range e.respGates {
		close(g.ch)
		delete(e.respGates, id)
	}
	for id, g := range e.applyGates {
		close(g.ch)
		delete(e.applyGates, id)
	}
}

func (e *c02Env) holdResponse(id string, epoch uint64) *c02RespGate {
	e.step("holdNextDataResponse(%s,e%d)", id, epoch)
	g := &c02RespGate{epoch: epoch, minLen: 40, ch: make(chan struct{}), caught: make(chan struct{})}
	e.mu.Lock()
	e.respGates[id] = g
	e.mu.Unlock()
	return g
}

func (e *c02Env) releaseResponse(id string) {
	e.step("releaseResponse(%s)", id)
	e.mu.Lock()
	if g := e.respGates[id]; g != nil {
		close(g.ch)
		delete(e.respGates, id)
	}
	e.mu.Unlock()
}

func (e *c02Env) holdApply(id string, above uint64) *c02ApplyGate {
	e.step("delayLeaderChange(%s,>e%d)", id, above)
	g := &c02ApplyGate{above: above, ch: make(chan struct{}), caught: make(chan struct{})}
	e.mu.Lock()
	e.applyGates[id] = g
	e.mu.Unlock()
	return g
}

func (e *c02Env) releaseApply(id string) {
	e.step("applyLeaderChangeNow(%s)", id)
	e.mu.Lock()
	if g := e.applyGates[id]; g != nil {
		close(g.ch)
		delete(e.applyGates, id)
	}
	e.mu.Unlock()
}

func (e *c02Env) waitParked(id string) bool {
	return vfWait(10*time.Second, func() bool {
		e.mu.Lock()
		defer e.mu.Unlock()
		return e.parked[id] > 0
	})
}

// changeLeader commits "x leads the partition" through the metadata leader.
func (e *c02Env) changeLeader(x string) bool {
	e.step("controller: CHANGE_LEADER -> %s", x)
	ok := vfWait(40*time.Second, func() bool {
		ml, err := e.c.MetaLeader(10 * time.Second)
		if err != nil {
			return false
		}
		ctx, cancel := context.WithTimeout(context.Background(), 8*time.Second)
		defer cancel()
		op := &proto.RaftLog{Op: proto.Op_CHANGE_LEADER, ChangeLeaderOp: &proto.ChangeLeaderOp{Stream: e.stream, Partition: 0, Leader: x}}
		f, err := ml.getRaft().applyOperation(ctx, op, nil)
		if err != nil {
			return false
		}
		return f.Error() == nil
	})
	if !ok {
		e.inconclusive("leader change to " + x + " could not be committed")
	}
	return ok
}

func (e *c02Env) waitLeads(x string) bool {
	ok := vfWait(30*time.Second, func() bool {
		p := e.c.Nodes[x].Partition(e.stream, 0)
		if p == nil {
			return false
		}
		l, _ := p.GetLeader()
		return l == x && p.IsLeader()
	})
	if !ok {
		e.inconclusive(x + " did not start leading")
	}
	return ok
}

func (e *c02Env) waitFollows(f, x string) bool {
	ok := vfWait(30*time.Second, func() bool {
		p := e.c.Nodes[f].Partition(e.stream, 0)
		if p == nil {
			return false
		}
		l, _ := p.GetLeader()
		p.mu.RLock()
		fol := p.isFollowing
		p.mu.RUnlock()
		return l == x && fol
	})
	if !ok {
		e.inconclusive(f + " did not become follower of " + x)
	}
	return ok
}

func c02F8(e *c02Env, rng *kit.RNG) {
	l := e.leader()
	if l == nil {
		return
	}
	if !e.publishAcked(rng.Range(2, 4), client.AckPolicy_ALL, 30*time.Second) {
		e.inconclusive("initial publishes not acked")
		return
	}
	e.settle("f8-initial")
	fol := c02Others(e.c, l.ID)
	f, x := fol[0], fol[1]
	if rng.Bool() {
		f, x = x, f
	}
	lp := l.Partition(e.stream, 0)
	_, epoch := lp.GetLeader()
	e.hold(x)
	if !e.waitParked(x) {
		e.inconclusive("follower " + x + " did not park at the fetch gate")
		return
	}
	g := e.holdResponse(f, epoch)
	tail := e.publish(rng.Range(1, 2), client.AckPolicy_LEADER, 15*time.Second)
	if !e.allAcked(tail) {
		e.inconclusive("tail on the leader not written")
		return
	}
	select {
	case <-g.caught:
	case <-time.After(15 * time.Second):
		e.inconclusive("follower " + f + " never received an answer with data")
		return
	}
	if lp.ISRSize() != 3 {
		e.inconclusive("ISR shrank before the leader could be deposed")
		return
	}
	xNewest := e.c.Nodes[x].Partition(e.stream, 0).log.NewestOffset()
	fNewest := e.c.Nodes[f].Partition(e.stream, 0).log.NewestOffset()
	e.step("held answer: leader newest=%d, %s newest=%d, %s newest=%d", lp.log.NewestOffset(), f, fNewest, x, xNewest)
	e.stop(l.ID)
	if !e.changeLeader(x) || !e.waitLeads(x) || !e.waitFollows(f, x) {
		return
	}
	e.release(x)
	e.mu.Lock()
	e.f8Reached = xNewest == fNewest // the held answer is contiguous with the reconciled log
	e.mu.Unlock()
	e.releaseResponse(f)
	time.Sleep(150 * time.Millisecond)
	if !e.publishAcked(rng.Range(1, 3), client.AckPolicy_ALL, 40*time.Second) {
		e.inconclusive("publishes at the new leader not acked")
		return
	}
	e.settle("f8-after-late-answer")
	if e.restart(l.ID) {
		e.publish(2, client.AckPolicy_ALL, 40*time.Second)
		e.settle("f8-old-leader-rejoined")
	}
}

func c02F9(e *c02Env, rng *kit.RNG) {
	l := e.leader()
	if l == nil {
		return
	}
	if !e.publishAcked(rng.Range(2, 4), client.AckPolicy_ALL, 30*time.Second) {
		e.inconclusive("initial publishes not acked")
		return
	}
	e.settle("f9-initial")
	fol := c02Others(e.c, l.ID)
	f, x := fol[0], fol[1]
	if rng.Bool() {
		f, x = x, f
	}
	// The server whose FSM is going to be stalled must not be the metadata
	// leader (its own proposals would wait for its own FSM).
	if ml, err := e.c.MetaLeader(20 * time.Second); err == nil && ml.config.Clustering.ServerID == f {
		f, x = x, f
	}
	lp := l.Partition(e.stream, 0)
	_, epoch := lp.GetLeader()
	e.hold(x)
	if !e.waitParked(x) {
		e.inconclusive("follower " + x + " did not park at the fetch gate")
		return
	}
	tail := e.publish(rng.Range(2, 3), client.AckPolicy_LEADER, 15*time.Second)
	if !e.allAcked(tail) {
		e.inconclusive("tail on the leader not written")
		return
	}
	target := lp.log.NewestOffset()
	fp := e.c.Nodes[f].Partition(e.stream, 0)
	if !vfWait(10*time.Second, func() bool { return fp.log.NewestOffset() >= target }) {
		e.inconclusive("follower " + f + " did not fetch the tail")
		return
	}
	ag := e.holdApply(f, epoch)
	if lp.ISRSize() != 3 {
		e.inconclusive("ISR shrank before the leader could be deposed")
		return
	}
	// the old leader stops answering fetches (isolated from its followers) but
	// stays in the cluster and applies the leader change like everybody else
	e.pauseReplication(l.ID)
	if !e.changeLeader(x) || !e.waitLeads(x) {
		return
	}
	e.release(x)
	e.unpause(l.ID)
	select {
	case <-ag.caught:
	case <-time.After(20 * time.Second):
		e.inconclusive(f + " never started applying the leader change")
		return
	}
	xp := e.c.Nodes[x].Partition(e.stream, 0)
	e.step("%s leads with newest=%d; %s (newest=%d) still fetches under epoch %d", x, xp.log.NewestOffset(), f, fp.log.NewestOffset(), epoch)
	// X accepts and commits new messages (with the stale follower counted, or
	// after it has been removed from the ISR for lagging)
	acked := e.publishAcked(rng.Range(1, 2), client.AckPolicy_ALL, 40*time.Second)
	e.mu.Lock()
	e.f9Reached = e.staleFetches > 0
	stale := e.staleFetches
	e.mu.Unlock()
	e.step("stale-epoch fetches sent by %s while %s led: %d; ALL publishes acked: %v", f, x, stale, acked)
	e.observe("f9-new-leader-committed")
	inISR := false
	for _, id := range xp.GetISR() {
		if id == f {
			inISR = true
		}
	}
	if !acked || !inISR {
		// the stale follower was (rightly) not counted as in sync: nothing more
		// can go wrong; let it join and finish
		e.releaseApply(f)
		if !acked && !e.publishAcked(1, client.AckPolicy_ALL, 40*time.Second) {
			e.inconclusive("publishes at the new leader not acked")
			return
		}
		e.settle("f9-late-follower-joined")
		return
	}
	// F is still counted as in sync although it never fetched from X: X dies
	// before F catches up, and the controller picks F (it is in the ISR)
	e.step("%s is still in the ISR of %s (%v) without having fetched under its epoch", f, x, xp.GetISR())
	e.stop(x)
	e.releaseApply(f)
	if !e.changeLeader(f) || !e.waitLeads(f) {
		return
	}
	e.checkLeaderComplete("f9-stale-follower-elected")
	if e.restart(x) {
		e.publish(2, client.AckPolicy_ALL, 40*time.Second)
		e.settle(fmt.Sprintf("f9-%s-rejoined", x))
	}
}

// F10: the stream is paused and resumed after the ISR has shrunk and messages
// were committed without the removed replica; the leader dies right after the
// resume.  The partition objects rebuilt by the resume must still know the
// shrunk ISR: otherwise the replica that missed the committed messages counts
// as in sync again and can be elected.
func c02F10(e *c02Env, rng *kit.RNG) {
	l := e.leader()
	if l == nil {
		return
	}
	if !e.publishAcked(rng.Range(2, 3), client.AckPolicy_ALL, 30*time.Second) {
		e.inconclusive("initial publishes not acked")
		return
	}
	e.settle("f10-initial")
	fol := c02Others(e.c, l.ID)
	lag := fol[rng.Intn(2)]
	e.hold(lag)
	if !e.waitParked(lag) {
		e.inconclusive("follower " + lag + " did not park at the fetch gate")
		return
	}
	if !e.publishAcked(rng.Range(2, 4), client.AckPolicy_ALL, 40*time.Second) {
		e.inconclusive("publishes with a held follower not acked (ISR shrink expected)")
		return
	}
	if !e.waitISR(2) {
		return
	}
	e.observe("f10-after-shrink-commit")
	ml, err := e.c.MetaLeader(20 * time.Second)
	if err != nil {
		e.inconclusive("no metadata leader")
		return
	}
	e.step("pauseStream")
	ctx, cancel := context.WithTimeout(context.Background(), 20*time.Second)
	_, perr := ml.api.PauseStream(ctx, &client.PauseStreamRequest{Name: e.stream})
	cancel()
	if perr != nil {
		e.inconclusive("pause: " + perr.Error())
		return
	}
	paused := vfWait(20*time.Second, func() bool {
		for _, n := range e.c.Running() {
			p := n.Partition(e.stream, 0)
			if p == nil || !p.IsPaused() {
				return false
			}
		}
		return true
	})
	if !paused {
		e.inconclusive("stream did not pause everywhere")
		return
	}
	e.step("resume (by a publish through the API)")
	ctx, cancel = context.WithTimeout(context.Background(), 20*time.Second)
	_, perr = ml.api.Publish(ctx, &client.PublishRequest{Stream: e.stream, Value: []byte("f10-resume"), Key: []byte("kr"), AckPolicy: client.AckPolicy_LEADER})
	cancel()
	if perr != nil {
		e.inconclusive("resuming publish: " + perr.Error())
		return
	}
	nl0 := e.leader()
	if nl0 == nil {
		return
	}
	e.mu.Lock()
	e.f10Reached = true
	e.mu.Unlock()
	// let the followers finish becoming followers of the resumed leader (they
	// reconcile through its answer); otherwise the leader's death below races
	// their epoch-offset request and pushes them into the lossy HW fallback,
	// which is a different (known) matter
	for _, id := range c02Others(e.c, nl0.ID) {
		if !e.waitFollows(id, nl0.ID) {
			return
		}
	}
	e.step("after resume: leader=%s ISR=%v", nl0.ID, nl0.Partition(e.stream, 0).GetISR())
	// the leader dies at once, before it could shrink the ISR again
	e.stop(nl0.ID)
	e.release(lag) // so that it can report the dead leader like any follower
	nl := e.waitLeaderNot(nl0.ID)
	if nl == nil {
		return
	}
	if nl.ID == lag {
		e.logf("NOTE: the replica that was out of the ISR before the pause (%s) was elected", lag)
	}
	e.checkLeaderComplete("f10-after-failover")
	e.publish(rng.Range(1, 2), client.AckPolicy_ALL, 40*time.Second)
	e.settle("f10-after-release")
	if e.restart(nl0.ID) {
		e.publish(2, client.AckPolicy_ALL, 40*time.Second)
		e.settle("f10-old-leader-rejoined")
	}
}

// F11: both followers have RECEIVED a batch from the leader but not stored it
// (their answers are held at the follower.afterFetch gate) when the leader
// dies; the controller makes one of them leader, and the held answers of the
// dead leader are then dropped by the epoch fence.  An ALL-policy message of
// that batch must not have been acknowledged: it exists on no survivor.
func c02F11(e *c02Env, rng *kit.RNG) {
	l := e.leader()
	if l == nil {
		return
	}
	if !e.publishAcked(rng.Range(2, 3), client.AckPolicy_ALL, 30*time.Second) {
		e.inconclusive("initial publishes not acked")
		return
	}
	e.settle("f11-initial")
	fol := c02Others(e.c, l.ID)
	x, y := fol[0], fol[1]
	if rng.Bool() {
		x, y = y, x
	}
	lp := l.Partition(e.stream, 0)
	_, epoch := lp.GetLeader()
	gx := e.holdResponse(x, epoch)
	gy := e.holdResponse(y, epoch)
	msgs := e.publish(rng.Range(1, 2), client.AckPolicy_ALL, 4*time.Second)
	for _, g := range []*c02RespGate{gx, gy} {
		select {
		case <-g.caught:
		case <-time.After(15 * time.Second):
			e.inconclusive("a follower never received the batch")
			return
		}
	}
	acked := e.allAcked(msgs)
	e.step("ALL publish acknowledged while both followers had only RECEIVED the batch: %v", acked)
	if lp.ISRSize() != 3 {
		e.inconclusive("ISR shrank before the leader died")
		return
	}
	e.stop(l.ID)
	if !e.changeLeader(x) || !e.waitLeads(x) || !e.waitFollows(y, x) {
		return
	}
	e.mu.Lock()
	e.f11Reached = true
	e.mu.Unlock()
	e.releaseResponse(x)
	e.releaseResponse(y)
	time.Sleep(150 * time.Millisecond)
	e.checkLeaderComplete("f11-after-failover")
	if !e.publishAcked(rng.Range(1, 2), client.AckPolicy_ALL, 45*time.Second) {
		e.inconclusive("publishes at the new leader not acked")
		return
	}
	e.settle("f11-new-leader")
	if e.restart(l.ID) {
		e.publish(2, client.AckPolicy_ALL, 40*time.Second)
		e.settle("f11-old-leader-rejoined")
	}
}

var _ = kit.Seed
