//go:build verif

package server

// C10, reverse subscriptions.  Documented (reverse-subscription-analysis.md,
// "Semantic Clarifications"; commitlog.NewReverseReader): start LATEST = from
// the newest message backwards, EARLIEST = from the oldest backwards, OFFSET X
// = from X backwards, a committed reader starts at the HW when the start lies
// above it, and reads down to the oldest retained message.  Everything else
// (stop positions, NEW_ONLY / TIMESTAMP starts, negative offsets) is checked
// for safety only.

import (
	"context"
	"fmt"
	"testing"

	client "github.com/liftbridge-io/liftbridge-api/v2/go"
	"google.golang.org/grpc/status"

	kit "github.com/liftbridge-io/liftbridge/internal/verifkit"
)

var c10RevStopClasses = []string{"on-cancel", "on-cancel", "on-cancel", "off-below-start", "off-at-start", "off-above-start", "off-oldest", "latest", "ts-at", "ts-before-all", "ts-after-all", "ts-at-equal-run"}

func (st *c10State) resolveRevStop(class string, rng *kit.RNG, sReq int64) (c10Stop, bool) {
	s := c10Stop{Class: class, Pos: client.StopPosition_STOP_OFFSET}
	switch class {
	case "on-cancel":
		s.Pos = client.StopPosition_STOP_ON_CANCEL
	case "off-below-start":
		if sReq <= 0 {
			return s, false
		}
		s.Off = int64(rng.Intn(int(sReq)))
	case "off-at-start":
		s.Off = sReq
	case "off-above-start":
		s.Off = sReq + int64(rng.Range(1, 5))
	case "off-oldest":
		if st.Oldest < 0 {
			return s, false
		}
		s.Off = st.Oldest
	case "latest":
		s.Pos = client.StopPosition_STOP_LATEST
	default:
		ts, ok := st.resolveTS(class, rng)
		if !ok {
			return s, false
		}
		s.Pos, s.TS = client.StopPosition_STOP_TIMESTAMP, ts
	}
	return s, true
}

// sparseStart reports whether the segment holding the effective reverse start
// offset has lost messages at or below that offset, i.e. whether "offset -
// base offset" is NOT the position of the start message inside its segment.
func (st *c10State) sparseStart(eff int64) bool {
	if eff < st.Oldest || len(st.All) == 0 {
		// below everything retained: sparse if the first segment's base is <= eff
		return len(st.Bases) > 0 && st.Bases[0] <= eff && eff >= 0
	}
	b := st.segOf(eff)
	if b < 0 {
		return false
	}
	n := int64(0)
	for _, m := range st.All {
		if m.Off >= b && m.Off <= eff && st.segOf(m.Off) == b {
			n++
		}
	}
	return eff-b != n-1
}

func (e *c10Env) c10Reverse(s c10Start, t c10Stop, st *c10State, caseSeed uint64) (out c10Outcome) {
	rep := e.rep
	reqStr := c10ReqString(s, t, true)
	sReq := st.startOffset(s)
	upper := sReq
	if upper > st.HW {
		upper = st.HW
	}
	documented := t.Pos == client.StopPosition_STOP_ON_CANCEL
	why := ""
	switch {
	case s.Pos == client.StartPosition_NEW_ONLY || s.Pos == client.StartPosition_TIMESTAMP:
		documented, why = false, "reverse with a NEW_ONLY / TIMESTAMP start is not documented"
		upper = st.HW
	case s.Pos == client.StartPosition_OFFSET && s.Off < 0:
		documented, why = false, "reverse from a negative offset is not documented"
	case !documented:
		why = "reverse with a stop position is not documented"
	}
	var expected []c10Msg
	com := st.committed()
	for i := len(com) - 1; i >= 0; i-- {
		if com[i].Off <= upper {
			expected = append(expected, com[i])
		}
	}
	var delivered []c10Msg
	sparse := st.sparseStart(upper)
	witness := func(obs string) map[string]any {
		return map[string]any{"seed": kit.Seed(), "shape_seed": e.seed, "case_seed": caseSeed, "shape": e.shape, "log": st.summary(),
			"request": reqStr, "oracle": map[string]any{"requested_start": sReq, "effective_start(min(start,HW))": upper, "documented": documented, "why_safety_only": why,
				"start_segment_is_sparse": sparse},
			"expected_offsets": c10Offs(expected), "delivered_offsets": c10Offs(delivered), "observed": obs}
	}
	cause := e.causeReverse(st, s, t, sReq, upper)
	if cause != "" && c10Seen("rev|"+cause) >= 3*c10CauseCap {
		out.skipped = true
		return
	}
	fail := func(kind, what string) {
		fp := fmt.Sprintf("C10:rev:%s:start=%s:stop=%s", kind, s.Class, t.Class)
		if cause != "" {
			c10Mark("rev|" + cause)
			fp = fmt.Sprintf("C10:rev:%s:%s", cause, kind)
		} else {
			c10Unattributed.Add(1)
		}
		rep.Violation(fp, fmt.Sprintf("%s on %s log: %s", reqStr, e.shape.label(), what), witness(what))
	}
	ctx, cancel := context.WithCancel(context.Background())
	defer cancel()
	sub, err := e.srv.api.SubscribeInternal(ctx, c10Request(e.stream, s, t, true))
	if err != nil {
		out.syncErr = true
		rep.Count("sync_error_"+status.Code(err).String(), 1)
		if documented && len(expected) > 0 {
			fail("subscribe-error", fmt.Sprintf("subscribe call failed with %v although committed messages %s lie at or below the start", err, c10Offs(expected)))
			return
		}
		out.ok = true
		return
	}
	defer sub.Close()
	last := int64(-1)
	for n := 0; ; n++ {
		ev := c10Next(sub, c10Watchdog)
		switch ev.Kind {
		case "timeout":
			out.inconc = true
			rep.Inconc(fmt.Sprintf("reverse %s on %s log (shape seed %d): watchdog after %d deliveries, no end", reqStr, e.shape.label(), e.seed, len(delivered)))
			return
		case "status":
			out.terminal = true
			rep.Count("reverse_end_status_"+ev.St.Code().String(), 1)
			if documented && len(delivered) < len(expected) {
				fail("ended-early", fmt.Sprintf("subscription ended with %v %q after %d of %d messages; next expected offset %d", ev.St.Code(), ev.St.Message(), len(delivered), len(expected), expected[len(delivered)].Off))
				return
			}
			out.ok = true
			return
		}
		m := ev.Msg
		delivered = append(delivered, m)
		out.delivered++
		i, ok := st.idx[m.Off]
		switch {
		case !ok || !c10Same(st.All[i], m):
			fail("not-retained", fmt.Sprintf("delivered %v which is not a retained message", m))
			return
		case m.Off > st.HW:
			fail("uncommitted", fmt.Sprintf("delivered offset %d above the HW %d", m.Off, st.HW))
			return
		case n > 0 && m.Off >= last:
			fail("order", fmt.Sprintf("delivered offset %d after %d (must be strictly descending, none twice)", m.Off, last))
			return
		case m.Off > upper:
			fail("above-start", fmt.Sprintf("delivered offset %d above the start %d", m.Off, upper))
			return
		}
		if documented {
			if n >= len(expected) {
				fail("extra", fmt.Sprintf("delivered offset %d after the oldest retained message", m.Off))
				return
			}
			if q := expected[n]; q.Off != m.Off {
				fail("missing", fmt.Sprintf("offset %d was skipped: %d was delivered while %d (committed, retained, at or below the start) was next", q.Off, m.Off, q.Off))
				return
			}
		}
		last = m.Off
		if n > len(st.All)+2 {
			fail("extra", "more deliveries than retained messages")
			return
		}
	}
}

func (e *c10Env) runReverseCases(rng *kit.RNG, nCases int) {
	rep := e.rep
	plan := c10Plan(rng, c10StartClasses, c10RevStopClasses)
	done := 0
	st, err := e.state()
	if err != nil {
		rep.Inconc("log state unreadable: " + err.Error())
		return
	}
	for _, pr := range plan {
		if done >= nCases || c10Unattributed.Load() >= c10UnattributedCap {
			break
		}
		s, ok := st.resolveStart(pr.s, rng)
		if !ok {
			continue
		}
		tt, ok := st.resolveRevStop(pr.t, rng, st.startOffset(s))
		if !ok {
			continue
		}
		done++
		out := e.c10Reverse(s, tt, st, rng.Uint64())
		if out.skipped {
			rep.Count("requests_skipped_cause_already_recorded", 1)
			continue
		}
		e.quiesce()
		rep.Eval()
		rep.Count("reverse_requests", 1)
		rep.Count("messages_delivered_and_compared", int64(out.delivered))
		if out.terminal {
			rep.Count("terminal_statuses_seen", 1)
		}
		if out.syncErr {
			rep.Count("subscribe_call_errors", 1)
		}
		if tt.Pos == client.StopPosition_STOP_ON_CANCEL {
			rep.Count("reverse_documented_requests", 1)
		}
		special := len(st.gaps(st.Oldest, st.Newest)) > 0 || st.Oldest > 0 || st.HW < st.Newest || st.Readonly || len(st.Bases) > 1
		if out.ok && special && out.delivered > 0 {
			rep.Nontrivial("rev|" + e.shape.label() + "|" + pr.s + "|" + pr.t)
		}
		rep.Count("start_"+pr.s, 1)
		rep.Count("stop_"+pr.t, 1)
	}
}

func TestVerifC10Reverse(t *testing.T) {
	c10Run(t, "reverse", true, kit.Scale(64, 700), kit.Scale(120, 253))
}
