//go:build verif

package server

// C05, unit `serverkill` — crash recovery of partition logs inside a REAL
// running server.
//
// The commitlog-level units of C05 run the operations of a log one at a time
// (or at hook points inside one cleaner pass).  Here the commit log is used the
// way a server uses it: the publish path (messageProcessingLoop -> Append), the
// per-log cleaner loop (retention + compaction on real ticks of a few
// milliseconds), the HW checkpoint loop, segment rolls from the appender AND
// from the cleaner loop, stream pause / resume (Close + reopen) and read-only
// switches all run concurrently, on 1-3 streams, in a child process that is
// then SIGKILLed at a point chosen in LOGICAL terms (the k-th journal line of a
// kind; or the k-th hit of a commitlog hook point, where the child kills
// itself inside the hook while the other goroutines are in flight).
//
// The child writes a journal with plain write(2) calls: `P stream seq key tag`
// BEFORE a publish call and `A stream seq offset` AFTER its ack (ack policy
// ALL: an ack means committed).  After the kill the parent
//   (a) copies the partition directories (sparse aware; the original stays
//       untouched as replay witness),
//   (b) lets a second child open every copied partition directory with the real
//       commitlog.New and the options partition.go would build, read it back,
//       run Clean(), append + roll, close and reopen (c05skReopen), and judges
//       what was read against the journal (c05skJudge),
//   (c) lets a third child restart a REAL server on the ORIGINAL data
//       directory, publish to every stream, read every stream through a
//       subscription from the earliest offset up to a fence message, append /
//       roll / pause / resume and read again; judged by the same function.
// No wall-clock value enters a verdict; every wait is a watchdog whose expiry
// is inconclusive.

import (
	"bytes"
	"context"
	"encoding/json"
	"fmt"
	"io"
	"os"
	"os/exec"
	"path/filepath"
	"regexp"
	"runtime/debug"
	"sort"
	"strconv"
	"strings"
	"sync"
	"sync/atomic"
	"syscall"
	"testing"
	"time"

	client "github.com/liftbridge-io/liftbridge-api/v2/go"

	kit "github.com/liftbridge-io/liftbridge/internal/verifkit"
	"github.com/liftbridge-io/liftbridge/server/commitlog"
)

// ---------------------------------------------------------------- plan

// c05skEff: the log settings in force for one stream (what partition.go turns
// into commitlog.Options).
type c05skEff struct {
	Seg      int64 `json:"seg"`
	SegAgeMs int64 `json:"seg_age_ms,omitempty"`
	RetMsgs  int64 `json:"ret_msgs,omitempty"`
	RetBytes int64 `json:"ret_bytes,omitempty"`
	RetAgeMs int64 `json:"ret_age_ms,omitempty"`
	Compact  bool  `json:"compact,omitempty"`
	CleanUs  int64 `json:"clean_us"`
}

func (e c05skEff) retention() bool { return e.RetMsgs > 0 || e.RetBytes > 0 || e.RetAgeMs > 0 }

type c05skStep struct {
	Kind  string   `json:"k"`              // pub | pause | ro | tick
	Keys  []string `json:"keys,omitempty"` // pub: one per message, "" = nil key
	Sizes []int    `json:"sizes,omitempty"`
}

type c05skStream struct {
	Name     string      `json:"name"`
	Class    string      `json:"class"`
	Override bool        `json:"override"` // every setting given in the CreateStreamRequest
	Eff      c05skEff    `json:"eff"`
	Steps    []c05skStep `json:"-"`
	NPub     int         `json:"npub"`
	NPause   int         `json:"npause"`
}

type c05skPlan struct {
	Seed     uint64        `json:"seed"`
	Case     int           `json:"case"`
	Class    string        `json:"server_class"`
	Wide     c05skEff      `json:"server_wide"`
	BatchMax int           `json:"batch_max"`
	BatchUs  int           `json:"batch_wait_us"`
	Streams  []c05skStream `json:"streams"`
	KillKind string        `json:"kill_kind"` // journal line kind: P A Z z R H:<point> D
	KillN    int           `json:"kill_n"`
	KillUs   int           `json:"kill_delay_us"`
	Self     bool          `json:"self_kill"` // the child kills itself inside the hook
	Long     bool          `json:"long"`      // waits for a ticker-driven HW checkpoint
	Nodes    int           `json:"nodes"`     // 1, or 2: leader + follower in the killed process (replication factor 2, min ISR 2)
}

func (p c05skPlan) String() string {
	b, _ := json.Marshal(p)
	return string(b)
}

var c05skClasses = []string{"plain", "retmsgs", "retbytes", "retage", "compact", "compact+ret"}

func c05skClassEff(class string, r *kit.RNG) c05skEff {
	e := c05skEff{Seg: int64(r.Range(180, 900))}
	if r.Chance(1, 3) {
		e.SegAgeMs = int64(r.Range(4, 40))
	}
	switch class {
	case "retmsgs":
		e.RetMsgs = int64(r.Range(3, 25))
	case "retbytes":
		e.RetBytes = e.Seg * int64(r.Range(1, 4))
	case "retage":
		e.RetAgeMs = int64(r.Range(15, 120))
	case "compact":
		e.Compact = true
	case "compact+ret":
		e.Compact = true
		if r.Bool() {
			e.RetMsgs = int64(r.Range(6, 30))
		} else {
			e.RetBytes = e.Seg * int64(r.Range(2, 5))
		}
	}
	return e
}

// c05skHookShort: commitlog hook points the child journals (`H <short> <n>`).
var c05skHookShort = map[string]string{
	"split.afterCAS":             "roll",
	"split.afterCreate":          "rollcreate",
	"clean.afterDeleteSeg":       "retdel",
	"segdelete.afterLogRemove":   "segdel",
	"compact.afterCreateCleaned": "compactc",
	"compact.afterWriteCleaned":  "compactw",
	"replace.afterClose":         "replclose",
	"replace.betweenRenames":     "between",
	"replace.afterRenames":       "replaced",
	"clean.afterCleanSegments":   "cleaned",
	"hw.beforeCheckpoint":        "ckptb",
	"hw.afterCheckpoint":         "ckpt",
	"epoch.beforeFlush":          "epochb",
	"epoch.afterFlush":           "epoch",
	"seg.write.afterLog":         "applog", // "applogc" for a .cleaned segment
	"newseg.afterLogCreate":      "newseg",
	"partition.followerAppend":   "fappend", // a follower appended a replicated message set
	"partition.truncate":         "ftrunc",  // a follower truncated its log on becoming follower
}

func c05skMakePlan(seed uint64, idx int) c05skPlan {
	r := kit.NewRNG(kit.Mix(kit.Mix(seed, 0xC055E7), uint64(idx)))
	p := c05skPlan{Seed: seed, Case: idx}
	rot := int(kit.Mix(seed, 0x5EED) % uint64(len(c05skClasses)))
	p.Class = c05skClasses[(idx+rot)%len(c05skClasses)]
	p.Wide = c05skClassEff(p.Class, r)
	p.Wide.CleanUs = int64(r.Range(1200, 9000))
	forceAge := int64(kit.EnvInt("C05SK_FORCE_AGE_MS", 0)) // knob for replay / sensitivity runs: every stream rolls by age
	if forceAge > 0 {
		p.Wide.SegAgeMs = forceAge
	}
	p.BatchMax = []int{1, 2, 4, 1024}[r.Intn(4)]
	if r.Chance(1, 3) {
		p.BatchUs = r.Range(200, 2500)
	}
	p.Long = idx%8 == 5
	p.Nodes = 1
	if idx%8 == 3 {
		p.Nodes = 2
	}
	ns := r.Range(1, 3)
	anyRet, anyCompact, anyPause, anyRO := false, false, false, false
	totalPub := 0
	for si := 0; si < ns; si++ {
		st := c05skStream{Name: fmt.Sprintf("sk%d", si)}
		if si > 0 && r.Chance(2, 3) {
			st.Override = true
			st.Class = c05skClasses[r.Intn(len(c05skClasses))]
			st.Eff = c05skClassEff(st.Class, r)
			if forceAge > 0 {
				st.Eff.SegAgeMs = forceAge
			}
			if r.Bool() {
				st.Eff.CleanUs = int64(r.Range(1, 8)) * 1000 // per-stream overrides are in ms
			} else {
				st.Eff.CleanUs = p.Wide.CleanUs
			}
		} else {
			st.Class = p.Class
			st.Eff = p.Wide
		}
		anyRet = anyRet || st.Eff.retention()
		anyCompact = anyCompact || st.Eff.Compact
		hot := r.Range(2, 4)
		nilPct := r.Range(10, 40)
		if !st.Eff.Compact && r.Bool() {
			nilPct = 100
		}
		want := r.Range(14, 56)
		seqNo := 0
		sincePause := true
		ticked := false
		for st.NPub < want {
			n := r.Range(1, 5)
			step := c05skStep{Kind: "pub"}
			for i := 0; i < n; i++ {
				seqNo++
				key := ""
				if r.Intn(100) >= nilPct {
					if r.Chance(1, 6) {
						key = fmt.Sprintf("u%d", seqNo) // a key never used before
					} else {
						key = fmt.Sprintf("k%d", r.Intn(hot))
					}
				}
				step.Keys = append(step.Keys, key)
				step.Sizes = append(step.Sizes, r.Range(0, 160))
			}
			st.Steps = append(st.Steps, step)
			st.NPub += n
			sincePause = true
			switch x := r.Intn(100); {
			case x < 13 && sincePause:
				st.Steps = append(st.Steps, c05skStep{Kind: "pause"})
				st.NPause++
				sincePause = false
				anyPause = true
			case x < 17:
				st.Steps = append(st.Steps, c05skStep{Kind: "ro", Keys: []string{""}, Sizes: []int{r.Range(0, 40)}})
				st.NPub++
				anyRO = true
			case p.Long && !ticked && st.NPub > want/2:
				st.Steps = append(st.Steps, c05skStep{Kind: "tick"})
				ticked = true
			}
		}
		totalPub += st.NPub
		p.Streams = append(p.Streams, st)
	}
	// kill point
	type kk struct {
		kind string
		max  int
		self bool // may be a self kill at the hook
	}
	kinds := []kk{{"P", totalPub, false}, {"P", totalPub, false}, {"A", totalPub * 3 / 4, false}, {"H:roll", totalPub / 5, true},
		{"H:applog", totalPub * 3 / 4, true}, {"H:rollcreate", totalPub / 5, true}, {"H:epoch", 3, true}}
	if p.Nodes > 1 {
		kinds = append(kinds, kk{"H:fappend", totalPub / 2, true}, kk{"H:fappend", totalPub / 2, true}, kk{"H:applog", totalPub, true})
	}
	if anyRet {
		kinds = append(kinds, kk{"H:retdel", 3, true}, kk{"H:segdel", 3, true})
	}
	if anyCompact {
		kinds = append(kinds, kk{"H:compactw", 8, true}, kk{"H:between", 8, true}, kk{"H:compactc", 8, true},
			kk{"H:applogc", 12, true}, kk{"H:replclose", 8, true}, kk{"H:replaced", 8, true})
	}
	if anyPause {
		kinds = append(kinds, kk{"Z", 2, false}, kk{"z", 2, false}, kk{"H:ckptb", 2, true}, kk{"H:ckpt", 2, true})
	}
	if anyRO {
		kinds = append(kinds, kk{"R", 1, false})
	}
	if p.Long {
		kinds = append(kinds, kk{"T", 1, false}, kk{"H:ckpt", 4, true})
	}
	if r.Chance(1, 20) {
		p.KillKind, p.KillN = "D", 1
	} else {
		k := kinds[r.Intn(len(kinds))]
		p.KillKind = k.kind
		if k.max < 1 {
			k.max = 1
		}
		p.KillN = r.Range(1, k.max)
		p.Self = k.self && r.Bool()
		if !p.Self && r.Chance(2, 3) {
			p.KillUs = r.Range(0, 3000)
		}
	}
	return p
}

// c05skTag is the unique value tag of message seq of a stream.
func c05skTag(seed uint64, stream string, seq int) string {
	h := kit.Mix(seed, uint64(seq))
	for _, c := range []byte(stream) {
		h = kit.Mix(h, uint64(c))
	}
	return fmt.Sprintf("%s-%d-%08x", stream, seq, uint32(h))
}

func c05skValue(tag string, pad int) []byte {
	return []byte(tag + "|" + strings.Repeat("x", pad))
}

func c05skTagOf(value []byte) string {
	if i := bytes.IndexByte(value, '|'); i >= 0 {
		return string(value[:i])
	}
	return string(value)
}

func c05skKeyStr(k []byte) string {
	if k == nil {
		return "-"
	}
	return string(k)
}

// ---------------------------------------------------------------- journal

type c05skJournal struct {
	mu sync.Mutex
	f  *os.File
}

func c05skOpenJournal(path string) *c05skJournal {
	f, err := os.OpenFile(path, os.O_CREATE|os.O_WRONLY|os.O_APPEND, 0644)
	if err != nil {
		fmt.Fprintln(os.Stderr, "c05sk child: cannot open journal:", err)
		os.Exit(5)
	}
	return &c05skJournal{f: f}
}

// line appends one line with a single write(2): under the process-crash model
// the OS keeps it once the call returned.
func (j *c05skJournal) line(format string, args ...interface{}) {
	s := fmt.Sprintf(format, args...)
	s = strings.ReplaceAll(s, "\n", " ") + "\n"
	j.mu.Lock()
	j.f.Write([]byte(s)) // nolint: errcheck
	j.mu.Unlock()
}

// c05skPub is what the journal knows about one publish.
type c05skPub struct {
	Seq   int
	Key   string // "-" = nil
	Tag   string
	Acked bool
	Off   int64
	Err   string
}

type c05skKnow struct {
	Pubs      map[int]*c05skPub
	ByTag     map[string]*c05skPub
	Created   bool
	PauseOpen bool // Z without z
	ROOpen    bool // read-only switched on and not yet off again
	Pauses    int
	Elected   map[uint64]bool // leader epochs announced by partition.becomeLeader
}

type c05skJournalInfo struct {
	Streams map[string]*c05skKnow
	Kinds   map[string]int // lines per kind
	Up      bool
	Done    bool
	SelfK   bool
	Fail    string // X line: the child gave up (watchdog)
	Lines   []string
	Bad     []string // journal-level contradictions (ack offset reused...)
}

func c05skKindOf(line string) string {
	f := strings.Fields(line)
	if len(f) == 0 {
		return ""
	}
	if f[0] == "H" && len(f) > 1 {
		return "H:" + f[1]
	}
	return f[0]
}

func (ji *c05skJournalInfo) know(stream string) *c05skKnow {
	k := ji.Streams[stream]
	if k == nil {
		k = &c05skKnow{Pubs: map[int]*c05skPub{}, ByTag: map[string]*c05skPub{}, Elected: map[uint64]bool{}}
		ji.Streams[stream] = k
	}
	return k
}

// c05skParseJournal reads complete lines only.
func c05skParseJournal(paths ...string) *c05skJournalInfo {
	ji := &c05skJournalInfo{Streams: map[string]*c05skKnow{}, Kinds: map[string]int{}}
	for _, path := range paths {
		raw, err := os.ReadFile(path)
		if err != nil {
			continue
		}
		if i := bytes.LastIndexByte(raw, '\n'); i >= 0 {
			raw = raw[:i]
		} else {
			raw = nil
		}
		for _, ln := range strings.Split(string(raw), "\n") {
			if ln == "" {
				continue
			}
			ji.Kinds[c05skKindOf(ln)]++
			f := strings.Fields(ln)
			if f[0] != "H" {
				ji.Lines = append(ji.Lines, ln)
			}
			switch f[0] {
			case "B":
				ji.Up = true
			case "D":
				ji.Done = true
			case "K":
				ji.SelfK = true
			case "X":
				ji.Fail = ln
			case "C":
				if len(f) > 1 {
					ji.know(f[1]).Created = true
				}
			case "P":
				if len(f) >= 5 {
					seq, _ := strconv.Atoi(f[2])
					k := ji.know(f[1])
					pb := &c05skPub{Seq: seq, Key: f[3], Tag: f[4], Off: -1}
					k.Pubs[seq] = pb
					k.ByTag[pb.Tag] = pb
				}
			case "A":
				if len(f) >= 4 {
					seq, _ := strconv.Atoi(f[2])
					off, _ := strconv.ParseInt(f[3], 10, 64)
					if pb := ji.know(f[1]).Pubs[seq]; pb != nil {
						pb.Acked, pb.Off = true, off
					}
				}
			case "E":
				if len(f) >= 3 {
					seq, _ := strconv.Atoi(f[2])
					if pb := ji.know(f[1]).Pubs[seq]; pb != nil {
						pb.Err = strings.Join(f[3:], " ")
					}
				}
			case "L":
				if len(f) >= 3 {
					ep, _ := strconv.ParseUint(f[2], 10, 64)
					ji.know(f[1]).Elected[ep] = true
				}
			case "Z":
				if len(f) > 1 {
					ji.know(f[1]).PauseOpen = true
				}
			case "z":
				if len(f) > 1 {
					k := ji.know(f[1])
					k.PauseOpen = false
					k.Pauses++
				}
			case "R":
				if len(f) > 2 {
					ji.know(f[1]).ROOpen = f[2] == "on"
				}
			case "r":
				if len(f) > 2 && f[2] == "off" {
					ji.know(f[1]).ROOpen = false
				}
			}
		}
	}
	for name, k := range ji.Streams {
		byOff := map[int64]*c05skPub{}
		for _, seq := range c05skSortedSeqs(k.Pubs) {
			pb := k.Pubs[seq]
			if !pb.Acked {
				continue
			}
			if o := byOff[pb.Off]; o != nil {
				ji.Bad = append(ji.Bad, fmt.Sprintf("stream %s: publishes %d (%s) and %d (%s) were both acknowledged at offset %d", name, o.Seq, o.Tag, pb.Seq, pb.Tag, pb.Off))
			}
			byOff[pb.Off] = pb
		}
	}
	return ji
}

func c05skSortedSeqs(m map[int]*c05skPub) []int {
	out := make([]int, 0, len(m))
	for s := range m {
		out = append(out, s)
	}
	sort.Ints(out)
	return out
}

// ---------------------------------------------------------------- child: common

type c05skSpec struct {
	Seed    uint64   `json:"seed"`
	Case    int      `json:"case"`
	Mode    string   `json:"mode"` // run | reopen | restart
	Dir     string   `json:"dir"`  // cluster directory (data dir of the server = Dir/a)
	Img     string   `json:"img"`  // reopen: copy of Dir/a/streams
	Journal string   `json:"journal"`
	Out     string   `json:"out"`
	Created []string `json:"created,omitempty"` // restart: streams the first journal saw created
}

// c05skRec is one message as read back (log reader or subscription).
type c05skRec struct {
	Off   int64  `json:"o"`
	Key   string `json:"k"` // "-" = nil
	Tag   string `json:"t"`
	Epoch uint64 `json:"e,omitempty"`
}

// c05skRead is one reading of one stream in one phase.
type c05skRead struct {
	Node     string           `json:"node,omitempty"` // replica the reading was taken from
	Stream   string           `json:"stream"`
	Phase    string           `json:"phase"`
	Err      string           `json:"err,omitempty"`   // error of the operation that led to this phase
	Panic    string           `json:"panic,omitempty"` // recovered panic (with repo frames)
	Timeout  string           `json:"timeout,omitempty"`
	Oldest   int64            `json:"oldest"`
	Newest   int64            `json:"newest"`
	HW       int64            `json:"hw"`
	Recs     []c05skRec       `json:"recs"`
	Epochs   [][2]int64       `json:"epochs,omitempty"` // leader-epoch-checkpoint: (epoch, start offset)
	LastEp   uint64           `json:"last_epoch,omitempty"`
	LOFLE    map[string]int64 `json:"lofle,omitempty"` // LastOffsetForLeaderEpoch per message epoch
	Segs     int              `json:"segs,omitempty"`
	Bases    []int64          `json:"bases,omitempty"` // base offsets of the segment files present when the reading ended
	Empty    []int64          `json:"empty,omitempty"` // base offsets of the segment files whose .log is empty
	Notes    []string         `json:"notes,omitempty"`
	Appended []c05skRec       `json:"appended,omitempty"` // post-append: what this phase appended (offsets returned)
}

type c05skResult struct {
	Done    bool                `json:"done"`
	Reads   []c05skRead         `json:"reads"`
	Inconc  []string            `json:"inconc,omitempty"`
	Elected map[string][]uint64 `json:"elected,omitempty"` // restart: epochs announced by becomeLeader per stream
}

func c05skWriteResult(path string, r *c05skResult) {
	b, _ := json.Marshal(r)
	os.WriteFile(path+".tmp", b, 0644) // nolint: errcheck
	os.Rename(path+".tmp", path)       // nolint: errcheck
}

// c05skStartServer starts the plan's server(s) with data directories dir/a
// (and dir/b) so that a later child can restart on them, with the plan's
// hostile log settings; private NATS server on a random port, Liftbridge on
// port 0.  With two nodes the replica timeouts are made so long that neither a
// failover nor an ISR shrink happens by itself: the leader of a partition stays
// the leader across the kill and the restart (leader changes are C02's subject).
func c05skStartServer(dir string, plan c05skPlan) (*vfCluster, *Server, error) {
	mut := func(cfg *Config) {
		w := plan.Wide
		cfg.Streams.SegmentMaxBytes = w.Seg
		cfg.Streams.SegmentMaxAge = time.Duration(w.SegAgeMs) * time.Millisecond
		cfg.Streams.RetentionMaxBytes = w.RetBytes
		cfg.Streams.RetentionMaxMessages = w.RetMsgs
		cfg.Streams.RetentionMaxAge = time.Duration(w.RetAgeMs) * time.Millisecond
		cfg.Streams.CleanerInterval = time.Duration(w.CleanUs) * time.Microsecond
		cfg.Streams.Compact = w.Compact
		cfg.Streams.AutoPauseTime = 0
		cfg.Streams.ConcurrencyControl = false
		cfg.Streams.Encryption = false
		cfg.BatchMaxMessages = plan.BatchMax
		cfg.BatchMaxTime = time.Duration(plan.BatchUs) * time.Microsecond
		cfg.Clustering.ReplicaMaxLagTime = 10 * time.Minute
		cfg.Clustering.ReplicaMaxLeaderTimeout = 10 * time.Minute
		if os.Getenv("C05SK_LOUD") != "" {
			cfg.LogSilent = false
			cfg.LogLevel = 5
		}
	}
	c := &vfCluster{Dir: dir, Nodes: map[string]*vfNode{}, mut: mut}
	c.NS, c.URL = vfStartNATS()
	nodes := plan.Nodes
	if nodes < 1 {
		nodes = 1
	}
	for i := 0; i < nodes; i++ {
		id := string(rune('a' + i))
		c.IDs = append(c.IDs, id)
		c.Nodes[id] = &vfNode{ID: id, Cfg: c.newConfig(id, i == 0)}
		if err := c.StartNode(id); err != nil {
			return c, nil, fmt.Errorf("start %s: %v", id, err)
		}
	}
	if _, err := c.MetaLeader(90 * time.Second); err != nil {
		return c, nil, err
	}
	if nodes > 1 {
		ok := vfWait(90*time.Second, func() bool {
			l := c.metaLeaderNow()
			if l == nil {
				return false
			}
			f := l.getRaft().GetConfiguration()
			if f.Error() != nil {
				return false
			}
			return len(f.Configuration().Servers) == nodes
		})
		if !ok {
			return c, nil, fmt.Errorf("cluster did not reach size %d: %w", nodes, errVfTimeout)
		}
	}
	return c, c.Nodes["a"].Server(), nil
}

func c05skCreateReq(st c05skStream, nodes int) *client.CreateStreamRequest {
	req := &client.CreateStreamRequest{Name: st.Name, Subject: "c05sk." + st.Name, ReplicationFactor: 1, Partitions: 1}
	if nodes > 1 {
		// an ack (policy ALL) then means: written by BOTH replicas
		req.ReplicationFactor = int32(nodes)
		req.MinIsr = &client.NullableInt32{Value: int32(nodes)}
	}
	if st.Override {
		e := st.Eff
		req.SegmentMaxBytes = &client.NullableInt64{Value: e.Seg}
		req.SegmentMaxAge = &client.NullableInt64{Value: e.SegAgeMs}
		req.RetentionMaxBytes = &client.NullableInt64{Value: e.RetBytes}
		req.RetentionMaxMessages = &client.NullableInt64{Value: e.RetMsgs}
		req.RetentionMaxAge = &client.NullableInt64{Value: e.RetAgeMs}
		req.CompactEnabled = &client.NullableBool{Value: e.Compact}
		req.CleanerInterval = &client.NullableInt64{Value: e.CleanUs / 1000}
	}
	return req
}

func c05skLoadSpec() (c05skSpec, bool) {
	path := os.Getenv("C05SK_SPEC")
	if path == "" {
		return c05skSpec{}, false
	}
	raw, err := os.ReadFile(path)
	var spec c05skSpec
	if err != nil || json.Unmarshal(raw, &spec) != nil {
		fmt.Fprintln(os.Stderr, "c05sk child: bad spec", path, err)
		os.Exit(5)
	}
	return spec, true
}

// TestVerifC05ServerKillChild is the child side of all three roles.
func TestVerifC05ServerKillChild(t *testing.T) {
	spec, ok := c05skLoadSpec()
	if !ok {
		t.Skip("child only")
	}
	plan := c05skMakePlan(spec.Seed, spec.Case)
	switch spec.Mode {
	case "run":
		c05skChildRun(spec, plan)
	case "reopen":
		c05skChildReopen(spec, plan)
	case "restart":
		c05skChildRestart(spec, plan)
	}
	os.Exit(0)
}

// ---------------------------------------------------------------- child: run (the process that gets killed)

func c05skPublish(s *Server, j *c05skJournal, seed uint64, stream string, seq int, key string, pad int, wg *sync.WaitGroup, hung *int32) {
	defer wg.Done()
	tag := c05skTag(seed, stream, seq)
	req := &client.PublishRequest{Stream: stream, Value: c05skValue(tag, pad), AckPolicy: client.AckPolicy_ALL}
	jk := "-"
	if key != "" {
		req.Key = []byte(key)
		jk = key
	}
	ctx, cancel := context.WithTimeout(context.Background(), 12*time.Second)
	defer cancel()
	j.line("P %s %d %s %s", stream, seq, jk, tag)
	resp, err := s.api.Publish(ctx, req)
	switch {
	case err != nil:
		j.line("E %s %d %v", stream, seq, err)
		if ctx.Err() != nil {
			atomic.StoreInt32(hung, 1)
		}
	case resp == nil || resp.Ack == nil:
		j.line("E %s %d no-ack", stream, seq)
	default:
		j.line("A %s %d %d", stream, seq, resp.Ack.Offset)
	}
}

func c05skChildRun(spec c05skSpec, plan c05skPlan) {
	j := c05skOpenJournal(spec.Journal)
	var counts sync.Map // short -> *int64
	var ckpts int64
	for point, short := range c05skHookShort {
		point, short := point, short
		vfHooks.On(point, func(args ...interface{}) error {
			name := short
			if point == "seg.write.afterLog" && len(args) > 0 {
				if sfx, _ := args[0].(string); sfx != "" {
					name = "applogc"
				}
			}
			if point == "newseg.afterLogCreate" && len(args) > 0 {
				if sfx, _ := args[0].(string); sfx != "" {
					return nil
				}
			}
			v, _ := counts.LoadOrStore(name, new(int64))
			n := atomic.AddInt64(v.(*int64), 1)
			if name == "ckpt" {
				atomic.AddInt64(&ckpts, 1)
			}
			j.line("H %s %d", name, n)
			if plan.Self && plan.KillKind == "H:"+name && int(n) == plan.KillN {
				j.line("K self %s %d", name, n)
				syscall.Kill(os.Getpid(), syscall.SIGKILL) // nolint: errcheck
				select {}
			}
			return nil
		})
	}
	vfHooks.On("partition.becomeLeader", func(args ...interface{}) error {
		if len(args) >= 6 {
			j.line("L %v %v %v %v", args[1], args[3], args[4], args[5])
		}
		return nil
	})
	c, s, err := c05skStartServer(spec.Dir, plan)
	if err != nil {
		j.line("X start %v", err)
		os.Exit(3)
	}
	j.line("B up")
	for _, st := range plan.Streams {
		if err := c.CreateStream(c05skCreateReq(st, plan.Nodes)); err != nil {
			j.line("X create %s %v", st.Name, err)
			os.Exit(3)
		}
		ln, err := c.PartitionLeader(st.Name, 0, 60*time.Second)
		if err != nil {
			j.line("X leader %s", st.Name)
			os.Exit(3)
		}
		if plan.Nodes > 1 {
			// the follower is replicating: both replicas in the ISR
			name := st.Name
			if !vfWait(60*time.Second, func() bool {
				p := ln.Partition(name, 0)
				return p != nil && p.ISRSize() == plan.Nodes
			}) {
				j.line("X isr %s", st.Name)
				os.Exit(3)
			}
		}
		j.line("C %s %s", st.Name, ln.ID)
	}
	var wg sync.WaitGroup
	for _, st := range plan.Streams {
		wg.Add(1)
		go func(st c05skStream) {
			defer wg.Done()
			seq := 0
			var hung int32
			for _, step := range st.Steps {
				if atomic.LoadInt32(&hung) != 0 {
					// a publish was not acknowledged within its deadline: the
					// partition does not answer any more, stop driving it
					j.line("G %s", st.Name)
					break
				}
				switch step.Kind {
				case "pub":
					var bw sync.WaitGroup
					for i := range step.Keys {
						seq++
						bw.Add(1)
						go c05skPublish(s, j, plan.Seed, st.Name, seq, step.Keys[i], step.Sizes[i], &bw, &hung)
					}
					bw.Wait()
				case "pause":
					j.line("Z %s", st.Name)
					ctx, cancel := context.WithTimeout(context.Background(), 30*time.Second)
					_, err := s.api.PauseStream(ctx, &client.PauseStreamRequest{Name: st.Name})
					cancel()
					j.line("z %s %v", st.Name, err)
				case "ro":
					j.line("R %s on", st.Name)
					ctx, cancel := context.WithTimeout(context.Background(), 30*time.Second)
					_, err := s.api.SetStreamReadonly(ctx, &client.SetStreamReadonlyRequest{Name: st.Name, Readonly: true})
					cancel()
					j.line("r %s on %v", st.Name, err)
					seq++
					var bw sync.WaitGroup
					bw.Add(1)
					var ignore int32
					c05skPublish(s, j, plan.Seed, st.Name, seq, "", step.Sizes[0], &bw, &ignore)
					j.line("R %s off", st.Name)
					ctx, cancel = context.WithTimeout(context.Background(), 30*time.Second)
					_, err = s.api.SetStreamReadonly(ctx, &client.SetStreamReadonlyRequest{Name: st.Name, Readonly: false})
					cancel()
					j.line("r %s off %v", st.Name, err)
				case "tick":
					// wait for a HW checkpoint that no pause of THIS stream caused
					// (ticker of the checkpoint loop: 5 s, not configurable)
					before := atomic.LoadInt64(&ckpts)
					ok := vfWait(9*time.Second, func() bool { return atomic.LoadInt64(&ckpts) > before })
					j.line("T %s %v", st.Name, ok)
				}
			}
		}(st)
	}
	wg.Wait()
	j.line("D")
	time.Sleep(90 * time.Second) // the parent kills us; never a verdict
	os.Exit(4)
}

// ---------------------------------------------------------------- child: reopen (oracle step b, reading side)

func c05skLogOptions(st c05skStream, path string) commitlog.Options {
	e := st.Eff
	return commitlog.Options{
		Name:                 fmt.Sprintf("[subject=%s, stream=%s, partition=%d]", "c05sk."+st.Name, st.Name, 0),
		Path:                 path,
		MaxSegmentBytes:      e.Seg,
		MaxSegmentAge:        time.Duration(e.SegAgeMs) * time.Millisecond,
		MaxLogBytes:          e.RetBytes,
		MaxLogMessages:       e.RetMsgs,
		MaxLogAge:            time.Duration(e.RetAgeMs) * time.Millisecond,
		Compact:              e.Compact,
		CompactMaxGoroutines: NewDefaultConfig().Streams.CompactMaxGoroutines,
		// The cleaner loop is not part of recovery: the oracle calls Clean()
		// itself, once, between two readings.
		CleanerInterval: time.Hour,
	}
}

func c05skRepoFrames() string {
	var out []string
	for _, ln := range strings.Split(string(debug.Stack()), "\n") {
		ln = strings.TrimSpace(ln)
		if strings.HasPrefix(ln, "github.com/liftbridge-io/liftbridge/server") && !strings.Contains(ln, "c05sk") {
			if i := strings.LastIndex(ln, "("); i > 0 {
				ln = ln[:i]
			}
			out = append(out, ln[strings.LastIndex(ln, "/")+1:])
			if len(out) >= 6 {
				break
			}
		}
	}
	return strings.Join(out, " < ")
}

// c05skGuard runs fn; a panic is returned as text with the repository frames.
func c05skGuard(fn func() error) (err error, panicked string) {
	defer func() {
		if p := recover(); p != nil {
			panicked = fmt.Sprintf("%v [%s]", p, c05skRepoFrames())
		}
	}()
	return fn(), ""
}

func c05skReadEpochFile(dir string) [][2]int64 {
	raw, err := os.ReadFile(filepath.Join(dir, "leader-epoch-checkpoint"))
	if err != nil {
		return nil
	}
	f := strings.Fields(string(raw))
	var out [][2]int64
	for i := 2; i+1 < len(f); i += 2 {
		e, _ := strconv.ParseInt(f[i], 10, 64)
		o, _ := strconv.ParseInt(f[i+1], 10, 64)
		out = append(out, [2]int64{e, o})
	}
	return out
}

func c05skBases(dir string) []int64 {
	ents, _ := os.ReadDir(dir)
	var out []int64
	for _, e := range ents {
		if strings.HasSuffix(e.Name(), ".log") {
			if b, err := strconv.ParseInt(strings.TrimSuffix(e.Name(), ".log"), 10, 64); err == nil {
				out = append(out, b)
			}
		}
	}
	sort.Slice(out, func(i, j int) bool { return out[i] < out[j] })
	return out
}

func c05skEmptyBases(dir string) []int64 {
	var out []int64
	for _, b := range c05skBases(dir) {
		if fi, err := os.Stat(filepath.Join(dir, fmt.Sprintf("%020d.log", b))); err == nil && fi.Size() == 0 {
			out = append(out, b)
		}
	}
	return out
}

func c05skCountSegs(dir string) int {
	ents, _ := os.ReadDir(dir)
	n := 0
	for _, e := range ents {
		if strings.HasSuffix(e.Name(), ".log") {
			n++
		}
	}
	return n
}

// c05skReadLog reads a log back, uncommitted, from its oldest offset.
func c05skReadLog(l commitlog.CommitLog, stream, phase, dir string) c05skRead {
	rd := c05skRead{Stream: stream, Phase: phase, Recs: []c05skRec{}}
	err, pn := c05skGuard(func() error {
		rd.Oldest, rd.Newest, rd.HW = l.OldestOffset(), l.NewestOffset(), l.HighWatermark()
		if rd.Newest < 0 {
			return nil
		}
		start := rd.Oldest
		if start < 0 {
			start = 0 // empty first segment: later segments may still hold messages
		}
		r, err := l.NewReader(start, true)
		if err != nil {
			if rd.Oldest < 0 {
				rd.Notes = append(rd.Notes, fmt.Sprintf("oldest=-1 newest=%d, NewReader(0): %v", rd.Newest, err))
				return nil
			}
			return fmt.Errorf("NewReader(%d): %v", start, err)
		}
		hb := make([]byte, 28)
		for i := 0; i < 1000000; i++ {
			m, off, _, ep, rerr := r.ReadMessage(vfCancelledCtx, hb)
			if rerr != nil {
				// The reader ends with an error when it reaches the log end under
				// a cancelled context; a read that ended early shows up as
				// newest-mismatch in the judge.
				if rerr != io.EOF {
					rd.Notes = append(rd.Notes, "reader ended with: "+rerr.Error())
				}
				return nil
			}
			rd.Recs = append(rd.Recs, c05skRec{Off: off, Key: c05skKeyStr(m.Key()), Tag: c05skTagOf(m.Value()), Epoch: ep})
		}
		return fmt.Errorf("reader did not end")
	})
	if err != nil {
		rd.Err = err.Error()
	}
	rd.Panic = pn
	if dir != "" {
		rd.Epochs = c05skReadEpochFile(dir)
		rd.Segs = c05skCountSegs(dir)
		rd.Bases = c05skBases(dir)
		rd.Empty = c05skEmptyBases(dir)
		_, pn2 := c05skGuard(func() error {
			rd.LastEp = l.LastLeaderEpoch()
			rd.LOFLE = map[string]int64{}
			for _, m := range rd.Recs {
				k := strconv.FormatUint(m.Epoch, 10)
				if _, ok := rd.LOFLE[k]; !ok {
					rd.LOFLE[k] = l.LastOffsetForLeaderEpoch(m.Epoch)
				}
			}
			return nil
		})
		if pn2 != "" && rd.Panic == "" {
			rd.Panic = pn2
		}
	}
	return rd
}

func c05skChildReopen(spec c05skSpec, plan c05skPlan) {
	res := &c05skResult{}
	for ni := 0; ni < plan.Nodes || ni == 0; ni++ {
		c05skReopenNode(spec, plan, string(rune('a'+ni)), res)
	}
	for i := range res.Reads {
		if res.Reads[i].Node == "" {
			res.Reads[i].Node = "?"
		}
	}
	res.Done = true
	c05skWriteResult(spec.Out, res)
}

func c05skReopenNode(spec c05skSpec, plan c05skPlan, node string, res *c05skResult) {
	first := len(res.Reads)
	defer func() {
		for i := first; i < len(res.Reads); i++ {
			res.Reads[i].Node = node
		}
	}()
	for _, st := range plan.Streams {
		dir := filepath.Join(spec.Img, node, st.Name, "0")
		if _, err := os.Stat(dir); err != nil {
			continue // the stream was never created
		}
		var l commitlog.CommitLog
		open := func(phase string) bool {
			err, pn := c05skGuard(func() (e error) {
				l, e = commitlog.New(c05skLogOptions(st, dir))
				return e
			})
			if err != nil || pn != "" {
				rd := c05skRead{Stream: st.Name, Phase: phase, Panic: pn, Recs: []c05skRec{}, Segs: c05skCountSegs(dir)}
				if err != nil {
					rd.Err = "commitlog.New: " + err.Error()
				}
				res.Reads = append(res.Reads, rd)
				return false
			}
			return true
		}
		if !open("open") {
			continue
		}
		rd := c05skReadLog(l, st.Name, "open", dir)
		res.Reads = append(res.Reads, rd)
		if rd.Err != "" || rd.Panic != "" {
			l.Close() // nolint: errcheck
			continue
		}
		// one deterministic cleaner pass
		err, pn := c05skGuard(func() error { return l.Clean() })
		rd = c05skReadLog(l, st.Name, "post-clean", dir)
		if err != nil {
			rd.Err = "Clean: " + err.Error()
		}
		if pn != "" {
			rd.Panic = pn
		}
		res.Reads = append(res.Reads, rd)
		if rd.Err != "" || rd.Panic != "" {
			l.Close() // nolint: errcheck
			continue
		}
		// keep using the log: append until it has rolled at least once
		var appended []c05skRec
		epoch := rd.LastEp
		if epoch == 0 {
			epoch = 1 // no history at all (killed before the first election was recorded)
		}
		err, pn = c05skGuard(func() error {
			want := rd.Newest + 1
			written := int64(0)
			for i := 0; i < 12 && written <= st.Eff.Seg+200; i++ {
				tag := fmt.Sprintf("reopen-%s-%d", st.Name, i)
				val := c05skValue(tag, 90)
				offs, err := l.Append([]*commitlog.Message{{MagicByte: 1, Value: val, Timestamp: time.Now().UnixNano(), LeaderEpoch: epoch,
					Headers: map[string][]byte{"subject": []byte("c05sk." + st.Name), "reply": {}}}})
				if err != nil {
					return fmt.Errorf("Append: %v", err)
				}
				if len(offs) != 1 || offs[0] != want {
					return fmt.Errorf("Append returned offsets %v, expected [%d] (newest offset was %d)", offs, want, want-1)
				}
				appended = append(appended, c05skRec{Off: offs[0], Key: "-", Tag: tag, Epoch: epoch})
				want++
				written += int64(len(val)) + 80
			}
			return nil
		})
		rd = c05skReadLog(l, st.Name, "post-append", dir)
		rd.Appended = appended
		if err != nil {
			rd.Err = err.Error()
		}
		if pn != "" {
			rd.Panic = pn
		}
		res.Reads = append(res.Reads, rd)
		err, pn = c05skGuard(func() error { return l.Close() })
		if err != nil || pn != "" || rd.Err != "" || rd.Panic != "" {
			if rd.Err == "" && rd.Panic == "" {
				rd2 := c05skRead{Stream: st.Name, Phase: "reopen2", Panic: pn, Recs: []c05skRec{}}
				if err != nil {
					rd2.Err = "Close: " + err.Error()
				}
				res.Reads = append(res.Reads, rd2)
			}
			continue
		}
		if !open("reopen2") {
			continue
		}
		rd = c05skReadLog(l, st.Name, "reopen2", dir)
		rd.Appended = appended
		res.Reads = append(res.Reads, rd)
		l.Close() // nolint: errcheck
	}
}

// ---------------------------------------------------------------- child: restart (oracle step c, a real server on the original directory)

// c05skSubRead reads a stream through a subscription from the earliest offset
// up to the fence offset (an acknowledged message published just before).
func c05skSubRead(s *Server, stream, phase string, fence int64) c05skRead {
	rd := c05skRead{Stream: stream, Phase: phase, Recs: []c05skRec{}, Oldest: -1, Newest: -1, HW: -1}
	deadline := time.Now().Add(35 * time.Second)
	next := int64(-1)
	state := func() string {
		if p := s.metadata.GetPartition(stream, 0); p != nil {
			return fmt.Sprintf("log: oldest %d newest %d hw %d, leading %v, paused %v", p.log.OldestOffset(), p.log.NewestOffset(), p.log.HighWatermark(), p.IsLeader(), p.IsPaused())
		}
		return "partition unknown"
	}
	// A subscription can fail to start, or end, while a compaction pass swaps
	// the segment it stands on ("segment has been closed"): that is not this
	// property's business, a client would subscribe again from where it was.
	for attempt := 0; time.Now().Before(deadline); attempt++ {
		ctx, cancel := context.WithCancel(context.Background())
		req := &client.SubscribeRequest{Stream: stream, Partition: 0, StartPosition: client.StartPosition_EARLIEST}
		if next >= 0 {
			req.StartPosition, req.StartOffset = client.StartPosition_OFFSET, next
		}
		sub, err := s.api.SubscribeInternal(ctx, req)
		if err != nil {
			cancel()
			if len(rd.Notes) < 4 {
				rd.Notes = append(rd.Notes, fmt.Sprintf("subscribe attempt %d: %v", attempt, err))
			}
			time.Sleep(3 * time.Millisecond)
			continue
		}
	READ:
		for {
			select {
			case m := <-sub.Messages():
				rd.Recs = append(rd.Recs, c05skRec{Off: m.Offset, Key: c05skKeyStr(m.Key), Tag: c05skTagOf(m.Value)})
				next = m.Offset + 1
				if m.Offset >= fence {
					cancel()
					sub.Close()
					if p := s.metadata.GetPartition(stream, 0); p != nil {
						rd.Oldest, rd.Newest, rd.HW = p.log.OldestOffset(), p.log.NewestOffset(), p.log.HighWatermark()
					}
					rd.Bases = c05skBases(filepath.Join(s.config.DataDir, "streams", stream, "0"))
					return rd
				}
			case st := <-sub.Errors():
				if len(rd.Notes) < 4 {
					rd.Notes = append(rd.Notes, fmt.Sprintf("subscription error after offset %d: %v", next-1, st.Err()))
				}
				break READ
			case <-sub.Closed():
				break READ
			case <-time.After(time.Until(deadline)):
				cancel()
				sub.Close()
				rd.Timeout = fmt.Sprintf("watchdog: fence offset %d not delivered (last delivered %d; %s)", fence, next-1, state())
				return rd
			}
		}
		cancel()
		sub.Close()
	}
	rd.Timeout = fmt.Sprintf("subscription kept ending before the fence offset %d (last delivered %d; %s)", fence, next-1, state())
	return rd
}

// c05skRetryMeta repeats a metadata operation while the answer is a transient
// "no (stable) metadata leader right now" (two Raft nodes just restarted).
func c05skRetryMeta(op func() error) error {
	var err error
	for i := 0; i < 40; i++ {
		if err = op(); err == nil {
			return nil
		}
		t := err.Error()
		if !strings.Contains(t, "leader") && !strings.Contains(t, "no responders") && !strings.Contains(t, "timeout") {
			return err
		}
		time.Sleep(250 * time.Millisecond)
	}
	return err
}

func c05skChildRestart(spec c05skSpec, plan c05skPlan) {
	j := c05skOpenJournal(spec.Journal)
	res := &c05skResult{Elected: map[string][]uint64{}}
	var rmu sync.Mutex
	vfHooks.On("partition.becomeLeader", func(args ...interface{}) error {
		if len(args) >= 6 {
			j.line("L %v %v %v %v", args[1], args[3], args[4], args[5])
		}
		return nil
	})
	var s *Server
	var c *vfCluster
	err, pn := c05skGuard(func() (e error) {
		c, s, e = c05skStartServer(spec.Dir, plan)
		return e
	})
	if err != nil || pn != "" {
		rd := c05skRead{Stream: "*", Phase: "start", Panic: pn, Recs: []c05skRec{}}
		if err != nil {
			rd.Err = err.Error()
		}
		res.Reads = append(res.Reads, rd)
		res.Done = true
		c05skWriteResult(spec.Out, res)
		return
	}
	j.line("B up")
	byName := map[string]c05skStream{}
	for _, st := range plan.Streams {
		byName[st.Name] = st
	}
	var wg sync.WaitGroup
	for _, name := range spec.Created {
		st, ok := byName[name]
		if !ok {
			continue
		}
		wg.Add(1)
		go func(st c05skStream) {
			defer wg.Done()
			add := func(rd c05skRead) {
				rmu.Lock()
				res.Reads = append(res.Reads, rd)
				rmu.Unlock()
			}
			inconc := func(f string, a ...interface{}) {
				rmu.Lock()
				res.Inconc = append(res.Inconc, st.Name+": "+fmt.Sprintf(f, a...))
				rmu.Unlock()
			}
			if !vfWait(90*time.Second, func() bool {
				for _, n := range c.Running() {
					if n.Partition(st.Name, 0) == nil {
						return false
					}
				}
				return true
			}) {
				inconc("partition not known to the restarted server(s) (watchdog)")
				return
			}
			err := c05skRetryMeta(func() error {
				ctx, cancel := context.WithTimeout(context.Background(), 30*time.Second)
				defer cancel()
				_, err := s.api.SetStreamReadonly(ctx, &client.SetStreamReadonlyRequest{Name: st.Name, Readonly: false})
				return err
			})
			if err != nil {
				inconc("SetStreamReadonly(false): %v", err)
				return
			}
			// the switch is applied by every server's FSM on its own time: the
			// publish precondition is checked against the LOCAL metadata
			if !vfWait(60*time.Second, func() bool {
				for _, n := range c.Running() {
					if p := n.Partition(st.Name, 0); p == nil || p.IsReadonly() {
						return false
					}
				}
				return true
			}) {
				inconc("read-only flag still set on some server after SetStreamReadonly(false) was committed (watchdog)")
				return
			}
			// the leader recorded in the metadata (a paused partition starts with the
			// first publish)
			leaderOf := func() *Server {
				p := s.metadata.GetPartition(st.Name, 0)
				if p == nil {
					return nil
				}
				ld, _ := p.GetLeader()
				if n := c.Nodes[ld]; n != nil {
					return n.Server()
				}
				return nil
			}
			if !vfWait(90*time.Second, func() bool {
				ls := leaderOf()
				if ls == nil {
					return false
				}
				p := ls.metadata.GetPartition(st.Name, 0)
				return p != nil && (p.IsPaused() || p.IsLeader())
			}) {
				p := s.metadata.GetPartition(st.Name, 0)
				ld, ep := "", uint64(0)
				if p != nil {
					ld, ep = p.GetLeader()
				}
				inconc("partition did not become leader after the restart (watchdog; leader=%q epoch=%d)", ld, ep)
				return
			}
			subRead := func(phase string, fence int64) c05skRead {
				ls := leaderOf()
				if ls == nil {
					return c05skRead{Stream: st.Name, Phase: phase, Recs: []c05skRec{}, Timeout: "no partition leader known"}
				}
				rd := c05skSubRead(ls, st.Name, phase, fence)
				rd.Node = ls.config.Clustering.ServerID
				return rd
			}
			seq := 1000000
			pub := func(key string, pad int) (int64, string) {
				seq++
				tag := c05skTag(plan.Seed, st.Name, seq)
				req := &client.PublishRequest{Stream: st.Name, Value: c05skValue(tag, pad), AckPolicy: client.AckPolicy_ALL}
				jk := "-"
				if key != "" {
					req.Key, jk = []byte(key), key
				}
				ctx, cancel := context.WithTimeout(context.Background(), 15*time.Second)
				defer cancel()
				j.line("P %s %d %s %s", st.Name, seq, jk, tag)
				resp, err := s.api.Publish(ctx, req)
				if err != nil {
					j.line("E %s %d %v", st.Name, seq, err)
					return -1, err.Error()
				}
				if resp == nil || resp.Ack == nil {
					j.line("E %s %d no-ack", st.Name, seq)
					return -1, "no ack"
				}
				j.line("A %s %d %d", st.Name, seq, resp.Ack.Offset)
				return resp.Ack.Offset, ""
			}
			fence, perr := pub("", 10)
			if perr != "" {
				rd := c05skRead{Stream: st.Name, Phase: "sub1", Recs: []c05skRec{}, Err: "fresh publish after the restart failed: " + perr}
				add(rd)
				return
			}
			rd := subRead("sub1", fence)
			add(rd)
			if rd.Timeout != "" {
				return
			}
			// append more (rolls several times), pause / resume once, read again
			keys := []string{"", "k0", "k1", "", "k0"}
			for i := 0; i < 5; i++ {
				if _, perr = pub(keys[i], int(st.Eff.Seg/3)); perr != "" {
					break
				}
			}
			if perr == "" && plan.Nodes == 1 {
				j.line("Z %s", st.Name)
				err := c05skRetryMeta(func() error {
					ctx, cancel := context.WithTimeout(context.Background(), 30*time.Second)
					defer cancel()
					_, err := s.api.PauseStream(ctx, &client.PauseStreamRequest{Name: st.Name})
					return err
				})
				j.line("z %s %v", st.Name, err)
				if err != nil {
					inconc("PauseStream after the restart: %v", err)
					return
				}
				for i := 0; i < 3 && perr == ""; i++ {
					_, perr = pub(keys[i+1], int(st.Eff.Seg/2))
				}
			}
			if perr == "" {
				fence, perr = pub("", 10)
			}
			if perr != "" {
				add(c05skRead{Stream: st.Name, Phase: "sub2", Recs: []c05skRec{}, Err: "publish after the restart failed: " + perr})
				return
			}
			rd = subRead("sub2", fence)
			add(rd)
			if plan.Nodes < 2 || rd.Timeout != "" {
				return
			}
			// the follower: once it has caught up to the fence, read its log
			for _, n := range c.Running() {
				if n.ID == rd.Node {
					continue
				}
				fp := n.Partition(st.Name, 0)
				if fp == nil || !vfWait(90*time.Second, func() bool {
					fp = n.Partition(st.Name, 0)
					return fp != nil && !fp.IsPaused() && fp.log.NewestOffset() >= fence
				}) {
					inconc("follower %s did not catch up to offset %d after the restart (watchdog)", n.ID, fence)
					continue
				}
				dir := filepath.Join(n.Cfg.DataDir, "streams", st.Name, "0")
				// a live log: a compaction pass may close the segment under the
				// reader ("segment has been closed"); read again
				var fr c05skRead
				for try := 0; try < 200; try++ {
					fp = n.Partition(st.Name, 0)
					fr = c05skReadLog(fp.log, st.Name, "follower", "")
					closedUnder := false
					for _, nt := range fr.Notes {
						closedUnder = closedUnder || strings.Contains(nt, "closed") || strings.Contains(nt, "replaced") || strings.Contains(nt, "not found")
					}
					if fr.Err == "" && fr.Panic == "" && !closedUnder && len(fr.Recs) > 0 && fr.Recs[len(fr.Recs)-1].Off >= fence {
						break
					}
					if fr.Panic != "" {
						break
					}
					fr.Timeout = "the follower's live log could not be read to the fence: " + fr.Err + " " + strings.Join(fr.Notes, "; ")
					time.Sleep(5 * time.Millisecond)
				}
				if fr.Err == "" && fr.Panic == "" && len(fr.Recs) > 0 && fr.Recs[len(fr.Recs)-1].Off >= fence {
					fr.Timeout = ""
				}
				fr.Node = n.ID
				fr.Oldest = fp.log.OldestOffset() // a live log: retention may have moved on while it was read
				fr.Bases = c05skBases(dir)
				add(fr)
			}
		}(st)
	}
	wg.Wait()
	rmu.Lock()
	res.Done = true
	c05skWriteResult(spec.Out, res)
	rmu.Unlock()
	j.line("D")
}

// ---------------------------------------------------------------- oracle

type c05skStats struct {
	AckedChecked, AckedPresent, RemovedRet, RemovedCompact int64
	RemovedRetHole                                         int64
	InflightPresent, InflightAbsent                        int64
	MustChecked                                            int64
}

// c05skJudge applies the property to one reading of one stream.
//
//   - offsets strictly increasing, no offset twice;
//   - no phantom: every message carries a tag the journal wrote a P line for (in
//     that stream, with that key), at most once, and at the acknowledged offset
//     if the publish was acknowledged (messages the reopen child appended itself
//     are known from its own record);
//   - every ACKNOWLEDGED message (and every message in `must`) is present at its
//     offset unless retention or compaction was entitled to remove it:
//     retention only if the stream has a retention limit and the offset lies
//     below the oldest message read (a prefix of whole segments) or in a hole of
//     whole segments in front of a newer segment file (a pass deletes the doomed
//     segments newest first: killed part-way it leaves survivors behind a
//     hole; never inside the range of a segment that is present), compaction
//     only if the stream is compacted, the message has a key and a LATER message
//     with the same key is present; a message without a key never disappears by
//     compaction;
//   - (log readings) NewestOffset agrees with the last message read; HW <= newest
//     offset and <= highest acknowledged offset + number of unacknowledged
//     publishes; the leader-epoch history is ordered, not ahead of the log, knows
//     the epoch of every message at or before its offset, and LastLeaderEpoch /
//     LastOffsetForLeaderEpoch agree with the messages.
func c05skJudge(st c05skStream, kn *c05skKnow, rd c05skRead, must map[int64]string, retCut int64, isLog bool, prev *c05skRead, stats *c05skStats, fail0 func(what, text string)) {
	ph := rd.Phase
	// Known finding (offset-assigned-twice:age-roll): with a segment age limit
	// the cleaner loop can roll the active segment while an append that already
	// took its base offset from the old segment is in flight; the LIVE server
	// then assigns the same offsets twice.  On streams with an age limit the
	// symptoms of that (overlapping segments, an acknowledged message displaced
	// by another journalled message) are reported under that one fingerprint.
	fail := func(what, text string) {
		if st.Eff.SegAgeMs > 0 {
			switch what {
			case "offsets-not-increasing", "duplicate-offset", "offset-moved", "acked-displaced":
				fail0("KNOWN-offset-assigned-twice", text)
				return
			}
		}
		if what == "acked-displaced" {
			what = "acked-lost"
		}
		fail0(what, text)
	}
	if rd.Panic != "" {
		what := "reopen-panic"
		if ph == "post-clean" || ph == "post-append" {
			what = "use-panic"
		} else if !isLog {
			what = "restart-panic"
		}
		fail(what, fmt.Sprintf("stream %s, phase %s: panic: %s", st.Name, ph, rd.Panic))
		return
	}
	if rd.Err != "" {
		what := "read-error"
		switch {
		case strings.HasPrefix(rd.Err, "commitlog.New"):
			what = "reopen-error"
		case strings.HasPrefix(rd.Err, "Clean"):
			what = "clean-error"
		case strings.HasPrefix(rd.Err, "Append"):
			what = "append-error"
		case strings.HasPrefix(rd.Err, "Close"):
			what = "close-error"
		}
		fail(what, fmt.Sprintf("stream %s, phase %s: %s", st.Name, ph, rd.Err))
		return
	}
	recs := rd.Recs
	for i := 1; i < len(recs); i++ {
		if recs[i].Off == recs[i-1].Off {
			fail("duplicate-offset", fmt.Sprintf("stream %s, phase %s: offset %d was returned twice (%s then %s); offsets read: %s", st.Name, ph, recs[i].Off, recs[i-1].Tag, recs[i].Tag, c05skOffs(recs)))
			return
		}
		if recs[i].Off < recs[i-1].Off {
			fail("offsets-not-increasing", fmt.Sprintf("stream %s, phase %s: offset %d (%s) was returned after offset %d; offsets read: %s", st.Name, ph, recs[i].Off, recs[i].Tag, recs[i-1].Off, c05skOffs(recs)))
			return
		}
	}
	at := map[int64]c05skRec{}
	appended := map[string]int64{}
	for _, a := range rd.Appended {
		appended[a.Tag] = a.Off
	}
	seen := map[string]int64{}
	for _, m := range recs {
		at[m.Off] = m
		if o, dup := seen[m.Tag]; dup {
			fail("duplicate-message", fmt.Sprintf("stream %s, phase %s: message %s is present at offset %d and at offset %d; offsets read: %s", st.Name, ph, m.Tag, o, m.Off, c05skOffs(recs)))
			return
		}
		seen[m.Tag] = m.Off
		if strings.HasPrefix(m.Tag, "reopen-") {
			if o, ok := appended[m.Tag]; !ok || o != m.Off {
				fail("phantom", fmt.Sprintf("stream %s, phase %s: message %s at offset %d was not appended there by the oracle (appended: %v)", st.Name, ph, m.Tag, m.Off, rd.Appended))
				return
			}
			continue
		}
		pb := kn.ByTag[m.Tag]
		if pb == nil {
			fail("phantom", fmt.Sprintf("stream %s, phase %s: offset %d holds %q (key %s), which no journalled publish of this stream carries; offsets read: %s", st.Name, ph, m.Off, m.Tag, m.Key, c05skOffs(recs)))
			return
		}
		if pb.Key != m.Key {
			fail("key-changed", fmt.Sprintf("stream %s, phase %s: message %s was published with key %s and is read back at offset %d with key %s", st.Name, ph, m.Tag, pb.Key, m.Off, m.Key))
			return
		}
		if pb.Acked && pb.Off != m.Off {
			fail("offset-moved", fmt.Sprintf("stream %s, phase %s: message %s was acknowledged at offset %d and is read back at offset %d", st.Name, ph, m.Tag, pb.Off, m.Off))
			return
		}
		if !pb.Acked {
			stats.InflightPresent++
		}
	}
	for _, a := range rd.Appended {
		if m, ok := at[a.Off]; !ok || m.Tag != a.Tag {
			fail("append-lost", fmt.Sprintf("stream %s, phase %s: the oracle appended %s at offset %d after recovery; reading back gives %v there; offsets read: %s", st.Name, ph, a.Tag, a.Off, at[a.Off], c05skOffs(recs)))
			return
		}
	}
	// must survive
	oldest := rd.Newest + 1
	if len(recs) > 0 {
		oldest = recs[0].Off
	}
	if (ph == "open" || !isLog) && retCut > oldest {
		// A retention pass deletes the doomed segments newest first: killed
		// part-way it leaves the OLDEST doomed segments in front of a hole.
		// Everything below the offset a Clean() of the reopened directory
		// keeps (retCut, from the reopen child) was retention's to remove.
		oldest = retCut
	}
	if !isLog && rd.Oldest > oldest {
		// a subscription is not an atomic reading: retention may have removed
		// segments behind or in front of the reader while it ran; the oldest
		// offset of the log was taken after the fence message was delivered
		oldest = rd.Oldest
	}
	laterKey := map[string]int64{} // key -> highest offset present
	for _, m := range recs {
		if m.Key != "-" {
			laterKey[m.Key] = m.Off
		}
	}
	// inHole: the offset does not lie within the populated range of any segment
	// file that is present.  A retention pass deletes the doomed segments newest
	// first, so a pass killed part-way leaves the oldest doomed segments in
	// front of a hole of WHOLE segments (and if the rest no longer exceeds the
	// limit the hole stays).  A message missing from inside a segment that is
	// still there is not retention's doing.
	inHole := func(off int64) bool {
		if len(rd.Bases) == 0 {
			return false
		}
		i := sort.Search(len(rd.Bases), func(i int) bool { return rd.Bases[i] > off })
		if i == len(rd.Bases) {
			// the newest segment file: retention never removes it, a message
			// missing from its range is lost
			return false
		}
		if i == 0 {
			return true // below every segment file that is present
		}
		base, next := rd.Bases[i-1], rd.Bases[i]
		lastPresent := base - 1
		for _, m := range recs {
			if m.Off >= base && m.Off < next && m.Off > lastPresent {
				lastPresent = m.Off
			}
		}
		return off > lastPresent
	}
	check := func(off int64, tag, key, why string) bool {
		if m, ok := at[off]; ok && m.Tag == tag {
			return true
		}
		if st.Eff.retention() && off < oldest {
			stats.RemovedRet++
			return true
		}
		if st.Eff.retention() && inHole(off) {
			stats.RemovedRetHole++
			return true
		}
		if st.Eff.Compact && key != "-" && laterKey[key] > off {
			stats.RemovedCompact++
			return true
		}
		have := "nothing"
		what := "acked-lost"
		if m, ok := at[off]; ok {
			have = fmt.Sprintf("%s (key %s)", m.Tag, m.Key)
			if kn.ByTag[m.Tag] != nil {
				what = "acked-displaced"
			}
		}
		fail(what, fmt.Sprintf("stream %s (%s: %+v), phase %s: message %s (key %s) %s at offset %d; the reading has %s at that offset, the oldest offset read is %d, the newest offset %d, and no later message with that key is present; offsets read: %s",
			st.Name, st.Class, st.Eff, ph, tag, key, why, off, have, oldest, rd.Newest, c05skOffs(recs)))
		return false
	}
	// a subscription reading ends at its fence: later publishes are not its business
	horizon := int64(1) << 62
	if !isLog {
		horizon = -1
		if len(recs) > 0 {
			horizon = recs[len(recs)-1].Off
		}
	}
	maxAcked, inflight := int64(-1), int64(0)
	for _, seq := range c05skSortedSeqs(kn.Pubs) {
		pb := kn.Pubs[seq]
		if pb.Acked && pb.Off > horizon {
			continue
		}
		if !pb.Acked {
			inflight++
			if _, ok := seen[pb.Tag]; !ok {
				stats.InflightAbsent++
			}
			continue
		}
		if pb.Off > maxAcked {
			maxAcked = pb.Off
		}
		stats.AckedChecked++
		if m, ok := at[pb.Off]; ok && m.Tag == pb.Tag {
			stats.AckedPresent++
		}
		if !check(pb.Off, pb.Tag, pb.Key, "was acknowledged") {
			return
		}
	}
	for _, off := range c05skSortedOffs(must) {
		if off > horizon {
			continue
		}
		tag := must[off]
		key := "-"
		if pb := kn.ByTag[tag]; pb != nil {
			key = pb.Key
		}
		stats.MustChecked++
		if !check(off, tag, key, "was present when the killed server's directory was reopened") {
			return
		}
	}
	if prev != nil {
		same := len(prev.Recs) == len(recs)
		for i := 0; same && i < len(recs); i++ {
			same = prev.Recs[i] == recs[i]
		}
		if !same {
			fail("reopen-differs", fmt.Sprintf("stream %s: closing and reopening the recovered log changed its content: before %s, after %s", st.Name, c05skOffs(prev.Recs), c05skOffs(recs)))
			return
		}
	}
	if !isLog {
		return
	}
	if len(recs) > 0 && rd.Newest < recs[len(recs)-1].Off {
		for _, b := range rd.Empty {
			if b == rd.Newest+1 {
				// Known finding: two goroutines (appender and cleaner loop) split the
				// same full segment; the loser computes its base offset from the
				// winner's segment (which already holds messages), creates its files
				// and deletes them again when its CAS fails.  Killed in between, the
				// stray empty segment becomes the active segment on recovery although
				// its base lies inside the previous segment.
				fail0("KNOWN-stray-segment", fmt.Sprintf("stream %s, phase %s: an empty segment file with base offset %d is the active segment after recovery (NewestOffset() = %d) although the previous segment holds messages up to offset %d; offsets read: %s, segment bases %v", st.Name, ph, b, rd.Newest, recs[len(recs)-1].Off, c05skOffs(recs), rd.Bases))
				return
			}
		}
	}
	if len(recs) > 0 && rd.Newest != recs[len(recs)-1].Off {
		fail("newest-mismatch", fmt.Sprintf("stream %s, phase %s: NewestOffset() = %d but the last message a reader returns is offset %d; offsets read: %s %v", st.Name, ph, rd.Newest, recs[len(recs)-1].Off, c05skOffs(recs), rd.Notes))
		return
	}
	if rd.HW > rd.Newest {
		fail("hw-above-newest", fmt.Sprintf("stream %s, phase %s: recovered HW %d is above the newest offset %d", st.Name, ph, rd.HW, rd.Newest))
		return
	}
	if bound := maxAcked + inflight + int64(len(rd.Appended)); rd.HW > bound {
		fail("hw-above-journal", fmt.Sprintf("stream %s, phase %s: recovered HW %d, but the highest acknowledged offset is %d and only %d publishes were unacknowledged", st.Name, ph, rd.HW, maxAcked, inflight))
		return
	}
	// leader-epoch history
	ents := rd.Epochs
	epochFail := func(kind, text string) {
		what := "epoch-" + kind
		if st.Eff.Compact && (kind == "unknown" || kind == "misplaced") {
			// known finding of unit interleave: a compacting Clean forgets epochs
			// assigned while it ran
			what = "KNOWN-epoch-behind-compaction-lost"
		}
		fail(what, fmt.Sprintf("stream %s, phase %s: %s (history %v, LastLeaderEpoch %d)", st.Name, ph, text, ents, rd.LastEp))
	}
	for i := 1; i < len(ents); i++ {
		if ents[i][0] <= ents[i-1][0] || ents[i][1] < ents[i-1][1] {
			epochFail("order", "the leader-epoch history is not ordered")
			return
		}
	}
	// Recovery (New) trims the history to the log end; a Clean() that emptied the
	// log legitimately moves the first entry to the next offset to be written.
	slack := int64(0)
	if ph == "post-clean" || ph == "post-append" {
		slack = 1
	}
	for _, e := range ents {
		if e[1] > rd.Newest+slack {
			epochFail("ahead", fmt.Sprintf("the history says leader epoch %d starts at offset %d but the newest offset is %d", e[0], e[1], rd.Newest))
			return
		}
	}
	for _, m := range recs {
		var have *[2]int64
		for i := range ents {
			if uint64(ents[i][0]) == m.Epoch {
				have = &ents[i]
			}
		}
		if have == nil {
			if len(ents) > 0 && m.Epoch < uint64(ents[0][0]) {
				continue // older than the history (retention collapsed it)
			}
			epochFail("unknown", fmt.Sprintf("message %d carries leader epoch %d which the history does not know", m.Off, m.Epoch))
			return
		}
		if have[1] > m.Off {
			epochFail("misplaced", fmt.Sprintf("message %d carries leader epoch %d but the history says that epoch starts at %d", m.Off, m.Epoch, have[1]))
			return
		}
		for _, e := range ents {
			if uint64(e[0]) > m.Epoch && m.Off > e[1] {
				epochFail("overlap", fmt.Sprintf("message %d carries leader epoch %d but epoch %d already starts at %d", m.Off, m.Epoch, e[0], e[1]))
				return
			}
		}
	}
	if len(recs) > 0 {
		last := recs[len(recs)-1]
		if rd.LastEp != last.Epoch && !(rd.LastEp > last.Epoch && kn.Elected[rd.LastEp]) {
			epochFail("query", fmt.Sprintf("LastLeaderEpoch() = %d but the newest message (offset %d) carries epoch %d and epoch %d was never announced", rd.LastEp, last.Off, last.Epoch, rd.LastEp))
			return
		}
		for k, got := range rd.LOFLE {
			ep, _ := strconv.ParseUint(k, 10, 64)
			if len(ents) > 0 && ep < uint64(ents[0][0]) {
				continue
			}
			lo, hi := int64(-1), rd.Newest
			for _, x := range recs {
				if x.Epoch <= ep {
					lo = x.Off
				} else {
					hi = x.Off
					break
				}
			}
			if got < lo || got > hi {
				epochFail("query", fmt.Sprintf("LastOffsetForLeaderEpoch(%d) = %d but the last message of an epoch <= %d is at %d and the first later one (or the log end) at %d", ep, got, ep, lo, hi))
				return
			}
		}
	}
}

func c05skOffs(recs []c05skRec) string {
	var sb strings.Builder
	sb.WriteString("[")
	for i := 0; i < len(recs); i++ {
		j := i
		for j+1 < len(recs) && recs[j+1].Off == recs[j].Off+1 {
			j++
		}
		if sb.Len() > 1 {
			sb.WriteString(" ")
		}
		if j > i {
			fmt.Fprintf(&sb, "%d-%d", recs[i].Off, recs[j].Off)
		} else {
			fmt.Fprintf(&sb, "%d", recs[i].Off)
		}
		i = j
	}
	sb.WriteString("]")
	return sb.String()
}

func c05skSortedOffs(m map[int64]string) []int64 {
	out := make([]int64, 0, len(m))
	for o := range m {
		out = append(out, o)
	}
	sort.Slice(out, func(i, j int) bool { return out[i] < out[j] })
	return out
}

// ---------------------------------------------------------------- parent: helpers

// c05skCopyFile copies a file keeping holes (index files are 10 MiB sparse).
func c05skCopyFile(src, dst string) error {
	in, err := os.Open(src)
	if err != nil {
		return err
	}
	defer in.Close()
	fi, err := in.Stat()
	if err != nil {
		return err
	}
	out, err := os.OpenFile(dst, os.O_CREATE|os.O_WRONLY|os.O_TRUNC, 0644)
	if err != nil {
		return err
	}
	defer out.Close()
	size := fi.Size()
	if err := out.Truncate(size); err != nil {
		return err
	}
	const seekData, seekHole = 3, 4
	fd := int(in.Fd())
	buf := make([]byte, 1<<16)
	for off := int64(0); off < size; {
		d, err := syscall.Seek(fd, off, seekData)
		if err != nil {
			if err == syscall.ENXIO {
				return nil
			}
			return err
		}
		h, err := syscall.Seek(fd, d, seekHole)
		if err != nil {
			return err
		}
		for p := d; p < h; {
			n := int64(len(buf))
			if h-p < n {
				n = h - p
			}
			m, rerr := in.ReadAt(buf[:n], p)
			if m > 0 {
				if _, werr := out.WriteAt(buf[:m], p); werr != nil {
					return werr
				}
				p += int64(m)
			}
			if rerr != nil && rerr != io.EOF {
				return rerr
			}
			if m == 0 {
				break
			}
		}
		off = h
	}
	return nil
}

func c05skCopyTree(src, dst string) error {
	return filepath.Walk(src, func(p string, fi os.FileInfo, err error) error {
		if err != nil {
			return err
		}
		rel, _ := filepath.Rel(src, p)
		if fi.IsDir() {
			return os.MkdirAll(filepath.Join(dst, rel), 0755)
		}
		if !fi.Mode().IsRegular() {
			return nil
		}
		return c05skCopyFile(p, filepath.Join(dst, rel))
	})
}

var c05skFrameRe = regexp.MustCompile(`(?m)^(github\.com/liftbridge-io/liftbridge/[^\n]*)\([^\n]*\)\n\t(\S+):\d+`)

// c05skCrashInfo: panic / fatal line, first repository frame and its file.
func c05skCrashInfo(out string) (line, frame, file string) {
	frame = "?"
	i := strings.Index(out, "panic: ")
	if j := strings.Index(out, "fatal error: "); j >= 0 && (i < 0 || j < i) {
		i = j
	}
	if i < 0 {
		return "", frame, ""
	}
	tail := out[i:]
	line = strings.SplitN(tail, "\n", 2)[0]
	for _, m := range c05skFrameRe.FindAllStringSubmatch(tail, -1) {
		if strings.Contains(m[2], "zz_verif_") || strings.Contains(m[2], "/harness/") || strings.Contains(m[1], "verifhook") || strings.Contains(m[1], "verifkit") || strings.Contains(m[1], "c05sk") {
			continue
		}
		name := m[1][strings.LastIndex(m[1], "/")+1:]
		if k := strings.Index(name, "."); k >= 0 {
			name = name[k+1:]
		}
		return line, name, m[2]
	}
	return line, frame, ""
}

func c05skLogHandling(file string) bool {
	return strings.Contains(file, "/server/commitlog/") || strings.HasSuffix(file, "/server/partition.go")
}

func c05skSelf() string {
	if s := os.Getenv("VERIF_SELF"); s != "" {
		return s
	}
	s, _ := os.Executable()
	return s
}

type c05skProc struct {
	Killed   bool // died by SIGKILL
	ExitErr  error
	Output   string
	TimedOut bool
	Landed   string // journal line that triggered the kill
}

func c05skSpawn(spec c05skSpec, base string) (*exec.Cmd, *bytes.Buffer, error) {
	raw, _ := json.Marshal(spec)
	specPath := base + "." + spec.Mode + ".spec.json"
	if err := os.WriteFile(specPath, raw, 0644); err != nil {
		return nil, nil, err
	}
	cmd := exec.Command(c05skSelf(), "-test.run", "^TestVerifC05ServerKillChild$", "-test.count", "1", "-test.timeout", "0")
	cmd.Env = append(os.Environ(), "C05SK_SPEC="+specPath)
	var outb bytes.Buffer
	cmd.Stdout, cmd.Stderr = &outb, &outb
	if err := cmd.Start(); err != nil {
		return nil, nil, err
	}
	return cmd, &outb, nil
}

// c05skRunAndKill starts the run child, tails its journal and kills it when the
// plan's logical kill point appears (the child kills itself for self kills).
func c05skRunAndKill(spec c05skSpec, plan c05skPlan, base string) c05skProc {
	var res c05skProc
	cmd, outb, err := c05skSpawn(spec, base)
	if err != nil {
		res.ExitErr = err
		return res
	}
	exited := make(chan error, 1)
	go func() { exited <- cmd.Wait() }()
	deadline := time.Now().Add(150 * time.Second)
	var f *os.File
	var pending []byte
	buf := make([]byte, 1<<15)
	count := 0
	kill := func(line string) {
		res.Landed = line
		if plan.KillUs > 0 {
			time.Sleep(time.Duration(plan.KillUs) * time.Microsecond)
		}
		cmd.Process.Kill() // nolint: errcheck
	}
	killed := false
	for {
		select {
		case werr := <-exited:
			res.ExitErr = werr
			if ee, ok := werr.(*exec.ExitError); ok {
				if ws, ok := ee.Sys().(syscall.WaitStatus); ok && ws.Signaled() && ws.Signal() == syscall.SIGKILL {
					res.Killed = true
				}
			}
			res.Output = outb.String()
			os.WriteFile(base+".run.output.txt", outb.Bytes(), 0644) // nolint: errcheck
			if f != nil {
				f.Close()
			}
			return res
		default:
		}
		if killed {
			time.Sleep(time.Millisecond)
			continue
		}
		if time.Now().After(deadline) {
			res.TimedOut = true
			cmd.Process.Kill() // nolint: errcheck
			killed = true
			continue
		}
		if f == nil {
			f, _ = os.Open(spec.Journal)
			if f == nil {
				time.Sleep(2 * time.Millisecond)
				continue
			}
		}
		n, _ := f.Read(buf)
		if n == 0 {
			time.Sleep(200 * time.Microsecond)
			continue
		}
		pending = append(pending, buf[:n]...)
		for !killed {
			i := bytes.IndexByte(pending, '\n')
			if i < 0 {
				break
			}
			line := string(pending[:i])
			pending = pending[i+1:]
			kind := c05skKindOf(line)
			if kind == "D" {
				kill(line)
				killed = true
				break
			}
			if plan.Self {
				continue
			}
			if kind == plan.KillKind {
				count++
				if count == plan.KillN {
					kill(line)
					killed = true
				}
			}
		}
	}
}

// c05skRunChild runs a reopen / restart child to its end (watchdog 4 min).
func c05skRunChild(spec c05skSpec, base string) (r c05skProc, result *c05skResult) {
	cmd, outb, err := c05skSpawn(spec, base)
	if err != nil {
		r.ExitErr = err
		return r, nil
	}
	done := make(chan error, 1)
	go func() { done <- cmd.Wait() }()
	select {
	case werr := <-done:
		r.ExitErr = werr
	case <-time.After(4 * time.Minute):
		r.TimedOut = true
		cmd.Process.Kill() // nolint: errcheck
		<-done
	}
	r.Output = outb.String()
	os.WriteFile(base+"."+spec.Mode+".output.txt", outb.Bytes(), 0644) // nolint: errcheck
	raw, rerr := os.ReadFile(spec.Out)
	if rerr == nil {
		var res c05skResult
		if json.Unmarshal(raw, &res) == nil && res.Done {
			result = &res
		}
	}
	return r, result
}

func c05skTail(s string, n int) string {
	if k := strings.Index(s, "panic: "); k > 0 {
		s = s[k:]
	} else if k := strings.Index(s, "fatal error: "); k > 0 {
		s = s[k:]
	}
	if len(s) > n {
		s = s[:n]
	}
	return s
}

func c05skLastLines(lines []string, n int) []string {
	if len(lines) > n {
		lines = lines[len(lines)-n:]
	}
	return lines
}

// ---------------------------------------------------------------- parent: the unit

func c05skSegBucket(n int) string {
	switch {
	case n <= 1:
		return "1"
	case n <= 3:
		return "2-3"
	case n <= 7:
		return "4-7"
	}
	return "8+"
}

func TestVerifC05ServerKill(t *testing.T) {
	rep := kit.NewReport("C05", "serverkill")
	defer rep.Write()
	rep.SetRule("seeded plans: a single-node server (1 plan in 8: two servers, leader + follower of every stream, replication factor 2, min ISR 2, no failover) in a child process (private NATS, hostile log settings: segment 180-900 B, cleaner interval 1-9 ms, retention by messages / bytes / age, compaction with 2-4 hot keys + nil keys + fresh keys, roll by age, batching; 1-3 streams, streams 2 and 3 mostly with per-stream overrides of every setting) runs a PRNG-determined program of concurrent acknowledged (ack policy ALL) publishes in bursts, stream pause / resume, read-only windows and (1 in 8) a wait for a ticker-driven HW checkpoint, journalling every publish before the call and every ack after it; the process is SIGKILLed at the k-th journal line of a PRNG-chosen kind (publish about to start, ack journalled, pause begun / returned, a commitlog hook point hit: roll, retention delete, cleaned segment created / written / between its renames, log written but not indexed, epoch flushed, HW checkpoint) plus 0-3000 us, or the child kills itself INSIDE the k-th hit of the hook; then (b) a child reopens a copy of every partition directory with commitlog.New, reads it, runs Clean(), appends until it rolls, closes and reopens, and (c) a child restarts the real server(s) on the original directory, publishes, reads each stream through a subscription from the earliest offset up to a fence, rolls, pauses / resumes (single-node plans) and reads again, and reads the follower's log once it has caught up; all readings are judged against the journal (c05skJudge); after the kill the two replicas must agree on every offset both hold. non-trivial = the child was killed after at least one acknowledged publish and both recovery children delivered readings; distinct = settings class of the stream set / kill kind / what was in flight (publish, pause, read-only window, idle) / cleaner had removed something / segment count bucket / number of servers")
	rep.Assume("process-crash model: the OS keeps every completed write(2) / rename / unlink / ftruncate and every store to a MAP_SHARED index page; the journal line of an event is written by one write(2) before (P) / after (A) the call, so an acknowledged publish without an A line is treated as in flight")
	rep.Assume("an unacknowledged publish (no A line, or an error returned) may or may not be in the log, at most once; retention may remove any prefix of whole segments of a stream that HAS a retention limit (whether it removed more than needed is C09's question); compaction may remove a keyed message only if a later message with the same key is present in the same reading")
	rep.Assume("the HW checkpoint interval is not configurable through the server (5 s); checkpoints are produced by pause (Close) in most plans and by the ticker only in the 1-in-8 'long' plans")
	work := os.Getenv("VERIF_WORK")
	if work == "" {
		work = t.TempDir()
	}
	rep.Assume("2-node plans: replica timeouts are 10 min, so the partition leader stays the leader across the kill and the restart (leader changes and HW-fallback truncation across a failover are C02's subject); with min ISR 2 an acknowledgement means both replicas wrote the message")
	rep.Assume("a server process that dies by itself in partition log handling is a violation only when no stream was ever paused in that case's history: pause closes a log whose cleaner / follower loop may still run and resume opens a second log object on the same directory (seen: SIGBUS on a freshly created index truncated under its mapping, follower append on a closed segment); such deaths are counted (live_crash_after_pause:<frame>) and reported as inconclusive")
	rep.Assume("a subscription that cannot be created or ends early because a compaction pass swaps the segment under it is created again from the next offset; a publish that is not acknowledged within its deadline, or a server that dies in the FSM while resuming a partition, is inconclusive (seen: a closed log's cleaner loop running one more iteration after pause)")
	n := kit.EnvInt("C05SK_CASES", kit.Scale(28, 300))
	first := kit.EnvInt("C05SK_FIRST", 0)
	var smu sync.Mutex
	samples := 0
	kit.Parallel(n, kit.Workers(), func(i int) {
		idx := first + i
		plan := c05skMakePlan(kit.Seed(), idx)
		caseDir := filepath.Join(work, fmt.Sprintf("sk-%d", idx))
		os.RemoveAll(caseDir)
		if err := os.MkdirAll(caseDir, 0755); err != nil {
			rep.Inconc(fmt.Sprintf("case %d: %v", idx, err))
			return
		}
		keep := os.Getenv("C05SK_KEEP") != ""
		defer func() {
			if !keep {
				if err := os.RemoveAll(caseDir); err != nil {
					fmt.Fprintln(os.Stderr, "c05sk: cleanup:", err)
				}
			}
		}()
		base := filepath.Join(caseDir, "c")
		spec := c05skSpec{Seed: kit.Seed(), Case: idx, Mode: "run", Dir: filepath.Join(caseDir, "data"), Journal: base + ".journal1"}
		run := c05skRunAndKill(spec, plan, base)
		ji := c05skParseJournal(spec.Journal)
		witness := func() map[string]any {
			keep = true
			return map[string]any{"seed": kit.Seed(), "case": idx, "plan": plan.String(), "killed_at": run.Landed, "journal_tail": c05skLastLines(ji.Lines, 40),
				"case_dir": caseDir, "rerun": fmt.Sprintf("VERIF_SEED=%d C05SK_FIRST=%d C05SK_CASES=1 ./check C05 --unit serverkill --keep", kit.Seed(), idx)}
		}
		if run.TimedOut {
			rep.Inconc(fmt.Sprintf("case %d: watchdog expired on the run child (journal: up=%v, %d lines, last %v)", idx, ji.Up, len(ji.Lines), c05skLastLines(ji.Lines, 3)))
			return
		}
		if !run.Killed {
			// the child died by itself
			line, frame, file := c05skCrashInfo(run.Output)
			if ji.Fail != "" || line == "" {
				rep.Inconc(fmt.Sprintf("case %d: run child ended by itself without a crash (%v; journal: %s; output: %.300s)", idx, run.ExitErr, ji.Fail, c05skTail(run.Output, 300)))
				return
			}
			rep.Eval()
			rep.Count("child_died_by_itself", 1)
			if c05skLogHandling(file) && ji.Kinds["Z"] > 0 {
				// A stream had been paused: pause closes the partition's log while
				// its cleaner loop / follower loop may still be running, and resume
				// opens a second log object on the same directory.  A crash of the
				// LIVE server in that situation is a defect, but not one of crash
				// recovery (nothing had been recovered yet).
				rep.Count("live_crash_after_pause:"+frame, 1)
				rep.Inconc(fmt.Sprintf("case %d: run child died by itself after a stream had been paused (outside this property): %s (first repository frame %s %s)", idx, line, frame, file))
			} else if c05skLogHandling(file) {
				w := witness()
				w["child_output"] = c05skTail(run.Output, 5000)
				rep.Violation("C05:serverkill:child-crash:"+frame, fmt.Sprintf("the server process died by itself before the kill, in partition log handling: %s (first repository frame %s, %s)", line, frame, file), w)
			} else {
				rep.Inconc(fmt.Sprintf("case %d: run child crashed outside partition log handling: %s (first repository frame %s %s)", idx, line, frame, file))
			}
			return
		}
		if !ji.Up {
			rep.Inconc(fmt.Sprintf("case %d: run child was killed before the server was up", idx))
			return
		}
		rep.Eval()
		// where did the kill land?
		landing := "idle"
		nAcked, nInflight := 0, 0
		for _, k := range ji.Streams {
			for _, pb := range k.Pubs {
				if pb.Acked {
					nAcked++
				} else if pb.Err == "" {
					nInflight++
				} else if strings.Contains(pb.Err, "deadline") {
					rep.Count("run_publish_not_acknowledged_in_time", 1)
				}
			}
		}
		for _, k := range ji.Streams {
			if k.ROOpen {
				landing = "readonly-window"
			}
		}
		if nInflight > 0 {
			landing = "publish-inflight"
		}
		for _, k := range ji.Streams {
			if k.PauseOpen {
				landing = "pause-inflight"
			}
		}
		killKind := plan.KillKind
		if plan.Self {
			killKind += "(self)"
		}
		switch {
		case ji.Done:
			rep.Count("completed_before_kill", 1)
			killKind = "completed"
		case plan.Self && !ji.SelfK:
			rep.Count("killed_by_unknown", 1)
		}
		rep.Count("kills_landed:"+landing, 1)
		rep.Count(fmt.Sprintf("cases_with_%d_node(s)", plan.Nodes), 1)
		rep.Count("follower_appends_seen", int64(ji.Kinds["H:fappend"]))
		rep.Count("kill_kind:"+killKind, 1)
		rep.Count("rolls_seen", int64(ji.Kinds["H:roll"]))
		rep.Count("cleaner_passes_seen", int64(ji.Kinds["H:cleaned"]))
		rep.Count("retention_deletes_seen", int64(ji.Kinds["H:retdel"]))
		rep.Count("compaction_segment_writes_seen", int64(ji.Kinds["H:compactw"]))
		rep.Count("segment_replacements_seen", int64(ji.Kinds["H:replaced"]))
		rep.Count("hw_checkpoints_seen", int64(ji.Kinds["H:ckpt"]))
		rep.Count("pauses_completed", int64(ji.Kinds["z"]))
		rep.Count("run_stream_stopped_answering", int64(ji.Kinds["G"]))
		rep.Count("publishes_acked", int64(nAcked))
		rep.Count("publishes_inflight_at_kill", int64(nInflight))
		for _, b := range ji.Bad {
			fp := "C05:serverkill:ack-offset-reused:run"
			for _, st := range plan.Streams {
				if strings.HasPrefix(b, "stream "+st.Name+":") && st.Eff.SegAgeMs > 0 {
					fp = "C05:serverkill:offset-assigned-twice:age-roll"
				}
			}
			rep.Violation(fp, "the running server (before the kill) "+b, witness())
		}
		cleanerRemoved := ji.Kinds["H:retdel"]+ji.Kinds["H:replaced"]+ji.Kinds["H:segdel"] > 0

		// (a) copy, (b) reopen in a child
		img := filepath.Join(caseDir, "img")
		copied := 0
		for ni := 0; ni < plan.Nodes; ni++ {
			node := string(rune('a' + ni))
			streamsDir := filepath.Join(spec.Dir, node, "streams")
			if _, err := os.Stat(streamsDir); err != nil {
				continue
			}
			if err := c05skCopyTree(streamsDir, filepath.Join(img, node)); err != nil {
				rep.Inconc(fmt.Sprintf("case %d: copying the data directory failed: %v", idx, err))
				return
			}
			copied++
		}
		if copied == 0 {
			rep.Count("killed_before_any_stream", 1)
			return
		}
		segs := 0
		for _, st := range plan.Streams {
			if c := c05skCountSegs(filepath.Join(img, "a", st.Name, "0")); c > segs {
				segs = c
			}
		}
		byName := map[string]c05skStream{}
		classes := []string{}
		for _, st := range plan.Streams {
			byName[st.Name] = st
			classes = append(classes, st.Class)
		}
		sort.Strings(classes)
		stats := &c05skStats{}
		failed := false
		failedStream := map[string]bool{} // one defect, one fingerprint: later phases of a stream that failed are not judged
		mkFail := func(extra map[string]any) func(what, text string) {
			return func(what, text string) {
				failed = true
				if sn, ok := extra["stream"].(string); ok {
					nd, _ := extra["node"].(string)
					failedStream[nd+"/"+sn] = true
				}
				w := witness()
				for k, v := range extra {
					w[k] = v
				}
				if what == "KNOWN-stray-segment" {
					ph, _ := extra["phase"].(string)
					rep.Violation("C05:serverkill:stray-segment-of-lost-split-race:"+ph, text+fmt.Sprintf(" [case %d, kill %s #%d landed %s: %q]", idx, killKind, plan.KillN, landing, run.Landed), w)
					return
				}
				if what == "KNOWN-offset-assigned-twice" {
					rep.Violation("C05:serverkill:offset-assigned-twice:age-roll", text, w)
					return
				}
				if strings.HasPrefix(what, "KNOWN-") {
					rep.Violation("C05:"+strings.TrimPrefix(what, "KNOWN-")+":serverkill", text, w)
					return
				}
				ph, _ := extra["phase"].(string)
				rep.Violation("C05:serverkill:"+what+":"+ph, text+fmt.Sprintf(" [case %d, kill %s #%d landed %s: %q]", idx, killKind, plan.KillN, landing, run.Landed), w)
			}
		}
		rspec := c05skSpec{Seed: kit.Seed(), Case: idx, Mode: "reopen", Img: img, Out: base + ".reopen.json"}
		rrun, rres := c05skRunChild(rspec, base)
		if rres == nil {
			line, frame, file := c05skCrashInfo(rrun.Output)
			switch {
			case rrun.TimedOut:
				rep.Inconc(fmt.Sprintf("case %d: watchdog expired on the reopen child", idx))
			case line != "" && c05skLogHandling(file):
				w := witness()
				w["child_output"] = c05skTail(rrun.Output, 5000)
				rep.Violation("C05:serverkill:reopen-crash:"+frame, fmt.Sprintf("the process reopening the killed server's partition directories with commitlog.New died: %s (first repository frame %s)", line, frame), w)
			default:
				rep.Inconc(fmt.Sprintf("case %d: reopen child gave no result (%v): %.300s", idx, rrun.ExitErr, c05skTail(rrun.Output, 300)))
			}
			return
		}
		present := map[string]map[int64]string{} // stream -> offset -> tag, as found by (b) on opening
		retCut := map[string]int64{}             // stream -> oldest offset kept by a Clean() of the reopened directory
		for _, rd := range rres.Reads {
			if rd.Phase == "post-clean" && rd.Err == "" && rd.Panic == "" && byName[rd.Stream].Eff.retention() {
				k := rd.Node + "/" + rd.Stream
				retCut[k] = rd.Newest + 1
				if len(rd.Recs) > 0 {
					retCut[k] = rd.Recs[0].Off
				}
			}
		}
		var prevRead *c05skRead
		for ri := range rres.Reads {
			rd := rres.Reads[ri]
			st, ok := byName[rd.Stream]
			key := rd.Node + "/" + rd.Stream
			if !ok || failedStream[key] {
				continue
			}
			kn := ji.know(rd.Stream)
			var prev *c05skRead
			if rd.Phase == "reopen2" && prevRead != nil && prevRead.Stream == rd.Stream && prevRead.Node == rd.Node && prevRead.Phase == "post-append" {
				prev = prevRead
			}
			c05skJudge(st, kn, rd, nil, retCut[key], true, prev, stats, mkFail(map[string]any{"phase": rd.Phase, "stream": rd.Stream, "node": rd.Node, "reading": rd}))
			if rd.Phase == "open" && rd.Err == "" && rd.Panic == "" {
				m := map[int64]string{}
				for _, x := range rd.Recs {
					m[x.Off] = x.Tag
				}
				present[key] = m
				rep.Count("streams_reopened", 1)
				if rd.Node != "a" || plan.Nodes > 1 {
					rep.Count("replica_logs_reopened(2-node cases)", 1)
				}
				rep.Count("messages_read_after_reopen", int64(len(rd.Recs)))
			}
			prevRead = &rres.Reads[ri]
		}
		// two replicas written under one leader never disagree on an offset both hold
		if plan.Nodes > 1 && !failed {
			for _, st := range plan.Streams {
				pa, pb := present["a/"+st.Name], present["b/"+st.Name]
				if pa == nil || pb == nil {
					continue
				}
				both := int64(0)
				for _, off := range c05skSortedOffs(pa) {
					tb, ok := pb[off]
					if !ok {
						continue
					}
					both++
					if tb != pa[off] {
						if st.Eff.SegAgeMs > 0 {
							mkFail(map[string]any{"phase": "open", "stream": st.Name})("KNOWN-offset-assigned-twice", fmt.Sprintf("stream %s: after the kill replica a holds %s at offset %d and replica b holds %s", st.Name, pa[off], off, tb))
						} else {
							mkFail(map[string]any{"phase": "open", "stream": st.Name})("replicas-differ", fmt.Sprintf("stream %s: after the kill replica a holds %s at offset %d and replica b holds %s (one leader, no leader change)", st.Name, pa[off], off, tb))
						}
						break
					}
				}
				rep.Count("offsets_compared_across_replicas", both)
			}
		}
		if failed {
			return
		}
		os.RemoveAll(img)

		// (c) restart a real server on the original directory
		var created []string
		for _, st := range plan.Streams {
			if ji.know(st.Name).Created {
				created = append(created, st.Name)
			}
		}
		sspec := c05skSpec{Seed: kit.Seed(), Case: idx, Mode: "restart", Dir: spec.Dir, Journal: base + ".journal2", Out: base + ".restart.json", Created: created}
		srun, sres := c05skRunChild(sspec, base)
		if sres == nil {
			line, frame, file := c05skCrashInfo(srun.Output)
			switch {
			case srun.TimedOut:
				rep.Inconc(fmt.Sprintf("case %d: watchdog expired on the restart child", idx))
			case line != "" && c05skLogHandling(file) && ji.Kinds["Z"]+c05skParseJournal(sspec.Journal).Kinds["Z"] > 0:
				// see above: with a pause in the history (replayed from the Raft log
				// at start-up, or performed by the restart child) two log objects
				// can work on one directory and the follower / cleaner loops of the
				// closed one may still run; a crash then is not attributable to
				// the recovery of the killed server's files
				rep.Count("live_crash_after_pause:"+frame, 1)
				rep.Inconc(fmt.Sprintf("case %d: restart child died with a pause / resume in its history (outside this property): %s (first repository frame %s %s)", idx, line, frame, file))
			case line != "" && c05skLogHandling(file):
				w := witness()
				w["child_output"] = c05skTail(srun.Output, 5000)
				rep.Violation("C05:serverkill:restart-crash:"+frame, fmt.Sprintf("the server restarted on the killed server's data directory died: %s (first repository frame %s)", line, frame), w)
			case line != "":
				rep.Inconc(fmt.Sprintf("case %d: restart child crashed outside partition log handling: %s (first repository frame %s %s)", idx, line, frame, file))
			default:
				rep.Inconc(fmt.Sprintf("case %d: restart child gave no result (%v): %.300s", idx, srun.ExitErr, c05skTail(srun.Output, 300)))
			}
			return
		}
		for _, s := range sres.Inconc {
			rep.Inconc(fmt.Sprintf("case %d: restart: %s", idx, s))
		}
		ji2 := c05skParseJournal(spec.Journal, sspec.Journal)
		for _, b := range ji2.Bad {
			dup := false
			for _, b1 := range ji.Bad {
				dup = dup || b1 == b
			}
			if dup {
				continue
			}
			fp := "C05:serverkill:ack-offset-reused:restart"
			for _, st := range plan.Streams {
				if strings.HasPrefix(b, "stream "+st.Name+":") && st.Eff.SegAgeMs > 0 {
					fp = "C05:serverkill:offset-assigned-twice:age-roll"
				}
			}
			rep.Violation(fp, "after the restart "+b, witness())
			failed = true
		}
		delivered := 0
		for _, rd := range sres.Reads {
			if rd.Phase == "start" {
				text := rd.Err + rd.Panic
				if strings.Contains(text, "commit log") || strings.Contains(text, "commitlog") || rd.Panic != "" {
					mkFail(map[string]any{"phase": "start"})("restart-error", "the server could not be restarted on the killed server's data directory: "+text)
				} else {
					rep.Inconc(fmt.Sprintf("case %d: restart child could not start the server: %s", idx, text))
				}
				continue
			}
			st, ok := byName[rd.Stream]
			if !ok {
				continue
			}
			if rd.Timeout != "" {
				rep.Inconc(fmt.Sprintf("case %d: restart, stream %s, %s: %s %v", idx, rd.Stream, rd.Phase, rd.Timeout, rd.Notes))
				continue
			}
			if rd.Err != "" && rd.Phase == "follower" {
				rep.Inconc(fmt.Sprintf("case %d: restart, stream %s, follower %s: %s", idx, rd.Stream, rd.Node, rd.Err))
				continue
			}
			if rd.Err != "" {
				if strings.Contains(rd.Err, "readonly partition") {
					// an answer, not a lost message: the read-only flag is metadata (C06)
					rep.Inconc(fmt.Sprintf("case %d: restart, stream %s, %s: %s", idx, rd.Stream, rd.Phase, rd.Err))
				} else if strings.Contains(rd.Err, "DeadlineExceeded") || strings.Contains(rd.Err, "deadline") || strings.Contains(rd.Err, "timeout") {
					rep.Count("restart_publish_not_acknowledged_in_time:"+rd.Phase, 1)
					rep.Inconc(fmt.Sprintf("case %d: restart, stream %s, %s: %s", idx, rd.Stream, rd.Phase, rd.Err))
				} else {
					mkFail(map[string]any{"phase": rd.Phase, "stream": rd.Stream})("restart-publish-refused", fmt.Sprintf("stream %s: %s", rd.Stream, rd.Err))
				}
				continue
			}
			key := rd.Node + "/" + rd.Stream
			if failedStream[key] {
				continue
			}
			c05skJudge(st, ji2.know(rd.Stream), rd, present[key], retCut[key], false, nil, stats, mkFail(map[string]any{"phase": rd.Phase, "stream": rd.Stream, "node": rd.Node, "reading": rd}))
			delivered++
			if rd.Phase == "follower" {
				rep.Count("follower_logs_read_after_restart", 1)
				continue
			}
			rep.Count("subscription_readings_judged", 1)
			rep.Count("messages_delivered_after_restart", int64(len(rd.Recs)))
		}
		rep.Count("acked_messages_checked", stats.AckedChecked)
		rep.Count("acked_messages_present", stats.AckedPresent)
		rep.Count("removed_by_retention(legit)", stats.RemovedRet)
		rep.Count("removed_by_compaction(legit)", stats.RemovedCompact)
		rep.Count("removed_by_retention_in_hole_behind_survivors(legit)", stats.RemovedRetHole)
		rep.Count("inflight_found_present", stats.InflightPresent)
		rep.Count("inflight_found_absent", stats.InflightAbsent)
		rep.Count("present_at_reopen_rechecked_after_restart", stats.MustChecked)
		if failed {
			return
		}
		if nAcked > 0 && delivered > 0 {
			rep.Nontrivial(fmt.Sprintf("n%d|%s|%s|%s|removed=%v|segs=%s", plan.Nodes, strings.Join(classes, ","), killKind, landing, cleanerRemoved, c05skSegBucket(segs)))
		}
		smu.Lock()
		if samples < 5 {
			samples++
			rep.Sample(map[string]any{"case": idx, "plan": json.RawMessage(plan.String()), "killed_at": run.Landed, "landing": landing, "acked": nAcked, "inflight": nInflight,
				"rolls": ji.Kinds["H:roll"], "cleaner_passes": ji.Kinds["H:cleaned"], "segments_max": segs, "journal_tail": c05skLastLines(ji.Lines, 6)})
		}
		smu.Unlock()
	})
}
