//go:build verif

package server

// C10 — a subscription delivers exactly the requested range.
//
// Shared machinery of the C10 units: a single-node server, a partition log
// SHAPED by the harness (dense / compacted-sparse / retention-trimmed / empty,
// one or many segments, HW below the end, read-only, empty active segment), an
// oracle that computes the expected delivery list independently from a raw
// scan of the retained messages + the HW and the documented rules, and a
// monitor that reads the subscription's message / status channels and judges
// by ORDER of events (fence message), never by elapsed time.

import (
	"bytes"
	"context"
	"fmt"
	"os"
	"path/filepath"
	"reflect"
	"sort"
	"strconv"
	"strings"
	"sync"
	"sync/atomic"
	"time"

	client "github.com/liftbridge-io/liftbridge-api/v2/go"
	"google.golang.org/grpc/codes"
	"google.golang.org/grpc/status"

	kit "github.com/liftbridge-io/liftbridge/internal/verifkit"
	"github.com/liftbridge-io/liftbridge/server/commitlog"
)

// ---------------------------------------------------------------- clock

// All message timestamps (server-assigned through the mocked package variable
// `timestamp`, and harness-assigned for direct appends) come from one strictly
// increasing counter that starts at the process start time and advances by 10
// per reading, so T+5 always lies strictly between two message times.
var (
	c10Clock     atomic.Int64
	c10ClockOnce sync.Once
)

func c10InstallClock() {
	c10ClockOnce.Do(func() {
		c10Clock.Store(time.Now().UnixNano())
		timestamp = func() int64 { return c10Clock.Add(10) }
	})
}

func c10Now() int64 { return c10Clock.Add(10) }

const (
	c10Grace    = 400 * time.Millisecond // when to send the fence as a PROBE (never a verdict)
	c10Watchdog = 25 * time.Second       // expiry => inconclusive
)

// ---------------------------------------------------------------- shapes

type c10Shape struct {
	Kind        string `json:"kind"` // dense | compacted | trimmed | both | empty
	N           int    `json:"messages"`
	SegBytes    int64  `json:"segment_max_bytes"`
	Keys        int    `json:"distinct_keys,omitempty"`
	RetMsgs     int64  `json:"retention_max_messages,omitempty"`
	Tail        int    `json:"uncommitted_tail"`
	HWInside    bool   `json:"hw_inside_compacted_segment,omitempty"` // commit only a prefix before Clean()
	Readonly    bool   `json:"readonly"`
	ViaAPI      bool   `json:"published_through_api"`
	EmptyActive bool   `json:"empty_active_segment,omitempty"` // background cleaner rolls the full active segment
	Batch       int    `json:"append_batch"`
	// CleanWaiting: run Clean() (compaction / retention) while a subscription
	// is waiting at the HW, just before the fence is appended.
	CleanWaiting bool `json:"clean_while_subscription_waits,omitempty"`
	// Parts: number of partitions of the stream (0 = 1); the requests always
	// address partition 0, the others exist for resume-all (lifecycle unit).
	Parts int32 `json:"partitions,omitempty"`
	// EqTS: directly appended messages come in runs of 2..5 EQUAL timestamps
	// (a clock that returns the same reading twice: coarse or stepped clock).
	EqTS bool `json:"equal_timestamp_runs,omitempty"`
	// Burst: (ViaAPI) the content is published by up to Burst concurrent
	// publishers at a time, so that the leader sequences several messages in
	// one batch; the acks (offset, reception timestamp) are kept for the
	// ts-at-ack-* request classes.
	Burst int `json:"api_burst_max,omitempty"`
}

func (s c10Shape) label() string {
	l := s.Kind
	if s.Tail > 0 {
		l += "+hwlag"
	}
	if s.HWInside {
		l += "+hwinside"
	}
	if s.Readonly {
		l += "+ro"
	}
	if s.EmptyActive {
		l += "+emptyactive"
	}
	if s.EqTS {
		l += "+eqts"
	}
	if s.Burst > 0 {
		l += "+burst"
	}
	return l
}

type c10Msg struct {
	Off int64  `json:"o"`
	Key []byte `json:"-"`
	Val []byte `json:"-"`
	TS  int64  `json:"t"`
}

func (m c10Msg) String() string {
	return fmt.Sprintf("{off=%d key=%q val=%q ts=%d}", m.Off, m.Key, m.Val, m.TS)
}

// c10State is what the oracle knows: the raw content of the log and the HW.
type c10State struct {
	All      []c10Msg // every retained message, committed or not, ascending
	HW       int64
	Oldest   int64
	Newest   int64
	Bases    []int64 // base offsets of the segment files
	Readonly bool
	idx      map[int64]int
	Acks     []c10Ack // acks of burst-published messages (shape.Burst > 0)
}

// c10Ack: what the Publish API returned for one message of a burst.
type c10Ack struct {
	Off  int64 // ack.Offset
	TS   int64 // ack.ReceptionTimestamp
	Pos  int   // position (by offset) inside its burst
	Size int   // number of messages of the burst
}

// eqRuns returns the index ranges [i, j] (j > i) of the maximal runs of equal
// timestamps among the retained messages.
func (st *c10State) eqRuns() [][2]int {
	var out [][2]int
	for i := 0; i < len(st.All); {
		j := i
		for j+1 < len(st.All) && st.All[j+1].TS == st.All[i].TS {
			j++
		}
		if j > i {
			out = append(out, [2]int{i, j})
		}
		i = j + 1
	}
	return out
}

// runOf counts the retained messages that carry exactly this timestamp.
func (st *c10State) runOf(ts int64) int {
	n := 0
	for _, m := range st.All {
		if m.TS == ts {
			n++
		}
	}
	return n
}

func (st *c10State) has(off int64) bool { _, ok := st.idx[off]; return ok }

func (st *c10State) committed() []c10Msg {
	n := sort.Search(len(st.All), func(i int) bool { return st.All[i].Off > st.HW })
	return st.All[:n]
}

// segOf returns the base offset of the segment file that holds off.
func (st *c10State) segOf(off int64) int64 {
	b := int64(-1)
	for _, x := range st.Bases {
		if x <= off {
			b = x
		}
	}
	return b
}

func (st *c10State) summary() map[string]any {
	offs := make([]string, 0, len(st.All))
	for i, m := range st.All {
		if i >= 160 {
			offs = append(offs, "...")
			break
		}
		offs = append(offs, fmt.Sprintf("%d@%d", m.Off, m.TS))
	}
	return map[string]any{"offset@timestamp": strings.Join(offs, " "), "hw": st.HW, "oldest": st.Oldest, "newest": st.Newest,
		"segment_bases": fmt.Sprint(st.Bases), "readonly": st.Readonly}
}

type c10Env struct {
	rep    *kit.Report
	c      *vfCluster
	srv    *Server
	stream string
	p      *partition
	dir    string
	shape  c10Shape
	seed   uint64
	seq    int
	rng    *kit.RNG
	// lifecycle unit (c10_lifecycle_test.go): tag = the lifecycle event the
	// request follows (goes into the fingerprint and the witness); reqMut
	// adjusts the subscribe request (Resume); afterSub runs right after the
	// subscribe call returned (the partition object may have been replaced).
	tag      string
	extra    map[string]any
	reqMut   func(*client.SubscribeRequest)
	afterSub func()
	// equal-timestamp runs of directly appended messages (shape.EqTS)
	lastTS int64
	eqLeft int
	// acks of burst-published messages (shape.Burst)
	acks []c10Ack
}

var c10StreamSeq atomic.Int64

func (e *c10Env) newMessage() *commitlog.Message {
	e.seq++
	ts := int64(0)
	if e.shape.EqTS && e.eqLeft > 0 && e.lastTS != 0 {
		// the clock returned the same reading again
		ts = e.lastTS
		e.eqLeft--
	} else {
		ts = c10Now()
		if e.shape.EqTS && e.rng.Chance(1, 3) {
			e.eqLeft = e.rng.Range(1, 4)
		}
	}
	e.lastTS = ts
	m := &commitlog.Message{MagicByte: 1, Timestamp: ts, LeaderEpoch: e.p.log.LastLeaderEpoch(),
		Value: []byte(fmt.Sprintf("c10-%s-%05d", e.stream, e.seq)), Headers: map[string][]byte{}}
	m.Key = e.keyFor(e.seq)
	return m
}

func (e *c10Env) keyFor(seq int) []byte {
	switch e.shape.Kind {
	case "compacted", "both":
		// never the empty key (that corner belongs to C08); half of the
		// messages get a key that is never written again (they survive)
		if e.rng.Bool() {
			return []byte(fmt.Sprintf("u%d", seq))
		}
		return []byte(fmt.Sprintf("k%d", e.rng.Intn(e.shape.Keys)))
	}
	if seq%3 == 0 {
		return nil
	}
	return []byte(fmt.Sprintf("key%d", seq%7))
}

// appendDirect appends n messages straight to the partition log (no commit).
func (e *c10Env) appendDirect(n, batch int) error {
	for n > 0 {
		b := batch
		if b < 1 {
			b = 1
		}
		if b > n {
			b = n
		}
		msgs := make([]*commitlog.Message, b)
		for i := range msgs {
			msgs[i] = e.newMessage()
		}
		if _, err := e.p.log.Append(msgs); err != nil {
			return err
		}
		n -= b
	}
	return nil
}

// publishAPI publishes one message through the server's Publish API (real
// path: NATS -> messageProcessingLoop -> Append -> HW) and waits until it is
// committed.
func (e *c10Env) publishAPI() error {
	var (
		resp *client.PublishResponse
		err  error
	)
	// An ack that does not arrive is not this property's business (C04): try
	// again (a message stored twice is harmless, the oracle reads the log) and
	// make the retry visible in the evidence.
	for attempt := 0; attempt < 3; attempt++ {
		e.seq++
		ctx, cancel := context.WithTimeout(context.Background(), 8*time.Second)
		resp, err = e.srv.api.Publish(ctx, &client.PublishRequest{Stream: e.stream, Key: e.keyFor(e.seq),
			Value: []byte(fmt.Sprintf("c10-%s-%05d", e.stream, e.seq)), AckPolicy: client.AckPolicy_LEADER})
		cancel()
		if err == nil {
			break
		}
		e.rep.Count("api_publish_retries", 1)
	}
	if err != nil {
		return err
	}
	if resp.Ack == nil {
		return fmt.Errorf("publish returned no ack")
	}
	off := resp.Ack.Offset
	if !vfWait(c10Watchdog, func() bool { return e.p.log.HighWatermark() >= off }) {
		return fmt.Errorf("published offset %d never committed: %w", off, errVfTimeout)
	}
	return nil
}

// publishBurst publishes k messages through the Publish API from k concurrent
// publishers (so that the leader may sequence them in one batch), keeps the
// acks and waits until all of them are committed.
func (e *c10Env) publishBurst(k int) error {
	reqs := make([]*client.PublishRequest, k)
	for i := range reqs {
		e.seq++
		reqs[i] = &client.PublishRequest{Stream: e.stream, Key: e.keyFor(e.seq),
			Value: []byte(fmt.Sprintf("c10-%s-%05d", e.stream, e.seq)), AckPolicy: client.AckPolicy_LEADER}
	}
	acks := make([]*client.Ack, k)
	var wg sync.WaitGroup
	for i := range reqs {
		wg.Add(1)
		go func(i int) {
			defer wg.Done()
			ctx, cancel := context.WithTimeout(context.Background(), 8*time.Second)
			defer cancel()
			if resp, err := e.srv.api.Publish(ctx, reqs[i]); err == nil && resp.Ack != nil {
				acks[i] = resp.Ack
			}
		}(i)
	}
	wg.Wait()
	var got []c10Ack
	maxOff := int64(-1)
	for _, a := range acks {
		if a == nil {
			// an ack that does not arrive is C04's business: publish one more
			e.rep.Count("api_publish_retries", 1)
			if err := e.publishAPI(); err != nil {
				return err
			}
			continue
		}
		got = append(got, c10Ack{Off: a.Offset, TS: a.ReceptionTimestamp})
		if a.Offset > maxOff {
			maxOff = a.Offset
		}
	}
	sort.Slice(got, func(i, j int) bool { return got[i].Off < got[j].Off })
	for i := range got {
		got[i].Pos, got[i].Size = i, len(got)
	}
	e.acks = append(e.acks, got...)
	if !vfWait(c10Watchdog, func() bool { return e.p.log.HighWatermark() >= maxOff }) {
		return fmt.Errorf("published offset %d never committed: %w", maxOff, errVfTimeout)
	}
	e.rep.Count("api_bursts", 1)
	e.rep.Count("api_burst_messages", int64(len(got)))
	return nil
}

// waitRolled waits (logical condition) until the background cleaner has rolled
// the full active segment, i.e. the last segment file is empty.
func (e *c10Env) waitRolled() bool {
	return vfWait(3*time.Second, func() bool {
		st, err := e.state()
		if err != nil || len(st.Bases) == 0 {
			return false
		}
		return st.Bases[len(st.Bases)-1] > st.Newest
	})
}

// c10Build creates the stream and shapes its partition log.
func c10Build(rep *kit.Report, c *vfCluster, srv *Server, sh c10Shape, seed uint64) (*c10Env, error) {
	e := &c10Env{rep: rep, c: c, srv: srv, shape: sh, seed: seed, rng: kit.NewRNG(kit.Mix(seed, 0x5a)),
		stream: fmt.Sprintf("c10s%d", c10StreamSeq.Add(1))}
	req := &client.CreateStreamRequest{Subject: e.stream + ".subj", Name: e.stream, ReplicationFactor: 1,
		SegmentMaxBytes: &client.NullableInt64{Value: sh.SegBytes},
		CleanerInterval: &client.NullableInt64{Value: 3600 * 1000}, Partitions: sh.Parts}
	if sh.EmptyActive {
		req.CleanerInterval = &client.NullableInt64{Value: 20}
	}
	if sh.Kind == "compacted" || sh.Kind == "both" {
		req.CompactEnabled = &client.NullableBool{Value: true}
	}
	if sh.Kind == "trimmed" || sh.Kind == "both" {
		req.RetentionMaxMessages = &client.NullableInt64{Value: sh.RetMsgs}
	}
	if err := c.CreateStream(req); err != nil {
		return nil, err
	}
	if _, err := c.PartitionLeader(e.stream, 0, c10Watchdog); err != nil {
		return nil, err
	}
	e.p = srv.metadata.GetPartition(e.stream, 0)
	if e.p == nil {
		return nil, fmt.Errorf("partition not found")
	}
	e.dir = filepath.Join(srv.config.DataDir, "streams", e.stream, "0")
	// 1. content
	if sh.ViaAPI && sh.Burst > 0 {
		for left := sh.N; left > 0; {
			k := e.rng.Range(1, sh.Burst)
			if k > left {
				k = left
			}
			if err := e.publishBurst(k); err != nil {
				return nil, err
			}
			left -= k
		}
	} else if sh.ViaAPI {
		for i := 0; i < sh.N; i++ {
			if err := e.publishAPI(); err != nil {
				return nil, err
			}
		}
	} else if sh.N > 0 {
		if err := e.appendDirect(sh.N, sh.Batch); err != nil {
			return nil, err
		}
		commitTo := e.p.log.NewestOffset()
		if sh.HWInside && sh.N >= 6 {
			commitTo = int64(sh.N/2 + e.rng.Intn(sh.N/3))
		}
		e.p.log.SetHighWatermark(commitTo)
	}
	// 2. retention / compaction
	if sh.Kind != "dense" && sh.Kind != "empty" {
		if err := e.p.log.Clean(); err != nil {
			return nil, fmt.Errorf("Clean: %v", err)
		}
	}
	// 3. uncommitted tail
	if sh.Tail > 0 && !sh.HWInside {
		if err := e.appendDirect(sh.Tail, 1); err != nil {
			return nil, err
		}
	}
	if sh.EmptyActive {
		e.waitRolled()
	}
	// 4. read-only through the API
	if sh.Readonly {
		ctx, cancel := context.WithTimeout(context.Background(), c10Watchdog)
		defer cancel()
		if _, err := srv.api.SetStreamReadonly(ctx, &client.SetStreamReadonlyRequest{Name: e.stream, Readonly: true}); err != nil {
			return nil, err
		}
		if !vfWait(c10Watchdog, func() bool { return e.p.log.IsReadonly() }) {
			return nil, fmt.Errorf("partition never became readonly: %w", errVfTimeout)
		}
	}
	return e, nil
}

func (e *c10Env) destroy() {
	ctx, cancel := context.WithTimeout(context.Background(), c10Watchdog)
	defer cancel()
	e.srv.api.DeleteStream(ctx, &client.DeleteStreamRequest{Name: e.stream}) // nolint: errcheck
}

// state reads the oracle's view: HW first, then the raw content.
func (e *c10Env) state() (*c10State, error) {
	l := e.p.log
	st := &c10State{HW: l.HighWatermark(), Readonly: l.IsReadonly(), idx: map[int64]int{}}
	recs, err := vfReadLog(l, 0, true)
	if err != nil {
		return nil, err
	}
	for i, r := range recs {
		if i > 0 && r.Offset <= recs[i-1].Offset {
			return nil, fmt.Errorf("raw scan not ascending at %d", r.Offset)
		}
		st.idx[r.Offset] = i
		st.All = append(st.All, c10Msg{Off: r.Offset, Key: r.Key, Val: r.Value, TS: r.Timestamp})
	}
	st.Oldest, st.Newest = l.OldestOffset(), l.NewestOffset()
	if len(st.All) == 0 {
		if st.Oldest != -1 {
			return nil, fmt.Errorf("raw scan empty but OldestOffset=%d", st.Oldest)
		}
	} else if st.All[0].Off != st.Oldest || st.All[len(st.All)-1].Off != st.Newest {
		return nil, fmt.Errorf("raw scan [%d..%d] disagrees with Oldest/Newest [%d..%d]", st.All[0].Off, st.All[len(st.All)-1].Off, st.Oldest, st.Newest)
	}
	if st.HW > st.Newest {
		return nil, fmt.Errorf("HW %d above newest %d", st.HW, st.Newest)
	}
	if st.HW >= 0 && len(st.All) > 0 && st.HW >= st.Oldest && !st.has(st.HW) {
		return nil, fmt.Errorf("HW %d is not a retained offset", st.HW)
	}
	st.Bases = c10SegmentBases(l)
	if st.Bases == nil {
		// fall back to the segment files
		ents, err := os.ReadDir(e.dir)
		if err != nil {
			return nil, err
		}
		for _, f := range ents {
			if strings.HasSuffix(f.Name(), ".log") {
				if b, err := strconv.ParseInt(strings.TrimSuffix(f.Name(), ".log"), 10, 64); err == nil {
					st.Bases = append(st.Bases, b)
				}
			}
		}
	}
	sort.Slice(st.Bases, func(i, j int) bool { return st.Bases[i] < st.Bases[j] })
	st.Acks = e.acks
	return st, nil
}

// c10SegmentBases reads the base offsets of the log's in-memory segment list
// (commitLog.Segments(), reached by reflection because the type is unexported
// in another package).  Only used to label cases (segment boundaries, empty
// active segment), never for a verdict.
func c10SegmentBases(l commitlog.CommitLog) (bases []int64) {
	defer func() {
		if recover() != nil {
			bases = nil
		}
	}()
	m := reflect.ValueOf(l).MethodByName("Segments")
	if !m.IsValid() {
		return nil
	}
	segs := m.Call(nil)[0]
	for i := 0; i < segs.Len(); i++ {
		bases = append(bases, segs.Index(i).Elem().FieldByName("BaseOffset").Int())
	}
	return bases
}

// fence commits everything that is in the log and, unless the partition is
// read-only, appends + commits one more message.  It returns the messages that
// became committed (ascending).
func (e *c10Env) fence(before *c10State) ([]c10Msg, error) {
	l := e.p.log
	if e.shape.CleanWaiting && e.rng.Chance(1, 6) {
		// retained messages above the HW (the tail) are never removed by
		// Clean(), so what must be delivered after the fence does not change
		if err := l.Clean(); err != nil {
			return nil, fmt.Errorf("Clean: %v", err)
		}
		e.rep.Count("clean_while_subscription_waits", 1)
	}
	if !l.IsReadonly() {
		if e.shape.ViaAPI {
			if err := e.publishAPI(); err != nil {
				return nil, err
			}
		} else {
			// the fence always carries a fresh timestamp: whether a message
			// that arrives later with a timestamp EQUAL to the stop time
			// belongs to the range is not documented
			e.eqLeft = 0
			if err := e.appendDirect(1, 1); err != nil {
				return nil, err
			}
		}
	}
	l.SetHighWatermark(l.NewestOffset())
	st, err := e.state()
	if err != nil {
		return nil, err
	}
	var out []c10Msg
	for _, m := range st.All {
		if m.Off > before.HW {
			out = append(out, m)
		}
	}
	return out, nil
}

// reshape restores the "HW below the end" feature after a fence.
func (e *c10Env) reshape() {
	if e.shape.Tail == 0 || e.shape.HWInside {
		if e.shape.EmptyActive {
			e.waitRolled()
		}
		return
	}
	l := e.p.log
	ro := l.IsReadonly()
	if ro {
		l.SetReadonly(false)
	}
	if l.HighWatermark() == l.NewestOffset() {
		e.appendDirect(e.shape.Tail, 1) // nolint: errcheck
	}
	if ro {
		l.SetReadonly(true)
	}
}

// quiesce waits until no subscribe loop of an earlier case is left.
func (e *c10Env) quiesce() {
	vfWait(5*time.Second, func() bool {
		e.p.mu.RLock()
		defer e.p.mu.RUnlock()
		return e.p.subscriberCount == 0
	})
}

// ---------------------------------------------------------------- positions

type c10Start struct {
	Class string
	Pos   client.StartPosition
	Off   int64
	TS    int64
}

type c10Stop struct {
	Class string
	Pos   client.StopPosition
	Off   int64
	TS    int64
}

var c10StartClasses = []string{"off-neg", "off-below-oldest", "off-oldest", "off-existing", "off-in-gap", "off-hw", "off-hw+1",
	"off-uncommitted", "off-newest+1", "off-beyond", "earliest", "latest", "new-only",
	"ts-before-all", "ts-at-oldest", "ts-at", "ts-between", "ts-between-gap", "ts-between-segments", "ts-between-last-segments",
	"ts-after-hw", "ts-at-newest", "ts-after-all",
	"ts-at-equal-run", "ts-at-equal-run-across-segments", "ts-at-ack-first", "ts-at-ack-mid", "ts-at-ack-last"}

var c10StopClasses = []string{"on-cancel", "off-existing", "off-in-gap", "off-below-oldest", "off-below-start", "off-hw", "off-uncommitted",
	"off-newest", "off-fence", "off-beyond", "latest",
	"ts-before-all", "ts-at", "ts-between", "ts-between-gap", "ts-between-segments", "ts-at-newest", "ts-after-all",
	"ts-at-oldest", "ts-at-equal-run", "ts-at-equal-run-across-segments", "ts-at-ack-first", "ts-at-ack-mid", "ts-at-ack-last"}

func (st *c10State) gaps(lo, hi int64) []int64 {
	var out []int64
	for i := 0; i+1 < len(st.All); i++ {
		a, b := st.All[i].Off, st.All[i+1].Off
		if b > a+1 && a+1 >= lo && a+1 <= hi {
			out = append(out, a+1)
			if b-1 != a+1 && b-1 <= hi {
				out = append(out, b-1)
			}
		}
	}
	return out
}

// betweenTS returns T = ts(m)+5 for a message m (not the last one) chosen by
// the predicate on (index of m).
func (st *c10State) betweenTS(rng *kit.RNG, pred func(i int) bool) (int64, bool) {
	var cand []int
	for i := 0; i+1 < len(st.All); i++ {
		if pred(i) {
			cand = append(cand, i)
		}
	}
	if len(cand) == 0 {
		return 0, false
	}
	return st.All[cand[rng.Intn(len(cand))]].TS + 5, true
}

// resolveTS maps a timestamp class to a concrete timestamp on this log.
func (st *c10State) resolveTS(class string, rng *kit.RNG) (int64, bool) {
	n := len(st.All)
	if n == 0 {
		switch class {
		case "ts-before-all", "ts-after-all":
			return c10Now(), true
		}
		return 0, false
	}
	switch class {
	case "ts-before-all":
		return st.All[0].TS - 5, true
	case "ts-at-oldest":
		return st.All[0].TS, true
	case "ts-at":
		if n < 3 {
			return 0, false
		}
		return st.All[1+rng.Intn(n-2)].TS, true
	case "ts-between": // neighbours are contiguous offsets in the same segment
		return st.betweenTS(rng, func(i int) bool {
			return st.All[i+1].Off == st.All[i].Off+1 && st.segOf(st.All[i].Off) == st.segOf(st.All[i+1].Off)
		})
	case "ts-between-gap":
		return st.betweenTS(rng, func(i int) bool { return st.All[i+1].Off > st.All[i].Off+1 })
	case "ts-between-segments": // a segment boundary that is not the last one
		last := st.segOf(st.Newest)
		return st.betweenTS(rng, func(i int) bool {
			a, b := st.segOf(st.All[i].Off), st.segOf(st.All[i+1].Off)
			return a != b && b != last
		})
	case "ts-between-last-segments":
		last := st.segOf(st.Newest)
		return st.betweenTS(rng, func(i int) bool {
			a, b := st.segOf(st.All[i].Off), st.segOf(st.All[i+1].Off)
			return a != b && b == last
		})
	case "ts-after-hw":
		if st.HW < st.Oldest || st.HW >= st.Newest {
			return 0, false
		}
		return st.All[st.idx[st.HW]].TS + 5, true
	case "ts-at-newest":
		return st.All[n-1].TS, true
	case "ts-after-all":
		return st.All[n-1].TS + 5, true
	case "ts-at-equal-run", "ts-at-equal-run-across-segments":
		// the timestamp shared by a run of >= 2 consecutive messages (inside
		// one segment file, or spread over several)
		var cand []int64
		for _, r := range st.eqRuns() {
			across := st.segOf(st.All[r[0]].Off) != st.segOf(st.All[r[1]].Off)
			if across == (class == "ts-at-equal-run-across-segments") {
				cand = append(cand, st.All[r[0]].TS)
			}
		}
		if len(cand) == 0 {
			return 0, false
		}
		return cand[rng.Intn(len(cand))], true
	case "ts-at-ack-first", "ts-at-ack-mid", "ts-at-ack-last":
		// the reception timestamp the Publish API returned for the first / a
		// middle / the last message of a burst of concurrent publishes
		var cand, retained []int64
		for _, a := range st.Acks {
			ok := false
			switch class {
			case "ts-at-ack-first":
				ok = a.Size >= 2 && a.Pos == 0
			case "ts-at-ack-mid":
				ok = a.Size >= 3 && a.Pos > 0 && a.Pos < a.Size-1
			default:
				ok = a.Size >= 2 && a.Pos == a.Size-1
			}
			if ok {
				cand = append(cand, a.TS)
				if st.has(a.Off) {
					retained = append(retained, a.TS)
				}
			}
		}
		if len(retained) > 0 {
			cand = retained
		}
		if len(cand) == 0 {
			return 0, false
		}
		return cand[rng.Intn(len(cand))], true
	}
	return 0, false
}

func (st *c10State) resolveStart(class string, rng *kit.RNG) (c10Start, bool) {
	s := c10Start{Class: class, Pos: client.StartPosition_OFFSET}
	n := len(st.All)
	switch class {
	case "off-neg":
		s.Off = -3
	case "off-below-oldest":
		if st.Oldest <= 0 {
			return s, false
		}
		s.Off = int64(rng.Intn(int(st.Oldest)))
	case "off-oldest":
		if n == 0 {
			return s, false
		}
		s.Off = st.Oldest
	case "off-existing":
		c := st.committed()
		if len(c) < 3 {
			return s, false
		}
		s.Off = c[1+rng.Intn(len(c)-2)].Off
	case "off-in-gap":
		g := st.gaps(st.Oldest, st.HW)
		if len(g) == 0 {
			return s, false
		}
		s.Off = g[rng.Intn(len(g))]
	case "off-hw":
		if st.HW < 0 || st.HW < st.Oldest {
			return s, false
		}
		s.Off = st.HW
	case "off-hw+1":
		s.Off = st.HW + 1
	case "off-uncommitted":
		if st.Newest <= st.HW+1 {
			return s, false
		}
		s.Off = st.Newest
	case "off-newest+1":
		s.Off = st.Newest + 1
	case "off-beyond":
		s.Off = st.Newest + 4
	case "earliest":
		s.Pos = client.StartPosition_EARLIEST
	case "latest":
		s.Pos = client.StartPosition_LATEST
	case "new-only":
		s.Pos = client.StartPosition_NEW_ONLY
	default:
		ts, ok := st.resolveTS(class, rng)
		if !ok {
			return s, false
		}
		s.Pos, s.TS = client.StartPosition_TIMESTAMP, ts
	}
	return s, true
}

// resolveStop: sEff / sReq are the effective and requested start offsets the
// oracle computed for the start position (used to pick stops on the right side).
func (st *c10State) resolveStop(class string, rng *kit.RNG, sReq, sEff int64) (c10Stop, bool) {
	s := c10Stop{Class: class, Pos: client.StopPosition_STOP_OFFSET}
	switch class {
	case "on-cancel":
		s.Pos = client.StopPosition_STOP_ON_CANCEL
	case "off-existing":
		var cand []int64
		for _, m := range st.committed() {
			if m.Off >= sReq && m.Off < st.HW {
				cand = append(cand, m.Off)
			}
		}
		if len(cand) == 0 {
			return s, false
		}
		s.Off = cand[rng.Intn(len(cand))]
	case "off-in-gap":
		var cand []int64
		for _, g := range st.gaps(st.Oldest, st.HW) {
			if g >= sReq {
				cand = append(cand, g)
			}
		}
		if len(cand) == 0 {
			return s, false
		}
		s.Off = cand[rng.Intn(len(cand))]
	case "off-below-oldest":
		if st.Oldest <= 0 || sReq >= st.Oldest {
			return s, false
		}
		s.Off = sReq + int64(rng.Intn(int(st.Oldest-sReq)))
	case "off-below-start":
		if sReq <= 0 || sReq > st.Newest+1 {
			return s, false
		}
		s.Off = sReq - 1
	case "off-hw":
		if st.HW < 0 || st.HW < sReq {
			return s, false
		}
		s.Off = st.HW
	case "off-uncommitted":
		if st.Newest <= st.HW || st.Newest < sReq {
			return s, false
		}
		s.Off = st.HW + 1 + int64(rng.Intn(int(st.Newest-st.HW)))
	case "off-newest":
		if st.Newest < 0 || st.Newest < sReq {
			return s, false
		}
		s.Off = st.Newest
	case "off-fence":
		if st.Newest+1 < sReq {
			return s, false
		}
		s.Off = st.Newest + 1
	case "off-beyond":
		if st.Newest+3 < sReq {
			return s, false
		}
		s.Off = st.Newest + 3
	case "latest":
		s.Pos = client.StopPosition_STOP_LATEST
	default:
		ts, ok := st.resolveTS(class, rng)
		if !ok {
			return s, false
		}
		s.Pos, s.TS = client.StopPosition_STOP_TIMESTAMP, ts
	}
	_ = sEff
	return s, true
}

// ---------------------------------------------------------------- oracle

// c10Want is the oracle's verdict on what a FORWARD request must produce.
type c10Want struct {
	SReq, SEff int64
	HasBound   bool
	Bound      int64 // deliver offsets <= Bound, then end with ResourceExhausted
	BoundWhy   string
	// EmptyOK: the requested range holds nothing that could ever be delivered
	// (or the stop lies before the requested start): an error returned by the
	// subscribe call itself is accepted in place of the terminal status.
	EmptyOK bool
	// MustFailEmpty: documented/pinned synchronous ResourceExhausted (stop
	// LATEST on an empty stream).
	MustFailEmpty bool
	// Unspecified: meaning not documented -> safety half only.
	Unspecified string
}

// startOffset applies the documented start rules to the raw log content.
func (st *c10State) startOffset(s c10Start) (sReq int64) {
	switch s.Pos {
	case client.StartPosition_OFFSET:
		sReq = s.Off
	case client.StartPosition_EARLIEST:
		sReq = st.Oldest
	case client.StartPosition_LATEST:
		sReq = st.Newest
	case client.StartPosition_NEW_ONLY:
		sReq = st.Newest + 1
	case client.StartPosition_TIMESTAMP:
		// first message with a timestamp >= the given time; none -> next new message
		sReq = st.Newest + 1
		for _, m := range st.All {
			if m.TS >= s.TS {
				sReq = m.Off
				break
			}
		}
	}
	if sReq < 0 {
		sReq = 0
	}
	return sReq
}

func (st *c10State) wantForward(s c10Start, t c10Stop) c10Want {
	w := c10Want{}
	w.SReq = st.startOffset(s)
	w.SEff = w.SReq
	if w.SReq > st.HW {
		// pinned by TestSubscribeOffsetOverflow(+EmptyStream): a start above
		// the HW waits for the next message that becomes committed
		w.SEff = st.HW + 1
	}
	switch t.Pos {
	case client.StopPosition_STOP_ON_CANCEL:
		if st.Readonly {
			w.HasBound, w.Bound, w.BoundWhy = true, st.Newest, "end of read-only log"
		}
	case client.StopPosition_STOP_OFFSET:
		w.HasBound, w.Bound, w.BoundWhy = true, t.Off, "stop offset"
	case client.StopPosition_STOP_LATEST:
		if len(st.All) == 0 {
			w.MustFailEmpty = true
			return w
		}
		w.HasBound, w.Bound, w.BoundWhy = true, st.Newest, "stop latest"
	case client.StopPosition_STOP_TIMESTAMP:
		// deliver messages with a timestamp <= the given time
		w.HasBound, w.Bound, w.BoundWhy = true, -1, "stop timestamp"
		for _, m := range st.All {
			if m.TS <= t.TS {
				w.Bound = m.Off
			}
		}
		if w.Bound == -1 {
			// nothing at or before the stop time
			w.EmptyOK = true
			w.Bound = st.Oldest - 1
			if w.Bound < -1 {
				w.Bound = -1
			}
		}
	}
	if w.HasBound {
		if w.Bound < w.SEff {
			w.EmptyOK = true
		}
		if w.Bound < w.SReq && w.Bound >= w.SEff {
			w.Unspecified = "stop offset lies between the effective start (HW+1) and a requested start above the HW"
		}
		if st.Readonly && w.SReq > st.Newest {
			// e.g. NEW_ONLY on a read-only partition: nothing can ever arrive
			w.EmptyOK = true
		}
	}
	return w
}

// expected returns the messages of `from` (ascending) inside the wanted range.
func (w c10Want) inRange(from []c10Msg) []c10Msg {
	var out []c10Msg
	for _, m := range from {
		if m.Off >= w.SEff && (!w.HasBound || m.Off <= w.Bound) {
			out = append(out, m)
		}
	}
	return out
}

// ---------------------------------------------------------------- subscription events

type c10Event struct {
	Kind string // msg | status | timeout | closed
	Msg  c10Msg
	St   *status.Status
}

func c10Next(sub *subscription, d time.Duration) c10Event {
	t := time.NewTimer(d)
	defer t.Stop()
	select {
	case m := <-sub.Messages():
		return c10Event{Kind: "msg", Msg: c10Msg{Off: m.Offset, Key: m.Key, Val: m.Value, TS: m.Timestamp}}
	case s := <-sub.Errors():
		return c10Event{Kind: "status", St: s}
	case <-t.C:
		return c10Event{Kind: "timeout"}
	}
}

func c10Same(a, b c10Msg) bool {
	return a.Off == b.Off && a.TS == b.TS && bytes.Equal(a.Key, b.Key) && bytes.Equal(a.Val, b.Val)
}

func c10Offs(ms []c10Msg) string {
	var sb strings.Builder
	for i, m := range ms {
		if i >= 60 {
			sb.WriteString("...")
			break
		}
		fmt.Fprintf(&sb, "%d ", m.Off)
	}
	return strings.TrimSpace(sb.String())
}

func c10ReqString(s c10Start, t c10Stop, reverse bool) string {
	a := s.Pos.String()
	switch s.Pos {
	case client.StartPosition_OFFSET:
		a += fmt.Sprintf("(%d)", s.Off)
	case client.StartPosition_TIMESTAMP:
		a += fmt.Sprintf("(%d)", s.TS)
	}
	b := t.Pos.String()
	switch t.Pos {
	case client.StopPosition_STOP_OFFSET:
		b += fmt.Sprintf("(%d)", t.Off)
	case client.StopPosition_STOP_TIMESTAMP:
		b += fmt.Sprintf("(%d)", t.TS)
	}
	d := "forward"
	if reverse {
		d = "reverse"
	}
	return fmt.Sprintf("start=%s[%s] stop=%s[%s] %s", a, s.Class, b, t.Class, d)
}

func c10Request(stream string, s c10Start, t c10Stop, reverse bool) *client.SubscribeRequest {
	return &client.SubscribeRequest{Stream: stream, Partition: 0, StartPosition: s.Pos, StartOffset: s.Off, StartTimestamp: s.TS,
		StopPosition: t.Pos, StopOffset: t.Off, StopTimestamp: t.TS, Reverse: reverse}
}

// c10Skip: once a (class pair) has produced a violation a few times the same
// pair is not run again in this process (keeps defect runs short; every
// distinct fingerprint is still recorded).
var (
	c10SkipMu  sync.Mutex
	c10SkipCnt = map[string]int{}
)

func c10Seen(key string) int {
	c10SkipMu.Lock()
	defer c10SkipMu.Unlock()
	return c10SkipCnt[key]
}

func c10Mark(key string) {
	c10SkipMu.Lock()
	c10SkipCnt[key]++
	c10SkipMu.Unlock()
}

var _ = codes.OK

// ---------------------------------------------------------------- attribution

// The probes below call the implementation's own lookup functions.  They are
// used ONLY to name the cause in a fingerprint (so that one defect maps to one
// fingerprint) and to stop re-running requests of a cause that was already
// recorded several times; the verdict itself never depends on them.

func (st *c10State) emptyActive() bool {
	return len(st.All) > 0 && len(st.Bases) > 0 && st.Bases[len(st.Bases)-1] > st.Newest
}

// eqOrigin: who produced the equal timestamps of this log - the harness (a
// clock that repeats a reading, shape.EqTS) or the leader itself although
// every clock reading was different.
func (e *c10Env) eqOrigin() string {
	if e.shape.EqTS {
		return "appended"
	}
	return "leader-assigned"
}

// eqRunCause: the lookup answered with a member of the run of >= 2 messages
// that carry exactly ts, but not with the member the documented rule names
// (the first one for a start time, the last one for a stop time).  The name
// says WHICH wrong member: the first member of the run inside a later segment
// file (start) / the first member of the run inside the run's last segment
// file (stop) - or any other.  "" if got is not such a member.
func (st *c10State) eqRunCause(got, ts, want int64, stop bool) string {
	gi, ok := st.idx[got]
	wi, ok2 := st.idx[want]
	if !ok || !ok2 || got == want || st.All[gi].TS != ts || st.All[wi].TS != ts {
		return ""
	}
	firstInItsSegment := gi == 0 || st.All[gi-1].TS != ts || st.segOf(st.All[gi-1].Off) != st.segOf(got)
	switch {
	case !stop && firstInItsSegment && st.segOf(got) != st.segOf(want):
		return "run-across-segments:first-member-in-a-later-segment"
	case stop && firstInItsSegment && st.segOf(got) == st.segOf(want):
		return "first-member-in-the-runs-last-segment"
	}
	return "other-member-of-the-run"
}

func (e *c10Env) causeForward(st *c10State, s c10Start, t c10Stop, w c10Want) string {
	l := e.p.log
	if s.Pos == client.StartPosition_TIMESTAMP {
		got, err := l.EarliestOffsetAfterTimestamp(s.TS)
		if got < 0 {
			got = 0
		}
		if c := st.eqRunCause(got, s.TS, w.SReq, false); err == nil && c != "" {
			return "start-timestamp-lookup:equal-timestamps:" + c + ":" + e.eqOrigin()
		}
		if err != nil || got != w.SReq {
			switch {
			case st.emptyActive():
				return "start-timestamp-lookup:empty-active-segment"
			case st.has(w.SReq) && len(st.Bases) > 1 && st.segOf(w.SReq) == st.Bases[len(st.Bases)-1] && (st.idx[w.SReq] == 0 || st.segOf(st.All[st.idx[w.SReq]-1].Off) != st.segOf(w.SReq)):
				return "start-timestamp-lookup:boundary-before-last-segment"
			}
			return "start-timestamp-lookup:" + s.Class
		}
	}
	implStop, resolved := int64(0), false
	switch t.Pos {
	case client.StopPosition_STOP_OFFSET:
		implStop, resolved = t.Off, true
	case client.StopPosition_STOP_TIMESTAMP:
		got, err := l.LatestOffsetBeforeTimestamp(t.TS)
		if err != nil {
			if w.HasBound && st.has(w.Bound) {
				if st.emptyActive() {
					return "stop-timestamp-lookup:empty-active-segment"
				}
				return "stop-timestamp-lookup:" + t.Class
			}
			return ""
		}
		implStop, resolved = got, true
		if c := st.eqRunCause(got, t.TS, w.Bound, true); w.HasBound && c != "" {
			return "stop-timestamp-lookup:equal-timestamps:" + c + ":" + e.eqOrigin()
		}
	}
	if resolved && !st.has(implStop) && implStop <= st.Newest && implStop >= 0 {
		return "overshoot:stop-offset-not-retained:" + t.Class
	}
	if resolved && t.Pos == client.StopPosition_STOP_TIMESTAMP && w.HasBound && implStop != w.Bound {
		return "stop-timestamp-lookup:" + t.Class
	}
	return ""
}

func (e *c10Env) causeReverse(st *c10State, s c10Start, t c10Stop, sReq, upper int64) string {
	if st.sparseStart(upper) {
		return "sparse-start-segment"
	}
	if st.Readonly && t.Pos == client.StopPosition_STOP_ON_CANCEL && sReq >= st.Newest && st.Newest >= 0 {
		return "readonly-stop-at-newest"
	}
	return ""
}

const c10CauseCap = 4

// c10Unattributed counts violations that no known-cause predicate explains;
// after c10UnattributedCap of them the units stop issuing requests (the run
// fails anyway; this keeps the output of a broken tree readable).
var c10Unattributed atomic.Int64

const c10UnattributedCap = 12
