//go:build verif

package server

// C18 — two further scenario families around the activity stream BEING A
// STREAM ITSELF.
//
// reserved: operations whose TARGET is a reserved stream.  __activity and
// __cursors are ordinary streams for the pause / read-only API (only create
// and delete are refused), and the server-wide streams.auto.pause.time applies
// to them as to every stream.  A paused stream is resumed by the next publish
// to it, and the only publisher of __activity is the dispatcher: its own
// publish of the next event (usually the event of the pause itself) has to
// bring the stream back.  Scenarios: explicit PauseStream("__activity") (with
// and without ResumeAll) between ordinary operations, __activity read-only
// on/off as a bounded fault - also while it is paused -, the server-wide
// auto-pause time set to a few hundred milliseconds so that __activity pauses
// itself whenever it is idle, and the same on __cursors (paused / read-only;
// resumed by the internal publish of SetCursor).  Afterwards every committed
// operation, including those on the reserved streams, must be listed.
//
// defaults: SERVER-WIDE STREAM DEFAULTS also govern __activity (it is created
// without per-stream overrides): log compaction on with small segments and a
// short cleaner interval (plus Clean() forced on the activity partition's
// log), optimistic concurrency control for all streams, segment roll by age,
// auto-pause.  No retention limit is configured, so nothing may disappear:
// after the cleaner has run, a reader starting from the earliest offset must
// still find every committed operation, in commit order.  (Compaction keeps
// the newest message per key and every message without a key.)
//
// Both families decide liveness by state: the fence counts as published when
// the replicated last-published index has reached it; a dispatcher whose
// attempts do not resume the paused activity stream is recognised from hook
// counters (c18Env.pausedNotResumed); the watchdog alone is inconclusive.

import (
	"context"
	"fmt"
	"os"
	"path/filepath"
	"strings"
	"sync/atomic"
	"testing"
	"time"

	client "github.com/liftbridge-io/liftbridge-api/v2/go"

	kit "github.com/liftbridge-io/liftbridge/internal/verifkit"
)

const c18CursorsStream = "__cursors"

// readFromEarliest opens a subscription to __activity from the earliest offset
// on srv - asking for the partition to be resumed should it be paused - and
// reads until the event with id untilID has been delivered (seen) or the end of
// the log as it was when the subscription started has been reached (end).
func (e *c18Env) readFromEarliest(srv *Server, untilID uint64) (events []c18Event, seen, end bool) {
	wd := time.After(45 * time.Second)
	for attempt := 0; attempt < 4; attempt++ {
		events, seen, end = nil, false, false
		ctx, cancel := context.WithCancel(context.Background())
		sub, err := srv.api.SubscribeInternal(ctx, &client.SubscribeRequest{Stream: c18ActivityStream, Partition: 0,
			StartPosition: client.StartPosition_EARLIEST, Resume: true})
		if err != nil {
			cancel()
			e.logf("subscribe to %s (resume): %v", c18ActivityStream, err)
			time.Sleep(200 * time.Millisecond)
			continue
		}
		p := srv.metadata.GetPartition(c18ActivityStream, 0)
		if p == nil || p.IsPaused() {
			sub.Close()
			cancel()
			time.Sleep(100 * time.Millisecond)
			continue
		}
		bound := p.log.NewestOffset()
		broken := false
		for !seen && !end && !broken {
			select {
			case m := <-sub.Messages():
				ev := c18Decode(m.Offset, m.Value)
				events = append(events, ev)
				seen = ev.Bad == "" && ev.ID == untilID
				end = m.Offset >= bound
			case st := <-sub.Errors():
				e.logf("subscription to %s ended: %v (after %d events)", c18ActivityStream, st, len(events))
				broken = true
			case <-wd:
				sub.Close()
				cancel()
				return events, false, false
			}
		}
		sub.Close()
		cancel()
		if !broken {
			return events, seen, end
		}
	}
	return events, false, false
}

// finishReserved is finish() for scenarios in which __activity may be paused
// at any moment: the harness must not resume it before the dispatcher had to,
// so it waits on the replicated last-published index (not on the partition)
// and reads only afterwards - through a subscription that resumes the
// partition if need be.  beforeRead runs between the two.
func (e *c18Env) finishReserved(fenceName string, beforeRead func(srv *Server)) {
	e.faultsOff()
	if e.bad() {
		return
	}
	fenceIdx := e.commitFence(fenceName)
	if fenceIdx == 0 {
		return
	}
	deadline := time.Now().Add(120 * time.Second)
	waitStart, lastProbe := time.Now(), time.Now()
	var srv *Server
	for {
		srv = e.c.metaLeaderNow()
		if srv != nil && srv.activity.LastPublishedRaftIndex() >= fenceIdx {
			break
		}
		stuck, fp := e.pausedNotResumed(), "stuck:dispatcher-does-not-resume-the-paused-activity-stream"
		if stuck == "" {
			stuck, fp = e.stuckActivityPartition(), "stuck:activity-partition-not-started-after-snapshot-restore"
		}
		if stuck == "" && time.Since(lastProbe) > time.Second && time.Since(waitStart) > 3*time.Second {
			lastProbe = time.Now()
			stuck, fp = e.leaderWithoutDispatcher(fenceIdx), "stuck:metadata-leader-without-dispatcher"
		}
		if stuck == "" && time.Since(waitStart) > 1500*time.Millisecond {
			if what, stack := e.dispatcherParked(srv, fenceIdx); what != "" {
				e.failParked(fmt.Sprintf("committed operations up to the fence #%d can never be listed: %s", fenceIdx, what), stack, nil)
				return
			}
		}
		if stuck != "" {
			e.absorbAll()
			ops, _, _ := e.listedOps()
			e.fail("C18:"+e.unit+":"+fp, fmt.Sprintf("committed operations up to the fence #%d can never be listed: %s", fenceIdx, stuck), nil, ops)
			return
		}
		if time.Now().After(deadline) {
			e.inconclusive(fmt.Sprintf("watchdog: fence operation #%d not recorded as published after the faults stopped", fenceIdx))
			return
		}
		time.Sleep(40 * time.Millisecond)
	}
	if beforeRead != nil {
		beforeRead(srv)
	}
	events, seen, end := e.readFromEarliest(srv, fenceIdx)
	e.absorbAll()
	ops, _, _ := e.listedOps()
	e.mu.Lock()
	conflict := e.conflict
	e.mu.Unlock()
	if conflict != "" {
		e.inconclusive("Raft log capture is inconsistent: " + conflict)
		return
	}
	e.rep.Count("events_via_subscription", int64(len(events)))
	first, ok := e.checkSafety(events)
	if !ok {
		return
	}
	if !seen {
		if end {
			e.fail("C18:"+e.unit+":recorded-as-published-but-absent",
				fmt.Sprintf("last published Raft index is %d >= fence %d, but a reader of the activity stream from the earliest offset to its end finds no event with id %d", srv.activity.LastPublishedRaftIndex(), fenceIdx, fenceIdx), events, ops)
			return
		}
		e.inconclusive(fmt.Sprintf("watchdog: a subscription to %s from the earliest offset did not get as far as the event of fence #%d (%d events)", c18ActivityStream, fenceIdx, len(events)))
		return
	}
	e.mu.Lock()
	gaps := e.gaps
	e.mu.Unlock()
	e.rep.Count("offset_gaps_in_the_activity_stream_as_read", int64(gaps))
	e.complete(events, first, fenceIdx)
}

// setCursor stores a cursor (an internal publish to __cursors, which resumes
// that stream when it is paused).
func (e *c18Env) setCursor(id string, offset int64) {
	srv := e.leader()
	if srv == nil {
		return
	}
	ctx, cancel := context.WithTimeout(context.Background(), 12*time.Second)
	defer cancel()
	_, err := srv.api.SetCursor(ctx, &client.SetCursorRequest{Stream: "s0", Partition: 0, CursorId: id, Offset: offset})
	if err != nil {
		e.opsErr++
		e.step("setcursor(%s)!err", id)
		e.logf("setcursor %s: %v", id, err)
		return
	}
	e.step("setcursor(%s)", id)
}

// catchUp waits (watchdog; its expiry only means the scenario goes on earlier)
// until the dispatcher has recorded every listed operation known so far.
func (e *c18Env) catchUp(srv *Server, d time.Duration) bool {
	e.absorbStore(srv, "a")
	var target uint64
	if ops, _, _ := e.listedOps(); len(ops) > 0 {
		target = ops[len(ops)-1].Index
	}
	return vfWait(d, func() bool { return srv.activity.LastPublishedRaftIndex() >= target })
}

// c18Reserved: variant 0 = explicit pause / read-only of __activity; 1 = the
// server-wide auto-pause time; 2 = the same kind of operations on __cursors
// (and __activity).
func c18Reserved(rep *kit.Report, run int, seed uint64, variant int) {
	e := c18NewEnv(rep, "reserved", run, seed)
	rng := e.rng
	cursors := variant == 2 || rng.Chance(1, 3)
	autoMs := 0
	if variant == 1 {
		autoMs = rng.Range(400, 900)
	}
	disableIfSubs := variant == 1 && rng.Chance(1, 3)
	c, _, err := vfSingle("c18v", e.mut(func(cfg *Config) {
		cfg.Groups.ConsumerTimeout = time.Hour
		if cursors {
			cfg.CursorsStream.Partitions = 1
		}
		if autoMs > 0 {
			cfg.Streams.AutoPauseTime = time.Duration(autoMs) * time.Millisecond
			cfg.Streams.AutoPauseDisableIfSubscribers = disableIfSubs
		}
	}))
	if err != nil {
		rep.Inconc(fmt.Sprintf("[reserved run %d] server start failed: %v", run, err))
		return
	}
	e.c = c
	defer e.close()
	e.attach("a")
	e.installHooks(rng.Range(0, 2), rng.Range(0, 1), rng.Range(10, 30), rng.Range(10, 30), false)
	e.step("config(variant=%d,cursors=%v,streams.auto.pause.time=%dms)", variant, cursors, autoMs)
	gen := func(lo, hi int) {
		for i, n := 0, rng.Range(lo, hi); i < n && !e.bad(); i++ {
			e.doOp(e.genOp(1, false))
		}
	}
	pausedSeen := func(stream string) bool {
		srv := e.c.metaLeaderNow()
		if srv == nil {
			return false
		}
		p := srv.metadata.GetPartition(stream, 0)
		return p != nil && p.IsPaused()
	}
	gen(3, 6)
	onReserved := 0
	rounds := rng.Range(2, 3)
	for r := 0; r < rounds && !e.bad(); r++ {
		switch variant {
		case 0:
			e.doOp(c18Op{Kind: "pause", Stream: c18ActivityStream, Flag: rng.Bool()})
			onReserved++
			gen(1, 3)
			if rng.Bool() {
				// read-only as a bounded fault, here possibly on the paused stream
				e.doOp(c18Op{Kind: "readonly", Stream: c18ActivityStream, Flag: true})
				gen(1, 2)
				e.doOp(c18Op{Kind: "readonly", Stream: c18ActivityStream, Flag: false})
				onReserved += 2
			}
			if rng.Bool() {
				if srv := e.leader(); srv != nil {
					e.catchUp(srv, 20*time.Second)
				}
			}
		case 1:
			// let __activity go idle until it has paused itself (a logical
			// condition; when the watchdog expires the scenario just goes on)
			if srv := e.leader(); srv != nil {
				e.catchUp(srv, 20*time.Second)
			}
			if vfWait(10*time.Second, func() bool { return pausedSeen(c18ActivityStream) }) {
				rep.Count("reserved_activity_stream_seen_auto_paused_before_the_next_operations", 1)
				onReserved++
			}
			gen(2, 4)
		case 2:
			e.setCursor(fmt.Sprintf("cur%d", r), int64(r))
			e.doOp(c18Op{Kind: "pause", Stream: c18CursorsStream, Flag: rng.Bool()})
			gen(1, 2)
			e.setCursor(fmt.Sprintf("cur%d", r), int64(r+1)) // resumes __cursors
			if rng.Bool() {
				e.doOp(c18Op{Kind: "readonly", Stream: c18CursorsStream, Flag: true})
				gen(1, 2)
				e.doOp(c18Op{Kind: "readonly", Stream: c18CursorsStream, Flag: false})
			}
			e.doOp(c18Op{Kind: "pause", Stream: c18ActivityStream, Flag: rng.Bool()})
			onReserved += 2
			gen(1, 2)
		}
	}
	gen(1, 3)
	rep.Count("reserved_operations_on_reserved_streams", int64(onReserved))
	e.finishReserved(fmt.Sprintf("fence%d", run), nil)
	e.account()
	if !e.bad() && onReserved > 0 {
		c18WriteSig(rep, fmt.Sprintf("reserved|variant=%d|auto=%d|%s", variant, autoMs, strings.Join(e.steps, " ")))
	}
}

// TestVerifC18Reserved: pause / read-only / auto-pause of the reserved streams.
func TestVerifC18Reserved(t *testing.T) {
	rep := kit.NewReport("C18", "reserved")
	defer rep.Write()
	rep.SetRule(c18Rule + " ; reserved unit: single server; operations whose target is a reserved stream: PauseStream(__activity) with and without ResumeAll between ordinary operations, __activity read-only on/off as a bounded fault (also while paused) (variant 0); server-wide streams.auto.pause.time of 400..900 ms, the scenario waits until __activity has paused itself before it goes on (variant 1); cursors stream enabled: SetCursor, PauseStream(__cursors) resumed by the next SetCursor, __cursors read-only on/off, PauseStream(__activity) (variant 2); the fence counts as published when the replicated last-published index has reached it, then a subscription from the earliest offset (resuming the partition if it is paused) is read up to the fence; a dispatcher whose attempts do not resume the paused stream is recognised from hook counters (3 attempts in a row for one event, each begun while __activity was paused and not read-only, none failed by the harness, no RESUME_STREAM(__activity) committed in between); non-trivial = completed with at least one operation on / auto-pause of a reserved stream")
	rep.Assume("the harness publishes nothing to __activity and opens no subscription to it before the fence is recorded as published, so nothing but the dispatcher's own publish can resume it")
	root := kit.NewRNG(kit.Mix(kit.Seed(), 0xC187))
	n := kit.Scale(12, 60)
	specs := make([]c18ChildSpec, n)
	for i := range specs {
		specs[i] = c18ChildSpec{Unit: "reserved", Run: i, Seed: root.Uint64(), Variant: i % 3}
	}
	c18RunChildren(rep, "reserved", specs, kit.Workers())
}

// ---------------------------------------------------------------- defaults

func c18ActivitySegments(srv *Server) int {
	ents, err := os.ReadDir(filepath.Join(srv.config.DataDir, "streams", c18ActivityStream, "0"))
	if err != nil {
		return 0
	}
	n := 0
	for _, en := range ents {
		if strings.HasSuffix(en.Name(), ".log") {
			n++
		}
	}
	return n
}

// c18Defaults: server-wide stream defaults that the activity stream inherits.
func c18Defaults(rep *kit.Report, run int, seed uint64, variant int) {
	e := c18NewEnv(rep, "defaults", run, seed)
	rng := e.rng
	segBytes := int64(rng.Range(256, 1400))
	cleaner := time.Duration(rng.Range(150, 500)) * time.Millisecond
	// commitLog.Clean() is run by one goroutine per log (its cleaner loop) and
	// is not made for concurrent callers, so the harness either forces Clean()
	// itself on a log whose own cleaner never ticks (even scenarios), or leaves
	// the cleaning to a cleaner loop with a short interval and only watches it
	// run at the clean.afterCleanSegments hook (odd scenarios).
	forced := variant%2 == 0
	if forced {
		cleaner = time.Hour
	}
	occ := rng.Bool()
	var segAge time.Duration
	if rng.Chance(1, 3) {
		segAge = time.Duration(rng.Range(500, 1500)) * time.Millisecond
	}
	autoMs := 0
	if variant%4 == 3 {
		autoMs = rng.Range(500, 900)
	}
	goroutines := rng.Range(1, 4)
	desc := fmt.Sprintf("streams.compact.enabled=true streams.segment.max.bytes=%d streams.cleaner.interval=%s streams.compact.max.goroutines=%d streams.concurrency.control=%v streams.segment.max.age=%s streams.auto.pause.time=%dms",
		segBytes, cleaner, goroutines, occ, segAge, autoMs)
	c, _, err := vfSingle("c18d", e.mut(func(cfg *Config) {
		cfg.Groups.ConsumerTimeout = time.Hour
		cfg.Streams.Compact = true
		cfg.Streams.CompactMaxGoroutines = goroutines
		cfg.Streams.SegmentMaxBytes = segBytes
		cfg.Streams.CleanerInterval = cleaner
		cfg.Streams.ConcurrencyControl = occ
		if segAge > 0 {
			cfg.Streams.SegmentMaxAge = segAge
		}
		if autoMs > 0 {
			cfg.Streams.AutoPauseTime = time.Duration(autoMs) * time.Millisecond
		}
	}))
	if err != nil {
		rep.Inconc(fmt.Sprintf("[defaults run %d] server start failed: %v", run, err))
		return
	}
	e.c = c
	e.gapsOK = true
	e.noAuto = true
	defer e.close()
	e.attach("a")
	e.installHooks(rng.Range(0, 2), rng.Range(0, 2), rng.Range(10, 30), rng.Range(10, 30), false)
	e.step("config(%s)", desc)
	var cleanerRuns atomic.Int64
	e.removers = append(e.removers, vfHooks.On("clean.afterCleanSegments", func(...interface{}) error {
		cleanerRuns.Add(1)
		return nil
	}))
	maxSegs, cleans := 0, 0
	clean := func(srv *Server) {
		if srv == nil {
			return
		}
		p := srv.metadata.GetPartition(c18ActivityStream, 0)
		if p == nil || p.IsPaused() {
			return
		}
		if n := c18ActivitySegments(srv); n > maxSegs {
			maxSegs = n
		}
		if !forced {
			// every log of the server has a cleaner loop with the same interval:
			// wait until they have run twice as often as there are logs (when
			// the watchdog expires the scenario just goes on)
			logs := int64(1)
			for _, st := range srv.metadata.GetStreams() {
				for _, sp := range st.GetPartitions() {
					if !sp.IsPaused() { // a paused partition's log is closed
						logs++
					}
				}
			}
			base := cleanerRuns.Load()
			if vfWait(5*time.Second, func() bool { return cleanerRuns.Load() >= base+2*logs }) {
				cleans++
			}
			return
		}
		if err := p.log.Clean(); err != nil {
			e.logf("Clean() on the activity log: %v", err)
			return
		}
		cleans++
	}
	for i, n := 0, rng.Range(2, 4); i < n && !e.bad(); i++ {
		e.doOp(e.genOp(1, false))
	}
	// operations that keep coming back to the same streams and groups
	e.doOp(c18Op{Kind: "create", Stream: "hot", NParts: 1, RF: 1})
	nops := rng.Range(24, 48)
	for i := 0; i < nops && !e.bad(); i++ {
		switch x := rng.Intn(10); {
		case x < 4:
			e.doOp(c18Op{Kind: "readonly", Stream: "hot", Flag: i%2 == 0})
		case x < 5:
			e.doOp(c18Op{Kind: "pause", Stream: "hot"})
			e.doOp(c18Op{Kind: "resume", Stream: "hot", Parts: []int32{0}})
		default:
			e.doOp(e.genOp(1, false))
		}
	}
	srv := e.leader()
	if srv == nil || e.bad() {
		e.account()
		return
	}
	e.catchUp(srv, 60*time.Second)
	clean(srv)
	if variant%3 == 1 && !e.bad() {
		if !e.restartNode("a") || e.leader() == nil {
			e.account()
			return
		}
	}
	for i, n := 0, rng.Range(3, 6); i < n && !e.bad(); i++ {
		e.doOp(e.genOp(1, false))
	}
	e.finishReserved(fmt.Sprintf("fence%d", run), func(srv *Server) {
		// the cleaner once more, now that everything up to the fence is in the log
		clean(srv)
	})
	if forced {
		rep.Count("defaults_forced_cleans_of_the_activity_log", int64(cleans))
	} else {
		rep.Count("defaults_waits_for_the_servers_own_cleaner_loops_that_were_met", int64(cleans))
	}
	rep.Count("defaults_cleaner_runs_seen_at_the_hook", cleanerRuns.Load())
	rep.Count("defaults_activity_log_segments_at_the_largest_forced_clean_(sum_over_scenarios)", int64(maxSegs))
	e.account()
	if !e.bad() && cleans > 0 && maxSegs >= 3 {
		c18WriteSig(rep, fmt.Sprintf("defaults|%s|segments=%d|ops=%d|run=%d", desc, maxSegs, e.opsOK, run))
	}
}

// TestVerifC18Defaults: server-wide stream defaults that also govern __activity.
func TestVerifC18Defaults(t *testing.T) {
	rep := kit.NewReport("C18", "defaults")
	defer rep.Write()
	rep.SetRule(c18Rule + " ; defaults unit: single server whose server-wide stream defaults - which the activity stream inherits - are streams.compact.enabled=true with streams.segment.max.bytes 256..1400, streams.cleaner.interval 150..500 ms (odd scenarios), 1..4 compaction goroutines, in half of the scenarios streams.concurrency.control=true, in a third a streams.segment.max.age of 0.5..1.5 s, in a quarter streams.auto.pause.time; no retention limit is configured; 30..60 operations that keep coming back to the same streams and consumer groups (read-only toggles and pause/resume of one stream, joins and leaves of three groups), once the dispatcher has caught up and again after the fence is recorded as published the log cleaner runs over the activity partition's log - even scenarios: streams.cleaner.interval 1 h and Clean() forced by the harness; odd scenarios: the server's own cleaner loops, awaited at the clean.afterCleanSegments hook (Clean() is not made for concurrent callers, so never both) -, in a third of the scenarios a restart in between; then a subscription from the earliest offset is read up to the fence: offset gaps are tolerated, every committed operation must still have an event, first occurrences in commit order; non-trivial = the activity log had >= 3 segments at a forced clean")
	rep.Assume("with compaction alone (no retention limit configured) the cleaner must not remove the only event of a committed operation: the property promises every operation to a reader at least once, and an event about a stream or group does not replace the earlier events about it.  Events that were removed although another event with the same id is still there (redeliveries) would not be judged")
	root := kit.NewRNG(kit.Mix(kit.Seed(), 0xC18F))
	n := kit.Scale(8, 40)
	specs := make([]c18ChildSpec, n)
	for i := range specs {
		specs[i] = c18ChildSpec{Unit: "defaults", Run: i, Seed: root.Uint64(), Variant: i}
	}
	c18RunChildren(rep, "defaults", specs, kit.Workers())
}
