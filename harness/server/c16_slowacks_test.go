//go:build verif

package server

// C16 — two further workload classes.
//
// slowacks: SLOW ACKNOWLEDGEMENTS.  In every other C16 history an accepted
// publish is acknowledged within milliseconds.  With ack policy ALL the
// partition leader appends a message at once but acknowledges it only after
// the whole in-sync replica set has replicated it, so a follower that is slow
// but still in sync keeps the publisher waiting for seconds while its message
// already occupies the offset it named.  Whatever a broker, a client library
// or a proxy does in that time (wait, re-send, give up) the verdict the
// publisher finally gets must still be the one the property states.  Here
// 3-broker clusters (replica.max.lag.time raised so that the held follower
// stays in the ISR) host replicated streams with optimistic concurrency
// control; the replication loop of one follower is parked at the
// follower.afterFetch hook for 1..6 s while 1..3 publishers publish with ack
// policy ALL - mostly through the synchronous Publish RPC of the leader, the
// followers and the broker without a replica, some through PublishAsync
// sessions and raw envelopes - naming the real next offset (alone: must be
// accepted at exactly that offset; several: exactly one may win) or waiving
// the check.  Judged by the rules of the other units: determined verdicts of
// the lone publisher, final log scan on the partition leader (an
// INCORRECT_OFFSET answer => the tag is absent; nothing stored twice; stored
// at the expected offset), ack consistency at the ack.send hook, porcupine.
// The hold time is workload, never part of an oracle.
//
// sharedcorr: CORRELATION IDS ARE THE PUBLISHER'S BUSINESS.  Everywhere else
// in the C16 harness every publish carries a unique correlation id (its tag).
// Correlation ids are chosen by the publishers: they need not be unique
// (content-derived ids, idempotency keys, one id per client) and may be empty
// (plain gRPC clients).  The single-node histories of c16_server_test.go are
// run again with correlation ids that are empty / one id for everything / one
// id per expected offset (what racing writers of the same update share) / one
// id per publisher / two ids, while the VALUES stay unique so that the log scan
// still identifies every message.  Answers are attributed by ack inbox instead
// of correlation id: every Publish call and raw envelope gets an inbox of its
// own, a PublishAsync session carries one publish at a time.

import (
	"fmt"
	"sort"
	"strings"
	"sync"
	"testing"
	"time"

	client "github.com/liftbridge-io/liftbridge-api/v2/go"
	"github.com/nats-io/nats.go"

	kit "github.com/liftbridge-io/liftbridge/internal/verifkit"
)

// ---------------------------------------------------------------- slowacks

// c16InstallLongHoldHook is c16InstallHoldHook with a bound that is longer than
// any hold of this unit (the bound only protects the unit against a lost
// release).
func c16InstallLongHoldHook() func() {
	return vfHooks.On("follower.afterFetch", func(a ...interface{}) error {
		if len(a) < 2 {
			return nil
		}
		sid, _ := a[0].(string)
		stream, _ := a[1].(string)
		v, ok := c16Holds.Load(sid + "|" + stream)
		if !ok {
			return nil
		}
		hd := v.(*c16Hold)
		hd.parked.Store(true)
		select {
		case <-hd.ch:
		case <-time.After(25 * time.Second):
			hd.expired.Store(true)
		}
		return nil
	})
}

type c16SlowRound struct {
	HoldMs    int      `json:"hold_ms"`
	Follower  string   `json:"held_follower"`
	Publishes []string `json:"publishes"`
}

func c16RunSlowHistory(rep *kit.Report, c *vfCluster, cfgDesc string, idx int, seed uint64, pool []*nats.Conn) {
	rng := kit.NewRNG(seed)
	h := &c16Hist{rep: rep, c: c, cfgDesc: cfgDesc, seed: seed, sent: map[string][]c16Sent{}, pubSrv: map[int]*Server{}, pubRoute: map[int]string{}, mode: "MIXED"}
	h.stream = fmt.Sprintf("c16s%d", idx)
	h.profile = c16Profile{Name: "slowacks"}
	rf := 2 + rng.Intn(2)
	req := &client.CreateStreamRequest{Subject: h.stream, Name: h.stream, ReplicationFactor: int32(rf),
		OptimisticConcurrencyControl: &client.NullableBool{Value: true}}
	if rng.Chance(1, 3) {
		req.SegmentMaxBytes = &client.NullableInt64{Value: 4096}
	}
	if err := c.CreateStream(req); err != nil {
		rep.Inconc(fmt.Sprintf("create stream %s: %v", h.stream, err))
		return
	}
	leader, err := c.PartitionLeader(h.stream, 0, 30*time.Second)
	if err != nil {
		rep.Inconc(err.Error())
		return
	}
	h.srv = leader.Server()
	h.part = leader.Partition(h.stream, 0)
	if !vfWait(30*time.Second, func() bool { return len(h.part.GetISR()) == rf }) {
		rep.Inconc(fmt.Sprintf("stream %s: the in-sync replica set did not reach %d: %v", h.stream, rf, errVfTimeout))
		return
	}
	_, epoch := h.part.GetLeader()
	h.cfgDesc = fmt.Sprintf("%s replication.factor=%d", cfgDesc, rf)
	cc := &c16Cluster{h: h, leader: leader, epoch: epoch, rf: rf, async: map[string]*c16Async{}, used: map[string]int{}, fp: "C16:slowacks"}
	var followers []*vfNode
	for _, id := range c.IDs {
		n := c.Nodes[id]
		p := n.Partition(h.stream, 0)
		switch {
		case n == leader:
			cc.routes = append(cc.routes, c16Route{"leader", n})
		case p != nil && p.inReplicas(n.Cfg.Clustering.ServerID):
			cc.routes = append(cc.routes, c16Route{"follower", n})
			followers = append(followers, n)
		default:
			cc.routes = append(cc.routes, c16Route{"nonreplica", n})
		}
	}
	c16HookHists.Store(h.stream, h)
	defer c16HookHists.Delete(h.stream)
	raw, err := c16NewRaw(pool[idx%len(pool)])
	if err != nil {
		rep.Inconc("ack inbox: " + err.Error())
		return
	}
	defer raw.sub.Unsubscribe()
	cc.raw = raw
	defer cc.closeSessions()
	h.base = time.Now()

	lone := func(n int, what string) bool {
		for i := 0; i < n && !h.failed.Load() && !h.inconc.Load(); i++ {
			class := []string{"equal", "equal", "stale", "future", "any", "zero"}[rng.Intn(6)]
			e := c16Expected(rng, class, cc.next)
			op := cc.one(rng, "seq", cc.pick(rng, nil), class, h.policyFor(rng), e)
			if !cc.judge(op, what) {
				return false
			}
		}
		return !h.failed.Load() && !h.inconc.Load()
	}
	if !lone(rng.Range(2, 4), "all replicas replicating") {
		rep.Eval()
		return
	}

	// hold times: one round beyond 2.5 s, one anywhere in 1..6 s
	holds := []int{rng.Range(2500, 4200), rng.Range(1000, 6000)}
	if rng.Bool() {
		holds[0], holds[1] = holds[1], holds[0]
	}
	if kit.Thorough() {
		holds = append(holds, rng.Range(1000, 6000))
	}
	var rounds []c16SlowRound
	slowAnswered, inISR := 0, 0
	nextPub := 1
	for _, holdMs := range holds {
		if h.failed.Load() || h.inconc.Load() {
			break
		}
		heldNode := followers[rng.Intn(len(followers))]
		held := &c16Hold{ch: make(chan struct{})}
		key := heldNode.ID + "|" + h.stream
		c16Holds.Store(key, held)
		released := false
		release := func() {
			if !released {
				released = true
				c16Holds.Delete(key)
				close(held.ch)
			}
		}
		// something for the follower to fetch, so that it comes by the hook
		op := cc.one(rng, "seq", c16Route{"leader", leader}, "equal", client.AckPolicy_LEADER, cc.next)
		if !cc.judge(op, "publish that a follower is then held on") {
			release()
			break
		}
		if !vfWait(8*time.Second, func() bool { return held.parked.Load() }) {
			rep.Count("slowacks_follower_holds_not_reached", 1)
			release()
			continue
		}
		// the publishes that have to wait for the held follower
		k := []int{1, 1, 1, 2, 3}[rng.Intn(5)]
		shape := "next"
		switch {
		case k == 1 && rng.Chance(1, 3):
			shape = "any"
		case k > 1 && rng.Chance(1, 3):
			shape = "mixed"
		}
		ops := make([]*c16Op, k)
		var wg sync.WaitGroup
		for j := 0; j < k; j++ {
			class, e := "equal", cc.next
			if shape == "any" || (shape == "mixed" && j%2 == 1) {
				class, e = "any", int64(-1)
			}
			r := cc.routes[rng.Intn(len(cc.routes))]
			kind := []string{"api", "api", "api", "api", "async", "raw"}[rng.Intn(6)]
			pub := nextPub
			nextPub++
			via := kind
			if kind == "raw" {
				h.pubRoute[pub] = "nats"
			} else {
				h.pubRoute[pub] = r.String()
			}
			op := h.newOp(pub, "slow", via, class, client.AckPolicy_ALL, e)
			ops[j] = op
			wg.Add(1)
			go func() {
				defer wg.Done()
				switch kind {
				case "api":
					h.viaAPIOn(r.node.Server(), op, client.AckPolicy_ALL, "", 0)
				case "async":
					as := h.newAsyncOn(r.node.Server())
					h.viaAsync(as, op, client.AckPolicy_ALL)
					as.close()
				default:
					rr, err := c16NewRaw(pool[(idx+pub)%len(pool)])
					if err != nil {
						op.Call = h.now()
						op.Ret, op.Out, op.Err = op.Call, c16OutOpen, "ack inbox: "+err.Error()
						return
					}
					h.viaRaw(rr, op, client.AckPolicy_ALL, true)
					rr.sub.Unsubscribe()
				}
			}()
		}
		time.Sleep(time.Duration(holdMs) * time.Millisecond)
		stillIn := len(h.part.GetISR()) == rf && !held.expired.Load()
		releasedAt := h.now()
		release()
		wg.Wait()
		rd := c16SlowRound{HoldMs: holdMs, Follower: heldNode.ID}
		for _, op := range ops {
			rd.Publishes = append(rd.Publishes, op.String())
			if op.Out == c16OutOK && op.Ret >= releasedAt {
				slowAnswered++
			}
		}
		rounds = append(rounds, rd)
		rep.Count("slowacks_rounds", 1)
		rep.Count(fmt.Sprintf("slowacks_rounds_with_%d_waiting_publishers", k), 1)
		rep.Count("slowacks_publishes_sent_while_a_follower_was_held", int64(k))
		rep.Count(fmt.Sprintf("slowacks_rounds_held_%ds", holdMs/1000), 1)
		if stillIn {
			inISR++
			rep.Count("slowacks_rounds_with_the_held_follower_still_in_the_isr_at_release", 1)
		} else {
			rep.Count("slowacks_rounds_in_which_the_isr_shrank_(not_the_situation_aimed_at)", 1)
		}
		if k == 1 {
			// alone: the verdict is determined
			if !cc.judge(ops[0], fmt.Sprintf("follower %s held at follower.afterFetch for %d ms (still in the ISR at release: %v), ack policy ALL", heldNode.ID, holdMs, stillIn)) {
				break
			}
		} else {
			for _, op := range ops {
				if op.Out == c16OutOpen {
					h.inconclusive(fmt.Sprintf("publish %s got no answer although the follower was released", op))
				}
			}
			// everything has been answered: the leader's log end is the next offset
			cc.next = h.part.log.NewestOffset() + 1
		}
		if !lone(rng.Range(1, 3), "after the held follower was released") {
			break
		}
	}
	if l, ep := h.part.GetLeader(); !h.part.IsLeader() || l != leader.Cfg.Clustering.ServerID || ep != epoch {
		h.inconclusive(fmt.Sprintf("the partition leader changed during the history (%s epoch %d -> %s epoch %d)", leader.ID, epoch, l, ep))
	}
	rep.Count("slowacks_accepted_publishes_answered_only_after_the_release", int64(slowAnswered))
	if h.failed.Load() {
		rep.Eval()
		return
	}
	h.conclude(nil, []string{"api", "async", "raw"}, idx, fmt.Sprintf("slowacks|rf=%d|", rf))
	if !h.failed.Load() && !h.inconc.Load() && inISR > 0 && slowAnswered > 0 {
		hs := make([]string, 0, len(rounds))
		for _, r := range rounds {
			hs = append(hs, fmt.Sprintf("%dms/%d", r.HoldMs, len(r.Publishes)))
		}
		sort.Strings(hs)
		rep.Nontrivial(fmt.Sprintf("slowacks|rf=%d|%s|%s", rf, cfgDesc, strings.Join(hs, ",")))
		if idx%4 == 0 {
			rep.Sample(map[string]any{"server_config": h.cfgDesc, "stream": h.stream, "rounds": rounds, "ops": len(h.ops)})
		}
	}
}

// TestVerifC16SlowAcks: ack policy ALL while one in-sync follower is held for seconds.
func TestVerifC16SlowAcks(t *testing.T) {
	rep := kit.NewReport("C16", "slowacks")
	defer rep.Write()
	rep.SetRule("histories on real 3-broker clusters (replica.max.lag.time 60 s so that a held follower stays in the ISR): a fresh stream with optimistic concurrency control and replication factor 3 or 2; a lone publisher with determined verdicts, and 2 (thorough: 3) rounds in which the replication loop of one follower is parked at the follower.afterFetch hook for a seeded 1..6 s (one round of every history beyond 2.5 s) while 1..3 publishers publish with ack policy ALL through the synchronous Publish RPC of the leader / a follower / the broker without a replica (4 of 6), a PublishAsync session or a raw envelope, naming the real next offset or -1; the accepted ones are acknowledged only after the release; oracle = determined verdict when the publisher was alone + final log scan on the partition leader + ack consistency at the ack.send hook + porcupine; non-trivial = a round whose held follower was still in the ISR at the release and an accepted publish that was answered only after it; distinct = config + replication factor + hold times + publishers")
	rep.Assume("the hold time is workload only; no oracle reads a clock.  A history during which the partition leader or its epoch changed is inconclusive")
	remove := c16InstallHook()
	defer remove()
	removeHold := c16InstallLongHoldHook()
	defer removeHold()
	root := kit.NewRNG(kit.Mix(kit.Seed(), 0xC1651))
	nclu := kit.Scale(1, 4)
	perClu := kit.Scale(12, 16)
	hidx := 0
	for s := 0; s < nclu && rep.NumViolations() < 4; s++ {
		rng := root.Fork(uint64(s))
		bmm := []int{1, 8, 1024}[rng.Intn(3)]
		bmt := []time.Duration{0, 200 * time.Microsecond, 2 * time.Millisecond}[rng.Intn(3)]
		cfgDesc := fmt.Sprintf("3 brokers batch.max.messages=%d batch.max.time=%s replica.max.lag.time=60s", bmm, bmt)
		c, err := vfNewCluster(fmt.Sprintf("c16s-%d", s), 3, func(cfg *Config) {
			cfg.BatchMaxMessages = bmm
			cfg.BatchMaxTime = bmt
			cfg.Clustering.ReplicaMaxLagTime = 60 * time.Second
			cfg.Clustering.ReplicaMaxLeaderTimeout = 60 * time.Second
		})
		if err != nil {
			rep.Inconc("cluster did not start: " + err.Error())
			continue
		}
		pool := []*nats.Conn{c.NC}
		for i := 0; i < 3; i++ {
			nc, err := nats.Connect(c.URL)
			if err != nil {
				break
			}
			pool = append(pool, nc)
		}
		seeds := make([]uint64, perClu)
		for i := range seeds {
			seeds[i] = rng.Uint64()
		}
		base := hidx
		kit.Parallel(perClu, perClu, func(i int) {
			c16RunSlowHistory(rep, c, cfgDesc, base+i, seeds[i], pool)
		})
		hidx += perClu
		for _, nc := range pool[1:] {
			nc.Close()
		}
		c.Stop() // the directory (under VERIF_WORK) is removed by the driver
	}
}

// ---------------------------------------------------------------- sharedcorr

var c16CorrSchemes = []string{"empty", "one-for-all", "per-expected-offset", "per-publisher", "two"}

func c16CorrFunc(scheme string) func(op *c16Op) string {
	switch scheme {
	case "empty":
		return func(*c16Op) string { return "" }
	case "one-for-all":
		return func(*c16Op) string { return "order-4711" }
	case "per-expected-offset":
		// what racing writers of the same update share: an id derived from what
		// is written (here: the version the write is based on)
		return func(op *c16Op) string { return fmt.Sprintf("update/based-on-%d", op.E) }
	case "per-publisher":
		return func(op *c16Op) string { return fmt.Sprintf("client-%d", op.Pub) }
	}
	return func(op *c16Op) string { return []string{"a", "b"}[op.ID%2] }
}

// TestVerifC16SharedCorr: the single-node histories with correlation ids that
// are shared between different publishers' messages, or empty.
func TestVerifC16SharedCorr(t *testing.T) {
	rep := kit.NewReport("C16", "sharedcorr")
	defer rep.Write()
	rep.SetRule("the histories of the server-* units (single-node server, fresh stream with optimistic concurrency control, sequential prefix of >= 6 determined publishes - a third of them naming the offset the newest message just took -, then 2..16 concurrent publishers over apiServer.Publish / PublishAsync sessions / raw envelopes, ack policies mixed, expected offsets equal / stale / future / 0 / -1 / below -1) with correlation ids chosen by the publishers: empty, one id for every message, one id per expected offset, one id per publisher, two ids; message values stay unique; answers attributed by ack inbox (own inbox per Publish call and raw envelope, one publish at a time per PublishAsync session); oracle = final log scan (a publish told it succeeded is stored at that offset with ITS value, at most one winner per expected offset, ...) + ack consistency per ack inbox at the ack.send hook + porcupine; non-trivial / distinct as in the server-* units, plus the correlation-id scheme")
	rep.Assume("publishes without an answer are decided from the final log as in the server-* units; raw envelopes with ack policy NONE are not sent here (a late nack could not be attributed without a unique correlation id)")
	remove := c16InstallHook()
	defer remove()
	root := kit.NewRNG(kit.Mix(kit.Seed(), 0xC16C0))
	nsrv := kit.Scale(3, 8)
	perSrv := kit.Scale(10, 30)
	hidx := 0
	for s := 0; s < nsrv && rep.NumViolations() < 4 && c16Unanswered.Load() < c16MaxUnanswered; s++ {
		rng := root.Fork(uint64(s))
		bmm := []int{1, 2, 8, 64, 1024}[rng.Intn(5)]
		bmt := []time.Duration{0, 100 * time.Microsecond, time.Millisecond, 5 * time.Millisecond}[rng.Intn(4)]
		cfgDesc := fmt.Sprintf("batch.max.messages=%d batch.max.time=%s", bmm, bmt)
		c, srv, err := vfSingle(fmt.Sprintf("c16x-%d", s), func(cfg *Config) {
			cfg.BatchMaxMessages = bmm
			cfg.BatchMaxTime = bmt
		})
		if err != nil {
			rep.Inconc("server did not start: " + err.Error())
			continue
		}
		pool := []*nats.Conn{c.NC}
		for i := 0; i < 3; i++ {
			nc, err := nats.Connect(c.URL)
			if err != nil {
				break
			}
			pool = append(pool, nc)
		}
		seeds := make([]uint64, perSrv)
		for i := range seeds {
			seeds[i] = rng.Uint64()
		}
		base := hidx
		kit.Parallel(perSrv, 3, func(i int) {
			if rep.NumViolations() >= 4 || c16Unanswered.Load() >= c16MaxUnanswered {
				return
			}
			scheme := c16CorrSchemes[(base+i)%len(c16CorrSchemes)]
			c16RunHistoryWith(rep, c, srv, cfgDesc, false, "MIXED", base+i, seeds[i], pool, func(h *c16Hist) {
				h.corrOf = c16CorrFunc(scheme)
				h.cfgDesc += " correlation.ids=" + scheme
				if h.seqLen < 6 {
					h.seqLen = 6
				}
				rep.Count("sharedcorr_histories_"+scheme, 1)
			})
		})
		hidx += perSrv
		for _, nc := range pool[1:] {
			nc.Close()
		}
		c.Cleanup()
	}
}
