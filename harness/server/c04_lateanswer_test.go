//go:build verif

package server

// C04 unit "lateanswer" — the answer of a DEPOSED leader is handled late.
//
// Both followers have RECEIVED the old leader's answer to a fetch (it carries
// messages the old leader wrote but never committed) and have not handled it
// yet (follower.afterFetch gate of the C02 harness) when the partition leader
// changes — by a committed CHANGE_LEADER operation or by the followers'
// ReportLeader calls, with the old leader alive (it applies the change like
// everybody else) or stopped.  One follower (X) leads, the other (F) follows
// X and reconciles its log.  Only then do the old fetch loops handle the held
// answers.  They must be dropped; if F appends the old leader's messages, its
// log end runs ahead with content X never wrote, X takes F's next progress
// report at face value and ALL-acks messages F does not hold.
//
// Orders driven:
//   answer-first   the held answers are released, then ALL messages are
//                  published at X;
//   roundtrip      as answer-first, but the leadership first returns to the
//                  old leader (a later epoch of the server the answers came
//                  from), which both followers then follow;
//   parked         F's NEW fetch loop is parked at the follower.beforeFetch
//                  gate, ALL messages are published at X (pending: F is in the
//                  ISR), the held answers are released, then F's loop.
//
// Oracle (c04_content_test.go): every positive ALL ack is judged on arrival
// against every running member of the current leader's ISR (log end covers
// the offset and the record there is the acked message); at the end, at
// quiescence, every ISR member holds every ALL-acked message at its offset.

import (
	"context"
	"fmt"
	"os"
	"strings"
	"sync"
	"testing"
	"time"

	client "github.com/liftbridge-io/liftbridge-api/v2/go"

	kit "github.com/liftbridge-io/liftbridge/internal/verifkit"
	proto "github.com/liftbridge-io/liftbridge/server/protocol"
)

func init() {
	c02FamilyCfg["C04C"] = func(cfg *Config) {
		cfg.Clustering.ReplicaMaxLagTime = 6 * time.Second
		cfg.Clustering.ReplicaMaxLeaderTimeout = 30 * time.Second // leader changes are the harness' decision
	}
}

type c04La struct {
	e    *c02Env
	rep  *kit.Report
	pub  *c04Pub
	mu   sync.Mutex
	seq  int
	nack int
	read int
	// term counts the leader changes the harness has STARTED; a message
	// remembers the term it was published in.  A LEADER ack only speaks about
	// the leader that sent it, so it is compared with the current leader's log
	// only if no leader change has been started since the publish.
	term   int
	termOf map[string]int
	// respFrozen: both followers hold the leader's answer at the afterFetch
	// gate and no leader change has been started yet (see frozen)
	respFrozen bool
}

func (f *c04La) newTerm() {
	f.mu.Lock()
	f.term++
	f.respFrozen = false
	f.mu.Unlock()
}

func (f *c04La) sameTerm(tag string) bool {
	f.mu.Lock()
	defer f.mu.Unlock()
	return f.termOf[tag] == f.term
}

func (f *c04La) part(id string) *partition {
	n := f.e.c.Nodes[id]
	if n == nil || !n.IsUp() {
		return nil
	}
	return n.Partition(f.e.stream, 0)
}

// frozen: the replica's fetch loop is parked at the follower.beforeFetch gate
// (the gate was closed before the leader change and before the publishes it is
// asked about): it cannot fetch, so it can only leave the ISR, not enter it.
//
// Also frozen: a follower whose only fetch loop holds the leader's answer
// unhandled at the follower.afterFetch gate, as long as the harness has not
// started the leader change (respFrozen): it has RECEIVED the messages but not
// stored them, its log end is constant and it has been in the ISR all along.
func (f *c04La) frozen(id string) bool {
	f.mu.Lock()
	rf := f.respFrozen
	f.mu.Unlock()
	f.e.mu.Lock()
	defer f.e.mu.Unlock()
	if g := f.e.respGates[id]; rf && g != nil && g.held {
		return true
	}
	return f.e.gates[id] != nil && f.e.parked[id] > 0
}

func (f *c04La) fail(fp, what string) {
	f.e.mu.Lock()
	first := ""
	if len(f.e.steps) > 0 {
		first = f.e.steps[0]
	}
	f.e.mu.Unlock()
	fmt.Fprintf(os.Stderr, "C04 lateanswer [%s seed %d]: %s: %s\n", first, f.e.seed, fp, what)
	f.rep.Violation(fp, what, f.e.witness())
}

func (f *c04La) onAck(m *c04Msg, a *client.Ack) {
	f.mu.Lock()
	f.nack++
	f.mu.Unlock()
	f.e.logf("ack %s policy=%s err=%s offset=%d", m.Tag, m.Policy, a.AckError, a.Offset)
	if a.AckError != client.Ack_OK {
		return
	}
	if m.Policy == client.AckPolicy_NONE {
		f.fail("C04:none-acked", fmt.Sprintf("message %s with policy NONE was acked", m.Tag))
		return
	}
	ln, lp := c04LeaderNow(f.e.c, f.e.stream)
	if ln == nil {
		f.rep.Count("acks_received_while_nobody_leads_under_the_newest_epoch_not_judged", 1)
		return // nothing to compare with right now (never waited for: the state is read at receipt)
	}
	f.e.mu.Lock()
	lossy := len(f.e.fallbackLoss) > 0
	f.e.mu.Unlock()
	if lossy {
		return // a replica took the lossy HW-truncation fallback (C02 known finding): logs are not judged
	}
	if m.Policy == client.AckPolicy_ALL || f.sameTerm(m.Tag) {
		v, d := c04MemberHolds(lp, m.Tag, a.Offset)
		if (v == "other" || v == "hole") && (m.Policy == client.AckPolicy_ALL || f.sameTerm(m.Tag)) {
			f.fail("C04:ack-offset-mismatch", fmt.Sprintf("positive %s ack for %s names offset %d, but leader %s %s", m.Policy, m.Tag, a.Offset, ln.ID, d))
			return
		}
	}
	if m.Policy != client.AckPolicy_ALL {
		return
	}
	isr := lp.GetISR()
	f.mu.Lock()
	f.read += len(isr)
	f.mu.Unlock()
	fp, what, free := c04JudgeAllAck(isr, ln.ID, f.part, f.frozen, m.Tag, a.Offset)
	if free > 0 {
		f.rep.Count("free_running_isr_member_behind_at_ack_receipt_not_judged", int64(free))
	}
	if fp != "" {
		f.fail(fp, what)
		return
	}
	if hw := lp.log.HighWatermark(); hw < a.Offset {
		f.fail("C04:all-acked-before-commit", fmt.Sprintf("ALL-policy ack for %s at offset %d received while the leader HW is %d", m.Tag, a.Offset, hw))
	}
}

func (f *c04La) publish(prefix string, n int, pol client.AckPolicy) []*c04Msg {
	f.e.step("publish(%s,%d,%s)", prefix, n, pol)
	var out []*c04Msg
	for i := 0; i < n; i++ {
		f.seq++
		m := &c04Msg{Tag: fmt.Sprintf("%sC-%d-m%03d", prefix, f.e.seed%1000, f.seq), Policy: pol, Expect: -1}
		f.mu.Lock()
		if f.termOf == nil {
			f.termOf = map[string]int{}
		}
		f.termOf[m.Tag] = f.term
		f.mu.Unlock()
		f.pub.send(f.e.stream, f.e.subject, m, c04Value(m.Tag, 40))
		out = append(out, m)
	}
	f.pub.nc.Flush()
	return out
}

// reportLeader files the followers' "leader unresponsive" reports with the
// controller, as their failure detectors would.
func (f *c04La) reportLeader(leader string, epoch uint64, witnesses ...string) bool {
	e := f.e
	e.step("followers %v report leader %s (epoch %d) to the controller", witnesses, leader, epoch)
	for _, w := range witnesses {
		ok := vfWait(20*time.Second, func() bool {
			ml, err := e.c.MetaLeader(10 * time.Second)
			if err != nil {
				return false
			}
			ctx, cancel := context.WithTimeout(context.Background(), 8*time.Second)
			defer cancel()
			st := ml.metadata.ReportLeader(ctx, &proto.ReportLeaderOp{Stream: e.stream, Partition: 0, Replica: w, Leader: leader, LeaderEpoch: epoch})
			if st != nil {
				e.logf("ReportLeader(%s): %v", w, st.Err())
				// a report against an epoch that is already over means the election happened
				if p := ml.metadata.GetPartition(e.stream, 0); p != nil {
					if _, ep := p.GetLeader(); ep > epoch {
						return true
					}
				}
				return false
			}
			return true
		})
		if !ok {
			e.inconclusive("leader report of " + w + " not accepted")
			return false
		}
	}
	return true
}

// c04LateAnswer runs one scenario; returns whether its decisive phase was reached.
func c04LateAnswer(f *c04La, rng *kit.RNG, order, route string, oldLeaderStops bool) bool {
	e := f.e
	l := e.leader()
	if l == nil {
		return false
	}
	fol := c02Others(e.c, l.ID)
	a, b := fol[0], fol[1]
	if rng.Bool() {
		a, b = b, a
	}
	if !f.pub.waitAcked(f.publish("base-", rng.Range(2, 4), client.AckPolicy_ALL), 30*time.Second) {
		e.inconclusive("initial publishes not acked")
		return false
	}
	if _, _, ok := c04Quiescent(e.c, e.stream, 3, 30*time.Second); !ok {
		e.inconclusive("partition not quiet after the initial publishes")
		return false
	}
	lp := l.Partition(e.stream, 0)
	_, epoch := lp.GetLeader()
	ga := e.holdResponse(a, epoch)
	gb := e.holdResponse(b, epoch)
	// The tail: messages the old leader writes and never commits.  The ALL ones
	// can never be acknowledged legitimately: both followers (in the ISR) only
	// RECEIVE them, and after the leader change they are gone.  An ALL ack that
	// arrives while both answers are held is judged against frozen replicas.
	f.mu.Lock()
	f.respFrozen = true
	f.mu.Unlock()
	var tailAll []*c04Msg
	if rng.Bool() {
		tailAll = f.publish("tailA-", rng.Range(1, 2), client.AckPolicy_ALL)
	}
	tail := f.publish("tail-", rng.Range(1, 3), client.AckPolicy_LEADER)
	if rng.Bool() {
		tailAll = append(tailAll, f.publish("tailA-", 1, client.AckPolicy_ALL)...)
	}
	kick := f.publish("tailK-", 1, client.AckPolicy_LEADER)
	if !f.pub.waitAcked(append(tail, kick...), 15*time.Second) {
		e.inconclusive("tail on the old leader not written")
		return false
	}
	for _, g := range []*c02RespGate{ga, gb} {
		select {
		case <-g.caught:
		case <-time.After(15 * time.Second):
			e.inconclusive("a follower never received an answer with data")
			return false
		}
	}
	if lp.ISRSize() != 3 {
		e.inconclusive("ISR shrank before the leader change")
		return false
	}
	f.rep.Count("uncommittable_ALL_messages_in_the_old_leaders_tail", int64(len(tailAll)))
	base := e.c.Nodes[a].Partition(e.stream, 0).log.NewestOffset()
	e.step("both followers hold an unhandled answer of %s (epoch %d); leader log end %d, followers' log end %d", l.ID, epoch, lp.log.NewestOffset(), base)
	if order == "parked" {
		e.hold(a)
		e.hold(b)
	}
	f.newTerm()
	if oldLeaderStops {
		e.stop(l.ID)
	}
	var x string
	if route == "report" {
		if !f.reportLeader(l.ID, epoch, a, b) {
			return false
		}
		nl := e.waitLeaderNot(l.ID)
		if nl == nil {
			return false
		}
		x = nl.ID
	} else {
		x = a
		if !e.changeLeader(x) || !e.waitLeads(x) {
			return false
		}
	}
	fl := a
	if x == a {
		fl = b
	}
	// ISR changes and leader changes are ordered by the controller's log: if the
	// old leader had dropped a follower before the change was committed (and
	// then committed alone), the new leader starts with that smaller ISR.
	if xp := e.c.Nodes[x].Partition(e.stream, 0); xp == nil || xp.ISRSize() != 3 {
		e.inconclusive("ISR shrank before the leader change was committed")
		return false
	}
	if !e.waitFollows(fl, x) {
		return false
	}
	fp := e.c.Nodes[fl].Partition(e.stream, 0)
	// wait until the old answer has been handled: visible only if it was
	// (wrongly) appended; otherwise the wait just runs out (schedule shaping,
	// not an oracle)
	handled := func() {
		before := fp.log.NewestOffset()
		vfWait(1*time.Second, func() bool { return fp.log.NewestOffset() != before })
		e.step("%s's log end after its old fetch loop handled the answer of %s: %d (before %d)", fl, l.ID, fp.log.NewestOffset(), before)
	}
	var after []*c04Msg
	if order == "roundtrip" {
		// the leadership returns to the old leader (a later epoch of the SAME
		// server the held answers came from) before the answers are handled;
		// both followers then follow it and both answers are stale
		f.newTerm()
		if !e.changeLeader(l.ID) || !e.waitLeads(l.ID) || !e.waitFollows(fl, l.ID) || !e.waitFollows(x, l.ID) {
			return false
		}
	}
	switch order {
	case "answer-first", "roundtrip":
		e.releaseResponse(fl)
		e.releaseResponse(x)
		handled()
		after = f.publish("new-", rng.Range(1, 4), client.AckPolicy_ALL)
		f.publish("newN-", 1, client.AckPolicy_NONE)
	case "parked":
		if !e.waitParked(fl) {
			e.inconclusive(fl + "'s new fetch loop did not park")
			return false
		}
		after = f.publish("new-", rng.Range(1, 4), client.AckPolicy_ALL)
		kick := f.publish("newL-", 1, client.AckPolicy_LEADER)
		if !f.pub.waitAcked(kick, 20*time.Second) {
			e.inconclusive("new leader did not write")
			return false
		}
		xp := e.c.Nodes[x].Partition(e.stream, 0)
		inISR := false
		for _, id := range xp.GetISR() {
			if id == fl {
				inISR = true
			}
		}
		if !inISR {
			e.inconclusive(fl + " left the ISR before the held answer was released")
			return false
		}
		e.releaseResponse(fl)
		e.releaseResponse(x)
		handled()
		e.release(fl)
		e.release(x)
	}
	if !f.pub.waitAcked(after, 40*time.Second) {
		e.inconclusive("publishes at the new leader not acked")
		return false
	}
	fin := f.publish("fin-", 2, client.AckPolicy_ALL)
	if !f.pub.waitAcked(fin, 40*time.Second) {
		e.inconclusive("final publishes not acked")
		return false
	}
	for _, m := range tailAll {
		if acks := f.pub.acks(m); len(acks) > 0 && acks[0].AckError == client.Ack_OK {
			f.fail("C04:all-acked-before-isr-stored", fmt.Sprintf("ALL-policy message %s, which the old leader %s wrote while both followers (in the ISR) had at most RECEIVED it and which was discarded by the leader change, was acknowledged (offset %d)", m.Tag, l.ID, acks[0].Offset))
			break
		}
	}
	want := 3
	if oldLeaderStops {
		want = 0
	}
	qn, isr, ok := c04Quiescent(e.c, e.stream, want, 40*time.Second)
	if !ok {
		e.inconclusive("partition did not become quiet at the end")
		return true
	}
	e.mu.Lock()
	lossy := len(e.fallbackLoss) > 0
	e.mu.Unlock()
	if lossy {
		// a replica took the documented lossy HW-truncation fallback (C02 known
		// finding): what it holds afterwards is not judged here
		f.rep.Count("quiescent_judgement_skipped_after_hw_fallback", 1)
		return true
	}
	n := c04JudgeQuiescent(e.c, e.stream, qn, isr, c04PositiveAllAcks(f.pub), f.fail)
	f.rep.Count("quiescent_member_ack_pairs_compared", int64(n))
	return true
}

func TestVerifC04LateAnswer(t *testing.T) {
	rep := kit.NewReport("C04", "lateanswer")
	defer rep.Write()
	rep.SetRule("3-server clusters, RF=3: both followers have received, but not yet handled (follower.afterFetch gate), the old leader's answer carrying messages it wrote and never committed, when the partition leader changes (route: committed CHANGE_LEADER, or ReportLeader calls of both followers; old leader alive or stopped); one follower leads, the other follows it and reconciles; then the held answers are handled — order answer-first: before ALL messages are published at the new leader; order roundtrip: as answer-first after the leadership has returned to the old leader under a later epoch; order parked: the remaining follower's NEW fetch loop is parked at the fetch gate, ALL messages are pending at the new leader, the answers are handled, the loop is released; oracle: every positive ALL ack is judged on arrival against every running member of the current leader's ISR (log end covers the acked offset and the record stored there is the acked message), HW covers it, positive acks name an offset holding the message on the leader, NONE never acked; at the end, at quiescence, every ISR member holds every ALL-acked message at its offset (skipped if a replica took the HW-truncation fallback); non-trivial = both answers were held, the leader changed, the remaining follower followed the new leader before its held answer was released (parked: its new loop was parked and it was still in the ISR); distinct = order/route/old leader/seed")
	root := kit.NewRNG(kit.Mix(kit.Seed(), 0xC04E))
	n := kit.Scale(4, 14)
	for i := 0; i < n && rep.NumViolations() < 3; i++ {
		seed := root.Uint64()
		rng := kit.NewRNG(seed)
		order := []string{"answer-first", "parked", "roundtrip"}[i%3]
		route := []string{"change", "report"}[(i/3)%2]
		stops := kit.Thorough() && i%5 == 4 && order != "roundtrip"
		e, err := c02NewEnv(rep, "C04C", seed)
		if err != nil {
			rep.Inconc(fmt.Sprintf("cluster start failed: %v", err))
			continue
		}
		e.quietOracle = true
		f := &c04La{e: e, rep: rep}
		pub, err := c04NewPub(e.c.URL, f.onAck)
		if err != nil {
			rep.Inconc("publisher: " + err.Error())
			e.close()
			continue
		}
		f.pub = pub
		e.step("order=%s route=%s oldLeaderStops=%v", order, route, stops)
		reached := c04LateAnswer(f, rng, order, route, stops)
		rep.Eval()
		e.mu.Lock()
		complete := !e.inconc
		steps := append([]string(nil), e.steps...)
		e.mu.Unlock()
		f.mu.Lock()
		rep.Count("acks_judged", int64(f.nack))
		rep.Count("isr_members_read_at_all_ack_receipt", int64(f.read))
		f.mu.Unlock()
		if reached {
			rep.Count("late_answers_released_"+order, 1)
		}
		if complete && reached {
			rep.Nontrivial(fmt.Sprintf("%s/%s/stops=%v/%d", order, route, stops, seed))
		}
		rep.Sample(map[string]any{"order": order, "route": route, "old_leader_stops": stops, "seed": seed, "steps": strings.Join(steps, " > ")})
		pub.close()
		e.close()
	}
}
