//go:build verif

package server

// C11 — "reconfig" unit.  Every other unit restarts a server with the very
// configuration it was first started with, so the settings of the reserved
// cursors stream (cursors.stream.partitions / replication.factor /
// auto.pause.time) always agree with what the existing __cursors stream was
// created with.  Here a single-node server is restarted on the same data
// directory with CHANGED settings of the cursors stream: fewer partitions,
// more partitions, the same number (control), another replication factor,
// another auto-pause time, several such restarts in a row, ending with the
// original settings.  Initialize never repartitions an existing cursors
// stream (it returns as soon as the stream exists), so the stream keeps the
// partitions it was created with, and the property says a server restart
// does not change what FetchCursor returns: after every restart every cursor
// acknowledged so far, a never-set cursor, and cursors written under the new
// settings are fetched (as is, and after a cache purge) and judged by the
// same per-cursor register rule and porcupine check as everywhere else.

import (
	"fmt"
	"strings"
	"testing"
	"time"

	kit "github.com/liftbridge-io/liftbridge/internal/verifkit"
)

// c11ReconfStage: the cursors-stream settings one (re)start runs with.
type c11ReconfStage struct {
	Parts     int32
	RF        int32
	AutoPause time.Duration
}

func (s c11ReconfStage) String() string {
	return fmt.Sprintf("p%d/rf%d/ap%v", s.Parts, s.RF, s.AutoPause)
}

type c11ReconfCase struct {
	Stages   []c11ReconfStage // Stages[0] creates the cursors stream
	CacheOff bool
	Compact  bool // compact the cursors log before the first restart
	Keys     int
}

func (c c11ReconfCase) sig() string {
	s := make([]string, len(c.Stages))
	for i, st := range c.Stages {
		s[i] = st.String()
	}
	return fmt.Sprintf("%s|cacheOff=%v|compact=%v", strings.Join(s, ">"), c.CacheOff, c.Compact)
}

// c11ReconfRestart stops the node and starts it again on the same data
// directory with the cursors-stream settings of st.  realParts is the number
// of partitions the existing cursors stream was created with.
func (e *c11Env) c11ReconfRestart(st c11ReconfStage, realParts int32) bool {
	e.step("restart with cursors.stream partitions=%d replication.factor=%d auto.pause.time=%v", st.Parts, st.RF, st.AutoPause)
	// the server is up since its cursors partitions were led and operations
	// were answered; all the same, never stop a server whose leadership
	// callbacks may still be running
	if _, err := e.c.MetaLeader(30 * time.Second); err != nil {
		e.inconclusive("no metadata leader before the restart")
		return false
	}
	if err := e.c.StopNode("a"); err != nil {
		e.inconclusive("stop: " + err.Error())
		return false
	}
	n := e.c.Nodes["a"]
	// a fresh Config object: goroutines of the stopped server may still read the old one
	cfg := *n.Cfg
	cfg.CursorsStream.Partitions = st.Parts
	cfg.CursorsStream.ReplicationFactor = st.RF
	cfg.CursorsStream.AutoPauseTime = st.AutoPause
	n.Cfg = &cfg
	// pauseAll / sig() look at the env's copy; no client is running
	e.cfg.AutoPause = st.AutoPause
	if err := e.c.StartNode("a"); err != nil {
		e.inconclusive("restart: " + err.Error())
		return false
	}
	srv := n.Server()
	e.applyServerKnobs(srv)
	if _, err := e.c.MetaLeader(30 * time.Second); err != nil {
		e.inconclusive("no metadata leader after restart")
		return false
	}
	if !c11Ready(srv, realParts, 30*time.Second) {
		if got := len(c11CursorPartitions(srv)); got != int(realParts) {
			e.inconclusive(fmt.Sprintf("the cursors stream has %d partitions after the restart, it was created with %d", got, realParts))
		} else {
			e.inconclusive("cursors partitions not led after restart")
		}
		return false
	}
	e.mu.Lock()
	e.restarts++
	e.mu.Unlock()
	return true
}

// c11ReconfMoved counts the keys that a modulus of `configured` instead of the
// stream's `real` partition count would send to another (or to no) cursors
// partition.  Coverage only, never part of a verdict.
func c11ReconfMoved(srv *Server, keys []c11Key, real, configured int32) int {
	if configured <= 0 || real <= 0 {
		return 0
	}
	moved := 0
	for _, k := range keys {
		h := hasher(srv.cursors.getCursorKey(k.ID, k.Stream, k.Part))
		if h%uint32(real) != h%uint32(configured) {
			moved++
		}
	}
	return moved
}

func c11ReconfRun(rep *kit.Report, idx int, seed uint64, cs c11ReconfCase) {
	rng := kit.NewRNG(seed)
	first := cs.Stages[0]
	steps := []string{"reconfig"}
	for _, st := range cs.Stages[1:] {
		steps = append(steps, "restart:"+st.String())
	}
	cfg := c11Cfg{Parts: first.Parts, SegBytes: []int64{600, 1500}[rng.Intn(2)], CacheOff: cs.CacheOff, Clients: 1,
		CleanMode: "forced", AutoPause: first.AutoPause, Steps: steps}
	e, err := c11NewSingle(rep, "reconfig", seed, cfg)
	if err != nil {
		rep.Inconc(fmt.Sprintf("server start failed: %v", err))
		return
	}
	defer e.close()
	rep.Eval()
	n := e.c.Nodes["a"]
	real := first.Parts

	keys := append([]c11Key{}, c11HotKeys(4)...)
	for len(keys) < cs.Keys {
		keys = append(keys, e.newCold())
	}
	never := []c11Key{e.newCold(), e.newCold()}
	answered, wanted := 0, 0
	fetchAll := func(phase string) {
		for _, k := range append(append([]c11Key{}, keys...), never...) {
			wanted++
			if f := e.fetchQuiescent(n, k, phase); f.OK {
				answered++
				e.judgeNow(f, false)
			}
		}
	}
	setSome := func(phase string, ks []c11Key) bool {
		for _, k := range ks {
			if s := e.doSet(n, 0, k, phase); !s.OK {
				// not a statement of C11 (a failed set is no observation)
				e.rep.Count("sets_not_acknowledged", 1)
				e.inconclusive("set not acknowledged at " + phase + ": " + s.Err)
				return false
			}
		}
		return true
	}
	pick := func(k int) []c11Key {
		out := append([]c11Key{}, keys...)
		for i := len(out) - 1; i > 0; i-- {
			j := rng.Intn(i + 1)
			out[i], out[j] = out[j], out[i]
		}
		return out[:k]
	}

	if !setSome("reconfig-set", keys) || !setSome("reconfig-set", pick(len(keys)/2)) {
		return
	}
	if cs.Compact {
		if !setSome("reconfig-set", pick(len(keys)/2)) {
			return
		}
		e.compactQuiescent(n.Server())
	}
	fetchAll("reconfig-before-restart")

	changed, movedMax := 0, 0
	for si, st := range cs.Stages[1:] {
		prev := cs.Stages[si]
		if !e.c11ReconfRestart(st, real) {
			return
		}
		n = e.c.Nodes["a"]
		srv := n.Server()
		tag := fmt.Sprintf(" %s>%s", prev, st)
		if st.Parts != real {
			changed++
			rep.Count("restarts_with_other_partition_count_than_the_stream_has", 1)
			if st.Parts < real {
				rep.Count("restarts_with_fewer_partitions_configured", 1)
			} else {
				rep.Count("restarts_with_more_partitions_configured", 1)
			}
			if m := c11ReconfMoved(srv, keys, real, st.Parts); m > movedMax {
				movedMax = m
			}
		} else {
			rep.Count("restarts_with_the_stream's_partition_count", 1)
		}
		if st.RF != prev.RF {
			rep.Count("restarts_with_changed_replication_factor", 1)
		}
		if st.AutoPause != prev.AutoPause {
			rep.Count("restarts_with_changed_auto_pause_time", 1)
		}
		// one defect, one fingerprint: every fetch after a restart is reported
		// in the context "reconfig-after-restart" (the part after '/' is detail)
		// 1. what was acknowledged before the restart
		fetchAll("reconfig-after-restart/as-is" + tag)
		e.mu.Lock()
		failed := e.failed
		e.mu.Unlock()
		if failed {
			break // reported; what follows would only repeat it
		}
		// 2. cursors written under the new settings: old ones overwritten, new ones created
		over := pick(len(keys) / 3)
		fresh := []c11Key{e.newCold(), e.newCold(), e.newCold()}
		if !setSome("reconfig-set-after-restart", over) || !setSome("reconfig-set-after-restart", fresh) {
			return
		}
		keys = append(keys, fresh...)
		fetchAll("reconfig-after-restart/after-new-sets" + tag)
		// 3. the same answers from the log
		if !cs.CacheOff {
			e.purge(srv)
			fetchAll("reconfig-after-restart/after-purge" + tag)
		}
		// 4. sometimes the partitions are closed and reopened under the new settings
		if rng.Intn(2) == 0 || st.AutoPause > 0 {
			if e.pauseAll(n) {
				fetchAll("reconfig-after-restart/after-pause" + tag)
			}
		}
	}
	e.finish()
	rep.Count("cases", 1)
	rep.Count("keys_a_configured_modulus_would_move_summed_over_cases", int64(movedMax))
	if answered == wanted && (changed == 0 || movedMax > 0) {
		rep.Nontrivial(cs.sig())
	}
	if idx < 3 {
		rep.Sample(map[string]any{"stages": cs.sig(), "cursors": len(keys), "fetches_answered": answered, "fetches": wanted,
			"keys_a_configured_modulus_would_move": movedMax})
	}
}

func TestVerifC11Reconfig(t *testing.T) {
	rep := kit.NewReport("C11", "reconfig")
	defer rep.Write()
	rep.SetRule("single-node servers restarted on the same data directory with CHANGED settings of the reserved cursors stream: cursors.stream.partitions lower / higher than / equal to the number the existing __cursors stream was created with (5>3, 1>4, 3>3 control, chains such as 3>1>6>3 that end with the original value), cursors.stream.replication.factor and cursors.stream.auto.pause.time changed; 16-24 cursors (4 look-alike hot keys + cold ones) acknowledged before; after every restart every cursor and two never-set cursors are fetched, a third is overwritten and 3 new cursors are created under the new settings, everything fetched again as is, after a cache purge and sometimes after pause+resume; judged by the per-cursor register rule at once and by porcupine at the end; non-trivial = every fetch answered and (for a changed partition count) at least one cursor key whose hash modulo the configured count differs from its hash modulo the stream's real count; distinct = stage list + cache mode + compaction")
	rep.Assume("an existing cursors stream keeps the partitions it was created with across restarts (cursorManager.Initialize returns as soon as the stream exists); a configured partition count of 0 (cursors disabled) on a server that still has a cursors stream is not exercised (unspecified)")
	ms := time.Millisecond
	cases := []c11ReconfCase{
		{Stages: []c11ReconfStage{{5, 1, 0}, {3, 1, 0}}, Keys: 24},
		{Stages: []c11ReconfStage{{1, 1, 0}, {4, 1, 0}}, CacheOff: true, Keys: 16},
		{Stages: []c11ReconfStage{{3, 1, 0}, {3, 3, 500 * ms}}, Keys: 16},
		{Stages: []c11ReconfStage{{3, 1, 0}, {1, 1, 0}, {6, 2, 0}, {3, 1, 0}}, Keys: 20},
		{Stages: []c11ReconfStage{{2, 1, 0}, {5, 1, 0}, {2, 1, 0}}, CacheOff: true, Compact: true, Keys: 20},
		{Stages: []c11ReconfStage{{4, 1, 500 * ms}, {2, 1, 0}}, Keys: 20},
	}
	if kit.Thorough() {
		more := []c11ReconfCase{
			{Stages: []c11ReconfStage{{6, 1, 0}, {1, 1, 0}}, Keys: 24},
			{Stages: []c11ReconfStage{{1, 1, 0}, {2, 1, 0}, {1, 1, 0}}, Keys: 16},
			{Stages: []c11ReconfStage{{2, 1, 0}, {3, 1, 0}}, Compact: true, Keys: 24},
			{Stages: []c11ReconfStage{{7, 1, 0}, {4, 1, 0}, {9, 1, 0}, {7, 1, 0}}, Keys: 24},
			{Stages: []c11ReconfStage{{3, 1, 0}, {2, 1, 500 * ms}, {3, 1, 0}}, Keys: 20},
			{Stages: []c11ReconfStage{{2, 1, 0}, {2, 2, 0}, {2, 1, time.Hour}}, Keys: 16},
		}
		cases = append(cases, more...)
		// every case once more with the other cache mode
		for _, c := range append([]c11ReconfCase{}, cases...) {
			c.CacheOff = !c.CacheOff
			cases = append(cases, c)
		}
	}
	root := kit.NewRNG(kit.Mix(kit.Seed(), 0xC11EC0))
	seeds := make([]uint64, len(cases))
	for i := range seeds {
		seeds[i] = root.Uint64()
	}
	kit.Parallel(len(cases), 6, func(i int) {
		if rep.NumViolations() >= 4 {
			return
		}
		c11ReconfRun(rep, i, seeds[i], cases[i])
	})
}
