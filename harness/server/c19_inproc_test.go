//go:build verif

package server

// C19 — telemetry can be switched off and never carries user data (in-process
// part).  The telemetry collector sends with an http.Client that has no
// transport of its own, i.e. through http.DefaultTransport; that variable is
// replaced by a recorder before any server is started.  A real single-node
// server is then run once per case — start, activity with needle-carrying
// stream names / subjects / messages / NATS credentials / server id / data
// directory, Stop() (which joins the collector) — and the verdict is taken from
// what the recorder holds when Stop() has returned.

import (
	"context"
	"encoding/json"
	"fmt"
	"net"
	"net/http"
	"os"
	"path/filepath"
	"runtime"
	"strings"
	"sync"
	"testing"
	"time"

	client "github.com/liftbridge-io/liftbridge-api/v2/go"
	gnatsd "github.com/nats-io/nats-server/v2/server"
	natsdTest "github.com/nats-io/nats-server/v2/test"

	kit "github.com/liftbridge-io/liftbridge/internal/verifkit"
)

const c19EnvVar = "LIFTBRIDGE_TELEMETRY_ENABLED"

func c19StartNATS(user, pass string) (*gnatsd.Server, string, int) {
	opts := natsdTest.DefaultTestOptions
	opts.Port = -1
	opts.NoLog = true
	opts.NoSigs = true
	opts.Username = user
	opts.Password = pass
	ns := natsdTest.RunServer(&opts)
	port := ns.Addr().(*net.TCPAddr).Port
	return ns, fmt.Sprintf("nats://127.0.0.1:%d", port), port
}

func c19Word(rng *kit.RNG, prefix string) string {
	const al = "abcdefghijklmnopqrstuvwxyz0123456789"
	b := make([]byte, 10)
	for i := range b {
		b[i] = al[rng.Intn(len(al))]
	}
	return prefix + string(b)
}

// c19Needles are the distinctive strings put into everything a user controls.
type c19Needles struct {
	Stream, Stream2, Subject, Subject2 string
	MsgValue, MsgKey, HeaderVal        string
	NATSUser, NATSPass                 string
	ServerID, Namespace, DirName       string
	Group                              string
	// AdvHost is the host name the server advertises to clients (`host`); the
	// server listens on 127.0.0.1 (`listen`)
	AdvHost string
}

func c19NewNeedles(rng *kit.RNG) c19Needles {
	return c19Needles{
		Stream: c19Word(rng, "strm-"), Stream2: c19Word(rng, "strm2-"), Subject: c19Word(rng, "subj."), Subject2: c19Word(rng, "subj2."),
		MsgValue: c19Word(rng, "value-"), MsgKey: c19Word(rng, "key-"), HeaderVal: c19Word(rng, "hdr-"),
		NATSUser: c19Word(rng, "user-"), NATSPass: c19Word(rng, "pass-"),
		ServerID: c19Word(rng, "srv-"), Namespace: c19Word(rng, "ns-"), DirName: c19Word(rng, "dir-"), Group: c19Word(rng, "grp-"),
		AdvHost: c19Word(rng, "adv-") + "." + c19Word(rng, "zone-") + ".internal",
	}
}

// c19Host: the facts of the environment this process (and so every in-process
// server and collector) runs in, plus the values of the environment variables
// planted by c19PlantEnv.  They are needles of every enabled-telemetry
// judgement (see kit/c19host.go).
var (
	c19HostOnce sync.Once
	c19Host     *kit.C19HostFacts
)

func c19HostFacts() *kit.C19HostFacts {
	c19HostOnce.Do(func() {
		c19Host = kit.NewC19HostFacts(kit.C19LegitStrings(Version))
		c19Host.AddThisProcess()
	})
	return c19Host
}

// c19PlantEnv sets the environment variables of kit.C19EnvPlantNames to seeded
// distinctive values for the lifetime of the unit, registers them as needles
// and states in the report exactly which host facts are searched.  The
// returned function restores the environment.
func c19PlantEnv(rep *kit.Report) func() {
	h := c19HostFacts()
	plants := kit.C19EnvPlants(kit.NewRNG(kit.Mix(kit.Seed(), 0xC19E)))
	type old struct {
		v   string
		had bool
	}
	olds := map[string]old{}
	for k, v := range plants {
		o, had := os.LookupEnv(k)
		olds[k] = old{o, had}
		os.Setenv(k, v)
	}
	h.AddEnv(plants)
	rep.Assume(h.Describe() + ".  Also a needle of every judged report: the host name the server advertises to clients (`host`, seeded, e.g. adv-xxxxxxxxxx.zone-xxxxxxxxxx.internal; the server listens on 127.0.0.1 through `listen`) as a whole, its first label and its domain part")
	rep.Count("host_environment_needles_searched", int64(len(h.Needles)))
	return func() {
		for k, o := range olds {
			if o.had {
				os.Setenv(k, o.v)
			} else {
				os.Unsetenv(k)
			}
		}
	}
}

// asMap returns label -> needle (labels name the class of user data; '#'
// separates a class from a running number).
func (n c19Needles) asMap(natsURL string, listen string) map[string]string {
	m := map[string]string{
		"stream name#1": n.Stream, "stream name#2": n.Stream2, "subject#1": n.Subject, "subject#2": n.Subject2,
		"message data#value": n.MsgValue, "message data#key": n.MsgKey, "message data#header": n.HeaderVal,
		"credentials#nats-user": n.NATSUser, "credentials#nats-password": n.NATSPass,
		"server id": n.ServerID, "namespace": n.Namespace, "data directory": n.DirName, "consumer group": n.Group,
		"address#nats-url": natsURL, "address#nats-hostport": strings.TrimPrefix(natsURL, "nats://"),
	}
	if listen != "" {
		m["address#listen"] = listen
		if _, port, err := net.SplitHostPort(listen); err == nil {
			m["address#advertised-hostport"] = net.JoinHostPort(n.AdvHost, port)
		}
	}
	if n.AdvHost != "" {
		m["address#advertised-host"] = n.AdvHost
		if first, rest, ok := strings.Cut(n.AdvHost, "."); ok {
			m["address#advertised-host-first-label"] = first
			m["address#advertised-host-domain"] = rest
		}
	}
	c19HostFacts().Merge(m)
	return m
}

func c19WaitReady(srv *Server) bool {
	return vfWait(30*time.Second, func() bool { return srv.getRaft() != nil && srv.IsLeader() })
}

// c19Activity uses the server like a client would, with needles everywhere.
func c19Activity(srv *Server, n c19Needles) error {
	for i, st := range [][2]string{{n.Stream, n.Subject}, {n.Stream2, n.Subject2}} {
		ctx, cancel := context.WithTimeout(context.Background(), 20*time.Second)
		_, err := srv.api.CreateStream(ctx, &client.CreateStreamRequest{Name: st[0], Subject: st[1], ReplicationFactor: 1, Group: n.Group})
		cancel()
		if err != nil && !strings.Contains(err.Error(), "already exists") {
			return fmt.Errorf("create stream %d: %v", i, err)
		}
		name := st[0]
		if !vfWait(20*time.Second, func() bool {
			p := srv.metadata.GetPartition(name, 0)
			return p != nil && p.IsLeader()
		}) {
			return fmt.Errorf("stream %d has no leader: %w", i, errVfTimeout)
		}
		for k := 0; k < 3; k++ {
			ctx, cancel := context.WithTimeout(context.Background(), 20*time.Second)
			_, err := srv.api.Publish(ctx, &client.PublishRequest{Stream: name, Key: []byte(n.MsgKey), Value: []byte(fmt.Sprintf("%s-%d", n.MsgValue, k)),
				Headers: map[string][]byte{"x-needle": []byte(n.HeaderVal)}, AckPolicy: client.AckPolicy_LEADER})
			cancel()
			if err != nil {
				return fmt.Errorf("publish: %v", err)
			}
		}
		ctx, cancel = context.WithCancel(context.Background())
		sub, err := srv.api.SubscribeInternal(ctx, &client.SubscribeRequest{Stream: name, Partition: 0, StartPosition: client.StartPosition_EARLIEST})
		if err != nil {
			cancel()
			return fmt.Errorf("subscribe: %v", err)
		}
		select {
		case <-sub.Messages():
		case st := <-sub.Errors():
			cancel()
			return fmt.Errorf("subscribe status: %v", st.Message())
		case <-time.After(20 * time.Second):
			cancel()
			return fmt.Errorf("subscriber got nothing: %w", errVfTimeout)
		}
		sub.Close()
		cancel()
	}
	ctx, cancel := context.WithTimeout(context.Background(), 10*time.Second)
	defer cancel()
	if _, err := srv.api.FetchMetadata(ctx, &client.FetchMetadataRequest{}); err != nil {
		return fmt.Errorf("fetch metadata: %v", err)
	}
	return nil
}

type c19Case struct {
	Name   string
	Route  string // how telemetry is switched: programmatic | config-file-nested | config-file-dotted | env-var:with-config-file | env-var:no-config-file | default-on | config-file-on
	Expect string // "zero" | "some"
	Mode   int    // recorder answer: 0 200, 1 500, 2 network error
}

func c19Yaml(n c19Needles, natsURL, dataDir, telemetry string) string {
	return fmt.Sprintf(`listen: 127.0.0.1:0
host: %s
port: 0
data.dir: %s
logging:
  level: error
nats:
  servers:
    - %s
  user: %s
  password: %s
clustering:
  server.id: %s
  namespace: %s
  raft.bootstrap.seed: true
  min.insync.replicas: 1
%s`, n.AdvHost, dataDir, natsURL, n.NATSUser, n.NATSPass, n.ServerID, n.Namespace, telemetry)
}

// c19Config builds the server configuration the way the case's route says.
// Everything except the telemetry switch is identical for all routes.
func c19Config(cs c19Case, n c19Needles, natsURL, dir string) (*Config, map[string]any, error) {
	dataDir := filepath.Join(dir, n.DirName)
	info := map[string]any{}
	file := filepath.Join(dir, "liftbridge.yaml")
	writeFile := func(tel string) error {
		y := c19Yaml(n, natsURL, dataDir, tel)
		info["config_file"] = y
		return os.WriteFile(file, []byte(y), 0644)
	}
	programmatic := func(cfg *Config) {
		cfg.Listen = HostPort{Host: "127.0.0.1", Port: 0}
		cfg.Host = n.AdvHost
		cfg.Port = 0
		cfg.DataDir = dataDir
		cfg.NATS.Servers = []string{natsURL}
		cfg.NATS.User, cfg.NATS.Password = n.NATSUser, n.NATSPass
		cfg.Clustering.ServerID = n.ServerID
		cfg.Clustering.Namespace = n.Namespace
		cfg.Clustering.RaftBootstrapSeed = true
		cfg.Clustering.MinISR = 1
	}
	os.Unsetenv(c19EnvVar)
	var cfg *Config
	var err error
	switch cs.Route {
	case "programmatic":
		cfg = NewDefaultConfig()
		programmatic(cfg)
		cfg.Telemetry.Enabled = false
	case "config-file-nested": // the form printed in the documentation
		if err = writeFile("telemetry:\n  enabled: false\n  interval:\n    seconds: 1\n"); err == nil {
			cfg, err = NewConfig(file)
		}
	case "config-file-dotted":
		if err = writeFile("telemetry.enabled: false\n"); err == nil {
			cfg, err = NewConfig(file)
		}
	case "env-var:with-config-file":
		os.Setenv(c19EnvVar, "false")
		info["env"] = c19EnvVar + "=false"
		if err = writeFile("telemetry:\n  interval:\n    seconds: 1\n"); err == nil {
			cfg, err = NewConfig(file)
		}
	case "env-var:no-config-file":
		// what main.go does without --config: NewConfig("") and then the flags
		os.Setenv(c19EnvVar, "false")
		info["env"] = c19EnvVar + "=false"
		cfg, err = NewConfig("")
		if err == nil {
			programmatic(cfg)
			cfg.Telemetry.IntervalSeconds = 1
		}
	case "default-on":
		cfg = NewDefaultConfig()
		programmatic(cfg)
		cfg.Telemetry.IntervalSeconds = 1
	case "config-file-on":
		if err = writeFile("telemetry:\n  enabled: true\n  interval:\n    seconds: 1\n"); err == nil {
			cfg, err = NewConfig(file)
		}
	default:
		err = fmt.Errorf("unknown route %s", cs.Route)
	}
	if err != nil {
		return nil, info, err
	}
	cfg.LogSilent = true
	info["parsed_telemetry_enabled"] = cfg.Telemetry.Enabled
	return cfg, info, nil
}

func TestVerifC19InProcess(t *testing.T) {
	rep := kit.NewReport("C19", "inprocess")
	defer rep.Write()
	rep.SetRule("http.DefaultTransport (the transport the collector's http.Client really uses) is replaced by a recorder; per case a real single-node server is configured through one route — telemetry OFF: programmatic Config, config file (nested form as documented, dotted form), LIFTBRIDGE_TELEMETRY_ENABLED=false with a config file, the same without a config file (NewConfig(\"\") + flags, as main.go does); telemetry ON: defaults, config file — started, used (2 streams, publishes, subscriptions, metadata fetch; every user-controlled string is a seeded needle), and stopped.  Oracle at the return of Stop() (it joins the collector): OFF => the recorder holds ZERO requests; ON => >= 1 request, each with JSON keys inside the documented whitelist (recursive), documented endpoint host, no unknown header, and no needle (plain / case / hex / base64 / URL-escaped) in URL, headers or body.  non-trivial = server came up, activity completed, Stop() returned (ON: >= 1 request judged); distinct = route x recorder answer x round")
	rep.Assume("documented field list = CHANGELOG.md 'Anonymous Telemetry / What's Collected' (instance id, version, OS name/version/architecture, CPU cores physical/logical, total memory); the payload's timestamp, os.platform (the three OS values joined) and cpu.frequency_mhz (always null) are counted into those categories")
	rep.Assume("the environment-variable opt-out is documented in CHANGELOG.md ('Or via environment variables: export LIFTBRIDGE_TELEMETRY_ENABLED=false'); this unit uses only the documented spelling 'false' (other spellings of the opt-out: matrix and binary units); sources that disagree (a config file that says true against the variable, a switch-off in code after NewConfig) are the subject of the conflict unit")
	rep.Assume("a collector that used a transport of its own would not be seen here; that is what the strace unit (binary) is for")

	defer c19PlantEnv(rep)()

	rec := &kit.C19Recorder{}
	oldTransport := http.DefaultTransport
	http.DefaultTransport = rec
	defer func() { http.DefaultTransport = oldTransport }()
	oldEnv, hadEnv := os.LookupEnv(c19EnvVar)
	defer func() {
		if hadEnv {
			os.Setenv(c19EnvVar, oldEnv)
		} else {
			os.Unsetenv(c19EnvVar)
		}
	}()

	cases := []c19Case{
		{"off-programmatic", "programmatic", "zero", 0},
		{"off-config-file-nested", "config-file-nested", "zero", 0},
		{"off-config-file-dotted", "config-file-dotted", "zero", 0},
		{"off-env-with-config-file", "env-var:with-config-file", "zero", 0},
		{"off-env-no-config-file", "env-var:no-config-file", "zero", 0},
		{"on-default", "default-on", "some", 0},
		{"on-config-file-500", "config-file-on", "some", 1},
		{"on-default-neterr", "default-on", "some", 2},
	}
	rounds := kit.Scale(2, 12)
	root := kit.NewRNG(kit.Mix(kit.Seed(), 0xC19))
	instanceIDs := map[string]int{}
	keysSeen := map[string]bool{}
	expect := kit.C19Expect{Version: Version, GOOS: runtime.GOOS, GOARCH: runtime.GOARCH, FreshInstance: true}
	for round := 0; round < rounds; round++ {
		for ci, cs := range cases {
			rng := root.Fork(uint64(round*100 + ci))
			n := c19NewNeedles(rng)
			rep.Eval()
			func() {
				dir := vfWorkDir("c19")
				defer os.RemoveAll(dir)
				ns, natsURL, _ := c19StartNATS(n.NATSUser, n.NATSPass)
				defer ns.Shutdown()
				rec.Take()
				rec.SetMode(cs.Mode)
				cfg, info, err := c19Config(cs, n, natsURL, dir)
				replay := map[string]any{"case": cs.Name, "route": cs.Route, "round": round, "seed": kit.Seed(), "needles": n}
				for k, v := range info {
					replay[k] = v
				}
				if err != nil {
					rep.Inconc(fmt.Sprintf("%s: configuration could not be built: %v", cs.Name, err))
					return
				}
				defer os.Unsetenv(c19EnvVar)
				// one lifetime per case: a restart on the same data directory is
				// exercised by the binary unit (in-process it only adds the
				// unrelated logger.Silent race of Raft-log recovery)
				lifetimes := 1
				completed := true
				var listen string
				for life := 0; life < lifetimes; life++ {
					srv := New(cfg)
					if err := srv.Start(); err != nil {
						rep.Inconc(fmt.Sprintf("%s: server did not start: %v", cs.Name, err))
						return
					}
					listen = fmt.Sprintf("127.0.0.1:%d", srv.port)
					if !c19WaitReady(srv) {
						rep.Inconc(cs.Name + ": watchdog: server did not become metadata leader")
						srv.Stop()
						return
					}
					if err := c19Activity(srv, n); err != nil {
						completed = false
						rep.Inconc(fmt.Sprintf("%s: activity incomplete: %v", cs.Name, err))
					}
					if cs.Expect == "some" {
						// a report built AFTER the user data exists: wait for
						// one more request than were recorded when the activity
						// ended (logical condition; the watchdog only bounds
						// the wait, the interval is 1 s)
						k := rec.Len()
						if vfWait(10*time.Second, func() bool { return rec.Len() > k }) {
							rep.Count("reports_sent_after_activity", 1)
						} else {
							rep.Inconc(cs.Name + ": watchdog: no periodic report after the activity")
						}
					}
					if err := srv.Stop(); err != nil {
						rep.Inconc(fmt.Sprintf("%s: Stop failed: %v", cs.Name, err))
						return
					}
					rep.Count("server_lifetimes", 1)
				}
				// Stop() has joined the collector: the record is final.
				reqs := rec.Take()
				rep.Count("requests_recorded_"+cs.Expect+"_cases", int64(len(reqs)))
				needles := n.asMap(natsURL, listen)
				switch cs.Expect {
				case "zero":
					if len(reqs) > 0 {
						replay["requests"] = reqs
						rep.Violation("C19:telemetry-sent-while-disabled:"+cs.Route,
							fmt.Sprintf("telemetry switched off through route %q, yet %d request(s) were made during the server's lifetime (first: %s %s); parsed Config.Telemetry.Enabled=%v", cs.Route, len(reqs), reqs[0].Method, reqs[0].URL, info["parsed_telemetry_enabled"]), replay)
						return
					}
					rep.Count("disabled_lifetimes_with_zero_requests", int64(lifetimes))
				case "some":
					if len(reqs) == 0 {
						rep.Inconc(cs.Name + ": telemetry enabled but the recorder saw no request — the recorder would be blind to a leak")
						return
					}
					for _, rq := range reqs {
						issues, keys := kit.C19Judge(rq, needles, expect)
						rep.Count("requests_judged", 1)
						for _, k := range keys {
							keysSeen[k] = true
						}
						for _, is := range issues {
							r := map[string]any{}
							for k, v := range replay {
								r[k] = v
							}
							r["request"] = rq
							rep.Violation(is.Fingerprint, is.What, r)
						}
					}
					// random instance id: fresh data directories never share one
					var doc struct {
						ID string `json:"instance_id"`
					}
					if json.Unmarshal([]byte(reqs[0].Body), &doc) == nil && doc.ID != "" {
						instanceIDs[doc.ID]++
						if instanceIDs[doc.ID] > 1 {
							rep.Violation("C19:instance-id-not-random", fmt.Sprintf("two fresh installations reported the same instance id %q", doc.ID), replay)
						}
					}
					if round == 0 {
						rep.Sample(map[string]any{"case": cs.Name, "requests": len(reqs), "first_request": reqs[0]})
					}
				}
				if completed {
					rep.Nontrivial(fmt.Sprintf("%s|mode%d|round%d", cs.Route, cs.Mode, round))
				}
			}()
		}
	}
	var ks []string
	for k := range keysSeen {
		ks = append(ks, k)
	}
	rep.SetInfo("payload_key_paths_seen", vfSortedStrings(ks))
	rep.SetInfo("distinct_instance_ids", len(instanceIDs))
}
