//go:build verif

package server

// C07 units: seeded sequences and small-scope enumeration with simulated
// expiry, a real-timer profile, and a concurrent profile for the race detector.

import (
	"context"
	"fmt"
	"os"
	"os/exec"
	"strings"
	"sync"
	"testing"
	"time"

	proto "github.com/liftbridge-io/liftbridge/server/protocol"

	kit "github.com/liftbridge-io/liftbridge/internal/verifkit"
)

const c07Hours = 6 * time.Hour

func c07Assumptions(rep *kit.Report) {
	rep.Assume("replicas are phantom ids r1..rn (not running servers) and the controller itself is not a replica: only the controller's bookkeeping (metadata API, failover status, FSM, Raft log) is exercised, not the partitions' data path")
	rep.Assume("I5 is read literally: at the moment of the change, more than half of the in-sync followers (ISR minus leader, as of the change) must have reported the replaced (leader, epoch) since the window was last reset; a reporter that is the leader itself, out of sync, unknown, or removed from the ISR after reporting does not count")
	rep.Assume("controller leadership loss is produced by calling metadataAPI.LostLeadership(), which is what Server.leadershipLost calls; Raft leadership itself is not moved (single node)")
	rep.Assume("ReplicaToRemove / ReplicaToAdd that is not a replica of the partition is not generated in-process: the FSM turns the apply error into a panic of the controller (see the nonreplica unit)")
	rep.Assume("a (leader, epoch) pair counts as stale when the epoch is lower than the current leader epoch or the leader id is not the current leader")
}

// c07GenProg draws one seeded program.
func c07GenProg(rng *kit.RNG, maxLen int, real bool) []c07Op {
	n := rng.Range(3, maxLen)
	prog := make([]c07Op, 0, n)
	stalePair := func() string {
		if rng.Chance(4, 5) {
			return "cur"
		}
		return []string{"staleEpoch", "staleLeader", "prevPair"}[rng.Intn(3)]
	}
	fol := func() string { return []string{"f0", "f1", "f2", "f3", "fl"}[rng.Intn(5)] }
	for i := 0; i < n; i++ {
		x := rng.Intn(100)
		switch {
		case x < 52:
			var who string
			switch y := rng.Intn(100); {
			case y < 58:
				who = fol()
			case y < 70:
				who = "L"
			case y < 80:
				who = "U"
			default:
				who = []string{"o0", "o1"}[rng.Intn(2)]
			}
			prog = append(prog, c07Op{Kind: "R", Who: who, Pair: stalePair()})
		case x < 67:
			var who string
			switch y := rng.Intn(100); {
			case y < 74:
				who = fol()
			case y < 84:
				who = "L"
			default:
				who = "o0"
			}
			prog = append(prog, c07Op{Kind: "S", Who: who, Pair: stalePair()})
		case x < 80:
			var who string
			switch y := rng.Intn(100); {
			case y < 72:
				who = []string{"o0", "o1"}[rng.Intn(2)]
			case y < 90:
				who = fol()
			default:
				who = "L"
			}
			prog = append(prog, c07Op{Kind: "E", Who: who, Pair: stalePair()})
		case x < 93:
			if real && rng.Chance(1, 2) {
				prog = append(prog, c07Op{Kind: "G"})
			} else {
				prog = append(prog, c07Op{Kind: "X"})
			}
		default:
			if real {
				prog = append(prog, c07Op{Kind: "R", Who: fol(), Pair: "cur"})
			} else {
				prog = append(prog, c07Op{Kind: "L"})
			}
		}
	}
	// Pause / resume of the stream between the operations (drawn after the
	// program itself, so the programs of a seed are the earlier ones plus these
	// insertions): in half of the programs a pause followed, directly or up to
	// two operations later, by the resume that replaces the partition object;
	// now and then a resume of a running partition (no-op) or a pause that is
	// never resumed (the rest of the program works on the closed partition).
	ins := func(at int, o c07Op) {
		if at > len(prog) {
			at = len(prog)
		}
		prog = append(prog, c07Op{})
		copy(prog[at+1:], prog[at:])
		prog[at] = o
	}
	for rounds := 0; rounds < 2; rounds++ {
		if !rng.Chance(1, 2) {
			break
		}
		a := rng.Intn(len(prog) + 1)
		gap := 0
		switch g := rng.Intn(20); {
		case g >= 17:
			gap = 2
		case g >= 12:
			gap = 1
		}
		ins(a, c07Op{Kind: "P"})
		ins(a+1+gap, c07Op{Kind: "Q"})
	}
	if rng.Chance(1, 8) {
		ins(rng.Intn(len(prog)+1), c07Op{Kind: "Q"})
	}
	if rng.Chance(1, 10) {
		ins(rng.Intn(len(prog)+1), c07Op{Kind: "P"})
	}
	// Requests whose context has expired (drawn last, so the programs of a seed
	// are the earlier ones plus these marks / insertions): in two of five
	// programs one report of an in-sync follower naming the current pair is
	// made with a deadline that has already passed ("dead") or is a millisecond
	// away ("tight") — if it completes the quorum, the election it triggers
	// cannot be replicated and FAILS; in half of those programs more than the
	// timeout then passes (X, directly or one call later) and another follower
	// report follows, possibly after a second X.  Now and then an ISR change is
	// made with such a context too (the change is refused by the deadline, or
	// committed although the caller is told "timed out").
	mark := func(k int) {
		prog[k].Ctx = "dead"
		if rng.Chance(1, 4) {
			prog[k].Ctx = "tight"
		}
	}
	if rng.Chance(2, 5) {
		var idx []int
		for i, o := range prog {
			if o.Kind == "R" && strings.HasPrefix(o.Who, "f") && (o.Pair == "" || o.Pair == "cur") {
				idx = append(idx, i)
			}
		}
		if len(idx) > 0 {
			k := idx[rng.Intn(len(idx))]
			mark(k)
			if rng.Chance(1, 2) {
				at := k + 1 + rng.Intn(2)
				late := "X"
				if real && rng.Chance(1, 4) {
					late = "G"
				}
				ins(at, c07Op{Kind: late})
				if rng.Chance(1, 4) {
					ins(at+1, c07Op{Kind: "X"})
					at++
				}
				ins(at+1+rng.Intn(2), c07Op{Kind: "R", Who: fol(), Pair: "cur"})
			}
		}
	}
	if rng.Chance(1, 8) {
		var idx []int
		for i, o := range prog {
			if o.Kind == "S" || o.Kind == "E" {
				idx = append(idx, i)
			}
		}
		if len(idx) > 0 {
			mark(idx[rng.Intn(len(idx))])
		}
	}
	return prog
}

// c07RunOnControllers distributes cases round-robin over w controllers; each
// controller runs its cases one after the other.
func c07RunOnControllers(rep *kit.Report, tag string, w int, cases []c07Case, prune bool, sample func(i int) bool) {
	var wg sync.WaitGroup
	for k := 0; k < w; k++ {
		wg.Add(1)
		go func(k int) {
			defer wg.Done()
			env, err := c07NewEnv(rep, fmt.Sprintf("%s%d", tag, k), c07Hours, false)
			if err != nil {
				rep.Inconc("C07: controller did not start: " + err.Error())
				return
			}
			defer env.close()
			for i := k; i < len(cases); i += w {
				if rep.NumViolations() >= 12 {
					return
				}
				cs := cases[i]
				out, err := env.run(cs, prune)
				if err != nil {
					rep.Inconc(fmt.Sprintf("C07 %s: stream could not be created: %v", cs.Label, err))
					continue
				}
				out.account(rep, fmt.Sprintf("%d/%d|%s", cs.N, cs.Leader, c07ProgString(cs.Prog)))
				if sample != nil && sample(i) && !out.pruned {
					rep.Sample(map[string]interface{}{"replicas": cs.N, "initial_leader": fmt.Sprintf("r%d", cs.Leader%cs.N+1), "program": c07ProgString(cs.Prog),
						"leader_changes": out.changes, "isr_changes": out.isrChanges, "stale_refused": out.staleRefused})
				}
			}
		}(k)
	}
	wg.Wait()
}

// TestVerifC07Seq: seeded sequences, simulated expiry.
func TestVerifC07Seq(t *testing.T) {
	rep := kit.NewReport("C07", "seq")
	defer rep.Write()
	rep.SetRule("seeded programs of 3..16 calls on a fresh partition with 3..5 phantom replicas: ReportLeader from in-sync followers / the leader / out-of-sync replicas / an unknown id, ShrinkISR of a follower / the leader / a non-member, ExpandISR of an out-of-sync / in-sync replica, each naming the current or a stale (leader, epoch); X = more than the timeout passes (the pending expiry timer is stopped and failover.OnExpired invoked, exactly what the timer does); L = metadataAPI.LostLeadership(); in half of the programs P = PauseStream and, directly or up to two calls later, Q = the RESUME_STREAM entry that replaces the partition object are inserted between the calls (plus now and then a resume of a running partition or a pause that is never resumed); the monitors' memory (epochs, leader per epoch, reports of the window) spans the replacement; in two of five programs one follower report naming the current pair is made with a context whose deadline has passed (!dead) or is 1 ms away (!tight), so that an election it triggers cannot be replicated and fails (or is committed although the caller is told it timed out), in half of these followed by X and a further follower report; now and then a ShrinkISR / ExpandISR is made with such a context. I1-I6 checked after every call and at every committed Raft entry; non-trivial = a leader change or ISR change was committed or a stale request was refused; distinct = (replicas, initial leader, program)")
	c07Assumptions(rep)
	root := kit.NewRNG(kit.Mix(kit.Seed(), 0xC07))
	n := kit.Scale(1500, 20000)
	cases := make([]c07Case, n)
	for i := range cases {
		rng := root.Fork(uint64(i))
		cases[i] = c07Case{N: rng.Range(3, 5), Leader: rng.Intn(5), Prog: c07GenProg(rng, 16, false), Label: fmt.Sprintf("seq#%d", i)}
	}
	c07RunOnControllers(rep, "s", kit.EnvInt("C07_CONTROLLERS", 8), cases, false, func(i int) bool { return i < 3 })
}

// ---------------------------------------------------------------- enumeration

func c07Enumerate(alpha []c07Op, maxLen int, keep func([]c07Op) bool) [][]c07Op {
	var out [][]c07Op
	var gen func(prefix []c07Op)
	gen = func(prefix []c07Op) {
		if len(prefix) > 0 && (keep == nil || keep(prefix)) {
			out = append(out, append([]c07Op(nil), prefix...))
		}
		if len(prefix) == maxLen {
			return
		}
		for _, s := range alpha {
			gen(append(prefix, s))
		}
	}
	gen(nil)
	return out
}

// TestVerifC07Enum: ALL programs up to a length bound over reduced alphabets.
func TestVerifC07Enum(t *testing.T) {
	rep := kit.NewReport("C07", "enum")
	defer rep.Write()
	core := []c07Op{{Kind: "R", Who: "f0"}, {Kind: "R", Who: "f1"}, {Kind: "R", Who: "L"}, {Kind: "R", Who: "o0"}, {Kind: "S", Who: "fl"}, {Kind: "E", Who: "o0"}, {Kind: "X"}}
	extra := []c07Op{{Kind: "S", Who: "L"}, {Kind: "R", Who: "f0", Pair: "prevPair"}, {Kind: "S", Who: "f0", Pair: "staleEpoch"}, {Kind: "L"}}
	extraNames := "S.L R.f0.prevPair S.f0.staleEpoch L"
	if kit.Thorough() {
		extra = append(extra, c07Op{Kind: "R", Who: "U"}, c07Op{Kind: "E", Who: "o0", Pair: "staleLeader"})
		extraNames += " R.U E.o0.staleLeader"
	}
	isExtra := func(o c07Op) bool {
		for _, x := range extra {
			if x == o {
				return true
			}
		}
		return false
	}
	coreLen, extLen, core4Len, pqLen := kit.Scale(4, 5), kit.Scale(3, 4), kit.Scale(3, 4), kit.Scale(4, 5)
	rep.SetRule(fmt.Sprintf("small-scope enumeration, simulated expiry: ALL programs of length 1..%d over the core alphabet {R.f0 R.f1 R.L R.o0 S.fl E.o0 X} on 3 replicas, length 1..%d on 4 replicas, and ALL programs of length 1..%d over core+{%s} that use at least one of the added symbols (3 replicas), and ALL programs of length 1..%d that contain PQ (PauseStream followed by the RESUME_STREAM entry that replaces the partition object) over {R.f0 R.f1 S.fl E.o0 X PQ} on 3 replicas and over {R.f0 R.f1 S.fl X PQ} on 4 replicas; a program is pruned at the first symbol whose role does not exist in the state reached (it equals a shorter program); same per-call / per-entry oracle as the seeded programs; non-trivial = a leader or ISR change was committed or a stale request refused", coreLen, core4Len, extLen, extraNames, pqLen))
	c07Assumptions(rep)
	rep.SetExhaustive(true)
	var cases []c07Case
	for _, p := range c07Enumerate(core, coreLen, nil) {
		cases = append(cases, c07Case{N: 3, Leader: 0, Prog: p})
	}
	for _, p := range c07Enumerate(core, core4Len, nil) {
		cases = append(cases, c07Case{N: 4, Leader: 1, Prog: p})
	}
	for _, p := range c07Enumerate(append(append([]c07Op(nil), core...), extra...), extLen, func(p []c07Op) bool {
		for _, o := range p {
			if isExtra(o) {
				return true
			}
		}
		return false
	}) {
		cases = append(cases, c07Case{N: 3, Leader: 2, Prog: p})
	}
	// pause + resume (replacement of the partition object) between the operations
	PQ := c07Op{Kind: "PQ"}
	hasPQ := func(p []c07Op) bool {
		for _, o := range p {
			if o == PQ {
				return true
			}
		}
		return false
	}
	for _, p := range c07Enumerate([]c07Op{{Kind: "R", Who: "f0"}, {Kind: "R", Who: "f1"}, {Kind: "S", Who: "fl"}, {Kind: "E", Who: "o0"}, {Kind: "X"}, PQ}, pqLen, hasPQ) {
		cases = append(cases, c07Case{N: 3, Leader: 1, Prog: p})
	}
	for _, p := range c07Enumerate([]c07Op{{Kind: "R", Who: "f0"}, {Kind: "R", Who: "f1"}, {Kind: "S", Who: "fl"}, {Kind: "X"}, PQ}, pqLen, hasPQ) {
		cases = append(cases, c07Case{N: 4, Leader: 2, Prog: p})
	}
	for i := range cases {
		cases[i].Label = fmt.Sprintf("enum#%d", i)
	}
	rep.SetInfo("programs_enumerated", len(cases))
	c07RunOnControllers(rep, "e", kit.EnvInt("C07_CONTROLLERS", 12), cases, true, func(i int) bool { return i%1999 == 57 })
}

// ---------------------------------------------------------------- real timer

// TestVerifC07Timer: the second profile.  ReplicaMaxLeaderTimeout is short and
// real; X really waits 10 timeouts (then the window has certainly ended), G
// waits about one timeout (ambiguous: the model does not reset the window, so
// either outcome is accepted), everything else is back to back.  The model
// only ever uses "certainly ended" boundaries, so scheduling jitter can make a
// case less demanding but never produce an alarm.
func TestVerifC07Timer(t *testing.T) {
	rep := kit.NewReport("C07", "timer")
	defer rep.Write()
	T := 60 * time.Millisecond
	rep.SetRule("real-timer profile (ReplicaMaxLeaderTimeout = 60ms): directed programs around the expiry (reports split by a pause of 10 timeouts must not add up; split by about one timeout either outcome is accepted; back to back they add up; the same around an election that FAILS because the report completing the quorum is made with an expired or 1 ms context: reports older than a pause of 10 timeouts never count afterwards, whether or not the code had a timer pending) plus seeded programs of 3..8 calls with X (pause of 10 timeouts) and G (pause of 0.7 timeouts); same oracle; whether the code had a timer pending before a pause is peeked (Stop+Reset) to tell 'expired' from 'nothing to expire'; non-trivial = leader/ISR change committed or stale request refused")
	c07Assumptions(rep)
	rep.Assume("after a pause of 10 timeouts (plus up to 3 s of grace while the failover entry is still registered) the expiry timer's handler has run; pauses of about one timeout never reset the model's window")
	env, err := c07NewEnv(rep, "t", T, true)
	if err != nil {
		rep.Inconc("C07: controller did not start: " + err.Error())
		return
	}
	defer env.close()
	R := func(who string) c07Op { return c07Op{Kind: "R", Who: who} }
	D := func(who string) c07Op { return c07Op{Kind: "R", Who: who, Ctx: "dead"} }
	X, G := c07Op{Kind: "X"}, c07Op{Kind: "G"}
	directed := [][]c07Op{
		{R("f0"), X, R("f1")},
		{R("f0"), R("f1")},
		{R("f0"), G, R("f1")},
		{R("f0"), G, G, R("f1")},
		{R("f0"), X, R("f0"), X, R("f1"), X, R("f0")},
		{R("f0"), R("f1"), X, R("f0")},
		{R("f0"), R("f1"), X, R("f0"), X, R("f1")},
		{R("f0"), X, R("f1"), R("f0")},
		{R("f0"), {Kind: "S", Who: "fl"}, X, R("f0")},
		{R("f0"), G, R("f0"), G, R("f0"), G, R("f1")},
		// an election that fails (the report that completes the quorum is made with
		// an expired context), then pauses around the timeout, then late reports:
		// reports older than a pause of 10 timeouts must not count, whatever the
		// code did with its timer
		{R("f0"), D("f1"), X, R("f0")},
		{R("f0"), D("f1"), X, X, R("f1")},
		{R("f0"), D("f1"), X, R("f0"), X, R("f1")},
		{R("f0"), D("f1"), G, R("f0")},
		{R("f0"), D("f1"), R("f0"), R("f1")},
		{R("f0"), D("f1"), X, R("f0"), R("f1")},
		{D("f0"), X, R("f1")},
		{R("f0"), {Kind: "R", Who: "f1", Ctx: "tight"}, X, R("f0")},
	}
	var cases []c07Case
	for _, n := range []int{3, 5} {
		for _, p := range directed {
			cases = append(cases, c07Case{N: n, Leader: 0, Prog: p})
		}
	}
	cases = append(cases, c07Case{N: 5, Leader: 0, Prog: []c07Op{R("f0"), R("f1"), X, R("f2")}},
		c07Case{N: 5, Leader: 0, Prog: []c07Op{R("f0"), X, R("f1"), R("f2")}},
		c07Case{N: 5, Leader: 0, Prog: []c07Op{R("f0"), R("f1"), G, R("f2")}},
		c07Case{N: 5, Leader: 0, Prog: []c07Op{R("f0"), R("f1"), D("f2"), X, R("f0")}},
		c07Case{N: 5, Leader: 0, Prog: []c07Op{R("f0"), R("f1"), D("f2"), X, R("f0"), R("f1")}},
		c07Case{N: 5, Leader: 0, Prog: []c07Op{R("f0"), R("f1"), D("f2"), X, R("f3"), X, R("f0"), R("f1")}})
	root := kit.NewRNG(kit.Mix(kit.Seed(), 0xC07A))
	nseeded := kit.Scale(70, 700)
	for i := 0; i < nseeded; i++ {
		rng := root.Fork(uint64(i))
		cases = append(cases, c07Case{N: rng.Range(3, 5), Leader: rng.Intn(5), Prog: c07GenProg(rng, 8, true)})
	}
	for i := range cases {
		cases[i].Label = fmt.Sprintf("timer#%d", i)
	}
	kit.Parallel(len(cases), 16, func(i int) {
		if rep.NumViolations() >= 12 {
			return
		}
		cs := cases[i]
		out, err := env.run(cs, false)
		if err != nil {
			rep.Inconc(fmt.Sprintf("C07 %s: stream could not be created: %v", cs.Label, err))
			return
		}
		out.account(rep, fmt.Sprintf("%d/%d|%s", cs.N, cs.Leader, c07ProgString(cs.Prog)))
		if i == 0 || i == 1 || i == len(directed)*2+7 {
			rep.Sample(map[string]interface{}{"replicas": cs.N, "program": c07ProgString(cs.Prog), "leader_changes": out.changes, "isr_changes": out.isrChanges})
		}
	})
}

// ---------------------------------------------------------------- concurrent

// TestVerifC07Concurrent: 4 goroutines issue reports and ISR changes on one
// partition at the same time (race detector on the witness map, the timer and
// the FSM); expiry and leadership loss happen at barriers between phases.
func TestVerifC07Concurrent(t *testing.T) {
	rep := kit.NewReport("C07", "concurrent")
	defer rep.Write()
	rep.SetRule("concurrent profile under -race: per run a fresh partition (3..5 phantom replicas), 2..4 phases; in a phase 4 goroutines each issue 2..5 calls (ReportLeader from any id, ShrinkISR of followers / non-members, ExpandISR; current or stale pairs; the pair is read when the call is issued), between phases optionally X (simulated expiry) or L (leadership loss). Oracle: I1-I4 and the apply-time fence of I6 at every committed entry (exact, on the FSM goroutine); I5 accepts a change if the quorum holds for ANY ISR the partition had under that leader epoch since the last barrier, counting every report issued before the change was applied; a request whose pair was already stale when issued must be refused. Non-trivial = a leader change was committed while other calls were in flight; distinct = the four per-goroutine programs")
	c07Assumptions(rep)
	rep.Assume("concurrent profile: ShrinkISR of the leader is not generated (it breaks I2 deterministically, see the seq/enum units, and would end the run)")
	root := kit.NewRNG(kit.Mix(kit.Seed(), 0xC07C))
	runs := kit.Scale(240, 3000)
	const envs = 3
	seeds := make([]uint64, runs)
	for i := range seeds {
		seeds[i] = root.Uint64()
	}
	var wg sync.WaitGroup
	for k := 0; k < envs; k++ {
		wg.Add(1)
		go func(k int) {
			defer wg.Done()
			env, err := c07NewEnv(rep, fmt.Sprintf("c%d", k), c07Hours, false)
			if err != nil {
				rep.Inconc("C07: controller did not start: " + err.Error())
				return
			}
			defer env.close()
			for i := k; i < runs; i += envs {
				if rep.NumViolations() >= 12 {
					return
				}
				rng := kit.NewRNG(seeds[i])
				n := rng.Range(3, 5)
				pt, err := env.newPart(n, rng.Intn(5), fmt.Sprintf("conc#%d", i), nil)
				if err != nil {
					rep.Inconc(fmt.Sprintf("C07 conc#%d: stream could not be created: %v", i, err))
					continue
				}
				pt.mu.Lock()
				pt.concurrent = true
				pt.mu.Unlock()
				sig := ""
				phases := rng.Range(2, 4)
				for ph := 0; ph < phases; ph++ {
					progs := make([][]c07Op, 4)
					for g := range progs {
						grng := rng.Fork(uint64(ph*10 + g))
						for _, o := range c07GenProg(grng, 5, false) {
							if o.Kind == "X" || o.Kind == "L" || o.Kind == "P" || o.Kind == "Q" || (o.Kind == "S" && o.Who == "L") {
								o = c07Op{Kind: "R", Who: []string{"f0", "f1", "f2", "fl"}[grng.Intn(4)]}
							}
							progs[g] = append(progs[g], o)
						}
						sig += c07ProgString(progs[g]) + " | "
					}
					var pw sync.WaitGroup
					for g := range progs {
						pw.Add(1)
						go func(g int) {
							defer pw.Done()
							for _, o := range progs[g] {
								pt.exec(o)
							}
						}(g)
					}
					pw.Wait()
					pt.mu.Lock()
					pt.phaseStates = []c07Digest{pt.last}
					pt.tr("-- barrier --")
					pt.mu.Unlock()
					switch rng.Intn(4) {
					case 0:
						pt.exec(c07Op{Kind: "X"})
						sig += "X | "
					case 1:
						pt.exec(c07Op{Kind: "L"})
						sig += "L | "
					case 2:
						// the partition object is replaced while the reports of the phase are pending
						pt.exec(c07Op{Kind: "PQ"})
						sig += "PQ | "
					}
				}
				env.dropPart(pt)
				pt.mu.Lock()
				out := c07Outcome{changes: pt.nChanges, isrChanges: pt.nISRChanges, staleRefused: pt.nStaleRefused, reportsOK: pt.nReportsOK, expired: pt.nExpiredArmed, unarmed: pt.nUnarmed, lost: pt.nLost, skipped: pt.nSkipped}
				pt.mu.Unlock()
				out.account(rep, sig)
				if i < 2 {
					rep.Sample(map[string]interface{}{"replicas": n, "phases": sig, "leader_changes": out.changes, "isr_changes": out.isrChanges})
				}
			}
		}(k)
	}
	wg.Wait()
}

// ---------------------------------------------------------------- non-replica ids (child process)

// TestVerifC07NonReplica: ExpandISR / ShrinkISR naming the current pair but a
// replica id that is not a replica of the partition.  The FSM returns an error
// from apply for these, which Server.Apply turns into a panic, so the call is
// made in a child process and the child's fate is classified here.  The only
// C07 clause involved is "ISR ⊆ replicas": a child that survives must not
// have the foreign id in its ISR.  A crash of the controller is recorded in
// the evidence (it is not a statement of C07).
func TestVerifC07NonReplica(t *testing.T) {
	rep := kit.NewReport("C07", "nonreplica")
	defer rep.Write()
	rep.SetRule("2 directed cases in a child process: ExpandISR(add zz) and ShrinkISR(remove zz) naming the current (leader, epoch) on a partition whose replicas are r1..r3; classified as refused / accepted (then ISR ⊆ replicas is checked) / committed-and-crashed (a violation: the change must be refused, not committed and then found impossible to apply on every server and every replay); non-trivial = the child reached the call")
	c07Assumptions(rep)
	self := os.Getenv("VERIF_SELF")
	if self == "" {
		self = os.Args[0]
	}
	for _, mode := range []string{"expand", "shrink"} {
		ctx, cancel := context.WithTimeout(context.Background(), 120*time.Second)
		cmd := exec.CommandContext(ctx, self, "-test.run", "^TestVerifC07Child$", "-test.count", "1", "-test.v")
		for _, kv := range os.Environ() {
			if !strings.HasPrefix(kv, "VERIF_OUT=") && !strings.HasPrefix(kv, "GORACE=") {
				cmd.Env = append(cmd.Env, kv)
			}
		}
		cmd.Env = append(cmd.Env, "C07_CHILD="+mode)
		out, _ := cmd.CombinedOutput()
		cancel()
		text := string(out)
		rep.Eval()
		line := func(prefix string) string {
			for _, l := range strings.Split(text, "\n") {
				if i := strings.Index(l, prefix); i >= 0 {
					return strings.TrimSpace(l[i:])
				}
			}
			return ""
		}
		switch {
		case !strings.Contains(text, "C07CHILD calling"):
			rep.Inconc("C07 nonreplica/" + mode + ": child did not reach the call")
		case strings.Contains(text, "C07CHILD isr-has-foreign-id"):
			rep.Nontrivial(mode + "/accepted")
			rep.Violation("C07:I2:isr-not-subset-of-replicas:after-"+mode+"-of-non-replica", line("C07CHILD isr-has-foreign-id"), map[string]interface{}{"mode": mode, "child_output_tail": text[max(0, len(text)-3000):]})
		case strings.Contains(text, "C07CHILD returned"):
			rep.Nontrivial(mode + "/returned")
			rep.Count("non_replica_"+mode+"_returned", 1)
			rep.SetInfo("non_replica_"+mode, line("C07CHILD returned"))
		case strings.Contains(text, "panic:") || strings.Contains(text, "fatal error:"):
			rep.Nontrivial(mode + "/controller-crashed")
			rep.Count("non_replica_"+mode+"_controller_crashed", 1)
			rep.SetInfo("non_replica_"+mode, "controller process crashed: "+line("panic:"))
			// The in-sync set stays a subset of the replicas only because every
			// server panics while APPLYING the committed change — and again on
			// every replay of the Raft log.  The property asks for a refusal.
			rep.Violation("C07:I2:non-replica-isr-change-committed:"+mode, "an in-sync-set change naming a server that is not a replica (with the current leader and epoch) was COMMITTED instead of refused; the FSM cannot apply it and the controller process panics ("+line("panic:")+"), as every server does whenever it replays the log", map[string]interface{}{"mode": mode, "child_output_tail": text[max(0, len(text)-3000):]})
		default:
			rep.Inconc("C07 nonreplica/" + mode + ": child ended without a result")
		}
	}
	rep.Sample(map[string]interface{}{"cases": "ExpandISR(add zz), ShrinkISR(remove zz) with the current (leader, epoch); replicas r1..r3"})
}

// TestVerifC07Child is the child of TestVerifC07NonReplica.
func TestVerifC07Child(t *testing.T) {
	mode := os.Getenv("C07_CHILD")
	if mode == "" {
		t.Skip("child only")
	}
	rep := kit.NewReport("C07", "child") // never written
	env, err := c07NewEnv(rep, "x", c07Hours, false)
	if err != nil {
		fmt.Println("C07CHILD start failed:", err)
		return
	}
	defer env.close()
	pt, err := env.newPart(3, 0, "child", nil)
	if err != nil {
		fmt.Println("C07CHILD create failed:", err)
		return
	}
	d := c07Read(pt.p)
	fmt.Println("C07CHILD calling", mode, "state", d)
	os.Stdout.Sync()
	ctx, cancel := c07Ctx()
	defer cancel()
	var res string
	if mode == "expand" {
		st := env.srv.metadata.ExpandISR(ctx, &proto.ExpandISROp{Stream: pt.stream, Partition: 0, ReplicaToAdd: c07Unknown, Leader: d.Leader, LeaderEpoch: d.LeaderEpoch})
		res = fmt.Sprint(st.Err())
	} else {
		st := env.srv.metadata.ShrinkISR(ctx, &proto.ShrinkISROp{Stream: pt.stream, Partition: 0, ReplicaToRemove: c07Unknown, Leader: d.Leader, LeaderEpoch: d.LeaderEpoch})
		res = fmt.Sprint(st.Err())
	}
	d1 := c07Read(pt.p)
	for _, r := range d1.ISR {
		if !c07In(d1.Replicas, r) {
			fmt.Printf("C07CHILD isr-has-foreign-id: after %s of %s the ISR is %v, replicas %v\n", mode, c07Unknown, d1.ISR, d1.Replicas)
		}
	}
	fmt.Printf("C07CHILD returned %s: %s -> %s\n", mode, res, d1)
}
