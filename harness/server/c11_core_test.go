//go:build verif

package server

// C11 — a cursor fetch returns the last cursor that was stored.
//
// Real servers (single node; a 3-node cluster in the thorough tier) with the
// internal __cursors stream enabled are driven through seeded histories:
// concurrent clients call apiServer.SetCursor / FetchCursor in-process over a
// few hot keys, some warm keys and many cold keys while the cursors log rolls
// (tiny segments) and is compacted (forced Clean() or the log's own cleaner
// ticker) and the LRU cache is purged by the manager's own
// BecomePartitionLeader(); between the concurrent phases the harness compacts,
// evicts the cache with > 512 distinct keys, pauses / resumes the cursors
// partitions, restarts the server on the same data directory (cluster: kills
// the cursors-partition leader) and runs sequential read-your-last-write
// checks.  Every call and return is stamped from one monotonic clock; every
// set value is unique.  The history is judged twice: by a direct, sound
// "definitely stale" rule (gives the fingerprint) and by porcupine with a
// register model partitioned per cursor key (c11_porc_test.go).

import (
	"context"
	"encoding/binary"
	"fmt"
	"os"
	"path/filepath"
	"sort"
	"strconv"
	"strings"
	"sync"
	"sync/atomic"
	"time"

	client "github.com/liftbridge-io/liftbridge-api/v2/go"

	kit "github.com/liftbridge-io/liftbridge/internal/verifkit"
	proto "github.com/liftbridge-io/liftbridge/server/protocol"
)

// ---------------------------------------------------------------- clock + history

var c11Base = time.Now()

// c11Now is the one monotonic clock of every history (time.Since uses the
// monotonic reading of c11Base).
func c11Now() int64 { return int64(time.Since(c11Base)) }

const c11Open = int64(1) << 62 // return time of a set whose outcome is unknown

type c11Key struct {
	ID     string
	Stream string
	Part   int32
}

func (k c11Key) String() string { return fmt.Sprintf("%s|%s|%d", k.ID, k.Stream, k.Part) }

type c11Op struct {
	Seq    int    `json:"seq"`
	Client int    `json:"client"`
	Kind   string `json:"kind"` // set | fetch
	Key    string `json:"key"`
	Val    int64  `json:"val"` // set: offset passed; fetch: offset returned
	Call   int64  `json:"call_ns"`
	Ret    int64  `json:"ret_ns"`
	OK     bool   `json:"ok"` // set: acknowledged; fetch: a value was returned
	Err    string `json:"err,omitempty"`
	// Refused (sets only): the API reported, before the call's deadline, that
	// the cursors partition refused the message (c11Refusal): such a set never
	// takes effect.  Every other failed set stays open (unknown outcome).
	Refused string `json:"refused,omitempty"`
	// Committed (failed sets only): harness clock reading taken after the
	// harness itself had read this set's cursor message below the high
	// watermark of the cursors partition's log (0 = never seen there).  The
	// caller was told the set failed, but from that instant on its message has
	// a place in the log, in front of every message published later.
	Committed int64  `json:"committed_seen_ns,omitempty"`
	Phase     string `json:"phase"`
	Node      string `json:"node"`
}

type c11Pending struct {
	sparseNode, sparseDesc string
	dump                   []string
}

// c11CheckHistory is installed by c11_porc_test.go (build tag verifporc).
// It returns the verdict ("Ok" / "Illegal" / "Unknown") and the keys whose
// sub-history is not linearizable.
var c11CheckHistory func(ops []c11Op, timeout time.Duration) (verdict string, badKeys []string)

// c11CheckHistoryLatent (same file): the model for histories with repeated
// offsets and commit observations of failed sets (c11Env.repeat): a failed set
// never becomes the current value, it is a value fetches may show until the
// next acknowledged set.
var c11CheckHistoryLatent func(ops []c11Op, timeout time.Duration) (verdict string, badKeys []string)

type c11Cfg struct {
	Parts     int32
	SegBytes  int64
	CacheOff  bool
	Clients   int
	Ops       int    // per client and concurrent phase
	CleanMode string // forced | ticker
	AutoPause time.Duration
	Hot, Warm int
	Steps     []string
}

func (c c11Cfg) sig() string {
	return fmt.Sprintf("parts=%d seg=%d cacheOff=%v clients=%d clean=%s autopause=%v steps=%s",
		c.Parts, c.SegBytes, c.CacheOff, c.Clients, c.CleanMode, c.AutoPause > 0, strings.Join(c.Steps, ","))
}

type c11Env struct {
	rep  *kit.Report
	c    *vfCluster
	seed uint64
	cfg  c11Cfg
	unit string
	// repeat: the history passes the same offset to several sets of one cursor
	// (re-committed positions) and stamps failed sets it saw committed: fetches
	// are judged by c11JudgeRepeat (c11_abandonset_test.go) instead of c11Judge,
	// which identifies a value's set by the value.
	repeat bool

	mu      sync.Mutex
	ops     []c11Op
	steps   []string
	failed  bool
	inconc  bool
	coldSet []c11Key        // cold keys that were set at least once
	flagged map[string]bool // keys already reported by the direct oracle
	// what was observed when a fetch looked stale while other clients were
	// still running (classified at the end, with the complete history)
	pending    map[int]c11Pending
	reported   map[int]bool // fetches (by seq) already reported when they were observed
	lastHWDesc string
	val        int64
	coldSeq    int64
	// timeout of one operation; changed only while no client is running
	opTimeout time.Duration

	cleanMu    sync.Mutex
	cleanTicks int64 // hook clean.afterCleanSegments
	removers   []func()

	// coverage
	compactRemoved int64
	maxSegments    int64
	cleans         int64
	purges         int64
	cacheFull      bool
	restarts       int
	pauses         int
	leaderChanges  int
	fetchErrConc   int64
	setUnknown     int64
	setRefused     int64
}

func (e *c11Env) step(format string, a ...interface{}) {
	s := fmt.Sprintf(format, a...)
	e.mu.Lock()
	e.steps = append(e.steps, s)
	e.mu.Unlock()
}

func (e *c11Env) inconclusive(what string) {
	e.mu.Lock()
	e.inconc = true
	steps := strings.Join(e.steps, " > ")
	e.mu.Unlock()
	e.rep.Inconc(fmt.Sprintf("[%s seed %d] %s (cfg %s; steps: %s)", e.unit, e.seed, what, e.cfg.sig(), steps))
}

func (e *c11Env) record(op c11Op) c11Op {
	e.mu.Lock()
	op.Seq = len(e.ops)
	e.ops = append(e.ops, op)
	e.mu.Unlock()
	return op
}

// markCommitted stamps a recorded failed set with the time at which the
// harness saw its message committed in the cursors log.
func (e *c11Env) markCommitted(seq int, at int64) {
	e.mu.Lock()
	if seq >= 0 && seq < len(e.ops) {
		e.ops[seq].Committed = at
	}
	e.mu.Unlock()
}

// judgeFetch applies the direct oracle of this history to one fetch.
func (e *c11Env) judgeFetch(keyOps []c11Op, valKey map[int64]string, f c11Op) (kind, what string) {
	if e.repeat {
		return c11JudgeRepeat(keyOps, valKey, f)
	}
	return c11Judge(keyOps, valKey, f)
}

func (e *c11Env) snapshot() []c11Op {
	e.mu.Lock()
	defer e.mu.Unlock()
	return append([]c11Op(nil), e.ops...)
}

const c11OpTimeout = 15 * time.Second

func (e *c11Env) timeout() time.Duration {
	if e.opTimeout > 0 {
		return e.opTimeout
	}
	return c11OpTimeout
}

// c11Refusal recognises the errors with which SetCursor reports that the
// cursors partition REFUSED the cursor message, i.e. that the leader (or the
// publish precondition check in front of it) decided not to append it: the
// negative acks Ack_TOO_LARGE / Ack_ENCRYPTION / Ack_INCORRECT_OFFSET as the
// API words them (api.go convertAckError) and the read-only precondition.
// Anything else (deadline, cancellation, transport) is an unknown outcome.
func c11Refusal(err error) string {
	msg := err.Error()
	switch {
	case strings.Contains(msg, "message exceeds max replication size"):
		return "too-large"
	case strings.Contains(msg, "encryption failed on partition"):
		return "encryption"
	case strings.Contains(msg, "incorrect expected offset"):
		return "incorrect-offset"
	case strings.Contains(msg, "readonly partition"):
		return "readonly"
	}
	return ""
}

func (e *c11Env) doSet(n *vfNode, cl int, k c11Key, phase string) c11Op {
	return e.doSetOpt(n, cl, k, phase, 0, e.timeout())
}

// doSetOpt: add is added to the unique value (a large offset makes the cursor
// message a few bytes longer), timeout is the deadline of this one call.
func (e *c11Env) doSetOpt(n *vfNode, cl int, k c11Key, phase string, add int64, timeout time.Duration) c11Op {
	v := atomic.AddInt64(&e.val, 1) + add
	op := c11Op{Client: cl, Kind: "set", Key: k.String(), Val: v, Phase: phase, Node: n.ID}
	srv := n.Server()
	if srv == nil {
		op.Call = c11Now()
		op.Ret, op.Err = c11Open, "node down"
		return e.record(op)
	}
	ctx, cancel := context.WithTimeout(context.Background(), timeout)
	op.Call = c11Now()
	_, err := srv.api.SetCursor(ctx, &client.SetCursorRequest{Stream: k.Stream, Partition: k.Part, CursorId: k.ID, Offset: v})
	op.Ret = c11Now()
	expired := ctx.Err() != nil
	cancel()
	if err != nil {
		op.Err = err.Error()
		if why := c11Refusal(err); why != "" && !expired {
			// refused by the cursors partition: reported as failed, and it
			// must never take effect
			op.Refused = why
			atomic.AddInt64(&e.setRefused, 1)
		} else {
			// A set that failed or timed out may still take effect later: it
			// stays open to the end of the history.
			op.Ret = c11Open
			atomic.AddInt64(&e.setUnknown, 1)
		}
	} else {
		op.OK = true
	}
	return e.record(op)
}

func (e *c11Env) doFetch(n *vfNode, cl int, k c11Key, phase string) c11Op {
	op := c11Op{Client: cl, Kind: "fetch", Key: k.String(), Phase: phase, Node: n.ID}
	srv := n.Server()
	if srv == nil {
		op.Call = c11Now()
		op.Ret, op.Err = op.Call, "node down"
		return e.record(op)
	}
	ctx, cancel := context.WithTimeout(context.Background(), e.timeout())
	op.Call = c11Now()
	resp, err := srv.api.FetchCursor(ctx, &client.FetchCursorRequest{Stream: k.Stream, Partition: k.Part, CursorId: k.ID})
	op.Ret = c11Now()
	cancel()
	if err != nil {
		op.Err = err.Error()
	} else {
		op.OK = true
		op.Val = resp.Offset
	}
	return e.record(op)
}

// ---------------------------------------------------------------- direct oracle

// c11Judge applies the sound part of the register specification to one
// successful fetch: the returned value must have been passed to a set of this
// key that began before the fetch returned, and must not be *definitely
// overwritten*, i.e. there must be no acknowledged set that began after the
// returned value's set had returned and that itself returned before the fetch
// began (for -1: no acknowledged set returned before the fetch began), and no
// earlier fetch that began after the returned value's set had returned,
// returned another value and returned before this fetch began.
// Returns "" when the fetch is admissible.
func c11Judge(keyOps []c11Op, valKey map[int64]string, f c11Op) (kind, what string) {
	if !f.OK || f.Kind != "fetch" {
		return "", ""
	}
	var src *c11Op
	for i := range keyOps {
		o := &keyOps[i]
		if o.Kind == "set" && o.Val == f.Val {
			src = o
		}
	}
	srcRet := int64(-1) // -1 was "written" before everything
	if f.Val != -1 {
		if src == nil {
			if k, ok := valKey[f.Val]; ok {
				return "other-key-value", fmt.Sprintf("fetch of %s returned %d, which was only ever set for the different cursor %s", f.Key, f.Val, k)
			}
			return "never-set-value", fmt.Sprintf("fetch of %s returned %d, which no SetCursor ever passed", f.Key, f.Val)
		}
		if src.Refused != "" {
			return "refused-set-value", fmt.Sprintf("fetch of %s [%s, seq %d] returned %d, the offset of SetCursor seq %d, which had FAILED: the API reported that the cursors partition refused it (%s: %s)", f.Key, f.Phase, f.Seq, f.Val, src.Seq, src.Refused, src.Err)
		}
		if src.Call > f.Ret {
			return "future-value", fmt.Sprintf("fetch of %s returned %d before the SetCursor passing it was called", f.Key, f.Val)
		}
		srcRet = src.Ret // c11Open for a set with unknown outcome: cannot be called overwritten
	}
	// the overwriting set that returned last before the fetch began
	var over *c11Op
	for i := range keyOps {
		o := &keyOps[i]
		if o.Kind != "set" || !o.OK || o.Val == f.Val {
			continue
		}
		if o.Call > srcRet && o.Ret < f.Call && (over == nil || o.Ret > over.Ret) {
			over = o
		}
	}
	got := fmt.Sprint(f.Val)
	if f.Val == -1 {
		got = "-1 (no cursor)"
	}
	if over != nil {
		what = fmt.Sprintf("fetch of %s [%s, client %d, seq %d] returned %s although SetCursor(%d) [seq %d, phase %s] was called after that value was stored and was acknowledged %.3f ms before the fetch began",
			f.Key, f.Phase, f.Client, f.Seq, got, over.Val, over.Seq, over.Phase, float64(f.Call-over.Ret)/1e6)
	} else {
		// Overwritten as witnessed by another fetch: the returned value was
		// completely stored before an earlier fetch began, that fetch returned
		// a different value (so the register had moved on: values are unique)
		// and it returned before this fetch began.
		var seen *c11Op
		for i := range keyOps {
			o := &keyOps[i]
			if o.Kind == "fetch" && o.OK && o.Val != f.Val && o.Ret < f.Call && srcRet < o.Call && (seen == nil || o.Ret > seen.Ret) {
				if c11RealTimeStale(keyOps, *o) {
					continue // that fetch is the wrong one of the two
				}
				for j := range keyOps {
					if s := &keyOps[j]; s.Kind == "set" && s.Val == o.Val {
						seen, over = o, s
					}
				}
			}
		}
		if over == nil {
			return "", ""
		}
		what = fmt.Sprintf("fetch of %s [%s, client %d, seq %d] returned %s although that value had been stored completely before an earlier fetch [seq %d, client %d] began, which returned the different value %d (SetCursor seq %d) and had returned %.3f ms before this fetch began",
			f.Key, f.Phase, f.Client, f.Seq, got, seen.Seq, seen.Client, seen.Val, over.Seq, float64(f.Call-seen.Ret)/1e6)
	}
	// History shape "cache refilled by a fetch that raced the set": an earlier
	// fetch of the key overlapped the overwriting set, returned the old value
	// (legal for that fetch) and finished after the set was called; the stale
	// value is what that fetch put back into the cache.
	for i := range keyOps {
		o := &keyOps[i]
		if o.Kind == "fetch" && o.OK && o.Val == f.Val && o.Seq != f.Seq && o.Call < over.Ret && o.Ret > over.Call && o.Call < f.Ret {
			return "stale-refill", what + fmt.Sprintf("; an earlier fetch [seq %d, client %d] overlapped that SetCursor, returned the old value and returned %.3f ms after the set did", o.Seq, o.Client, float64(o.Ret-over.Ret)/1e6)
		}
	}
	return "stale", what
}

// c11RealTimeStale is the real-time half of c11Judge: the value f returned was
// overwritten by an acknowledged set lying wholly between the return of the
// value's own set and the call of f.
func c11RealTimeStale(keyOps []c11Op, f c11Op) bool {
	srcRet := int64(-1)
	if f.Val != -1 {
		found := false
		for i := range keyOps {
			if o := &keyOps[i]; o.Kind == "set" && o.Val == f.Val {
				srcRet, found = o.Ret, true
			}
		}
		if !found {
			return true // not a value of this key at all
		}
	}
	for i := range keyOps {
		if o := &keyOps[i]; o.Kind == "set" && o.OK && o.Val != f.Val && o.Call > srcRet && o.Ret < f.Call {
			return true
		}
	}
	return false
}

func c11Index(ops []c11Op) (byKey map[string][]c11Op, valKey map[int64]string) {
	byKey, valKey = map[string][]c11Op{}, map[int64]string{}
	for _, o := range ops {
		byKey[o.Key] = append(byKey[o.Key], o)
		if o.Kind == "set" {
			valKey[o.Val] = o.Key
		}
	}
	return
}

// c11Context turns a phase label into the fingerprint context.
func c11Context(phase string) string {
	if i := strings.Index(phase, "/"); i >= 0 {
		phase = phase[:i]
	}
	if strings.HasPrefix(phase, "concurrent") {
		return "concurrent"
	}
	return phase
}

func (e *c11Env) fingerprint(kind, phase string) string {
	if kind == "stale-refill" && !e.cfg.CacheOff {
		// one defect, one fingerprint, wherever the stale value is seen later
		return "C11:stale-cache-refilled-by-fetch-racing-a-set"
	}
	if kind == "stale-refill" {
		kind = "stale"
	}
	if kind == "refused-set-value" {
		// one defect, one fingerprint, wherever the value of the failed set shows up
		return "C11:value-of-refused-set-returned"
	}
	if strings.HasPrefix(kind, "abandoned-set-value") {
		// c11JudgeRepeat: the value of a set that failed for its caller came
		// back although a later set was acknowledged after the failed one's
		// message had been seen committed; the suffix names the history shape
		// (the acknowledged set passed a new value | re-committed the value
		// acknowledged before), not where the value was seen
		return "C11:value-of-abandoned-set-returned-after-later-acknowledged-set" + strings.TrimPrefix(kind, "abandoned-set-value")
	}
	fp := "C11:" + kind + "-" + c11Context(phase)
	if strings.HasPrefix(phase, "close-during-compaction") || strings.HasPrefix(phase, "keys-") || strings.HasPrefix(phase, "refused") {
		return fp // scenario units: the context names the schedule / input class
	}
	if e.cfg.CacheOff {
		fp += ":cache-off"
	}
	return fp
}

// witness: the key's sub-history (bounded around the offending op), the
// configuration, the steps and what the cursors log holds for the key.
func (e *c11Env) witness(key string, around int) map[string]any {
	ops := e.snapshot()
	byKey, _ := c11Index(ops)
	sub := byKey[key]
	if len(sub) > 160 {
		// keep the sets/fetches nearest to the offending op
		idx := 0
		for i, o := range sub {
			if o.Seq <= around {
				idx = i
			}
		}
		lo, hi := idx-120, idx+40
		if lo < 0 {
			lo = 0
		}
		if hi > len(sub) {
			hi = len(sub)
		}
		sub = sub[lo:hi]
	}
	e.mu.Lock()
	steps := append([]string(nil), e.steps...)
	e.mu.Unlock()
	return map[string]any{"unit": e.unit, "history_seed": e.seed, "config": e.cfg.sig(), "steps": steps,
		"key": key, "key_history": sub, "cursors_log": e.dumpKey(key)}
}

// dumpKey lists what every running node's cursors partition log holds for the
// key (offsets only), plus HW and the segment files.
func (e *c11Env) dumpKey(key string) []string {
	var out []string
	wire := c11WireKey(key)
	if wire == nil {
		return nil
	}
	for _, n := range e.c.Running() {
		srv := n.Server()
		if srv == nil {
			continue
		}
		st := srv.metadata.GetStream(cursorsStream)
		if st == nil {
			continue
		}
		pid := int32(hasher(wire) % uint32(len(st.GetPartitions())))
		p := srv.metadata.GetPartition(cursorsStream, pid)
		if p == nil || p.IsPaused() {
			out = append(out, fmt.Sprintf("node %s: cursors partition %d paused or missing", n.ID, pid))
			continue
		}
		recs, err := c11ReadLogRetry(p)
		line := fmt.Sprintf("node %s partition %d hw=%d newest=%d oldest=%d records=%d segments=%v err=%v; entries for key:", n.ID, pid,
			p.log.HighWatermark(), p.log.NewestOffset(), p.log.OldestOffset(), len(recs), c11SegmentBases(srv, pid), err)
		for _, r := range recs {
			if string(r.Key) == string(wire) {
				cur := new(proto.Cursor)
				if cur.Unmarshal(r.Value) == nil {
					line += fmt.Sprintf(" @%d=%d", r.Offset, cur.Offset)
				}
			}
		}
		out = append(out, line)
	}
	return out
}

func c11SegmentBases(srv *Server, pid int32) []string {
	dir := filepath.Join(srv.config.DataDir, "streams", cursorsStream, fmt.Sprint(pid))
	ents, err := os.ReadDir(dir)
	if err != nil {
		return nil
	}
	var out []string
	for _, en := range ents {
		if strings.HasSuffix(en.Name(), ".log") {
			out = append(out, strings.TrimLeft(strings.TrimSuffix(en.Name(), ".log"), "0"))
		}
	}
	sort.Strings(out)
	return out
}

func (e *c11Env) violation(kind, phase, what string, key string, seq int) {
	e.mu.Lock()
	e.failed = true
	if e.flagged == nil {
		e.flagged = map[string]bool{}
	}
	e.flagged[key] = true
	if e.reported == nil {
		e.reported = map[int]bool{}
	}
	e.reported[seq] = true
	e.mu.Unlock()
	fp := e.fingerprint(kind, phase)
	e.mu.Lock()
	pend, havePend := e.pending[seq]
	e.mu.Unlock()
	if kind == "stale" || kind == "fetch-fails" {
		// Observable state that explains a wrong answer from the log: the HW
		// lies in a compacted (sparse) segment, where the reverse reader's
		// start slot "offset - BaseOffset" is not the entry of that offset.
		node, desc := pend.sparseNode, pend.sparseDesc
		if !havePend {
			node, desc = e.hwInSparseSegment(key)
		}
		if node != "" {
			fp = "C11:stale-after-compaction:hw-in-sparse-segment"
			what += fmt.Sprintf("; on node %s the cursors partition's HW lies in a compacted segment (%s), so the reverse scan that looks for the cursor starts at index slot HW-BaseOffset, which is not the HW's entry in a sparse segment", node, desc)
		}
	}
	w := e.witness(key, seq)
	e.mu.Lock()
	w["hw_segment_when_judged"] = e.lastHWDesc
	e.mu.Unlock()
	if havePend {
		w["cursors_log_when_observed"] = pend.dump
	}
	e.rep.Violation(fp, c11Abbrev(what)+" ["+e.cfg.sig()+"]", w)
}

// c11Abbrev shortens the padding of the long cursor ids / stream names of the
// refused unit in messages ("xxxx…" -> "x*412"); witnesses keep the full keys.
func c11Abbrev(s string) string {
	var sb strings.Builder
	for i := 0; i < len(s); {
		j := i
		for j < len(s) && s[j] == 'x' {
			j++
		}
		if j-i > 16 {
			fmt.Fprintf(&sb, "x*%d", j-i)
			i = j
			continue
		}
		if j == i {
			j = i + 1
		}
		sb.WriteString(s[i:j])
		i = j
	}
	return sb.String()
}

// c11WireKey is the key under which the server files the cursor.
func c11WireKey(key string) []byte {
	parts := strings.Split(key, "|")
	if len(parts) != 3 {
		return nil
	}
	// the documented key: separator and escape character escaped in the id
	// and the stream name (witness / attribution only, never a verdict)
	esc := strings.NewReplacer("\\", "\\\\", ",", "\\,")
	return []byte(fmt.Sprintf("%s,%s,%s", esc.Replace(parts[0]), esc.Replace(parts[1]), parts[2]))
}

// hwInSparseSegment reports whether, on some running node, the HW of the
// cursors partition of key lies in a segment that holds fewer records than
// offsets between its base and the HW.
func (e *c11Env) hwInSparseSegment(key string) (node, desc string) {
	wire := c11WireKey(key)
	if wire == nil {
		return "", ""
	}
	for _, n := range e.c.Running() {
		srv := n.Server()
		if srv == nil {
			continue
		}
		st := srv.metadata.GetStream(cursorsStream)
		if st == nil {
			continue
		}
		pid := int32(hasher(wire) % uint32(len(st.GetPartitions())))
		p := srv.metadata.GetPartition(cursorsStream, pid)
		if p == nil || p.IsPaused() {
			continue
		}
		hw := p.log.HighWatermark()
		bases := c11SegmentBaseOffsets(srv, pid)
		base := int64(-1)
		for _, b := range bases {
			if b <= hw && b > base {
				base = b
			}
		}
		if base < 0 {
			continue
		}
		// Count the records of that segment straight from its file (the
		// log's own cleaner may be rewriting segments, which makes reads
		// through a log reader fail).
		cnt, ok := c11CountSegmentRecords(srv, pid, base, hw)
		if !ok {
			continue
		}
		d := fmt.Sprintf("partition %d: HW=%d, segment base %d holds %d records in [%d,%d], newest=%d, segments %v", pid, hw, base, cnt, base, hw, p.log.NewestOffset(), bases)
		e.mu.Lock()
		e.lastHWDesc = "node " + n.ID + " " + d
		e.mu.Unlock()
		if cnt < hw-base+1 {
			return n.ID, d
		}
	}
	return "", ""
}

// c11CountSegmentRecords parses the segment file with the given base offset
// (message sets: offset 8 | timestamp 8 | leader epoch 8 | size 4 | payload)
// and counts the records with offset <= upTo.
func c11CountSegmentRecords(srv *Server, pid int32, base, upTo int64) (int64, bool) {
	path := filepath.Join(srv.config.DataDir, "streams", cursorsStream, fmt.Sprint(pid), fmt.Sprintf("%020d.log", base))
	for attempt := 0; attempt < 20; attempt++ {
		b, err := os.ReadFile(path)
		if err != nil {
			time.Sleep(5 * time.Millisecond) // between the two renames of a replacement
			continue
		}
		cnt, pos, bad := int64(0), 0, false
		for pos+28 <= len(b) {
			off := int64(binary.BigEndian.Uint64(b[pos:]))
			size := int(int32(binary.BigEndian.Uint32(b[pos+24:])))
			if size < 0 || pos+28+size > len(b) || off < base {
				bad = true
				break
			}
			if off <= upTo {
				cnt++
			}
			pos += 28 + size
		}
		if !bad {
			return cnt, true
		}
		time.Sleep(5 * time.Millisecond)
	}
	return 0, false
}

// c11ReadLogRetry reads the whole partition log; a read that loses a segment
// to the log's own cleaner is repeated.
func c11ReadLogRetry(p *partition) (recs []vfLogRec, err error) {
	for i := 0; i < 40; i++ {
		// vfReadLog ends silently at the first read error, so a complete read
		// is recognised by its last record being the log's newest offset
		newest := p.log.NewestOffset()
		recs, err = vfReadLog(p.log, 0, true)
		if err == nil && (newest < 0 || (len(recs) > 0 && recs[len(recs)-1].Offset >= newest)) {
			return recs, nil
		}
		time.Sleep(10 * time.Millisecond)
	}
	if err == nil {
		err = fmt.Errorf("log read did not reach the end of the log")
	}
	return recs, err
}

func c11SegmentBaseOffsets(srv *Server, pid int32) []int64 {
	var out []int64
	for _, s := range c11SegmentBases(srv, pid) {
		b, err := strconv.ParseInt("0"+s, 10, 64)
		if err != nil {
			continue
		}
		out = append(out, b)
	}
	sort.Slice(out, func(i, j int) bool { return out[i] < out[j] })
	return out
}

// judgeNow judges one fetch against everything recorded so far.  While other
// clients are running (inline) only the staleness rule is sound: it looks at
// sets that returned before the fetch began, whereas the set that passed the
// fetched value may still be in flight and unrecorded.
func (e *c11Env) judgeNow(f c11Op, inline bool) bool {
	ops := e.snapshot()
	byKey, valKey := c11Index(ops)
	kind, what := e.judgeFetch(byKey[f.Key], valKey, f)
	if kind == "" {
		return true
	}
	if inline {
		// Not the whole story yet (a fetch that raced the overwriting set may
		// not have returned): keep what the log looks like now and let
		// finish() classify with the complete history.
		if strings.HasPrefix(kind, "stale") {
			node, desc := e.hwInSparseSegment(f.Key)
			dump := e.dumpKey(f.Key)
			e.mu.Lock()
			if e.pending == nil {
				e.pending = map[int]c11Pending{}
			}
			if len(e.pending) < 64 {
				e.pending[f.Seq] = c11Pending{node, desc, dump}
			}
			e.mu.Unlock()
		}
		return true
	}
	e.violation(kind, f.Phase, what, f.Key, f.Seq)
	return false
}

// ---------------------------------------------------------------- keys

func c11HotKeys(n int) []c11Key {
	// Keys that differ in exactly one component, so that a key built without
	// one of them collides.
	base := []c11Key{{"h0", "s0", 0}, {"h0", "s0", 1}, {"h0", "s1", 0}, {"h1", "s0", 0}, {"h1", "s1", 1}, {"h0", "s0", 10}, {"h0", "s01", 0}, {"h00", "s1", 0}}
	if n > len(base) {
		n = len(base)
	}
	return base[:n]
}

func c11WarmKeys(n int) []c11Key {
	out := make([]c11Key, n)
	for i := range out {
		out[i] = c11Key{fmt.Sprintf("w%d", i/3), fmt.Sprintf("ws%d", i%3), int32(i % 4)}
	}
	return out
}

func (e *c11Env) newCold() c11Key {
	i := atomic.AddInt64(&e.coldSeq, 1)
	return c11Key{fmt.Sprintf("c%d", i), fmt.Sprintf("cs%d", i%5), int32(i % 7)}
}

// ---------------------------------------------------------------- cursors partitions

func c11CursorPartitions(srv *Server) []*partition {
	st := srv.metadata.GetStream(cursorsStream)
	if st == nil {
		return nil
	}
	var out []*partition
	for _, p := range st.GetPartitions() {
		out = append(out, p)
	}
	sort.Slice(out, func(i, j int) bool { return out[i].Id < out[j].Id })
	return out
}

// c11Ready waits until the server leads every cursors partition.
func c11Ready(srv *Server, parts int32, timeout time.Duration) bool {
	return vfWait(timeout, func() bool {
		ps := c11CursorPartitions(srv)
		if int32(len(ps)) != parts {
			return false
		}
		for _, p := range ps {
			if p.IsPaused() {
				continue
			}
			if !p.IsLeader() {
				return false
			}
		}
		return true
	})
}

func c11LogStats(srv *Server) (records, segments int64) {
	for _, p := range c11CursorPartitions(srv) {
		if p.IsPaused() {
			continue
		}
		recs, _ := c11ReadLogRetry(p)
		records += int64(len(recs))
		segments += int64(len(c11SegmentBases(srv, p.Id)))
	}
	return
}

// cleanAll compacts every (unpaused) cursors partition log of the server by
// calling the log's own Clean(), never concurrently with itself.
func (e *c11Env) cleanAll(srv *Server) {
	e.cleanMu.Lock()
	defer e.cleanMu.Unlock()
	for _, p := range c11CursorPartitions(srv) {
		if p.IsPaused() {
			continue
		}
		segs := int64(len(c11SegmentBases(srv, p.Id)))
		if segs > atomic.LoadInt64(&e.maxSegments) {
			atomic.StoreInt64(&e.maxSegments, segs)
		}
		if err := p.log.Clean(); err != nil {
			// closed underneath us (server stopping): not an observation
			continue
		}
		atomic.AddInt64(&e.cleans, 1)
	}
}

// compactQuiescent compacts at a quiescent point and measures what it removed.
func (e *c11Env) compactQuiescent(srv *Server) {
	before, segs := c11LogStats(srv)
	if segs > atomic.LoadInt64(&e.maxSegments) {
		atomic.StoreInt64(&e.maxSegments, segs)
	}
	if e.cfg.CleanMode == "forced" {
		e.cleanAll(srv)
	} else {
		// the log's own cleaner ticker: wait for two full passes
		start := atomic.LoadInt64(&e.cleanTicks)
		need := int64(2 * e.cfg.Parts)
		if !vfWait(10*time.Second, func() bool { return atomic.LoadInt64(&e.cleanTicks)-start >= need }) {
			e.rep.Count("ticker_clean_not_reached", 1)
		}
	}
	after, _ := c11LogStats(srv)
	if before > after {
		atomic.AddInt64(&e.compactRemoved, before-after)
	}
}

func (e *c11Env) purge(srv *Server) {
	// the manager's own method (called by the server whenever it becomes
	// leader of a cursors partition)
	srv.cursors.BecomePartitionLeader()
	atomic.AddInt64(&e.purges, 1)
}

// ---------------------------------------------------------------- phases

// concurrent runs cfg.Clients clients, each a seeded program of sets and
// fetches, with a background goroutine that compacts the cursors logs and
// purges the cache at seeded operation counts.
func (e *c11Env) concurrent(n *vfNode, rng *kit.RNG, phase string, hot, warm []c11Key) {
	e.step(phase)
	srv := n.Server()
	var done int64
	total := int64(e.cfg.Clients * e.cfg.Ops)
	// background events at seeded operation counts
	type ev struct {
		at   int64
		kind string
	}
	var evs []ev
	nev := rng.Range(3, 7)
	for i := 0; i < nev; i++ {
		k := "purge"
		if e.cfg.CleanMode == "forced" && e.cfg.AutoPause == 0 && rng.Chance(3, 5) {
			k = "clean"
		}
		evs = append(evs, ev{int64(rng.Intn(int(total))), k})
	}
	sort.Slice(evs, func(i, j int) bool { return evs[i].at < evs[j].at })
	stop := make(chan struct{})
	var bg sync.WaitGroup
	bg.Add(1)
	go func() {
		defer bg.Done()
		for _, x := range evs {
			for atomic.LoadInt64(&done) < x.at {
				select {
				case <-stop:
					return
				default:
				}
				time.Sleep(200 * time.Microsecond)
			}
			if srv == nil {
				return
			}
			if x.kind == "clean" {
				e.cleanAll(srv)
			} else {
				e.purge(srv)
			}
		}
	}()
	var wg sync.WaitGroup
	for c := 0; c < e.cfg.Clients; c++ {
		wg.Add(1)
		crng := rng.Fork(uint64(c) + 1)
		go func(cl int, r *kit.RNG) {
			defer wg.Done()
			var mine []c11Key // cold keys this client set (read-your-write later)
			for i := 0; i < e.cfg.Ops; i++ {
				var k c11Key
				set := r.Bool()
				switch x := r.Intn(100); {
				case x < 55:
					k = hot[r.Intn(len(hot))]
				case x < 80:
					k = warm[r.Intn(len(warm))]
				case x < 90 && len(mine) > 0:
					k, set = mine[r.Intn(len(mine))], false
				default:
					k = e.newCold()
					if set {
						mine = append(mine, k)
					}
				}
				if set {
					op := e.doSet(n, cl, k, phase)
					if op.OK && strings.HasPrefix(k.ID, "c") {
						e.mu.Lock()
						e.coldSet = append(e.coldSet, k)
						e.mu.Unlock()
					}
				} else {
					op := e.doFetch(n, cl, k, phase)
					if !op.OK {
						atomic.AddInt64(&e.fetchErrConc, 1)
					} else {
						e.judgeNow(op, true) // sound at any time: only looks at sets that returned before the fetch began
					}
				}
				atomic.AddInt64(&done, 1)
			}
		}(c, crng)
	}
	wg.Wait()
	close(stop)
	bg.Wait()
}

// checkpoint: sequential checks at a quiescent point.  Round 1 fetches the
// keys as the server is; round 2 (cache enabled) purges the cache first so the
// answers come from the log; then a sequential write → read on some keys.
func (e *c11Env) checkpoint(n *vfNode, rng *kit.RNG, label string, hot, warm []c11Key) {
	e.step("check:" + label)
	srv := n.Server()
	if srv == nil {
		e.inconclusive("checkpoint " + label + ": node down")
		return
	}
	keys := append([]c11Key(nil), hot...)
	for i := 0; i < 6 && i < len(warm); i++ {
		keys = append(keys, warm[rng.Intn(len(warm))])
	}
	e.mu.Lock()
	for i := 0; i < 8 && len(e.coldSet) > 0; i++ {
		keys = append(keys, e.coldSet[rng.Intn(len(e.coldSet))])
	}
	e.mu.Unlock()
	keys = append(keys, c11Key{fmt.Sprintf("never%d", rng.Intn(1000)), "ns", int32(rng.Intn(3))})
	round := func(tag string) {
		for _, k := range keys {
			f := e.fetchQuiescent(n, k, label+tag)
			if f.OK {
				e.judgeNow(f, false)
				e.rep.Count("quiescent_fetches", 1)
			}
		}
	}
	round("")
	if !e.cfg.CacheOff {
		e.purge(srv)
		round("/cold")
	}
	// read-your-last-write
	for i := 0; i < 4; i++ {
		k := keys[rng.Intn(len(keys))]
		s := e.doSet(n, 0, k, label+"/rw")
		if !s.OK {
			e.rep.Count("quiescent_set_failed", 1)
			continue
		}
		f := e.fetchQuiescent(n, k, label+"/rw")
		if f.OK {
			e.judgeNow(f, false)
			e.rep.Count("read_your_write_checks", 1)
		}
		if i%2 == 1 && !e.cfg.CacheOff {
			e.purge(srv)
			if f := e.fetchQuiescent(n, k, label+"/rw-cold"); f.OK {
				e.judgeNow(f, false)
				e.rep.Count("read_your_write_checks", 1)
			}
		}
	}
}

// fetchQuiescent fetches with nothing else running.  A fetch that keeps
// failing on a healthy, quiescent leader means the stored cursor cannot be
// read back: reported under its own fingerprint.
func (e *c11Env) fetchQuiescent(n *vfNode, k c11Key, phase string) c11Op {
	var f c11Op
	attempts, transient := 4, 0
	for a := 0; a < attempts; a++ {
		f = e.doFetch(n, 0, k, phase)
		if f.OK {
			return f
		}
		e.rep.Count("quiescent_fetch_errors", 1)
		if e.cfg.CleanMode == "ticker" && c11TransientCleanerError(f.Err) {
			// the log's own cleaner is running (this point is quiescent only
			// as far as the harness is concerned): a reader that loses its
			// segment to the cleaner reports an error, which is no answer
			transient++
			if attempts < 24 {
				attempts++
			}
			// wait for the pass to end (the hook fires at its end), then retry at once
			ticks := atomic.LoadInt64(&e.cleanTicks)
			vfWait(3*time.Second, func() bool { return atomic.LoadInt64(&e.cleanTicks) != ticks })
			time.Sleep(3 * time.Millisecond)
			continue
		}
		time.Sleep(15 * time.Millisecond)
	}
	srv := n.Server()
	if srv == nil || !c11Ready(srv, e.cfg.Parts, 50*time.Millisecond) {
		e.inconclusive("fetch at " + phase + " failed and the node is not a ready cursors leader: " + f.Err)
		return f
	}
	if c11TransientCleanerError(f.Err) && e.cfg.CleanMode == "ticker" {
		e.inconclusive("fetch at " + phase + " kept colliding with the cleaner ticker: " + f.Err)
		return f
	}
	e.violation("fetch-fails", phase, fmt.Sprintf("FetchCursor(%s) keeps failing at a quiescent point (%s) on a server that leads every cursors partition: %s", k, phase, f.Err), k.String(), f.Seq)
	return f
}

func c11TransientCleanerError(msg string) bool {
	return strings.Contains(msg, "segment has been closed") || strings.Contains(msg, "segment was replaced") ||
		strings.Contains(msg, "segment not found") || strings.Contains(msg, "file already closed")
}

// evict pushes more than cursorCacheSize distinct keys through the cache.
func (e *c11Env) evict(n *vfNode, rng *kit.RNG) {
	e.step("evict")
	srv := n.Server()
	count := cursorCacheSize + rng.Range(8, 40)
	// `count` acknowledged sets of distinct keys (every acknowledged set adds
	// its key to the cache), interleaved with fetches of never-set keys
	var wg sync.WaitGroup
	per := count/4 + 1
	for w := 0; w < 4; w++ {
		wg.Add(1)
		go func(w int) {
			defer wg.Done()
			for i, acked := 0, 0; acked < per && i < 3*per; i++ {
				k := e.newCold()
				if (i+w)%5 == 0 {
					e.doFetch(n, w, k, "evict")
					continue
				}
				if op := e.doSet(n, w, k, "evict"); op.OK {
					acked++
					if acked%8 == 0 {
						e.mu.Lock()
						e.coldSet = append(e.coldSet, k)
						e.mu.Unlock()
					}
				}
			}
		}(w)
	}
	wg.Wait()
	if srv != nil && srv.cursors.cache.Len() >= cursorCacheSize {
		e.mu.Lock()
		e.cacheFull = true
		e.mu.Unlock()
	}
}

// pauseAll pauses every cursors partition (API PauseStream, or waits for the
// auto-pause timer when configured); the next operation resumes them.
func (e *c11Env) pauseAll(n *vfNode) bool {
	srv := n.Server()
	if e.cfg.AutoPause > 0 {
		e.step("await-autopause")
		ok := vfWait(15*time.Second, func() bool {
			for _, p := range c11CursorPartitions(srv) {
				if !p.IsPaused() {
					return false
				}
			}
			return true
		})
		if !ok {
			e.rep.Count("autopause_not_reached", 1)
			return false
		}
	} else {
		e.step("pause")
		ctx, cancel := context.WithTimeout(context.Background(), 15*time.Second)
		_, err := srv.api.PauseStream(ctx, &client.PauseStreamRequest{Name: cursorsStream})
		cancel()
		if err != nil {
			e.rep.Count("pause_failed", 1)
			return false
		}
		ok := vfWait(10*time.Second, func() bool {
			for _, p := range c11CursorPartitions(srv) {
				if !p.IsPaused() {
					return false
				}
			}
			return true
		})
		if !ok {
			e.rep.Count("pause_not_reached", 1)
			return false
		}
	}
	e.mu.Lock()
	e.pauses++
	e.mu.Unlock()
	return true
}

func (e *c11Env) applyServerKnobs(srv *Server) {
	// test-only switch of the cursor manager; written before any operation is
	// issued against this Server object
	srv.cursors.disableCache = e.cfg.CacheOff
}

func (e *c11Env) restartSingle() bool {
	e.step("restart")
	if err := e.c.StopNode("a"); err != nil {
		e.inconclusive("stop: " + err.Error())
		return false
	}
	if err := e.c.StartNode("a"); err != nil {
		e.inconclusive("restart: " + err.Error())
		return false
	}
	srv := e.c.Nodes["a"].Server()
	e.applyServerKnobs(srv)
	if _, err := e.c.MetaLeader(30 * time.Second); err != nil {
		e.inconclusive("no metadata leader after restart")
		return false
	}
	if !c11Ready(srv, e.cfg.Parts, 30*time.Second) {
		e.inconclusive("cursors partitions not led after restart")
		return false
	}
	e.mu.Lock()
	e.restarts++
	e.mu.Unlock()
	return true
}

func (e *c11Env) close() {
	for _, r := range e.removers {
		r()
	}
	if e.c != nil {
		e.c.Cleanup()
	}
}

// finish: post-hoc direct judgement of every fetch, then porcupine.
func (e *c11Env) finish() {
	ops := e.snapshot()
	byKey, valKey := c11Index(ops)
	nf, ns := 0, 0
	for _, o := range ops {
		if o.Kind == "set" {
			ns++
			continue
		}
		if !o.OK {
			continue
		}
		nf++
		e.mu.Lock()
		seen := e.reported[o.Seq]
		e.mu.Unlock()
		if seen {
			continue
		}
		if kind, what := e.judgeFetch(byKey[o.Key], valKey, o); kind != "" {
			e.violation(kind, o.Phase, what, o.Key, o.Seq)
		}
	}
	e.rep.Count("sets", int64(ns))
	e.rep.Count("fetches_with_value", int64(nf))
	e.rep.Count("keys", int64(len(byKey)))
	if c11CheckHistory == nil {
		e.rep.Inconc("porcupine checker not linked (binary built without the verifporc tag)")
		return
	}
	check := c11CheckHistory
	if e.repeat && c11CheckHistoryLatent != nil {
		check = c11CheckHistoryLatent
	}
	verdict, bad := check(ops, 60*time.Second)
	e.rep.Count("porcupine_"+strings.ToLower(verdict), 1)
	switch verdict {
	case "Unknown":
		e.inconclusive("porcupine timed out on the history")
	case "Illegal":
		reported := 0
		for _, k := range bad {
			// one defect, one fingerprint: keys the direct oracle already
			// reported (with a more specific fingerprint) are not repeated
			e.mu.Lock()
			dup := e.flagged[k]
			e.failed = true
			e.mu.Unlock()
			if dup {
				e.rep.Count("porcupine_illegal_keys_also_flagged_directly", 1)
				continue
			}
			if reported++; reported > 3 {
				break
			}
			fp := "C11:nonlinearizable-history"
			if e.cfg.CacheOff {
				fp += ":cache-off"
			}
			e.rep.Violation(fp, fmt.Sprintf("the sets and fetches of cursor %s cannot be explained by any order of a register that respects real time (porcupine: Illegal) [%s]", k, e.cfg.sig()),
				e.witness(k, len(ops)))
		}
	}
}
