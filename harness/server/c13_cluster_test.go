//go:build verif

package server

// C13, workload class "more than one server": the members of a consumer group
// send their Subscribe requests to DIFFERENT servers of a 3-server cluster
// (partition with replication factor 3) through apiServer.SubscribeInternal —
// the function behind the Subscribe RPC, with its leader / ReadISRReplica
// gate — while the partition leadership moves:
//
//   sub@leader      group subscribe at the partition leader (older / equal /
//                   newer epoch, same / other consumer id)
//   sub@follower    the same request sent to a follower, with and without
//                   ReadISRReplica, while a member is (or is not) served by the
//                   leader
//   sub@deposed     ... sent to the server that led the partition before the
//                   last leader change (its old member may still be subscribed
//                   there)
//   plain@follower  a subscriber outside any group reading from a follower
//                   (ReadISRReplica): the documented use of that flag
//   move            the controller elects another leader
//                   (metadataAPI.electNewPartitionLeader); every server learns it
//   lagmove/release the same, but the deposed leader's FSM is held at the verif
//                   hook partition.setLeader: it has NOT YET LEARNT that it was
//                   replaced while the other two servers have; subscribes issued
//                   inside that window go to the new leader, the third server
//                   and the not-yet-deposed leader; then the hook is released
//   cancel          a member's context is cancelled
//   fence           a message is published (AckPolicy ALL) and awaited on every
//                   subscription the harness holds open
//
// The steps of one case run one after the other (no call in flight when the
// oracle looks), so every verdict below is exact, not schedule dependent.

import (
	"context"
	"fmt"
	"sort"
	"strings"
	"sync"
	"sync/atomic"
	"testing"
	"time"

	client "github.com/liftbridge-io/liftbridge-api/v2/go"
	"google.golang.org/grpc/codes"
	"google.golang.org/grpc/status"

	kit "github.com/liftbridge-io/liftbridge/internal/verifkit"
)

const c13xRule = "3-server cluster, streams with 1 partition and replication factor 3, one fresh consumer group per case. A case is a sequence of steps executed one at a time: " +
	"group Subscribe through apiServer.SubscribeInternal at the partition leader / a follower / the server deposed by the last leader change (with and without ReadISRReplica; epoch older, equal, newer than the group's maximum; same or other consumer id), " +
	"plain ReadISRReplica subscribe at a follower, context cancellation, leader change by the controller's own election (every server learns it before the next step), leader change that the deposed leader learns LATE " +
	"(its FSM is parked at the verif hook partition.setLeader while the other servers already follow the new leader; subscribes are issued inside the window), fence publish. " +
	"First the enumerated hand-overs (holder at the leader yes/no x request to follower / to the deposed leader after a move x ReadISRReplica yes/no x epoch 4,5,6 x same/other consumer id), then seeded programs. " +
	"ACTIVE = accepted, Closed() open, not cancelled by the harness, no terminal status received. Checked after every step: " +
	"(N) a group subscribe is never ACCEPTED by a server whose own metadata names another server as the partition leader before and after the call; " +
	"(D) a subscription whose Closed() channel was closed has an accepted subscribe of its group ON THE SAME SERVER with an equal or newer epoch after it; " +
	"(A) two ACTIVE members of the group on ONE server are confirmed by a fence (both are handed the message) before they are reported; " +
	"(C) a refusal 'not currently assigned' needs an entry with a strictly newer epoch on that server before the call; " +
	"non-trivial = a group subscribe reached a server that was not the leader by its own view while a member of the group was ACTIVE somewhere, or a member stayed ACTIVE on a deposed leader; " +
	"distinct = per-step (role of the addressed server, ReadISRReplica, holder present, epoch relation, result) string"

var c13xWatch = time.Duration(kit.EnvInt("C13_WATCHDOG_MS", 30000)) * time.Millisecond

// ---------------------------------------------------------------- gate

// One gate at a time in the whole process: a gate parks the FSM goroutine of
// one server, so two gates held by two cases could wait for each other.
var (
	c13xGateMu   sync.Mutex // held for a whole lagging window
	c13xGateLock sync.Mutex // protects the fields below
	c13xGateSrv  string
	c13xGateStr  string
	c13xGateCh   chan struct{}
	c13xGateHits int64
	c13xGateTO   int64
)

// c13xSetLeaderHook parks SetLeader(other) on the gated server for the gated
// stream until the gate is released (bounded: a watchdog lets it go).
func c13xSetLeaderHook(args ...interface{}) error {
	if len(args) < 5 {
		return nil
	}
	srvID, _ := args[0].(string)
	stream, _ := args[1].(string)
	leader, _ := args[3].(string)
	c13xGateLock.Lock()
	ch := c13xGateCh
	match := ch != nil && srvID == c13xGateSrv && stream == c13xGateStr && leader != srvID
	c13xGateLock.Unlock()
	if !match {
		return nil
	}
	atomic.AddInt64(&c13xGateHits, 1)
	select {
	case <-ch:
	case <-time.After(c13xWatch):
		atomic.AddInt64(&c13xGateTO, 1)
	}
	return nil
}

// ---------------------------------------------------------------- program

type c13xStep struct {
	Kind    string // sub, plain, cancel, move, lagmove, release, fence
	Target  string // leader, follower, deposed
	ReadISR bool
	Cid     string
	Epoch   uint64
	Pick    uint64
}

func (s c13xStep) String() string {
	switch s.Kind {
	case "sub":
		return fmt.Sprintf("sub@%s(%s,e%d,readISR=%v)", s.Target, s.Cid, s.Epoch, s.ReadISR)
	case "plain":
		return fmt.Sprintf("plain@%s(readISR=%v)", s.Target, s.ReadISR)
	}
	return s.Kind
}

func c13xProgString(p []c13xStep) string {
	var out []string
	for _, s := range p {
		out = append(out, s.String())
	}
	return strings.Join(out, " ; ")
}

type c13xSub struct {
	id        int
	node      string
	group     string // "" = plain subscriber
	cid       string
	epoch     uint64
	readISR   bool
	role      string
	step      int
	selfLed   bool // the server named itself leader before and after the call
	ctx       context.Context
	cancel    context.CancelFunc
	sub       *subscription
	mu        sync.Mutex
	got       map[string]bool
	ended     string // terminal status received by the consumer
	cancelled bool   // by the harness
	ctxEnded  bool   // the consumer left because its context ended (it closes the subscription itself)
	judgedD   bool
}

func (s *c13xSub) closed() bool {
	select {
	case <-s.sub.Closed():
		return true
	default:
		return false
	}
}

func (s *c13xSub) active() bool {
	s.mu.Lock()
	defer s.mu.Unlock()
	return !s.cancelled && s.ended == "" && !s.closed()
}

func (s *c13xSub) has(v string) bool {
	s.mu.Lock()
	defer s.mu.Unlock()
	return s.got[v]
}

// consume mimics the loop of api.Subscribe: it forwards messages and ends (and
// ends the request context) on Closed() or a terminal status.
func (s *c13xSub) consume() {
	for {
		select {
		case m := <-s.sub.Messages():
			s.mu.Lock()
			s.got[string(m.Value)] = true
			s.mu.Unlock()
		case st := <-s.sub.Errors():
			s.mu.Lock()
			s.ended = st.Code().String()
			s.mu.Unlock()
			s.cancel()
			s.sub.Close() // api.Subscribe: defer sub.Close()
			return
		case <-s.sub.Closed():
			s.cancel()
			return
		case <-s.ctx.Done():
			// the request context ended: api.Subscribe returns and its deferred
			// sub.Close() lets a loop parked on the message channel go
			s.mu.Lock()
			s.ctxEnded = true
			s.mu.Unlock()
			s.sub.Close()
			return
		}
	}
}

type c13xAccepted struct {
	node  string
	epoch uint64
	step  int
}

type c13xCase struct {
	rep     *kit.Report
	cl      *vfCluster
	id      int
	seed    uint64
	label   string
	stream  string
	group   string
	prog    []c13xStep
	subs    []*c13xSub
	acc     []c13xAccepted
	log     []string
	sigs    []string
	step    int
	prev    string // server deposed by the last leader change
	lagging string // server parked at the gate ("" outside a window)
	lagNew  string
	gateCh  chan struct{}
	elect   chan *status.Status
	fences  int
	nontriv bool
	inconc  bool
	dead    bool // stop the case (inconclusive infrastructure step)
	counts  map[string]int64
}

func (c *c13xCase) n(k string) { c.counts[k]++ }

func (c *c13xCase) logf(f string, a ...interface{}) {
	c.log = append(c.log, fmt.Sprintf("[%d] ", c.step)+fmt.Sprintf(f, a...))
}

func (c *c13xCase) inconclusive(what string) {
	c.inconc, c.dead = true, true
	c.rep.Inconc(fmt.Sprintf("cluster case %d (%s): %s", c.id, c.stream, what))
}

func (c *c13xCase) violation(fp, what string, extra map[string]interface{}) {
	replay := map[string]interface{}{"seed": kit.Seed(), "case": c.id, "case_seed": c.seed, "label": c.label, "stream": c.stream, "group": c.group,
		"program": c13xProgString(c.prog), "history": append([]string(nil), c.log...)}
	for k, v := range extra {
		replay[k] = v
	}
	c.rep.Violation(fp, fmt.Sprintf("cluster case %d: %s", c.id, what), replay)
}

func (c *c13xCase) part(node string) *partition { return c.cl.Nodes[node].Partition(c.stream, 0) }

// view: which server the given server's own metadata names as the leader.
func (c *c13xCase) view(node string) (string, uint64) {
	p := c.part(node)
	if p == nil {
		return "", 0
	}
	return p.GetLeader()
}

// leaderNow: outside a lagging window the leader every server agrees on;
// inside, the newly elected one.
func (c *c13xCase) leaderNow() string {
	if c.lagging != "" {
		return c.lagNew
	}
	n, err := c.cl.PartitionLeader(c.stream, 0, c13xWatch)
	if err != nil {
		c.inconclusive("no agreed partition leader: " + err.Error())
		return ""
	}
	return n.ID
}

func (c *c13xCase) resolve(target string, pick uint64) (node, role string) {
	l := c.leaderNow()
	if l == "" {
		return "", ""
	}
	switch target {
	case "leader":
		return l, "leader"
	case "deposed":
		if c.lagging != "" {
			return c.lagging, "leader-not-yet-deposed"
		}
		if c.prev != "" && c.prev != l {
			return c.prev, "deposed-leader"
		}
	}
	var fs []string
	for _, id := range c.cl.IDs {
		if id != l && id != c.lagging && (target != "follower" || id != c.prev || c.prev == "") {
			fs = append(fs, id)
		}
	}
	if len(fs) == 0 {
		for _, id := range c.cl.IDs {
			if id != l && id != c.lagging {
				fs = append(fs, id)
			}
		}
	}
	f := fs[int(pick%uint64(len(fs)))]
	if f == c.prev {
		return f, "deposed-leader"
	}
	return f, "follower"
}

func (c *c13xCase) activeOf(group string) []*c13xSub {
	var out []*c13xSub
	for _, s := range c.subs {
		if s.group == group && s.active() {
			out = append(out, s)
		}
	}
	return out
}

// subscribe sends one Subscribe request to a server.
func (c *c13xCase) subscribe(st c13xStep, grouped bool) {
	node, role := c.resolve(st.Target, st.Pick)
	if node == "" {
		return
	}
	srv := c.cl.Nodes[node].Server()
	p := c.part(node)
	if srv == nil || p == nil {
		c.inconclusive("server " + node + " has no partition object")
		return
	}
	req := &client.SubscribeRequest{Stream: c.stream, Partition: 0, StartPosition: client.StartPosition_NEW_ONLY, ReadISRReplica: st.ReadISR}
	group := ""
	if grouped {
		group = c.group
		req.Consumer = &client.Consumer{GroupId: group, ConsumerId: st.Cid, GroupEpoch: st.Epoch}
	}
	var entryEpoch uint64
	entry := false
	if grouped {
		if m := p.GetGroupConsumer(group); m != nil {
			entry, entryEpoch = true, m.groupEpoch
		}
	}
	holders := c.activeOf(c.group)
	l0, e0 := c.view(node)
	ctx, cancel := context.WithCancel(context.Background())
	sub, err := srv.api.SubscribeInternal(ctx, req)
	l1, e1 := c.view(node)
	c.rep.Eval()
	result := "accepted"
	if err != nil {
		cancel()
		result = status.Code(err).String()
	}
	rel := "-"
	if grouped {
		rel = "no-entry"
		if entry {
			switch {
			case st.Epoch < entryEpoch:
				rel = "older"
			case st.Epoch == entryEpoch:
				rel = "equal"
			default:
				rel = "newer"
			}
		}
	}
	kind := "group"
	if !grouped {
		kind = "plain"
	}
	selfLed := l0 == node && l1 == node
	viewStable := l0 == l1 && e0 == e1
	c.logf("%s Subscribe at %s (%s; its metadata names leader %s@%d): consumer=%s epoch=%d readISR=%v entry-there=%s members ACTIVE in the cluster=%d -> %s %v",
		kind, node, role, l1, e1, st.Cid, st.Epoch, st.ReadISR, rel, len(holders), result, errText(err))
	sig := fmt.Sprintf("%s@%s/readISR=%v/holders=%d/%s/%s", kind, role, st.ReadISR, c13xMin(len(holders), 2), rel, result)
	c.sigs = append(c.sigs, sig)
	c.n("calls:" + kind + "@" + role + ":" + result)
	if grouped && !selfLed && len(holders) > 0 {
		c.nontriv = true
		c.n("group_subscribes_at_a_non_leader_while_a_member_is_active")
	}
	if grouped && !selfLed {
		c.n(fmt.Sprintf("group_subscribes_at_a_non_leader:readISR=%v", st.ReadISR))
	}
	if err != nil {
		// (C) refused for its epoch although no newer entry was there
		if grouped && selfLed && status.Code(err) == codes.FailedPrecondition && strings.Contains(err.Error(), "not currently assigned") {
			if !entry || entryEpoch <= st.Epoch {
				c.violation("C13:cluster:refused-without-newer-holder",
					fmt.Sprintf("group subscribe (consumer %s, epoch %d) at the partition leader %s was refused with %q although that server held no entry of the group with a newer epoch (entry before the call: %v, epoch %d)", st.Cid, st.Epoch, node, err.Error(), entry, entryEpoch), nil)
			}
		}
		if grouped && selfLed && !(status.Code(err) == codes.FailedPrecondition && strings.Contains(err.Error(), "not currently assigned")) {
			c.n("refused_at_the_leader_for_another_reason:" + result)
		}
		if !grouped && st.ReadISR {
			c.n("plain_read_replica_refused:" + result)
		}
		return
	}
	s := &c13xSub{id: len(c.subs), node: node, group: group, cid: st.Cid, epoch: st.Epoch, readISR: st.ReadISR, role: role, step: c.step,
		selfLed: selfLed, ctx: ctx, cancel: cancel, sub: sub, got: map[string]bool{}}
	c.subs = append(c.subs, s)
	go s.consume()
	if !grouped {
		return
	}
	c.acc = append(c.acc, c13xAccepted{node: node, epoch: st.Epoch, step: c.step})
	if role == "leader-not-yet-deposed" && selfLed {
		c.n("accepted_by_a_leader_that_had_not_yet_learnt_of_its_replacement(existing design, not judged)")
	}
	// (N) accepted by a server that is not the leader by its own metadata
	if !selfLed && viewStable {
		others := 0
		for _, h := range holders {
			if h.active() {
				others++
			}
		}
		c.violation(fmt.Sprintf("C13:cluster:group-subscribe-accepted-by-non-leader:readISR=%v", st.ReadISR),
			fmt.Sprintf("a NEW group subscription (group %s, consumer %s, epoch %d, ReadISRReplica=%v) was ACCEPTED by server %s (%s), whose own metadata names %s (leader epoch %d) as the partition leader before and after the call; "+
				"group members are tracked per server, so this member is served next to the %d member(s) still ACTIVE elsewhere in the cluster (none of them was cancelled)", group, st.Cid, st.Epoch, st.ReadISR, node, role, l1, e1, others),
			map[string]interface{}{"demonstration": c.demo()})
		return
	}
	if !selfLed {
		c.n("accepted_while_the_server's_view_of_the_leader_changed(not judged)")
	}
}

func errText(err error) string {
	if err == nil {
		return ""
	}
	return "(" + err.Error() + ")"
}

func c13xMin(a, b int) int {
	if a < b {
		return a
	}
	return b
}

// demo publishes one message and reports which ACTIVE members were handed it.
func (c *c13xCase) demo() map[string]interface{} {
	if c.lagging != "" {
		return map[string]interface{}{"skipped": "inside a lagging-leader window"}
	}
	val, recv, pending := c.fence()
	return map[string]interface{}{"published": val, "handed_to_members": recv, "members_that_did_not_get_it_before_the_watchdog": pending}
}

// fence publishes one message with AckPolicy ALL and waits until every
// subscription that is ACTIVE has been handed it or has stopped being ACTIVE.
func (c *c13xCase) fence() (val string, recv, pending []string) {
	l := c.leaderNow()
	if l == "" {
		return
	}
	c.fences++
	val = fmt.Sprintf("c13x-%d-f%d", c.id, c.fences)
	ctx, cancel := context.WithTimeout(context.Background(), c13xWatch)
	_, err := c.cl.Nodes[l].Server().api.Publish(ctx, &client.PublishRequest{Stream: c.stream, Value: []byte(val), AckPolicy: client.AckPolicy_ALL})
	cancel()
	if err != nil {
		c.inconclusive("fence publish failed: " + err.Error())
		return
	}
	for _, s := range c.subs {
		s := s
		if !s.active() {
			continue
		}
		ok := vfWait(c13xWatch, func() bool { return s.has(val) || !s.active() })
		name := fmt.Sprintf("#%d %s@%s(e%d)", s.id, s.cid, s.node, s.epoch)
		if s.group == "" {
			name = fmt.Sprintf("#%d plain@%s", s.id, s.node)
		}
		switch {
		case s.has(val):
			recv = append(recv, name)
			if s.group == "" {
				c.n("fence_delivered_to_a_plain_read_replica_subscriber")
			}
		case !ok:
			pending = append(pending, name)
			c.n("fence_not_delivered_before_the_watchdog(not judged)")
		}
	}
	c.logf("fence %s published through %s: handed to %v", val, l, recv)
	return
}

func (c *c13xCase) waitISR(leader string) bool {
	want := len(c.cl.IDs)
	if !vfWait(c13xWatch, func() bool {
		p := c.part(leader)
		return p != nil && len(p.GetISR()) == want
	}) {
		c.inconclusive("ISR of " + c.stream + " did not return to all replicas")
		return false
	}
	return true
}

// move changes the partition leader through the controller's election path.
func (c *c13xCase) move(lag bool) {
	l := c.leaderNow()
	if l == "" || !c.waitISR(l) {
		return
	}
	ml, err := c.cl.MetaLeader(c13xWatch)
	if err != nil {
		c.inconclusive(err.Error())
		return
	}
	mp := ml.metadata.GetPartition(c.stream, 0)
	leader, epoch := mp.GetLeader()
	if leader != l {
		c.inconclusive("controller and servers disagree on the leader")
		return
	}
	survivors := 0
	for _, s := range c.activeOf(c.group) {
		if s.node == l {
			survivors++
		}
	}
	elect := func() *status.Status {
		ctx, cancel := context.WithTimeout(context.Background(), c13xWatch)
		defer cancel()
		return ml.metadata.electNewPartitionLeader(ctx, mp, leader, epoch)
	}
	if !lag {
		if st := elect(); st != nil {
			c.inconclusive("election failed: " + st.Message())
			return
		}
		var nl *vfNode
		if !vfWait(c13xWatch, func() bool {
			n, err := c.cl.PartitionLeader(c.stream, 0, 10*time.Millisecond)
			nl = n
			return err == nil && n.ID != l
		}) {
			c.inconclusive("no new leader after the election")
			return
		}
		c.prev = l
		c.n("leader_changes")
		c.logf("leader change %s -> %s (every server has learnt it); %d member(s) were ACTIVE on %s", l, nl.ID, survivors, l)
		return
	}
	// lagging: park the deposed leader's FSM at SetLeader(other)
	c13xGateMu.Lock()
	c.gateCh = make(chan struct{})
	c13xGateLock.Lock()
	c13xGateSrv, c13xGateStr, c13xGateCh = l, c.stream, c.gateCh
	c13xGateLock.Unlock()
	c.elect = make(chan *status.Status, 1)
	go func() { c.elect <- elect() }()
	newLeader := ""
	ok := vfWait(c13xWatch, func() bool {
		name := ""
		for _, id := range c.cl.IDs {
			if id == l {
				continue
			}
			v, _ := c.view(id)
			if v == "" || v == l || (name != "" && v != name) {
				return false
			}
			name = v
		}
		p := c.part(name)
		if p == nil || !p.IsLeader() {
			return false
		}
		newLeader = name
		return true
	})
	if !ok {
		c.releaseGate()
		c.inconclusive("the other servers did not learn the new leader while the old one was held back")
		return
	}
	if v, _ := c.view(l); v != l {
		// the gate did not hold the old leader back (it learnt first)
		c.n("lagging_window_missed(old leader learnt first)")
	} else {
		c.n("lagging_windows")
	}
	c.lagging, c.lagNew = l, newLeader
	c.logf("leader change %s -> %s; %s is held at partition.setLeader and still names itself leader; %d member(s) ACTIVE on it", l, newLeader, l, survivors)
}

func (c *c13xCase) releaseGate() {
	if c.gateCh == nil {
		return
	}
	c13xGateLock.Lock()
	c13xGateCh = nil
	c13xGateLock.Unlock()
	close(c.gateCh)
	c.gateCh = nil
	select {
	case st := <-c.elect:
		if st != nil {
			c.n("lagging_election_returned_an_error(not judged)")
		}
	case <-time.After(c13xWatch):
		c.inconc = true
		c.rep.Inconc(fmt.Sprintf("cluster case %d: election call did not return after the gate was released", c.id))
	}
	c13xGateMu.Unlock()
}

func (c *c13xCase) release() {
	if c.lagging == "" {
		return
	}
	l := c.lagging
	c.releaseGate()
	c.lagging, c.lagNew = "", ""
	if !vfWait(c13xWatch, func() bool {
		n, err := c.cl.PartitionLeader(c.stream, 0, 10*time.Millisecond)
		return err == nil && n.ID != l
	}) {
		c.inconclusive("servers did not agree on the new leader after the gate was released")
		return
	}
	c.prev = l
	c.n("leader_changes")
	c.logf("%s released: every server names the new leader", l)
}

func (c *c13xCase) cancelOne(pick uint64) {
	act := c.activeOf(c.group)
	if len(act) == 0 {
		return
	}
	s := act[int(pick%uint64(len(act)))]
	s.mu.Lock()
	s.cancelled = true
	s.mu.Unlock()
	s.cancel()
	c.n("cancellations")
	c.logf("harness cancels the context of #%d (%s at %s)", s.id, s.cid, s.node)
}

// check: the invariants that can be read off after a step.
func (c *c13xCase) check() {
	// (D) closed without an equal/newer successor on the same server
	for _, s := range c.subs {
		if s.group == "" || s.judgedD || !s.closed() {
			continue
		}
		s.mu.Lock()
		cancelled := s.cancelled || s.ctxEnded || s.ended != ""
		s.mu.Unlock()
		if cancelled {
			continue // closed by its own consumer side, as api.Subscribe does on return
		}
		s.judgedD = true
		explained := false
		var later []string
		for _, a := range c.acc {
			if a.node == s.node && a.step > s.step {
				later = append(later, fmt.Sprintf("step %d epoch %d", a.step, a.epoch))
				if a.epoch >= s.epoch {
					explained = true
				}
			}
		}
		if explained {
			c.n("replacements_on_one_server")
			continue
		}
		c.violation("C13:cluster:holder-cancelled-without-successor",
			fmt.Sprintf("subscription #%d (consumer %s, epoch %d, on server %s) was closed by the server although no subscribe of its group with an equal or newer epoch was accepted on that server after it (accepted there since: %v)", s.id, s.cid, s.epoch, s.node, later), nil)
	}
	// (A) two ACTIVE on one server: confirmed by delivery
	act := c.activeOf(c.group)
	per := map[string][]*c13xSub{}
	for _, s := range act {
		per[s.node] = append(per[s.node], s)
	}
	for node, ss := range per {
		if len(ss) < 2 || c.lagging != "" {
			continue
		}
		val, _, _ := c.fence()
		n := 0
		var names []string
		for _, s := range ss {
			if s.has(val) {
				n++
				names = append(names, fmt.Sprintf("#%d %s(e%d)", s.id, s.cid, s.epoch))
			}
		}
		if n >= 2 {
			c.violation("C13:cluster:two-active-on-one-server",
				fmt.Sprintf("server %s serves %d members of group %s at once: message %s was handed to %v", node, n, c.group, val, names), nil)
		} else {
			c.n("two_open_on_one_server_not_confirmed_by_delivery")
		}
	}
	// cluster-wide picture (counted; the verdicts are (N) and the per-server ones)
	if len(act) >= 2 && len(per) >= 2 {
		legit := true
		for _, s := range act {
			if !s.selfLed {
				legit = false
			}
		}
		if legit {
			c.nontriv = true
			c.n("observations_with_members_active_on_two_servers_each_accepted_while_its_server_led(survivor on a deposed leader; existing design, counted)")
		}
	}
	for _, s := range act {
		if l, _ := c.view(s.node); l != s.node && s.selfLed && c.lagging == "" {
			c.nontriv = true
			c.n("observations_of_a_member_still_active_on_a_deposed_leader")
			break
		}
	}
}

func (c *c13xCase) run() {
	defer func() {
		if c.lagging != "" || c.gateCh != nil {
			c.releaseGate()
			c.lagging, c.lagNew = "", ""
		}
		for _, s := range c.subs {
			s.cancel()
		}
		for k, v := range c.counts {
			c.rep.Count(k, v)
		}
		if c.nontriv && !c.inconc {
			sort.Strings(c.sigs)
			c.rep.Nontrivial(strings.Join(c.sigs, ","))
		}
	}()
	for i, st := range c.prog {
		if c.dead || c.rep.NumViolations() >= 8 {
			return
		}
		c.step = i
		switch st.Kind {
		case "sub":
			c.subscribe(st, true)
		case "plain":
			c.subscribe(st, false)
		case "cancel":
			c.cancelOne(st.Pick)
		case "move":
			if c.lagging == "" {
				c.move(false)
			}
		case "lagmove":
			if c.lagging == "" {
				c.move(true)
			}
		case "release":
			c.release()
		case "fence":
			if c.lagging == "" {
				_, recv, _ := c.fence()
				grp := 0
				for _, r := range recv {
					if !strings.Contains(r, "plain@") {
						grp++
					}
				}
				c.n(fmt.Sprintf("fences_handed_to_%d_group_member(s)", c13xMin(grp, 3)))
			}
		}
		if c.dead {
			return
		}
		c.check()
	}
}

// ---------------------------------------------------------------- programs

func c13xCombos() (progs [][]c13xStep, labels []string) {
	for _, holder := range []bool{true, false} {
		for _, target := range []string{"follower", "deposed"} {
			for _, ro := range []bool{true, false} {
				for _, e := range []uint64{c13BaseEpoch - 1, c13BaseEpoch, c13BaseEpoch + 1} {
					for _, cid := range []string{"x", "y"} {
						var p []c13xStep
						if holder || target == "deposed" {
							p = append(p, c13xStep{Kind: "sub", Target: "leader", Cid: "x", Epoch: c13BaseEpoch})
						}
						if target == "deposed" {
							if !holder {
								p = append(p, c13xStep{Kind: "cancel"})
							}
							p = append(p, c13xStep{Kind: "move"})
						}
						p = append(p, c13xStep{Kind: "sub", Target: target, ReadISR: ro, Cid: cid, Epoch: e, Pick: uint64(len(progs))},
							c13xStep{Kind: "fence"},
							c13xStep{Kind: "sub", Target: "leader", Cid: "w", Epoch: c13BaseEpoch},
							c13xStep{Kind: "fence"})
						progs = append(progs, p)
						labels = append(labels, fmt.Sprintf("holder-at-leader=%v request-to=%s readISR=%v new=(%s,e%d)", holder, target, ro, cid, e))
					}
				}
			}
		}
	}
	return
}

func c13xGenProgram(rng *kit.RNG) []c13xStep {
	maxE := uint64(c13BaseEpoch)
	cid := func() string { return []string{"x", "y", "z"}[rng.Intn(3)] }
	epoch := func() uint64 {
		switch x := rng.Intn(100); {
		case x < 45:
			return maxE
		case x < 70:
			maxE++
			return maxE
		}
		return maxE - uint64(rng.Range(1, 2))
	}
	sub := func(target string) c13xStep {
		return c13xStep{Kind: "sub", Target: target, ReadISR: rng.Bool(), Cid: cid(), Epoch: epoch(), Pick: rng.Uint64()}
	}
	var p []c13xStep
	if rng.Chance(85, 100) {
		p = append(p, c13xStep{Kind: "sub", Target: "leader", Cid: "x", Epoch: c13BaseEpoch, ReadISR: rng.Chance(1, 4)})
	}
	n := rng.Range(4, 8)
	lag := false
	for i := 0; i < n; i++ {
		switch x := rng.Intn(100); {
		case lag && x < 25:
			p = append(p, c13xStep{Kind: "release"})
			lag = false
		case x < 30:
			p = append(p, sub([]string{"follower", "deposed"}[rng.Intn(2)]))
		case x < 42:
			p = append(p, sub("leader"))
		case x < 50:
			p = append(p, c13xStep{Kind: "plain", Target: "follower", ReadISR: true, Pick: rng.Uint64()})
		case x < 60:
			p = append(p, c13xStep{Kind: "cancel", Pick: rng.Uint64()})
		case x < 78 && !lag:
			p = append(p, c13xStep{Kind: "move"}, sub([]string{"deposed", "leader", "follower"}[rng.Intn(3)]))
		case x < 90 && !lag:
			p = append(p, c13xStep{Kind: "lagmove"}, sub([]string{"deposed", "leader", "follower"}[rng.Intn(3)]))
			lag = true
		default:
			if !lag {
				p = append(p, c13xStep{Kind: "fence"})
			}
		}
	}
	if lag {
		p = append(p, c13xStep{Kind: "release"})
	}
	p = append(p, sub([]string{"follower", "deposed"}[rng.Intn(2)]), c13xStep{Kind: "fence"})
	return p
}

// TestVerifC13Cluster: group members addressing different servers of a cluster.
func TestVerifC13Cluster(t *testing.T) {
	rep := kit.NewReport("C13", "cluster")
	defer rep.Write()
	defer c13UnitWatchdog(rep, "cluster")()
	rep.SetRule(c13xRule)
	rep.Assume("'at most one member of a group is served a given partition at any time' is read per LOGICAL partition across the cluster: the group bookkeeping lives in the partition object of the server that leads the partition, therefore a NEW group subscription must never be accepted by a server that is not the partition leader (by its own metadata) - with or without ReadISRReplica, whatever its epoch")
	rep.Assume("what the unchanged tree does with a subscription that SURVIVES on a deposed leader was established first: subscribe loops read the local log and are not ended by a leader change, so the old member keeps being served by the deposed leader (now a follower) while the new leader accepts a new member; likewise a leader that has not yet learnt of its replacement still accepts members. Both are the existing design (no server can know better at that moment) and are only counted (observations_*, accepted_by_a_leader_that_had_not_yet_learnt_*), never reported")
	rep.Assume("servers are addressed in-process through apiServer.SubscribeInternal (the body of the Subscribe RPC after the ACL check); the consumer goroutine mimics api.Subscribe's forwarding loop. Leader time-outs are set to one hour: leadership moves only when the harness calls the controller's election")
	const nstreams = 4
	cl, err := vfNewCluster("c13x", 3, func(cfg *Config) {
		cfg.Clustering.ReplicaMaxLeaderTimeout = time.Hour
		cfg.Clustering.ReplicaMaxLagTime = time.Hour
		cfg.Clustering.ReplicaMaxIdleWait = 200 * time.Millisecond
		cfg.Clustering.ReplicaFetchTimeout = 500 * time.Millisecond
		cfg.Streams.AutoPauseTime = 0
	})
	if err != nil {
		rep.Inconc("cluster did not start: " + err.Error())
		return
	}
	defer cl.Cleanup()
	off := vfHooks.On("partition.setLeader", c13xSetLeaderHook)
	defer off()
	pool := make(chan string, nstreams)
	for i := 0; i < nstreams; i++ {
		name := fmt.Sprintf("c13x-s%d", i)
		if err := cl.CreateStream(&client.CreateStreamRequest{Subject: name, Name: name, ReplicationFactor: 3}); err != nil {
			rep.Inconc("create stream: " + err.Error())
			return
		}
		if _, err := cl.PartitionLeader(name, 0, c13xWatch); err != nil {
			rep.Inconc(err.Error())
			return
		}
		pool <- name
	}
	combos, labels := c13xCombos()
	rep.SetInfo("enumerated_hand_overs_across_servers", len(combos))
	n := kit.EnvInt("VERIF_C13_CLUSTER_N", kit.Scale(160, 1600))
	root := kit.NewRNG(kit.Mix(kit.Seed(), 0xC13D))
	seeds := make([]uint64, n)
	for i := range seeds {
		seeds[i] = root.Uint64()
	}
	var sampled int32
	runCase := func(id int, seed uint64, label string, prog []c13xStep) {
		if rep.NumViolations() >= 8 {
			return
		}
		stream := <-pool
		c := &c13xCase{rep: rep, cl: cl, id: id, seed: seed, label: label, stream: stream, group: fmt.Sprintf("g%d", id), prog: prog, counts: map[string]int64{}}
		c.run()
		if atomic.AddInt32(&sampled, 1) <= 3 {
			rep.Sample(map[string]interface{}{"case": id, "label": label, "program": c13xProgString(prog), "history": c.log})
		}
		pool <- stream
	}
	kit.Parallel(len(combos), nstreams, func(i int) { runCase(1000000+i, kit.Mix(kit.Seed(), uint64(i)), labels[i], combos[i]) })
	kit.Parallel(n, nstreams, func(i int) {
		runCase(i, seeds[i], "seeded", c13xGenProgram(kit.NewRNG(seeds[i])))
	})
	rep.Count("gate_hits(partition.setLeader parked)", atomic.LoadInt64(&c13xGateHits))
	rep.Count("gate_watchdog_releases", atomic.LoadInt64(&c13xGateTO))
}
