//go:build verif

package server

// C19 — how an operator may SPELL the opt-out.  The documentation shows
// `enabled: false` / LIFTBRIDGE_TELEMETRY_ENABLED=false; operators also write
// the other boolean literals their tools accept.  The set used here is closed
// under two published definitions and nothing else:
//
//   - the false literals of strconv.ParseBool (what Go programs accept):
//     0, f, F, false, False, FALSE
//   - the false literals of YAML 1.1 booleans (what YAML files have meant for
//     years and `yes/no/on/off` switches in general): n, N, no, No, NO, off,
//     Off, OFF (plus false/False/FALSE again)
//   - in a config file the same literals in quotes (a string, not a YAML bool)
//   - one plain word, `disabled`, for "not a boolean literal at all but
//     unmistakably meant as off"
//
// Every member switches telemetry off on the tree this check was built on
// (every value that is not a true literal does), through each route; the
// matrix and binary units require zero requests for each of them.

import (
	"os"
	"path/filepath"

	kit "github.com/liftbridge-io/liftbridge/internal/verifkit"
)

type c19Spelling struct {
	Text  string `json:"text"`  // as written after `enabled: ` resp. after `=`
	Class string `json:"class"` // documented | go-bool | yaml11-bool | quoted | word
}

var c19Documented = c19Spelling{"false", "documented"}

var (
	c19FileSpellings = []c19Spelling{
		{"false", "documented"},
		{"False", "go-bool"}, {"FALSE", "go-bool"}, {"f", "go-bool"}, {"F", "go-bool"}, {"0", "go-bool"},
		{"no", "yaml11-bool"}, {"No", "yaml11-bool"}, {"NO", "yaml11-bool"}, {"off", "yaml11-bool"}, {"Off", "yaml11-bool"}, {"OFF", "yaml11-bool"}, {"n", "yaml11-bool"}, {"N", "yaml11-bool"},
		{`"false"`, "quoted"}, {`'false'`, "quoted"}, {`'FALSE'`, "quoted"}, {`"no"`, "quoted"}, {`"off"`, "quoted"}, {`"0"`, "quoted"},
		{"disabled", "word"},
	}
	c19EnvSpellings = []c19Spelling{
		{"false", "documented"},
		{"False", "go-bool"}, {"FALSE", "go-bool"}, {"f", "go-bool"}, {"F", "go-bool"}, {"0", "go-bool"},
		{"no", "yaml11-bool"}, {"No", "yaml11-bool"}, {"NO", "yaml11-bool"}, {"off", "yaml11-bool"}, {"Off", "yaml11-bool"}, {"OFF", "yaml11-bool"}, {"n", "yaml11-bool"}, {"N", "yaml11-bool"},
		{"disabled", "word"},
	}
)

// c19SpellingSuffix: what a fingerprint gets for a spelling other than the
// documented one (one defect -> one fingerprint per route and class).
func c19SpellingSuffix(sp c19Spelling) string {
	if sp.Class == "" || sp.Class == "documented" {
		return ""
	}
	return ":spelling-" + sp.Class
}

// c19SpellingRotation returns the non-documented spellings of a list in a
// seeded order in which consecutive entries come from different classes
// (yaml11-bool first: the largest class), every spelling once.
func c19SpellingRotation(rng *kit.RNG, all []c19Spelling) []c19Spelling {
	order := []string{"yaml11-bool", "quoted", "go-bool", "word"}
	by := map[string][]c19Spelling{}
	for _, sp := range all {
		if sp.Class != "documented" {
			by[sp.Class] = append(by[sp.Class], sp)
		}
	}
	for _, cl := range order {
		l := by[cl]
		for i := len(l) - 1; i > 0; i-- {
			j := rng.Intn(i + 1)
			l[i], l[j] = l[j], l[i]
		}
	}
	var out []c19Spelling
	for more := true; more; {
		more = false
		for _, cl := range order {
			if l := by[cl]; len(l) > 0 {
				out = append(out, l[0])
				by[cl] = l[1:]
				more = true
			}
		}
	}
	return out
}

// c19SpellingIneffective asks the real NewConfig whether the spelling alone
// (interval unset) fails to switch telemetry off through the route.  Used only
// to decide whether a violation's fingerprint names the spelling class: when
// the configuration comes out disabled, the spelling is not what made the
// server report.
func c19SpellingIneffective(route string, sp c19Spelling) bool {
	if sp.Class == "" || sp.Class == "documented" || route == "programmatic" {
		return false
	}
	dir, err := os.MkdirTemp(os.Getenv("VERIF_WORK"), "c19-spell-")
	if err != nil {
		return true
	}
	defer os.RemoveAll(dir)
	probe := &c19mCell{Phase: "S", Route: route, IvClass: "unset", IvVia: "none", Spelling: sp, Needles: c19NewNeedles(kit.NewRNG(1)),
		dir: dir, dataDir: filepath.Join(dir, "data"), natsURL: "nats://127.0.0.1:1"}
	cfg, err := c19mConfig(probe)
	return err == nil && cfg.Telemetry.Enabled
}
