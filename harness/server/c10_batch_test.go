//go:build verif

package server

// C10, unit batch: the log content is PUBLISHED THROUGH THE API BY CONCURRENT
// PUBLISHERS, on servers whose partition leader batches (batch.max.time > 0
// with a small batch.max.messages, and the default configuration, where a
// batch forms when messages queue up), and the requests use the RECEPTION
// TIMESTAMP OF AN ACK as start / stop time - what a client does that wants
// "everything up to (from) the message I published".  The forward unit's
// oracle judges: it reads the timestamps the leader wrote from the raw log, so
// whatever the leader stamped, a stop at an ack's reception timestamp must
// deliver every message with a timestamp <= that time (the acked message
// itself among them), a start at it must begin with the first message with a
// timestamp >= it.  Every clock reading is different (mocked clock).

import (
	"testing"
	"time"

	kit "github.com/liftbridge-io/liftbridge/internal/verifkit"
)

func c10GenBatchShape(rng *kit.RNG, i int) c10Shape {
	kinds := []string{"dense", "compacted", "dense", "trimmed", "dense", "both"}
	sh := c10Shape{Kind: kinds[i%len(kinds)], ViaAPI: true, Batch: 1}
	sh.SegBytes = []int64{1, 160, 420, 1 << 20}[rng.Intn(4)]
	sh.Burst = rng.Range(2, 8)
	switch sh.Kind {
	case "dense":
		sh.N = rng.Range(4, 30)
	case "compacted":
		sh.N = rng.Range(12, 40)
		sh.Keys = rng.Range(2, 8)
	case "trimmed":
		sh.N = rng.Range(8, 30)
		sh.RetMsgs = int64(rng.Range(2, sh.N-2))
	case "both":
		sh.N = rng.Range(16, 40)
		sh.Keys = rng.Range(2, 8)
		sh.RetMsgs = int64(rng.Range(6, sh.N/2+2))
	}
	if rng.Chance(1, 3) {
		sh.Tail = rng.Range(1, 3)
	}
	sh.Readonly = i%5 == 3
	return sh
}

func c10BatchUnit(t *testing.T, unit string, batchTime time.Duration, batchMax int) {
	c10RunOpt(t, unit, false, kit.Scale(36, 300), kit.Scale(80, 200), func(cfg *Config) {
		cfg.BatchMaxTime = batchTime
		if batchMax > 0 {
			cfg.BatchMaxMessages = batchMax
		}
	}, c10GenBatchShape)
}

// batch.max.time = 3 ms, batch.max.messages = 5: the leader waits for more
// messages, a burst of concurrent publishes becomes one or two batches.
func TestVerifC10Batch(t *testing.T) { c10BatchUnit(t, "batch", 3*time.Millisecond, 5) }

// default batching (batch.max.time = 0): a batch is whatever is queued when the
// leader looks.
func TestVerifC10BatchDefault(t *testing.T) { c10BatchUnit(t, "batchdefault", 0, 0) }
