//go:build verif

package server

// C03 on the follower path: committed readers on an in-sync follower replica.
//
// A step-driven harness over two REAL commit logs and the REAL replication
// code on both sides, without NATS: a "leader" log is appended to and its HW
// moved; batches are framed by the real replicationProtocolWriter (leader
// epoch + leader HW + message bytes, exactly what replicator.replicate sends)
// and handed to the real partition.handleReplicationResponse of a follower
// partition object, which adopts the HW and appends the message set.  K
// committed readers consume the FOLLOWER's log concurrently (subscriptions
// served by an ISR replica).  Oracle per read as in the commit-log unit:
// offset <= follower HW sampled after the read, content f(seed, offset),
// consecutive offsets from the effective start; after the last response every
// reader owing deliveries must reach the final HW (watchdog => inconclusive).

import (
	"context"
	"fmt"
	"os"
	"sync"
	"sync/atomic"
	"testing"
	"time"

	"github.com/nats-io/nats.go"

	kit "github.com/liftbridge-io/liftbridge/internal/verifkit"
	"github.com/liftbridge-io/liftbridge/server/commitlog"
	"github.com/liftbridge-io/liftbridge/server/logger"
	proto "github.com/liftbridge-io/liftbridge/server/protocol"
)

func c03fContent(seed uint64, o int64) *commitlog.Message {
	r := kit.NewRNG(kit.Mix(seed, uint64(o)))
	m := &commitlog.Message{Timestamp: 1000 + o, LeaderEpoch: 5, Value: r.Bytes(r.Range(1, 90))}
	if r.Bool() {
		m.Key = r.Bytes(r.Range(1, 6))
	}
	return m
}

func c03fOpenLog(dir string, maxSeg int64) (commitlog.CommitLog, error) {
	lg := logger.NewLogger(0)
	lg.Silent(true)
	return commitlog.New(commitlog.Options{Path: dir, MaxSegmentBytes: maxSeg, HWCheckpointInterval: 1000 * time.Hour,
		CleanerInterval: 1000 * time.Hour, Logger: lg})
}

func TestVerifC03FollowerPath(t *testing.T) {
	rep := kit.NewReport("C03", "followerpath")
	defer rep.Write()
	rep.SetRule("two real commit logs + the real replication framing (replicationProtocolWriter) and the real follower handler (partition.handleReplicationResponse), no NATS: seeded runs with leader appends, leader HW anywhere <= leader newest (so a response's HW is often beyond what the follower has), replication batches of 1..6 messages, tiny segments; 3-8 committed readers on the FOLLOWER log created at PRNG times/offsets; per read: offset <= follower HW sampled after, content f(seed,offset), consecutive from the effective start; completeness after the last response; non-trivial = follower rolled >=3 segments and a response carried a HW beyond the follower's log end; distinct = run parameters")
	root := kit.NewRNG(kit.Mix(kit.Seed(), 0xC03FA))
	runs := kit.Scale(80, 1000)
	seeds := make([]uint64, runs)
	for i := range seeds {
		seeds[i] = root.Uint64()
	}
	kit.Parallel(runs, kit.Workers(), func(i int) {
		if rep.NumViolations() >= 6 {
			return
		}
		c03fRun(rep, i, seeds[i])
	})
}

func c03fRun(rep *kit.Report, idx int, seed uint64) {
	rng := kit.NewRNG(seed)
	maxSeg := []int64{64, 200, 1000}[rng.Intn(3)]
	total := int64(rng.Range(80, kit.Scale(240, 400)))
	nread := rng.Range(3, 8)
	base := vfWorkDir("c03f")
	defer os.RemoveAll(base)
	ll, err := c03fOpenLog(base+"/leader", 1<<20)
	if err != nil {
		rep.Inconc("open leader log: " + err.Error())
		return
	}
	defer ll.Close()
	fl, err := c03fOpenLog(base+"/follower", maxSeg)
	if err != nil {
		rep.Inconc("open follower log: " + err.Error())
		return
	}
	defer fl.Close()
	lg := logger.NewLogger(0)
	lg.Silent(true)
	srv := &Server{logger: lg, config: NewDefaultConfig()}
	const epoch = 5
	leaderP := &partition{Partition: &proto.Partition{Stream: "s", Id: 0, LeaderEpoch: epoch}, log: ll, srv: srv}
	follP := &partition{Partition: &proto.Partition{Stream: "s", Id: 0, LeaderEpoch: epoch}, log: fl, srv: srv, isFollowing: true}
	repl := &replicator{epoch: epoch, partition: leaderP}
	stopW := make(chan struct{})
	writer := newReplicationProtocolWriter(repl, stopW)
	witness := func() map[string]any {
		return map[string]any{"run": idx, "run_seed": seed, "follower_maxSegmentBytes": maxSeg, "messages": total, "readers": nread}
	}
	fail := func(fp, what string) { rep.Violation(fp, what, witness()) }
	H := total - 1
	var finalSet atomic.Bool
	var hwBeyond atomic.Int64
	ctx, cancel := context.WithCancel(context.Background())
	defer cancel()
	var wg sync.WaitGroup
	wg.Add(1)
	go func() {
		// leader appends + replication, interleaved like the real loops
		defer wg.Done()
		defer finalSet.Store(true)
		r := kit.NewRNG(seed ^ 0x1)
		hb := make([]byte, 28)
		var lnext int64
		lhw := int64(-1)
		for {
			// leader side: append a few, move the HW somewhere <= newest
			if lnext < total {
				n := int64(r.Range(1, 7))
				if lnext+n > total {
					n = total - lnext
				}
				msgs := make([]*commitlog.Message, n)
				for k := range msgs {
					msgs[k] = c03fContent(seed, lnext+int64(k))
				}
				if _, err := ll.Append(msgs); err != nil {
					fail("C03:harness-leader-append", err.Error())
					return
				}
				lnext += n
			}
			if lnext > 0 {
				switch r.Intn(3) {
				case 0:
					lhw = lnext - 1
				case 1:
					if lnext-1 > lhw {
						lhw += 1 + int64(r.Intn(int(lnext-1-lhw)))
					}
				}
				if lnext == total && fl.NewestOffset() >= H-3 {
					lhw = H
				}
				ll.SetHighWatermark(lhw)
			}
			// follower fetch: one replication response from follower's newest+1
			from := fl.NewestOffset() + 1
			lastInResp := from - 1
			if from < lnext {
				reader, err := ll.NewReader(from, true)
				if err != nil {
					fail("C03:harness-leader-reader", err.Error())
					return
				}
				batch := int64(r.Range(1, 6))
				lastInResp = from - 1
				for k := int64(0); k < batch && from+k < lnext; k++ {
					m, off, _, _, err := reader.ReadMessage(vfCancelledCtx, hb)
					if err != nil {
						fail("C03:harness-leader-read", err.Error())
						return
					}
					writer.Write(off, hb, m)
					lastInResp = off
				}
			}
			// (a response without data only carries the HW: also realistic)
			if ll.HighWatermark() > lastInResp {
				// this response's HW points past what the follower will hold after it
				hwBeyond.Add(1)
			}
			var resp []byte
			writer.Flush(func(data []byte) error { resp = append([]byte(nil), data...); return nil })
			func() {
				defer func() {
					if p := recover(); p != nil {
						fail("C03:follower-handler-panic", fmt.Sprintf("handleReplicationResponse panicked: %v", p))
					}
				}()
				follP.handleReplicationResponse(&nats.Msg{Data: resp})
			}()
			if fl.NewestOffset() == H && fl.HighWatermark() == H {
				return
			}
			if rep.NumViolations() > 0 || ctx.Err() != nil {
				return
			}
			if r.Chance(1, 3) {
				time.Sleep(time.Duration(r.Intn(200)) * time.Microsecond)
			}
		}
	}()

	type rd struct {
		start               int64
		first, next, hi     atomic.Int64
		delivered           atomic.Int64
		done                atomic.Bool
	}
	readers := make([]*rd, nread)
	var rwg sync.WaitGroup
	for k := 0; k < nread; k++ {
		r := &rd{}
		r.first.Store(-1)
		r.hi.Store(1 << 60)
		readers[k] = r
		rr := rng.Fork(uint64(50 + k))
		rwg.Add(1)
		go func() {
			defer rwg.Done()
			defer r.done.Store(true)
			defer func() {
				if p := recover(); p != nil {
					fail("C03:reader-panic", fmt.Sprintf("committed reader on the follower panicked: %v", p))
				}
			}()
			target := int64(rr.Intn(int(total)))
			for fl.NewestOffset() < target && ctx.Err() == nil {
				time.Sleep(30 * time.Microsecond)
			}
			hw0 := fl.HighWatermark()
			var start int64
			switch rr.Intn(6) {
			case 0:
				start = 0
			case 1:
				start = hw0
				if start < 0 {
					start = 0
				}
			case 2:
				start = hw0 + 1
			case 3:
				start = hw0 + 2 + int64(rr.Intn(10))
			default:
				if hw0 > 0 {
					start = int64(rr.Intn(int(hw0) + 1))
				}
			}
			r.start = start
			reader, err := fl.NewReader(start, false)
			if err != nil {
				fail("C03:reader-open", fmt.Sprintf("NewReader(%d, committed) on the follower failed with HW=%d newest=%d: %v", start, hw0, fl.NewestOffset(), err))
				return
			}
			hw1 := fl.HighWatermark()
			lo, hi := start, start
			if start > hw0 {
				if start > hw1 {
					lo, hi = hw0+1, hw1+1
				} else {
					lo, hi = hw0+1, start
				}
			}
			if lo < 0 {
				lo = 0
			}
			if hi < lo {
				hi = lo
			}
			r.hi.Store(hi)
			hb := make([]byte, 28)
			for {
				m, off, ts, _, err := reader.ReadMessage(ctx, hb)
				if err != nil {
					if ctx.Err() != nil {
						return
					}
					fail("C03:reader-error", fmt.Sprintf("committed reader(start=%d) on the follower failed after %d messages (next %d, follower HW %d, newest %d): %v",
						start, r.delivered.Load(), r.next.Load(), fl.HighWatermark(), fl.NewestOffset(), err))
					return
				}
				hwPost := fl.HighWatermark()
				if off > hwPost {
					fail("C03:uncommitted-delivered", fmt.Sprintf("follower delivered offset %d while its HW sampled after the read is %d", off, hwPost))
					return
				}
				want := c03fContent(seed, off)
				if ts != want.Timestamp || string(m.Value()) != string(want.Value) || string(m.Key()) != string(want.Key) {
					fail("C03:content", fmt.Sprintf("follower reader: offset %d content differs from what was appended on the leader", off))
					return
				}
				if r.first.Load() == -1 {
					if off < lo || off > hi {
						fail("C03:first-offset", fmt.Sprintf("follower reader(start=%d, HW before/after creation %d/%d, newest at creation <= %d) delivered %d first, expected within [%d,%d]", start, hw0, hw1, fl.NewestOffset(), off, lo, hi))
						return
					}
					r.first.Store(off)
				} else if off != r.next.Load() {
					fp := "C03:gap"
					if off < r.next.Load() {
						fp = "C03:duplicate-or-reorder"
					}
					fail(fp, fmt.Sprintf("follower reader(start=%d) delivered %d after %d", start, off, r.next.Load()-1))
					return
				}
				r.next.Store(off + 1)
				r.delivered.Add(1)
				rep.Count("follower_committed_reads", 1)
				if off == H {
					return
				}
			}
		}()
	}
	wg.Wait()
	pending := func(r *rd) bool { return !r.done.Load() && (r.first.Load() != -1 || r.hi.Load() <= H) }
	deadline := time.Now().Add(60 * time.Second)
	for rep.NumViolations() == 0 {
		all := true
		for _, r := range readers {
			if pending(r) {
				all = false
			}
		}
		if all {
			break
		}
		if time.Now().After(deadline) {
			for _, r := range readers {
				if pending(r) {
					rep.Inconc(fmt.Sprintf("follower run %d (seed %d): watchdog — reader(start=%d) delivered %d, next %d, final HW %d", idx, seed, r.start, r.delivered.Load(), r.next.Load(), H))
				}
			}
			break
		}
		time.Sleep(2 * time.Millisecond)
	}
	cancel()
	rwg.Wait()
	close(stopW)
	rep.Eval()
	rep.Count("responses_with_hw_beyond_follower_log", hwBeyond.Load())
	if hwBeyond.Load() > 0 {
		rep.Nontrivial(fmt.Sprintf("%d|%d|%d", maxSeg, total, nread))
	}
	if idx%53 == 0 {
		rep.Sample(witness())
	}
}
