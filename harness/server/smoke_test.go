//go:build verif

package server

import (
	"context"
	"testing"
	"time"

	client "github.com/liftbridge-io/liftbridge-api/v2/go"
)

// TestVerifSmoke is a self-test of the harness helpers (not a property check).
func TestVerifSmoke(t *testing.T) {
	t0 := time.Now()
	c, err := vfNewCluster("smoke", 3, func(cfg *Config) {
		cfg.Clustering.ReplicaMaxLeaderTimeout = time.Second
		cfg.Clustering.ReplicaMaxIdleWait = 300 * time.Millisecond
		cfg.Clustering.ReplicaFetchTimeout = 300 * time.Millisecond
	})
	if err != nil {
		t.Fatal(err)
	}
	defer c.Cleanup()
	t.Logf("cluster up in %v", time.Since(t0))
	if err := c.CreateStream(&client.CreateStreamRequest{Subject: "foo", Name: "foo", ReplicationFactor: 3}); err != nil {
		t.Fatal(err)
	}
	ln, err := c.PartitionLeader("foo", 0, 10*time.Second)
	if err != nil {
		t.Fatal(err)
	}
	t.Logf("leader %s after %v", ln.ID, time.Since(t0))
	for i := 0; i < 5; i++ {
		ctx, cancel := context.WithTimeout(context.Background(), 5*time.Second)
		resp, err := ln.Server().api.Publish(ctx, &client.PublishRequest{Stream: "foo", Value: []byte("hello"), AckPolicy: client.AckPolicy_ALL})
		cancel()
		if err != nil {
			t.Fatal(err)
		}
		if resp.Ack == nil || resp.Ack.Offset != int64(i) {
			t.Fatalf("ack %+v", resp)
		}
	}
	for _, n := range c.Running() {
		recs, err := vfReadLog(n.Partition("foo", 0).log, 0, true)
		t.Logf("node %s: %d recs hw=%d err=%v", n.ID, len(recs), n.Partition("foo", 0).log.HighWatermark(), err)
	}
	t.Logf("done in %v", time.Since(t0))
}
