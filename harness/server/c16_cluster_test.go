//go:build verif

package server

// C16 — cluster unit: conditional publishes on REPLICATED streams.
//
// The histories of c16_server_test.go run on one broker with replication
// factor 1, where the broker that receives a publish is also the partition
// leader and the only holder of the log.  On a cluster every broker accepts
// publishes and hands them to the partition leader through NATS, and only the
// leader's log decides what the next offset is: the replicas of the followers
// trail it (always, for ack policy LEADER) and a broker may hold no replica at
// all.  Here 3-broker clusters host streams with optimistic concurrency
// control and replication factor 3 or 2 (2: one broker holds no replica), and
// every history sends its publishes through the in-process API (Publish and
// PublishAsync sessions) of the leader, of the followers and of the broker
// without a replica, and as raw envelopes over NATS, with ack policies LEADER
// and ALL:
//
//   - a sequential prefix of a lone publisher that hops between the routes
//     (verdicts fully determined by "next offset", which the publisher knows
//     from its own acks).  Inside it, "held follower" episodes: the
//     replication loop of one follower is parked at the follower.afterFetch
//     hook with a fetched answer it has not applied yet (its replica is
//     behind the leader by at least one message, as it is for a moment after
//     every LEADER-acked publish) while the lone publisher publishes through
//     THAT broker's API;
//   - pipelines: the lone publisher sends k conditional publishes naming
//     next, next+1, ... back to back over one PublishAsync session / one NATS
//     connection without waiting for the answers.  One connection's publishes
//     reach the leader in order, so every one of them names the real next
//     offset when it is processed;
//   - the concurrent phase of the single-node unit, every publisher bound to
//     one route;
//
// and is judged by the same oracles: determined verdicts in the sequential
// parts, final log scan on the partition leader, ack consistency at the
// ack.send hook, porcupine against "publish(e) succeeds iff e = -1 or e =
// next offset".  A history during which the partition leader or its epoch
// changed is inconclusive (leader changes are the failover unit's business).

import (
	"fmt"
	"sort"
	"strings"
	"sync"
	"sync/atomic"
	"testing"
	"time"

	client "github.com/liftbridge-io/liftbridge-api/v2/go"
	"github.com/nats-io/nats.go"

	kit "github.com/liftbridge-io/liftbridge/internal/verifkit"
	proto "github.com/liftbridge-io/liftbridge/server/protocol"
)

// ---------------------------------------------------------------- held follower

type c16Hold struct {
	ch      chan struct{}
	parked  atomic.Bool
	expired atomic.Bool
}

var c16Holds sync.Map // "<server id>|<stream>" -> *c16Hold

func c16InstallHoldHook() func() {
	return vfHooks.On("follower.afterFetch", func(a ...interface{}) error {
		if len(a) < 2 {
			return nil
		}
		sid, _ := a[0].(string)
		stream, _ := a[1].(string)
		v, ok := c16Holds.Load(sid + "|" + stream)
		if !ok {
			return nil
		}
		hd := v.(*c16Hold)
		hd.parked.Store(true)
		select {
		case <-hd.ch:
		case <-time.After(5 * time.Second):
			hd.expired.Store(true)
		}
		return nil
	})
}

// ---------------------------------------------------------------- routes

type c16Route struct {
	name string // leader | follower | nonreplica | nats
	node *vfNode
}

func (r c16Route) String() string {
	if r.node == nil {
		return r.name
	}
	return r.name + "(" + r.node.ID + ")"
}

type c16Cluster struct {
	h      *c16Hist
	leader *vfNode
	epoch  uint64
	rf     int
	routes []c16Route // API routes; the raw route is separate
	raw    *c16Raw
	async  map[string]*c16Async // node id -> session of the lone publisher
	next   int64
	used   map[string]int
	fp     string // fingerprint prefix of the unit ("" = C16:cluster)
}

func (cc *c16Cluster) session(n *vfNode) *c16Async {
	if s := cc.async[n.ID]; s != nil {
		return s
	}
	s := cc.h.newAsyncOn(n.Server())
	cc.async[n.ID] = s
	return s
}

func (cc *c16Cluster) closeSessions() {
	for _, s := range cc.async {
		s.close()
	}
	cc.async = map[string]*c16Async{}
}

func (cc *c16Cluster) pick(rng *kit.RNG, prefer *vfNode) c16Route {
	if prefer != nil && rng.Chance(3, 4) {
		return c16Route{"follower", prefer}
	}
	if rng.Chance(1, 6) {
		return c16Route{"nats", nil}
	}
	return cc.routes[rng.Intn(len(cc.routes))]
}

// judge applies the determined verdict of a lone publisher's publish.
func (cc *c16Cluster) judge(op *c16Op, what string) bool {
	h := cc.h
	e, next := op.E, cc.next
	should := e == -1 || e == next
	route := op.Route
	if i := strings.Index(route, "("); i > 0 {
		route = route[:i]
	}
	ctx := fmt.Sprintf("replication factor %d, partition leader %s; %s; publish %s", cc.rf, cc.leader.ID, what, op)
	pre := cc.fp
	if pre == "" {
		pre = "C16:cluster"
	}
	switch {
	case op.Out == c16OutOpen:
		h.inconclusive(fmt.Sprintf("lone publisher got no answer (%s)", ctx))
		return false
	case should && op.Out == c16OutRejected:
		fp := pre + ":spurious-reject:via-" + route
		if e == -1 {
			fp = pre + ":unconditional-rejected:via-" + route
		}
		if op.Phase == "pipe" {
			fp = pre + ":pipelined-next-offset-rejected:via-" + route
		}
		alone := "nothing else in flight"
		if op.Phase == "pipe" {
			alone = "in flight only the earlier publishes of its own pipeline, sent before it over the same connection and all accepted"
		}
		h.fail(fp, fmt.Sprintf("a lone publisher named expected offset %d while the partition leader's next offset was %d (%s) and got INCORRECT_OFFSET; nothing was stored (%s)", e, next, alone, ctx), nil)
		return false
	case !should && op.Out == c16OutOK:
		h.fail(pre+":accepted-wrong-expected-offset:via-"+route, fmt.Sprintf("a lone publisher named expected offset %d while the partition leader's next offset was %d and was acknowledged at offset %d (%s)", e, next, op.Off, ctx), nil)
		return false
	case op.Out == c16OutOK && op.Off != next:
		h.fail(pre+":ack-offset-not-next:via-"+route, fmt.Sprintf("a lone publisher (expected offset %d) was acknowledged at offset %d, the next offset was %d (%s)", e, op.Off, next, ctx), nil)
		return false
	}
	if op.Out == c16OutOK {
		cc.next++
	}
	return true
}

// one sends one publish of the lone publisher over a route and waits for the answer.
func (cc *c16Cluster) one(rng *kit.RNG, phase string, r c16Route, class string, policy client.AckPolicy, e int64) *c16Op {
	h := cc.h
	cc.used[r.name]++
	var op *c16Op
	if r.node == nil {
		op = h.newOp(0, phase, "raw", class, policy, e)
		op.Route = r.String()
		h.viaRaw(cc.raw, op, policy, true)
		return op
	}
	if rng.Bool() {
		op = h.newOp(0, phase, "api", class, policy, e)
		op.Route = r.String()
		h.viaAPIOn(r.node.Server(), op, policy, "", 0)
		return op
	}
	op = h.newOp(0, phase, "async", class, policy, e)
	op.Route = r.String()
	h.viaAsync(cc.session(r.node), op, policy)
	return op
}

// sequential: the lone publisher hops between the routes; now and then one
// follower is held back while the publisher talks to that follower's broker.
func (cc *c16Cluster) sequential(rng *kit.RNG, followers []*vfNode) {
	h := cc.h
	var held *c16Hold
	var heldNode *vfNode
	heldLeft := 0
	release := func() {
		if held != nil {
			c16Holds.Delete(heldNode.ID + "|" + h.stream)
			close(held.ch)
			if held.expired.Load() {
				h.rep.Count("cluster_follower_holds_expired", 1)
			}
			held, heldNode = nil, nil
		}
	}
	defer release()
	for i := 0; i < h.seqLen && !h.failed.Load() && !h.inconc.Load(); i++ {
		if held == nil && len(followers) > 0 && rng.Chance(1, 5) {
			// park one follower's replication loop on the answer that carries
			// the next message
			heldNode = followers[rng.Intn(len(followers))]
			held = &c16Hold{ch: make(chan struct{})}
			c16Holds.Store(heldNode.ID+"|"+h.stream, held)
			op := cc.one(rng, "seq", c16Route{"leader", cc.leader}, "equal", client.AckPolicy_LEADER, cc.next)
			if !cc.judge(op, "publish that a follower is then held on") {
				return
			}
			hd := held
			if !vfWait(8*time.Second, func() bool { return hd.parked.Load() }) {
				h.rep.Count("cluster_follower_holds_not_reached", 1)
				release()
				continue
			}
			heldLeft = rng.Range(2, 4)
			h.rep.Count("cluster_follower_holds", 1)
		}
		class := []string{"equal", "equal", "equal", "stale", "future", "zero", "any", "negative"}[rng.Intn(8)]
		e := c16Expected(rng, class, cc.next)
		policy := h.policyFor(rng)
		what := "all replicas replicating"
		r := cc.pick(rng, nil)
		if held != nil {
			// the held follower cannot acknowledge: ack policy ALL would wait for the release
			policy = client.AckPolicy_LEADER
			r = cc.pick(rng, heldNode)
			lag := cc.next - 1 - heldNode.Partition(h.stream, 0).log.NewestOffset()
			what = fmt.Sprintf("follower %s held at follower.afterFetch, its replica %d message(s) behind the leader", heldNode.ID, lag)
			if r.node == heldNode {
				h.rep.Count("cluster_publishes_through_a_lagging_follower", 1)
				if lag > 0 && e == cc.next {
					h.rep.Count("cluster_correct_publishes_through_a_lagging_follower", 1)
				}
			}
		}
		op := cc.one(rng, "seq", r, class, policy, e)
		if !cc.judge(op, what) {
			return
		}
		if held != nil {
			if heldLeft--; heldLeft <= 0 {
				release()
			}
		}
	}
}

// pipelines: k conditional publishes naming next, next+1, ... sent back to back
// over one session / connection, answers collected afterwards.
func (cc *c16Cluster) pipelines(rng *kit.RNG) {
	h := cc.h
	rounds := rng.Range(1, 3)
	for rd := 0; rd < rounds && !h.failed.Load() && !h.inconc.Load(); rd++ {
		k := rng.Range(2, 6)
		r := cc.pick(rng, nil)
		policy := h.policyFor(rng)
		cc.used[r.name]++
		ops := make([]*c16Op, k)
		if r.node == nil {
			for j := range ops {
				ops[j] = h.newOp(0, "pipe", "raw", "equal", policy, cc.next+int64(j))
				ops[j].Route = r.String()
			}
			cc.pipeRaw(ops, policy)
		} else {
			for j := range ops {
				ops[j] = h.newOp(0, "pipe", "async", "equal", policy, cc.next+int64(j))
				ops[j].Route = r.String()
			}
			cc.pipeAsync(cc.session(r.node), ops, policy)
		}
		h.rep.Count("cluster_pipelines", 1)
		h.rep.Count("cluster_pipelined_publishes", int64(k))
		for _, op := range ops {
			if !cc.judge(op, fmt.Sprintf("pipeline of %d publishes naming consecutive offsets sent back to back over one connection", k)) {
				return
			}
		}
	}
}

func (cc *c16Cluster) pipeAsync(s *c16Async, ops []*c16Op, policy client.AckPolicy) {
	h := cc.h
	chans := make([]chan *client.PublishResponse, len(ops))
	s.mu.Lock()
	for i, op := range ops {
		chans[i] = make(chan *client.PublishResponse, 4)
		s.wait[op.Tag] = chans[i]
	}
	s.mu.Unlock()
	timer := time.NewTimer(20 * time.Second)
	defer timer.Stop()
	sent := len(ops)
	for i, op := range ops {
		req := &client.PublishRequest{Stream: h.stream, Value: []byte(op.Tag), Key: []byte("k"), AckPolicy: policy, CorrelationId: op.Tag, ExpectedOffset: op.E}
		op.Call = h.now()
		select {
		case s.reqs <- req:
		case <-timer.C:
			sent = i
		}
		if sent == i {
			break
		}
	}
	for i, op := range ops {
		if i >= sent {
			op.Ret, op.Out, op.Err = h.now(), c16OutOpen, "session did not take the request"
			continue
		}
		select {
		case r := <-chans[i]:
			op.Ret = h.now()
			switch {
			case r.AsyncError != nil && r.AsyncError.Code == client.PublishAsyncError_INCORRECT_OFFSET:
				op.Out, op.Err = c16OutRejected, r.AsyncError.Code.String()+": "+r.AsyncError.Message
			case r.AsyncError != nil:
				op.Out, op.Err = c16OutOpen, r.AsyncError.Code.String()+": "+r.AsyncError.Message
			case r.Ack == nil:
				op.Out, op.Err = c16OutOpen, "response without ack"
			default:
				op.Out, op.Off = c16OutOK, r.Ack.Offset
			}
		case <-timer.C:
			op.Ret, op.Out, op.Err, op.Waited = h.now(), c16OutOpen, "no response on the PublishAsync stream", true
			c16Unanswered.Add(1)
		}
	}
}

func (cc *c16Cluster) pipeRaw(ops []*c16Op, policy client.AckPolicy) {
	h, r := cc.h, cc.raw
	want := map[string]*c16Op{}
	for _, op := range ops {
		data, err := proto.MarshalPublish(&client.Message{Value: []byte(op.Tag), Key: []byte("k"), Stream: h.stream, Subject: h.stream,
			AckInbox: r.inbox, CorrelationId: op.Tag, AckPolicy: policy, Offset: op.E})
		if err != nil {
			panic(err)
		}
		op.Call = h.now()
		if err := r.nc.Publish(h.stream, data); err != nil {
			op.Ret, op.Out, op.Err = h.now(), c16OutOpen, err.Error()
			continue
		}
		want[op.Tag] = op
	}
	deadline := time.Now().Add(20 * time.Second)
	for len(want) > 0 {
		m, err := r.sub.NextMsg(time.Until(deadline))
		if err != nil {
			for _, op := range want {
				op.Ret, op.Out, op.Err, op.Waited = h.now(), c16OutOpen, "no ack: "+err.Error(), true
			}
			c16Unanswered.Add(1)
			return
		}
		ack, err := proto.UnmarshalAck(m.Data)
		if err != nil {
			continue
		}
		op := want[ack.CorrelationId]
		if op == nil {
			r.late[ack.CorrelationId] = ack
			continue
		}
		delete(want, ack.CorrelationId)
		op.Ret = h.now()
		switch ack.AckError {
		case client.Ack_OK:
			op.Out, op.Off = c16OutOK, ack.Offset
		case client.Ack_INCORRECT_OFFSET:
			op.Out, op.Err = c16OutRejected, ack.AckError.String()
		default:
			op.Out, op.Err = c16OutOpen, "ack error "+ack.AckError.String()
		}
	}
}

// ---------------------------------------------------------------- one history

func c16RunClusterHistory(rep *kit.Report, c *vfCluster, cfgDesc string, serverWide bool, idx int, seed uint64, pool []*nats.Conn) {
	rng := kit.NewRNG(seed)
	h := &c16Hist{rep: rep, c: c, cfgDesc: cfgDesc, seed: seed, sent: map[string][]c16Sent{}, pubSrv: map[int]*Server{}, pubRoute: map[int]string{}}
	h.stream = fmt.Sprintf("c16c%d", idx)
	h.mode = []string{"LEADER", "ALL", "MIXED", "MIXED"}[rng.Intn(4)]
	h.n = []int{2, 3, 3, 4, 6, 8}[rng.Intn(6)]
	h.total = rng.Range(60, 160)
	h.seqLen = rng.Range(12, 30)
	h.profile = c16Profiles[rng.Intn(len(c16Profiles))]
	rf := 2 + rng.Intn(2)
	req := &client.CreateStreamRequest{Subject: h.stream, Name: h.stream, ReplicationFactor: int32(rf)}
	if !serverWide || idx%4 != 0 {
		req.OptimisticConcurrencyControl = &client.NullableBool{Value: true}
	}
	if rng.Chance(1, 3) {
		req.SegmentMaxBytes = &client.NullableInt64{Value: 4096}
	}
	if err := c.CreateStream(req); err != nil {
		rep.Inconc(fmt.Sprintf("create stream %s: %v", h.stream, err))
		return
	}
	leader, err := c.PartitionLeader(h.stream, 0, 30*time.Second)
	if err != nil {
		rep.Inconc(err.Error())
		return
	}
	h.srv = leader.Server()
	h.part = leader.Partition(h.stream, 0)
	if !vfWait(30*time.Second, func() bool { return len(h.part.GetISR()) == rf }) {
		rep.Inconc(fmt.Sprintf("stream %s: the in-sync replica set did not reach %d: %v", h.stream, rf, errVfTimeout))
		return
	}
	_, epoch := h.part.GetLeader()
	h.cfgDesc = fmt.Sprintf("%s replication.factor=%d", cfgDesc, rf)
	cc := &c16Cluster{h: h, leader: leader, epoch: epoch, rf: rf, async: map[string]*c16Async{}, used: map[string]int{}}
	var followers []*vfNode
	for _, id := range c.IDs {
		n := c.Nodes[id]
		p := n.Partition(h.stream, 0)
		switch {
		case n == leader:
			cc.routes = append(cc.routes, c16Route{"leader", n})
		case p != nil && p.inReplicas(n.Cfg.Clustering.ServerID):
			cc.routes = append(cc.routes, c16Route{"follower", n})
			followers = append(followers, n)
		default:
			cc.routes = append(cc.routes, c16Route{"nonreplica", n})
		}
		if p != nil && p.inReplicas(n.Cfg.Clustering.ServerID) && !p.log.IsConcurrencyControlEnabled() {
			h.base = time.Now()
			rep.Eval()
			h.fail("C16:cluster:occ-not-enabled", fmt.Sprintf("the replica of stream %s on broker %s has a log without concurrency control", h.stream, n.ID), nil)
			return
		}
	}
	c16HookHists.Store(h.stream, h)
	defer c16HookHists.Delete(h.stream)

	raws := make([]*c16Raw, h.n+1)
	for i := range raws {
		r, err := c16NewRaw(pool[(i+idx)%len(pool)])
		if err != nil {
			rep.Inconc("ack inbox: " + err.Error())
			return
		}
		raws[i] = r
		defer r.sub.Unsubscribe()
	}
	cc.raw = raws[h.n]
	h.base = time.Now()
	cc.sequential(rng.Fork(1), followers)
	if !h.failed.Load() && !h.inconc.Load() {
		cc.pipelines(rng.Fork(2))
	}
	cc.closeSessions()
	for k, v := range cc.used {
		rep.Count("cluster_lone_publisher_publishes_via_"+k, int64(v))
	}
	if h.failed.Load() || h.inconc.Load() {
		rep.Eval()
		return
	}
	h.hint.Store(cc.next)

	// concurrent phase: every publisher bound to one route
	kinds := make([]string, h.n)
	for i := range kinds {
		pub := i + 1
		r := cc.routes[(i+int(seed%3))%len(cc.routes)]
		switch {
		case i%4 == 3:
			kinds[i] = "raw"
			h.pubRoute[pub] = "nats"
		case i%2 == 0:
			kinds[i] = "api"
		default:
			kinds[i] = "async"
		}
		if kinds[i] != "raw" {
			h.pubSrv[pub] = r.node.Server()
			h.pubRoute[pub] = r.String()
		}
	}
	per := h.total / h.n
	var wg sync.WaitGroup
	start := make(chan struct{})
	for i := 0; i < h.n; i++ {
		wg.Add(1)
		prng := rng.Fork(uint64(100 + i))
		go func(i int) {
			defer wg.Done()
			<-start
			h.publisher(i+1, kinds[i], per, prng, raws[i])
		}(i)
	}
	close(start)
	wg.Wait()
	// the verdicts below are read from the leader's log: the leader must not
	// have changed under the history
	if l, ep := h.part.GetLeader(); !h.part.IsLeader() || l != leader.Cfg.Clustering.ServerID || ep != epoch {
		h.inconclusive(fmt.Sprintf("the partition leader changed during the history (%s epoch %d -> %s epoch %d)", leader.ID, epoch, l, ep))
	}
	routes := make([]string, 0, len(h.pubRoute))
	for _, r := range h.pubRoute {
		if i := strings.Index(r, "("); i > 0 {
			r = r[:i]
		}
		routes = append(routes, r)
	}
	sort.Strings(routes)
	for _, r := range routes {
		rep.Count("cluster_concurrent_publishers_via_"+r, 1)
	}
	rep.Count(fmt.Sprintf("cluster_histories_rf%d", rf), 1)
	h.conclude(raws, kinds, idx, fmt.Sprintf("cluster|rf=%d|", rf))
}

// TestVerifC16Cluster: replicated streams on 3-broker clusters.
func TestVerifC16Cluster(t *testing.T) {
	rep := kit.NewReport("C16", "cluster")
	defer rep.Write()
	rep.SetRule("histories on real 3-broker clusters (private NATS, Raft): a fresh stream with optimistic concurrency control and replication factor 3 or 2 (2: one broker holds no replica); a lone publisher's sequential prefix hopping between the Publish / PublishAsync API of the partition leader, of the followers, of the broker without a replica and raw NATS envelopes (ack policy LEADER / ALL / mixed per history; expected offsets equal / stale / future / 0 / -1 / below -1; verdicts fully determined), with episodes in which one follower's replication loop is parked at the follower.afterFetch hook (replica behind the leader) while the publisher goes through that follower's broker; 1..3 pipelines of 2..6 publishes naming consecutive offsets sent back to back over one session / connection; then 2..8 concurrent publishers each bound to one route; oracle = determined verdicts for the lone publisher + final log scan on the partition leader + ack consistency at the ack.send hook + porcupine linearizability; non-trivial as in the single-node unit; distinct = config + replication factor + publishers + outcome counts")
	rep.Assume("one NATS connection's publishes on one subject reach the partition leader in the order they were sent (NATS core guarantee; a broker's API publishes everything over one connection): a pipeline next, next+1, ... sent over one PublishAsync session or one harness connection is processed in that order")
	rep.Assume("publishes without an answer are decided from the final log of the partition leader; a history during which the partition leader or its epoch changed is inconclusive")
	remove := c16InstallHook()
	defer remove()
	removeHold := c16InstallHoldHook()
	defer removeHold()
	root := kit.NewRNG(kit.Mix(kit.Seed(), 0xC16C))
	nclu := kit.Scale(3, 8)
	perClu := kit.Scale(9, 24)
	hidx := 0
	for s := 0; s < nclu && rep.NumViolations() < 4 && c16Unanswered.Load() < c16MaxUnanswered; s++ {
		rng := root.Fork(uint64(s))
		bmm := []int{1, 8, 1024}[rng.Intn(3)]
		bmt := []time.Duration{0, 200 * time.Microsecond, 2 * time.Millisecond}[rng.Intn(3)]
		serverWide := rng.Bool()
		cfgDesc := fmt.Sprintf("3 brokers batch.max.messages=%d batch.max.time=%s streams.concurrency.control=%v", bmm, bmt, serverWide)
		c, err := vfNewCluster(fmt.Sprintf("c16c-%d", s), 3, func(cfg *Config) {
			cfg.BatchMaxMessages = bmm
			cfg.BatchMaxTime = bmt
			cfg.Streams.ConcurrencyControl = serverWide
		})
		if err != nil {
			rep.Inconc("cluster did not start: " + err.Error())
			continue
		}
		pool := []*nats.Conn{c.NC}
		for i := 0; i < 3; i++ {
			nc, err := nats.Connect(c.URL)
			if err != nil {
				break
			}
			pool = append(pool, nc)
		}
		seeds := make([]uint64, perClu)
		for i := range seeds {
			seeds[i] = rng.Uint64()
		}
		base := hidx
		kit.Parallel(perClu, 3, func(i int) {
			if rep.NumViolations() >= 4 || c16Unanswered.Load() >= c16MaxUnanswered {
				return
			}
			c16RunClusterHistory(rep, c, cfgDesc, serverWide, base+i, seeds[i], pool)
		})
		hidx += perClu
		for _, nc := range pool[1:] {
			nc.Close()
		}
		c.Cleanup()
	}
}

// ---------------------------------------------------------------- leader change

// A partition leader is stopped in the middle of a history.  Acked writes of
// the deposed leader may be lost (ack policy LEADER) and that is not C16's
// business, so across the change only what the property states is judged, on
// the NEW leader's final log: whatever is stored sits at the offset it
// expected (or waived the check), nothing is stored twice, nothing that was
// answered INCORRECT_OFFSET is stored.  After the change and a fence a lone
// publisher runs a sequential series with determined verdicts against the
// newly promoted leader (it learns the next offset the way a client does, from
// the leader's newest offset).

type c16FoStream struct {
	h      *c16Hist
	leader *vfNode
}

func (h *c16Hist) lenientScan(recs []vfLogRec, where string) {
	byTag := map[string]*c16Op{}
	for _, o := range h.ops {
		byTag[o.Tag] = o
	}
	storedAt := map[string]int64{}
	for i, r := range recs {
		if r.Offset != int64(i) {
			h.fail("C16:failover:log-offsets-not-consecutive", fmt.Sprintf("%s: record #%d has offset %d", where, i, r.Offset), map[string]any{"log": c16LogDesc(recs)})
			return
		}
		tag := string(r.Value)
		o := byTag[tag]
		if o == nil {
			h.fail("C16:failover:foreign-record", fmt.Sprintf("%s holds %q at offset %d which no publisher of this history sent", where, tag, r.Offset), map[string]any{"log": c16LogDesc(recs)})
			return
		}
		if prev, dup := storedAt[tag]; dup {
			h.fail("C16:failover:stored-twice", fmt.Sprintf("%s: message %s is stored twice, at offsets %d and %d", where, o, prev, r.Offset), map[string]any{"log": c16LogDesc(recs)})
			return
		}
		storedAt[tag] = r.Offset
		if o.E != -1 && o.E != r.Offset {
			h.fail("C16:failover:stored-at-other-offset", fmt.Sprintf("%s: message %s was published with expected offset %d but is stored at offset %d", where, o, o.E, r.Offset), map[string]any{"log": c16LogDesc(recs)})
			return
		}
	}
	for _, o := range h.ops {
		off, stored := storedAt[o.Tag]
		switch {
		case o.Out == c16OutRejected && stored:
			h.fail("C16:failover:rejected-but-stored", fmt.Sprintf("%s: message %s got INCORRECT_OFFSET but is stored at offset %d", where, o, off), map[string]any{"log": c16LogDesc(recs)})
			return
		case o.Out == c16OutRejected && o.E == -1:
			h.fail("C16:failover:unconditional-rejected", fmt.Sprintf("message %s waived the check (expected offset -1) and got INCORRECT_OFFSET", o), nil)
			return
		case o.Out == c16OutOK && stored && off != o.Off:
			h.fail("C16:failover:acked-offset-mismatch", fmt.Sprintf("%s: message %s was acknowledged at offset %d but is stored at offset %d", where, o, o.Off, off), map[string]any{"log": c16LogDesc(recs)})
			return
		case o.Out == c16OutOK && o.E != -1 && o.Off != o.E:
			h.fail("C16:failover:stored-at-other-offset", fmt.Sprintf("message %s with expected offset %d was acknowledged at offset %d", o, o.E, o.Off), nil)
			return
		}
		if o.Out == c16OutOK && !stored {
			h.rep.Count("failover_acked_publishes_absent_from_the_new_leader_(not_judged)", 1)
		}
		if stored {
			h.rep.Count("failover_records_checked", 1)
		}
	}
}

func c16FailoverScenario(rep *kit.Report, id int, rng *kit.RNG) {
	c, err := vfNewCluster(fmt.Sprintf("c16f-%d", id), 3, func(cfg *Config) {
		cfg.Clustering.ReplicaMaxLeaderTimeout = 1200 * time.Millisecond
		cfg.Clustering.ReplicaMaxIdleWait = 250 * time.Millisecond
		cfg.Clustering.ReplicaFetchTimeout = 400 * time.Millisecond
		cfg.Clustering.ReplicaMaxLagTime = 1500 * time.Millisecond
	})
	if err != nil {
		rep.Inconc("cluster did not start: " + err.Error())
		return
	}
	defer c.Stop() // the directory (under VERIF_WORK) is removed by the driver
	var streams []*c16FoStream
	for i := 0; i < 2; i++ {
		h := &c16Hist{rep: rep, c: c, seed: rng.Uint64(), sent: map[string][]c16Sent{}, pubSrv: map[int]*Server{}, pubRoute: map[int]string{}, mode: "MIXED"}
		h.stream = fmt.Sprintf("c16f%d-%d", id, i)
		h.cfgDesc = "3 brokers, replication factor 3, partition leader stopped mid-history"
		h.profile = c16Profiles[rng.Intn(len(c16Profiles))]
		if err := c.CreateStream(&client.CreateStreamRequest{Subject: h.stream, Name: h.stream, ReplicationFactor: 3,
			OptimisticConcurrencyControl: &client.NullableBool{Value: true}}); err != nil {
			rep.Inconc("create stream: " + err.Error())
			return
		}
		l, err := c.PartitionLeader(h.stream, 0, 30*time.Second)
		if err != nil {
			rep.Inconc(err.Error())
			return
		}
		p := l.Partition(h.stream, 0)
		if !vfWait(30*time.Second, func() bool { return len(p.GetISR()) == 3 }) {
			rep.Inconc("in-sync replica set of " + h.stream + " did not reach 3")
			return
		}
		h.srv, h.part, h.base = l.Server(), p, time.Now()
		streams = append(streams, &c16FoStream{h: h, leader: l})
	}
	victim := streams[0].leader
	var survivors []*vfNode
	for _, nid := range c.IDs {
		if nid != victim.ID {
			survivors = append(survivors, c.Nodes[nid])
		}
	}
	rep.Eval()
	// concurrent publishers through the survivors' APIs, the victim is stopped
	// when a seeded share of the publishes has been made
	var done atomic.Int64
	nPub, per := rng.Range(3, 5), rng.Range(25, 45)
	stopAfter := int64(2*nPub*per) * int64(rng.Range(25, 60)) / 100
	var wg sync.WaitGroup
	for _, fs := range streams {
		for pi := 0; pi < nPub; pi++ {
			node := survivors[(pi+int(fs.h.seed%2))%2]
			fs.h.pubSrv[pi+1], fs.h.pubRoute[pi+1] = node.Server(), "survivor("+node.ID+")"
		}
	}
	for _, fs := range streams {
		h := fs.h
		for pi := 0; pi < nPub; pi++ {
			pub := pi + 1
			node := survivors[(pi+int(h.seed%2))%2]
			prng := rng.Fork(uint64(1000 + pub + 100*len(h.stream)))
			wg.Add(1)
			go func() {
				defer wg.Done()
				mine := int64(0)
				for k := 0; k < per && !h.failed.Load(); k++ {
					class := h.pickClass(prng)
					believed := mine
					if prng.Chance(1, 3) {
						believed = h.hint.Load()
					}
					e := c16Expected(prng, class, believed)
					policy := h.policyFor(prng)
					op := h.newOp(pub, "conc", "api-short", class, policy, e)
					h.viaAPIOn(node.Server(), op, policy, "short", 1500*time.Millisecond)
					switch op.Out {
					case c16OutOK:
						mine = op.Off + 1
						for {
							cur := h.hint.Load()
							if op.Off+1 <= cur || h.hint.CompareAndSwap(cur, op.Off+1) {
								break
							}
						}
					case c16OutRejected:
						// ask the broker the client talks to for the newest offset
						if p := node.Partition(h.stream, 0); p != nil {
							mine = p.log.NewestOffset() + 1
						}
					}
					done.Add(1)
				}
			}()
		}
	}
	stopped := make(chan struct{})
	go func() {
		defer close(stopped)
		vfWait(60*time.Second, func() bool { return done.Load() >= stopAfter })
		c.StopNode(victim.ID)
	}()
	wg.Wait()
	<-stopped
	rep.Count("failover_partition_leaders_stopped", 1)
	for _, fs := range streams {
		h := fs.h
		nl, err := c.PartitionLeader(h.stream, 0, 60*time.Second)
		if err != nil {
			h.inconclusive("no new partition leader after the leader was stopped: " + err.Error())
			continue
		}
		if nl != fs.leader {
			rep.Count("failover_streams_with_a_new_leader", 1)
		}
		h.srv, h.part = nl.Server(), nl.Partition(h.stream, 0)
		// fence: everything the publishers sent through the survivors has been
		// processed once an unconditional publish over the same brokers is acknowledged
		fenced := true
		for _, sv := range survivors {
			op := h.newOp(0, "fence", "api", "any", client.AckPolicy_LEADER, -1)
			op.Route = "survivor(" + sv.ID + ")"
			h.viaAPIOn(sv.Server(), op, client.AckPolicy_LEADER, "", 0)
			fenced = fenced && op.Out == c16OutOK
		}
		if !fenced {
			h.inconclusive("fence publishes after the leader change were not acknowledged")
			continue
		}
		// lone publisher against the promoted leader
		raw, err := c16NewRaw(c.NC)
		if err != nil {
			h.inconclusive("ack inbox: " + err.Error())
			continue
		}
		cc := &c16Cluster{h: h, leader: nl, rf: 3, raw: raw, async: map[string]*c16Async{}, used: map[string]int{}, next: h.part.log.NewestOffset() + 1, fp: "C16:failover"}
		for _, sv := range survivors {
			name := "follower"
			if sv == nl {
				name = "leader"
			}
			cc.routes = append(cc.routes, c16Route{name, sv})
		}
		srng := rng.Fork(uint64(7 + len(h.ops)))
		for k, n := 0, srng.Range(8, 14); k < n && !h.failed.Load() && !h.inconc.Load(); k++ {
			class := []string{"equal", "equal", "stale", "future", "zero", "any", "negative"}[srng.Intn(7)]
			if k == 0 {
				class = []string{"stale", "future", "equal"}[srng.Intn(3)]
			}
			e := c16Expected(srng, class, cc.next)
			op := cc.one(srng, "seq", cc.pick(srng, nil), class, h.policyFor(srng), e)
			if !cc.judge(op, "after the partition leader "+fs.leader.ID+" was stopped and "+nl.ID+" leads") {
				break
			}
			rep.Count("failover_determined_publishes_on_the_promoted_leader", 1)
		}
		cc.closeSessions()
		raw.sub.Unsubscribe()
		if h.failed.Load() || h.inconc.Load() {
			continue
		}
		recs, err := vfReadLog(h.part.log, 0, true)
		if err != nil {
			h.inconclusive("reading the final log: " + err.Error())
			continue
		}
		h.lenientScan(recs, "the final log of the new leader "+nl.ID)
		if !h.failed.Load() {
			rep.Count("failover_histories", 1)
			rep.Count("failover_ops", int64(len(h.ops)))
			rep.Nontrivial(fmt.Sprintf("failover|%s->%s|ops=%d|log=%d|stopAfter=%d", fs.leader.ID, nl.ID, len(h.ops), len(recs), stopAfter))
			rep.Sample(map[string]any{"scenario": id, "stream": h.stream, "stopped_leader": victim.ID, "leader_before": fs.leader.ID, "leader_after": nl.ID,
				"publishers": nPub, "ops": len(h.ops), "publishes_made_when_the_leader_was_stopped": stopAfter, "final_log_len": len(recs)})
		}
	}
}

// TestVerifC16Failover: partition leader stopped in the middle of a history.
func TestVerifC16Failover(t *testing.T) {
	rep := kit.NewReport("C16", "failover")
	defer rep.Write()
	rep.SetRule("3-broker clusters, two streams with optimistic concurrency control and replication factor 3; 3..5 concurrent publishers per stream through the Publish API of the two brokers that survive (expected offsets equal / stale / future / 0 / -1 / below -1, ack policy LEADER / ALL mixed, 1.5 s deadline); after a seeded share of the publishes the leader of the first stream (often of both) is stopped; after the new leaders are agreed and a fence, a lone publisher runs 8..14 publishes with determined verdicts against each promoted leader (next offset read from its log as a client would), the first one mostly one that must be rejected; oracle across the change = only what the property states, on the new leader's final log: every stored message sits at the offset it expected (or waived the check), nothing is stored twice, nothing answered INCORRECT_OFFSET is stored, an acknowledged message that is stored sits at its acknowledged offset; acknowledged messages lost with the deposed leader are counted, not judged (C02); non-trivial = history completed with a leader change; distinct = leaders + sizes")
	rep.Assume("acknowledged writes of the stopped leader that the new leader does not hold are outside this property (C02); at-most-one-winner per expected offset is therefore judged on the final log only (two messages cannot share an offset), not on acks")
	remove := c16InstallHook()
	defer remove()
	root := kit.NewRNG(kit.Mix(kit.Seed(), 0xC16F0))
	n := kit.Scale(2, 8)
	rngs := make([]*kit.RNG, n)
	for i := range rngs {
		rngs[i] = root.Fork(uint64(i))
	}
	kit.Parallel(n, 2, func(i int) {
		if rep.NumViolations() >= 3 {
			return
		}
		c16FailoverScenario(rep, i, rngs[i])
	})
}
