//go:build verif

package server

// C04 — content oracle shared by the cluster units.
//
// "An ALL acknowledgement is sent only after every member of the in-sync set
// has STORED THE MESSAGE": a replica whose log END has moved past the acked
// offset has not stored the message if its log holds something else there, or
// nothing at all (a reader steps from o-1 to o+1).  The first C04 units only
// compared log ends and only looked at a replica parked at the fetch gate.
// This file adds the content comparison, for every member of the in-sync set:
//
//   at ack receipt   for every member of the leader's ISR (read after the ack
//                    has arrived) whose log end covers the acked offset: the
//                    record stored at that offset is the acked message.  Never
//                    fires on a correct tree, for free-running replicas too: a
//                    member counted at ack time had stored the offset, and
//                    what is stored below the log end only changes through a
//                    truncation (committed offsets are never truncated); a
//                    member admitted later has fetched its log from this
//                    leader, so it holds the same record wherever its log
//                    reaches.  A member whose log END is still below the acked
//                    offset is only decisive if it is FROZEN (parked at the
//                    fetch gate since before the publish, or its leader deaf):
//                    its log end is constant and it can only leave, not enter,
//                    the ISR, so "in the ISR and behind now" implies the same
//                    when the ack was sent.  For a free-running member it is
//                    not decisive (it may have been admitted between the
//                    sending and the receipt of the ack, on the strength of
//                    the HW at proposal time) and is only counted.
//   at quiescence    (all gates open, ISR as the controller says, every ISR
//                    member's log end == the leader's): every ISR member holds
//                    every positively ALL-acked message at its acked offset.

import (
	"fmt"
	"sort"
	"time"

	client "github.com/liftbridge-io/liftbridge-api/v2/go"
)

const (
	c04FpBehind = "C04:all-acked-before-isr-stored"
	c04FpOther  = "C04:all-acked-but-isr-member-holds-other-content"
	c04FpHole   = "C04:all-acked-but-isr-member-has-a-hole"
)

// c04TagOfRec: the harness tag of a stored record (the value carries TAG<..>;
// the key is the tag as well, which also works on encrypted streams).
func c04TagOfRec(r vfLogRec) string {
	if t := c04TagOf(r.Value); t != "" {
		return t
	}
	return string(r.Key)
}

// c04MemberHolds reads what partition object p stores at offset off.
// verdict: "ok" (holds tag), "behind" (log ends before off), "other" (another
// record at off), "hole" (log end covers off, nothing stored at off, a later
// offset is stored), "unreadable" (could not be decided: closed log, read
// error, concurrent truncation).
func c04MemberHolds(p *partition, tag string, off int64) (verdict, detail string) {
	if p == nil {
		return "unreadable", "no partition object"
	}
	defer func() {
		if r := recover(); r != nil {
			verdict, detail = "unreadable", fmt.Sprint(r)
		}
	}()
	newest := p.log.NewestOffset()
	if newest < off {
		return "behind", fmt.Sprintf("log ends at %d", newest)
	}
	recs, err := vfReadLog(p.log, off, true)
	if err == nil && len(recs) > 0 && recs[0].Offset == off {
		if got := c04TagOfRec(recs[0]); got != tag {
			return "other", fmt.Sprintf("stores %q (leader epoch %d) at offset %d, log end %d", got, recs[0].Epoch, off, newest)
		}
		return "ok", ""
	}
	// not found by a positioned read: decide on a full scan
	all, err := vfReadLog(p.log, 0, true)
	if err != nil {
		return "unreadable", err.Error()
	}
	var before, after int64 = -1, -1
	for _, r := range all {
		switch {
		case r.Offset == off:
			if got := c04TagOfRec(r); got != tag {
				return "other", fmt.Sprintf("stores %q (leader epoch %d) at offset %d, log end %d", got, r.Epoch, off, newest)
			}
			return "ok", ""
		case r.Offset < off:
			before = r.Offset
		case after == -1:
			after = r.Offset
		}
	}
	if after != -1 {
		return "hole", fmt.Sprintf("a reader of its log steps from offset %d to offset %d (log end %d)", before, after, newest)
	}
	return "unreadable", fmt.Sprintf("offset %d not reached by a scan although the log end is %d", off, newest)
}

// c04JudgeAllAck: the decisive check at the receipt of a positive ALL ack.
// isr is the leader's in-sync set read AFTER the ack arrived; part returns the
// partition object of a running replica (nil: not running, skipped); frozen
// tells whether a replica has been unable to append or to enter the ISR since
// before the message was published (nil: nobody).  behindFree counts members
// that were behind but free-running (not decisive).
func c04JudgeAllAck(isr []string, leader string, part func(id string) *partition, frozen func(id string) bool, tag string, off int64) (fp, what string, behindFree int) {
	for _, id := range isr {
		p := part(id)
		if p == nil {
			continue
		}
		isFrozen := frozen != nil && frozen(id) // read BEFORE the log: frozen now => frozen since the publish
		v, d := c04MemberHolds(p, tag, off)
		switch v {
		case "behind":
			if !isFrozen || (frozen != nil && !frozen(id)) {
				behindFree++
				continue
			}
			return c04FpBehind, fmt.Sprintf("ALL-policy ack for %s at offset %d received while replica %s (unable to fetch since before the publish), a member of leader %s's in-sync set %v, has not stored that offset (%s)", tag, off, id, leader, isr, d), behindFree
		case "other":
			return c04FpOther, fmt.Sprintf("ALL-policy ack for %s at offset %d received while replica %s, a member of leader %s's in-sync set %v, %s", tag, off, id, leader, isr, d), behindFree
		case "hole":
			return c04FpHole, fmt.Sprintf("ALL-policy ack for %s at offset %d received while replica %s, a member of leader %s's in-sync set %v, does not store that offset: %s", tag, off, id, leader, isr, d), behindFree
		}
	}
	return "", "", behindFree
}

// c04LeaderNow returns, WITHOUT waiting, the server that leads the partition
// under the highest leader epoch any running server has applied, or nil if
// that server is not leading (yet, or any more).  Used by ack callbacks: the
// state has to be read when the ack arrives, not after the cluster has agreed
// on a leader.  A straggler that still leads under an older epoch is never
// returned (the sender of a later term's ack may have stepped down already and
// its successor may not have started: then nobody is returned).
func c04LeaderNow(c *vfCluster, stream string) (*vfNode, *partition) {
	var maxEpoch uint64
	name := ""
	for _, n := range c.Running() {
		p := n.Partition(stream, 0)
		if p == nil {
			continue
		}
		if l, ep := p.GetLeader(); l != "" && (name == "" || ep > maxEpoch) {
			name, maxEpoch = l, ep
		}
	}
	n := c.Nodes[name]
	if n == nil || !n.IsUp() {
		return nil, nil
	}
	p := n.Partition(stream, 0)
	if p == nil {
		return nil, nil
	}
	p.mu.RLock()
	ok := p.isLeading && p.LeaderEpoch == maxEpoch && p.Leader == name
	p.mu.RUnlock()
	if !ok {
		return nil, nil
	}
	return n, p
}

type c04AckedRec struct {
	Tag    string
	Offset int64
}

// c04PositiveAllAcks lists (tag, offset) of every ALL-policy message of the
// publisher that has exactly one ack and that ack is positive.
func c04PositiveAllAcks(pub *c04Pub) []c04AckedRec {
	pub.mu.Lock()
	defer pub.mu.Unlock()
	var out []c04AckedRec
	for _, m := range pub.all {
		if m.Raw || len(m.Acks) != 1 || m.Acks[0].AckError != client.Ack_OK || m.Policy != client.AckPolicy_ALL {
			continue
		}
		out = append(out, c04AckedRec{m.Tag, m.Acks[0].Offset})
	}
	return out
}

func c04SameSet(a, b []string) bool {
	if len(a) != len(b) {
		return false
	}
	x, y := vfSortedStrings(a), vfSortedStrings(b)
	for i := range x {
		if x[i] != y[i] {
			return false
		}
	}
	return true
}

// c04Quiescent waits (watchdog d) until the partition is quiet: an agreed
// leader, the leader's in-sync set equals the metadata leader's and has
// wantISR members (0: any size), every member runs and its log end equals the
// leader's.  Returns the leader node and the set, or ok=false (inconclusive).
func c04Quiescent(c *vfCluster, stream string, wantISR int, d time.Duration) (ln *vfNode, isr []string, ok bool) {
	ok = vfWait(d, func() bool {
		n, err := c.PartitionLeader(stream, 0, 10*time.Millisecond)
		if err != nil {
			return false
		}
		lp := n.Partition(stream, 0)
		if lp == nil {
			return false
		}
		set := lp.GetISR()
		if wantISR > 0 && len(set) != wantISR {
			return false
		}
		ml := c.metaLeaderNow()
		if ml == nil {
			return false
		}
		mp := ml.metadata.GetPartition(stream, 0)
		if mp == nil || !c04SameSet(mp.GetISR(), set) {
			return false
		}
		end := lp.log.NewestOffset()
		if lp.log.HighWatermark() != end {
			return false
		}
		for _, id := range set {
			node := c.Nodes[id]
			if node == nil || !node.IsUp() {
				return false
			}
			p := node.Partition(stream, 0)
			if p == nil || p.log.NewestOffset() != end {
				return false
			}
		}
		ln, isr = n, set
		return true
	})
	return ln, isr, ok
}

// c04JudgeQuiescent compares every ISR member's log with the positive ALL acks
// (call after c04Quiescent succeeded and with the publishers idle).  Reports
// at most one violation per member through fail; returns how many (member,
// ack) pairs were compared.
func c04JudgeQuiescent(c *vfCluster, stream string, ln *vfNode, isr []string, acked []c04AckedRec, fail func(fp, what string)) int {
	sort.Slice(acked, func(i, j int) bool { return acked[i].Offset < acked[j].Offset })
	judged := 0
	for _, id := range isr {
		node := c.Nodes[id]
		if node == nil || !node.IsUp() {
			continue
		}
		p := node.Partition(stream, 0)
		if p == nil {
			continue
		}
		recs, err := vfReadLog(p.log, 0, true)
		if err != nil {
			continue
		}
		have := map[int64]vfLogRec{}
		var last int64 = -1
		for _, r := range recs {
			have[r.Offset] = r
			last = r.Offset
		}
		for _, a := range acked {
			judged++
			r, okh := have[a.Offset]
			switch {
			case okh && c04TagOfRec(r) == a.Tag:
				continue
			case okh:
				fail(c04FpOther, fmt.Sprintf("at quiescence (in-sync set %v of leader %s, all log ends equal): replica %s stores %q (leader epoch %d) at offset %d, where %s was acknowledged with policy ALL", isr, ln.ID, id, c04TagOfRec(r), r.Epoch, a.Offset, a.Tag))
			case a.Offset <= last:
				fail(c04FpHole, fmt.Sprintf("at quiescence (in-sync set %v of leader %s, all log ends equal): replica %s stores nothing at offset %d (its log runs to %d), where %s was acknowledged with policy ALL", isr, ln.ID, id, a.Offset, last, a.Tag))
			default:
				fail(c04FpBehind, fmt.Sprintf("at quiescence (in-sync set %v of leader %s): replica %s's log ends at %d, before offset %d where %s was acknowledged with policy ALL", isr, ln.ID, id, last, a.Offset, a.Tag))
			}
			break
		}
	}
	return judged
}
