//go:build verif

package server

// C13 units: seeded random schedules and a small-scope enumeration of the
// hand-over pattern (old subscription ends in every way / new member of the
// same or another consumer id with older, equal, newer epoch / third member),
// both judged by the monitor in c13_monitor_test.go.

import (
	"fmt"
	"testing"

	kit "github.com/liftbridge-io/liftbridge/internal/verifkit"
)

const c13Rule = "ACTIVE = accepted, Closed() open, context not cancelled, loop still in its body (probe through the consumer goroutine). " +
	"After every round of concurrent actions (no call in flight) and at every quiescent point: (A) <=1 ACTIVE subscription per group; " +
	"(B) the ACTIVE one is the subscription object GetGroupConsumer names; (C) a FailedPrecondition refusal needs a possible holder with a strictly newer epoch; " +
	"(D) a subscription closed by neither its client nor its own consumer needs an accepted call of the group with an equal/newer epoch (refused, invalid and older-epoch calls leave the holder untouched). " +
	"(E) a subscription that is not the group entry of its partition object and whose Closed() is still open needs a passage of ITS loop through the clean-up hook (attributed by goroutine identity): otherwise it was replaced without being cancelled - a state predicate judged at once; a status handed to its consumer is not a cancellation. " +
	"Consumers are parked in one select over Messages()/Errors()/Closed(); on a status they cancel their context, Close() (api.Subscribe), or record it and keep listening (~1/5 of the seeded members); ~1/10 do not listen on Errors() at all. " +
	"non-trivial = a loop clean-up (hook sub.beforeRemoveGroup) was let go while another subscription of the group was ACTIVE, or >=2 subscribes of one group ran concurrently with >=1 accepted; " +
	"distinct = per-call (round, group, consumer class, epoch relation, mode, result) string + per-clean-up (delay kind, #active seen)"

func c13GenProgram(rng *kit.RNG) (prog []c13Round, ngroups int) {
	ngroups = 1
	if rng.Chance(3, 10) {
		ngroups = 2
	}
	cidPolicy := rng.Intn(3) // 0: every subscribe its own consumer id, 1: pool of three, 2: mostly the same id
	maxE := []uint64{c13BaseEpoch, c13BaseEpoch}
	nextCid := 0
	pickCid := func() string {
		switch cidPolicy {
		case 0:
			nextCid++
			return fmt.Sprintf("u%d", nextCid)
		case 1:
			return []string{"x", "y", "z"}[rng.Intn(3)]
		}
		return []string{"x", "x", "x", "y"}[rng.Intn(4)]
	}
	nr := rng.Range(3, 7)
	for r := 0; r < nr; r++ {
		var rd c13Round
		na := 1
		switch x := rng.Intn(100); {
		case x < 30:
		case x < 65:
			na = 2
		case x < 90:
			na = 3
		default:
			na = 4
		}
		for i := 0; i < na; i++ {
			g := rng.Intn(ngroups)
			a := c13Act{G: g, Pre: rng.Intn(3), Pick: rng.Uint64()}
			x := rng.Intn(100)
			if r == 0 && i == 0 {
				x = 0
			}
			switch {
			case x < 58:
				a.Kind = "sub"
				a.Cid = pickCid()
				switch e := rng.Intn(100); {
				case e < 50:
					a.Epoch = maxE[g]
				case e < 75:
					maxE[g]++
					a.Epoch = maxE[g]
				default:
					a.Epoch = maxE[g] - uint64(rng.Range(1, 2))
				}
				switch m := rng.Intn(100); {
				case m < 35:
					a.Mode = "new"
				case m < 55:
					a.Mode = "earliest"
				case m < 70:
					a.Mode = "stopOffset"
					a.A = rng.Intn(5)
					a.B = rng.Intn(a.A + 1)
				case m < 85:
					a.Mode = "stopLatest"
					a.A = rng.Intn(2)
				default:
					a.Mode = "invalid"
					a.A = rng.Intn(3)
				}
				a.Gate = rng.Chance(4, 10)
				a.CloseAfterEnd = rng.Chance(6, 10)
				a.Linger = rng.Chance(3, 10)
				// consumer kind, derived from the action's own random word so that
				// the rest of the program is the one earlier versions generated
				switch k := (a.Pick >> 33) % 10; {
				case k < 2:
					a.Keep = true // records a status and keeps listening
				case k == 2:
					a.NoErr = true // does not listen on Errors() (subscriptions without a stop position only)
				}
			case x < 68:
				a.Kind = "cancel"
			case x < 78:
				a.Kind = "close"
			case x < 86:
				a.Kind = "undrain"
			default:
				a.Kind = "release"
				a.All = rng.Bool()
			}
			if a.Kind == "cancel" || a.Kind == "close" || a.Kind == "undrain" {
				a.Target = "latest"
				if rng.Chance(4, 10) {
					a.Target = "random"
				}
			}
			rd.Acts = append(rd.Acts, a)
		}
		rd.Quiesce = rng.Chance(35, 100) || r == nr-1
		prog = append(prog, rd)
	}
	return prog, ngroups
}

// TestVerifC13Schedules: seeded random schedules of concurrent actions.
func TestVerifC13Schedules(t *testing.T) {
	rep := kit.NewReport("C13", "schedules")
	defer rep.Write()
	defer c13UnitWatchdog(rep, "schedules")()
	rep.SetRule("seeded programs of 3..7 rounds, each 1..4 CONCURRENT actions on 1..2 consumer groups of one partition of a single-node server: partition.Subscribe (epoch equal / newer / older than the planned group maximum; consumer ids all distinct, from a pool of 3, or mostly the same; NEW_ONLY, EARLIEST, stop offset, STOP_LATEST, invalid stop<start; consumer goroutine optionally gated), context cancellation, sub.Close(), release of drain gates, release of parked clean-ups; 3 of 8 programs run with their epochs re-labelled monotonically onto boundary values of the uint64 domain (low: 0,1,2..; high: max-3..max; mixed: 0,1,max-1,max) for current and incoming members; the sub.beforeRemoveGroup hook passes / yields / sleeps / parks each exiting loop's clean-up (PRNG). " + c13Rule)
	rep.Assume("a subscription whose loop has left its body but whose group entry is not yet removed still counts as a possible holder for refusals (transient state); a stale entry found at quiescence with no ACTIVE subscription is only counted, not judged")
	workers := kit.Workers()
	env := c13Start(rep, "c13s", workers)
	if env == nil {
		return
	}
	defer env.stop()
	n := kit.Scale(30000, 300000)
	root := kit.NewRNG(kit.Mix(kit.Seed(), 0xC13))
	seeds := make([]uint64, n)
	for i := range seeds {
		seeds[i] = root.Uint64()
	}
	kit.Parallel(n, workers, func(i int) {
		if rep.NumViolations() >= 6 {
			return
		}
		rng := kit.NewRNG(seeds[i])
		prog, ng := c13GenProgram(rng)
		// 3 of 8 cases run under a boundary epoch alphabet (c13_api_test.go)
		al := "plain"
		if i%8 >= 5 {
			al = c13EpochAlphabets[i%8-4]
			prog = c13MapProgram(al, prog)
		}
		st := <-env.pool
		c := c13NewCase(rep, "schedules", i, seeds[i], env.srv, st, ng, "random", prog)
		c.label = "alphabet " + al
		c.run()
		c13CountBoundary(c)
		if i < 3 {
			rep.Sample(map[string]interface{}{"case": i, "program": c13ProgString(prog), "outcome": c.signature()})
		}
		env.pool <- st
	})
}

type c13Combo struct {
	OldEnd, Mode1, Timing, Cid2 string
	E2                          uint64
	Mode2, Cid3                 string
	E3                          uint64
}

func (k c13Combo) String() string {
	return fmt.Sprintf("old=%s/%s cleanup=%s new=(%s,e%d,%s) third=(%s,e%d)", k.OldEnd, k.Mode1, k.Timing, k.Cid2, k.E2, k.Mode2, k.Cid3, k.E3)
}

func (k c13Combo) program() (prog []c13Round, policy string) {
	policy = "pass"
	if k.Timing == "after" {
		policy = "park"
	}
	first := c13Act{Kind: "sub", G: 0, Cid: "x", Epoch: c13BaseEpoch, Mode: k.Mode1}
	if k.OldEnd == "selfEnd" || k.OldEnd == "selfEndNoClose" {
		first.Gate = true
		first.CloseAfterEnd = k.OldEnd == "selfEnd"
	}
	prog = append(prog, c13Round{Acts: []c13Act{first}})
	if k.OldEnd != "live" {
		rd := c13Round{}
		switch k.OldEnd {
		case "selfEnd", "selfEndNoClose":
			rd.Acts = []c13Act{{Kind: "undrain", G: 0, Target: "latest"}}
			rd.WaitEnded = true
		case "ctxCancel":
			rd.Acts = []c13Act{{Kind: "cancel", G: 0, Target: "latest"}}
		case "close":
			rd.Acts = []c13Act{{Kind: "close", G: 0, Target: "latest"}}
		}
		if k.Timing == "after" {
			rd.WaitParked = 1
		} else {
			rd.Quiesce = true
		}
		prog = append(prog, rd)
	}
	cid2 := "x"
	if k.Cid2 == "other" {
		cid2 = "y"
	}
	prog = append(prog, c13Round{Acts: []c13Act{{Kind: "sub", G: 0, Cid: cid2, Epoch: k.E2, Mode: k.Mode2, CloseAfterEnd: true}}})
	prog = append(prog, c13Round{Acts: []c13Act{{Kind: "release", All: true}}, Quiesce: true})
	cid3 := "w"
	if k.Cid3 == "sameAsNew" {
		cid3 = cid2
	}
	prog = append(prog, c13Round{Acts: []c13Act{{Kind: "sub", G: 0, Cid: cid3, Epoch: k.E3, Mode: "new"}}, Quiesce: true})
	return prog, policy
}

func c13HandoverCombos() (combos []c13Combo) {
	for _, old := range [][2]string{{"live", "new"}, {"live", "earliest"}, {"ctxCancel", "new"}, {"ctxCancel", "earliest"}, {"close", "new"}, {"close", "earliest"}, {"selfEnd", "stopLatest"}, {"selfEndNoClose", "stopLatest"}} {
		for _, timing := range []string{"before", "after"} {
			for _, cid2 := range []string{"same", "other"} {
				for _, e2 := range []uint64{4, 5, 6} {
					for _, m2 := range []string{"new", "earliest", "stopLatest", "invalid"} {
						for _, cid3 := range []string{"fresh", "sameAsNew"} {
							for _, e3 := range []uint64{3, 5, 6} {
								combos = append(combos, c13Combo{old[0], old[1], timing, cid2, e2, m2, cid3, e3})
							}
						}
					}
				}
			}
		}
	}
	return combos
}

// TestVerifC13Handover: every combination of the three-member hand-over.
func TestVerifC13Handover(t *testing.T) {
	rep := kit.NewReport("C13", "handover")
	defer rep.Write()
	defer c13UnitWatchdog(rep, "handover")()
	rep.SetRule("small-scope enumeration, one step at a time (exact, no concurrency between calls): member x (epoch 5) subscribes; it then stays live / ends by itself (stop-latest, with or without the consumer's Close()) / is cancelled through its context / is Close()d; its loop's clean-up runs BEFORE the next subscribe or is parked by the hook until AFTER it; a new member (same or other consumer id; epoch 4, 5, 6; NEW_ONLY, EARLIEST, STOP_LATEST or invalid stop<start) subscribes; parked clean-ups are released; a third member (new id or the id of the second; epoch 3, 5, 6) subscribes. " + c13Rule)
	rep.SetExhaustive(true)
	combos := c13HandoverCombos()
	rep.SetInfo("combinations", len(combos))
	workers := kit.Workers()
	env := c13Start(rep, "c13h", workers)
	if env == nil {
		return
	}
	defer env.stop()
	base := kit.Mix(kit.Seed(), 0xC13B)
	kit.Parallel(len(combos), workers, func(i int) {
		if rep.NumViolations() >= 12 {
			return
		}
		k := combos[i]
		prog, policy := k.program()
		st := <-env.pool
		c := c13NewCase(rep, "handover", i, kit.Mix(base, uint64(i)), env.srv, st, 1, policy, prog)
		c.label = k.String()
		c.run()
		if i%577 == 0 {
			rep.Sample(map[string]interface{}{"combination": k.String(), "program": c13ProgString(prog), "outcome": c.signature()})
		}
		env.pool <- st
	})
}
