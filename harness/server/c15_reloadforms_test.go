//go:build verif

package server

// C15, event class "the ways a policy file is replaced".  The reload and
// boundary units configure the policy as a regular file and rewrite it (rename
// over the path, or truncate and write).  Deployments replace the permissions
// in other ways, and the configured path is not always a regular file.  This
// unit starts one server per PATH LAYOUT
//
//   regular        two regular files, absolute paths
//   symlink-file   policy.csv and model.conf are symbolic links to versioned files
//   configmap      a mounted Kubernetes ConfigMap: policy.csv -> ..data/policy.csv,
//                  ..data -> ..<timestamp>/ (the model file lives there too)
//   symlinked-dir  <dir>/current/policy.csv where 'current' links to a release directory
//   relative       paths relative to the working directory of the process
//   hardlink       policy.csv is a second name of a file kept elsewhere
//
// and drives it through the UPDATE FORMS that belong to the layout (unlink and
// re-create, truncate and rewrite, overwrite then truncate, rename over the
// path, a new inode linked into place; re-pointing the link atomically or by
// remove-and-create, with relative and absolute link targets, with and without
// removing the old version; editing the target through the link; a regular file
// renamed over the link; the ConfigMap update sequence; a release switch;
// editing the other name of a hard link).  Every update installs a freshly
// generated policy set and is followed by a real SIGHUP.  Then the decisions
// must follow the NEW file: revoked = refused and nothing changes, granted =
// works (probes for every caller kind, then full cases under the digest / fence
// oracle of the ACL unit for calls whose decision the update changed).
//
// Reloads that FAIL are part of the class: the path vanishes, dangles, becomes a
// directory, or holds a file that grants everything to a caller without lines
// and then breaks off in a malformed line.  Only safety is judged there: what
// the last successfully loaded set denies must still be refused and change
// nothing.  Afterwards a good file installed by the layout's ordinary form must
// take effect.

import (
	"fmt"
	"os"
	"path/filepath"
	"strings"
	"sync/atomic"
	"syscall"
	"testing"
	"time"

	client "github.com/liftbridge-io/liftbridge-api/v2/go"
	"github.com/sirupsen/logrus"
	gproto "google.golang.org/protobuf/proto"

	kit "github.com/liftbridge-io/liftbridge/internal/verifkit"
)

// ---------------------------------------------------------------- layouts

type c15fState struct {
	dir    string
	abs    string // absolute location of what the configured policy path names
	ver    int
	master string // hardlink layout: the other name
	cur    string // symlink layouts: what the link points at now (for removal)
}

type c15fForm struct {
	name  string
	class string // in-place | replace | relink
	apply func(st *c15fState, content string) error
}

type c15fLayout struct {
	name  string
	class string // regular | symlink | relative | hardlink
	setup func(st *c15fState, dir, model, policy string) (modelPath, policyPath string, err error)
	forms []c15fForm
	// dangle: make the configured path name nothing loadable in the way that
	// belongs to the layout ("" = by removing the path)
	dangle func(st *c15fState) error
}

func c15fWrite(path, content string) error { return os.WriteFile(path, []byte(content), 0644) }

// c15fClear removes a directory a failing form left at the path.
func c15fClear(st *c15fState) {
	if fi, err := os.Lstat(st.abs); err == nil && fi.IsDir() {
		os.RemoveAll(st.abs)
	}
}

func c15fRenameOver(st *c15fState, content string) error {
	tmp := st.abs + ".tmp"
	if err := c15fWrite(tmp, content); err != nil {
		return err
	}
	return os.Rename(tmp, st.abs)
}

func c15fTruncateRewrite(st *c15fState, content string) error {
	f, err := os.OpenFile(st.abs, os.O_WRONLY|os.O_TRUNC|os.O_CREATE, 0644)
	if err != nil {
		return err
	}
	defer f.Close()
	_, err = f.WriteString(content)
	return err
}

// c15fRelink points link at target: atomically (new link renamed over the old
// one: ln -sfn) or by remove-and-create.
func c15fRelink(link, target string, atomic bool) error {
	if atomic {
		tmp := link + ".lnk"
		os.Remove(tmp)
		if err := os.Symlink(target, tmp); err != nil {
			return err
		}
		return os.Rename(tmp, link)
	}
	if err := os.Remove(link); err != nil && !os.IsNotExist(err) {
		return err
	}
	return os.Symlink(target, link)
}

func c15fLayouts() []*c15fLayout {
	regularSetup := func(st *c15fState, dir, model, policy string) (string, string, error) {
		st.abs = filepath.Join(dir, "policy.csv")
		mp := filepath.Join(dir, "model.conf")
		if err := c15fWrite(mp, model); err != nil {
			return "", "", err
		}
		return mp, st.abs, c15fWrite(st.abs, policy)
	}
	// a new version file next to the old ones; the link gets re-pointed
	versioned := func(atomic, absTarget, removeOld bool) func(st *c15fState, content string) error {
		return func(st *c15fState, content string) error {
			st.ver++
			rel := filepath.Join("versions", fmt.Sprintf("policy-v%d.csv", st.ver))
			full := filepath.Join(st.dir, rel)
			if err := c15fWrite(full, content); err != nil {
				return err
			}
			target := rel
			if absTarget {
				target = full
			}
			if err := c15fRelink(st.abs, target, atomic); err != nil {
				return err
			}
			if removeOld && st.cur != "" && st.cur != full {
				os.Remove(st.cur)
			}
			st.cur = full
			return nil
		}
	}
	return []*c15fLayout{
		{
			name: "symlink-file", class: "symlink",
			setup: func(st *c15fState, dir, model, policy string) (string, string, error) {
				if err := os.MkdirAll(filepath.Join(dir, "versions"), 0755); err != nil {
					return "", "", err
				}
				st.abs = filepath.Join(dir, "policy.csv")
				st.cur = filepath.Join(dir, "versions", "policy-v0.csv")
				if err := c15fWrite(st.cur, policy); err != nil {
					return "", "", err
				}
				if err := c15fWrite(filepath.Join(dir, "versions", "model-v0.conf"), model); err != nil {
					return "", "", err
				}
				mp := filepath.Join(dir, "model.conf")
				if err := os.Symlink(filepath.Join("versions", "model-v0.conf"), mp); err != nil {
					return "", "", err
				}
				return mp, st.abs, os.Symlink(filepath.Join("versions", "policy-v0.csv"), st.abs)
			},
			forms: []c15fForm{
				{"relink-atomic", "relink", versioned(true, false, false)},
				{"edit-target-through-the-link", "in-place", func(st *c15fState, content string) error { return c15fWrite(st.abs, content) }},
				{"relink-remove-then-create", "relink", versioned(false, false, true)},
				{"regular-file-renamed-over-the-link", "replace", func(st *c15fState, content string) error {
					st.cur = ""
					return c15fRenameOver(st, content)
				}},
				{"relink-atomic-absolute-target-old-version-removed", "relink", versioned(true, true, true)},
			},
			dangle: func(st *c15fState) error {
				return c15fRelink(st.abs, filepath.Join("versions", "policy-does-not-exist.csv"), true)
			},
		},
		{
			name: "regular", class: "regular", setup: regularSetup,
			forms: []c15fForm{
				{"unlink-then-recreate", "replace", func(st *c15fState, content string) error {
					if err := os.Remove(st.abs); err != nil && !os.IsNotExist(err) {
						return err
					}
					return c15fWrite(st.abs, content)
				}},
				{"overwrite-then-truncate", "in-place", func(st *c15fState, content string) error {
					f, err := os.OpenFile(st.abs, os.O_WRONLY|os.O_CREATE, 0644)
					if err != nil {
						return err
					}
					defer f.Close()
					if _, err := f.WriteString(content); err != nil {
						return err
					}
					return f.Truncate(int64(len(content)))
				}},
				{"new-inode-linked-into-place", "replace", func(st *c15fState, content string) error {
					a, b := st.abs+".new", st.abs+".new.lnk"
					os.Remove(b)
					if err := c15fWrite(a, content); err != nil {
						return err
					}
					if err := os.Link(a, b); err != nil {
						return err
					}
					if err := os.Rename(b, st.abs); err != nil {
						return err
					}
					return os.Remove(a)
				}},
				{"truncate-then-rewrite", "in-place", c15fTruncateRewrite},
			},
		},
		{
			name: "relative", class: "relative",
			setup: func(st *c15fState, dir, model, policy string) (string, string, error) {
				mp, pp, err := regularSetup(st, dir, model, policy)
				if err != nil {
					return "", "", err
				}
				cwd, err := os.Getwd()
				if err != nil {
					return "", "", err
				}
				if mp, err = filepath.Rel(cwd, mp); err != nil {
					return "", "", err
				}
				if pp, err = filepath.Rel(cwd, pp); err != nil {
					return "", "", err
				}
				return mp, pp, nil
			},
			forms: []c15fForm{
				{"rename-over-the-path", "replace", c15fRenameOver},
				{"truncate-then-rewrite", "in-place", c15fTruncateRewrite},
			},
		},
		{
			name: "configmap", class: "symlink",
			setup: func(st *c15fState, dir, model, policy string) (string, string, error) {
				mnt := filepath.Join(dir, "mount")
				first := filepath.Join(mnt, "..2026_09_24_00_00_00.000000000")
				if err := os.MkdirAll(first, 0755); err != nil {
					return "", "", err
				}
				if err := c15fWrite(filepath.Join(first, "policy.csv"), policy); err != nil {
					return "", "", err
				}
				if err := c15fWrite(filepath.Join(first, "model.conf"), model); err != nil {
					return "", "", err
				}
				if err := os.Symlink(filepath.Base(first), filepath.Join(mnt, "..data")); err != nil {
					return "", "", err
				}
				st.cur = first
				st.abs = filepath.Join(mnt, "policy.csv")
				mp := filepath.Join(mnt, "model.conf")
				if err := os.Symlink(filepath.Join("..data", "model.conf"), mp); err != nil {
					return "", "", err
				}
				return mp, st.abs, os.Symlink(filepath.Join("..data", "policy.csv"), st.abs)
			},
			forms: []c15fForm{
				{"configmap-update", "relink", func(st *c15fState, content string) error {
					// what the kubelet does: a new timestamped directory, ..data
					// re-pointed atomically, the old directory removed
					mnt := filepath.Dir(st.abs)
					st.ver++
					next := filepath.Join(mnt, fmt.Sprintf("..2026_09_24_00_%02d_%02d.000000000", st.ver/60, st.ver%60))
					if err := os.MkdirAll(next, 0755); err != nil {
						return err
					}
					if err := c15fWrite(filepath.Join(next, "policy.csv"), content); err != nil {
						return err
					}
					if err := c15fWrite(filepath.Join(next, "model.conf"), c15Model); err != nil {
						return err
					}
					if err := c15fRelink(filepath.Join(mnt, "..data"), filepath.Base(next), true); err != nil {
						return err
					}
					if _, err := os.Lstat(st.abs); err != nil { // a failing form removed the user-visible link
						if err := os.Symlink(filepath.Join("..data", "policy.csv"), st.abs); err != nil {
							return err
						}
					}
					if st.cur != "" && st.cur != next {
						os.RemoveAll(st.cur)
					}
					st.cur = next
					return nil
				}},
			},
			dangle: func(st *c15fState) error {
				return c15fRelink(filepath.Join(filepath.Dir(st.abs), "..data"), "..does-not-exist", true)
			},
		},
		{
			name: "hardlink", class: "hardlink",
			setup: func(st *c15fState, dir, model, policy string) (string, string, error) {
				if err := os.MkdirAll(filepath.Join(dir, "store"), 0755); err != nil {
					return "", "", err
				}
				st.master = filepath.Join(dir, "store", "policy-master-0.csv")
				st.abs = filepath.Join(dir, "policy.csv")
				mp := filepath.Join(dir, "model.conf")
				if err := c15fWrite(mp, model); err != nil {
					return "", "", err
				}
				if err := c15fWrite(st.master, policy); err != nil {
					return "", "", err
				}
				return mp, st.abs, os.Link(st.master, st.abs)
			},
			forms: []c15fForm{
				{"new-master-linked-over-the-path", "replace", func(st *c15fState, content string) error {
					st.ver++
					st.master = filepath.Join(st.dir, "store", fmt.Sprintf("policy-master-%d.csv", st.ver))
					if err := c15fWrite(st.master, content); err != nil {
						return err
					}
					tmp := st.abs + ".lnk"
					os.Remove(tmp)
					if err := os.Link(st.master, tmp); err != nil {
						return err
					}
					return os.Rename(tmp, st.abs)
				}},
				{"edit-the-other-name-in-place", "in-place", func(st *c15fState, content string) error {
					f, err := os.OpenFile(st.master, os.O_WRONLY|os.O_TRUNC, 0644)
					if err != nil {
						return err
					}
					defer f.Close()
					_, err = f.WriteString(content)
					return err
				}},
			},
		},
		{
			name: "symlinked-dir", class: "symlink",
			setup: func(st *c15fState, dir, model, policy string) (string, string, error) {
				r0 := filepath.Join(dir, "releases", "r0")
				if err := os.MkdirAll(r0, 0755); err != nil {
					return "", "", err
				}
				if err := c15fWrite(filepath.Join(r0, "policy.csv"), policy); err != nil {
					return "", "", err
				}
				if err := c15fWrite(filepath.Join(r0, "model.conf"), model); err != nil {
					return "", "", err
				}
				if err := os.Symlink(filepath.Join("releases", "r0"), filepath.Join(dir, "current")); err != nil {
					return "", "", err
				}
				st.cur = r0
				st.abs = filepath.Join(dir, "current", "policy.csv")
				return filepath.Join(dir, "current", "model.conf"), st.abs, nil
			},
			forms: []c15fForm{
				{"release-switch", "relink", func(st *c15fState, content string) error {
					st.ver++
					rel := filepath.Join("releases", fmt.Sprintf("r%d", st.ver))
					next := filepath.Join(st.dir, rel)
					if err := os.MkdirAll(next, 0755); err != nil {
						return err
					}
					if err := c15fWrite(filepath.Join(next, "policy.csv"), content); err != nil {
						return err
					}
					if err := c15fWrite(filepath.Join(next, "model.conf"), c15Model); err != nil {
						return err
					}
					if err := c15fRelink(filepath.Join(st.dir, "current"), rel, true); err != nil {
						return err
					}
					if st.ver%2 == 0 && st.cur != next {
						os.RemoveAll(st.cur) // every other switch cleans the previous release up
					}
					st.cur = next
					return nil
				}},
				{"edit-in-the-current-release", "in-place", c15fTruncateRewrite},
			},
			dangle: func(st *c15fState) error {
				return c15fRelink(filepath.Join(st.dir, "current"), filepath.Join("releases", "does-not-exist"), true)
			},
		},
	}
}

// ---------------------------------------------------------------- completion witness

// c15fHook counts the two lines with which the SIGHUP handler reports the end
// of a reload.  It is a witness only: it shortens the wait for a verdict that
// the watchdog path reaches too, and a tree that words the lines differently
// simply falls back to that path.
type c15fHook struct{ ok, fail int64 }

func (h *c15fHook) Levels() []logrus.Level { return logrus.AllLevels }
func (h *c15fHook) Fire(e *logrus.Entry) error {
	switch {
	case strings.Contains(e.Message, "Reloaded authorization permissions"):
		atomic.AddInt64(&h.ok, 1)
	case strings.Contains(e.Message, "reloading authorization permissions"):
		atomic.AddInt64(&h.fail, 1)
	}
	return nil
}
func (h *c15fHook) total() int64 {
	if h == nil {
		return 0
	}
	return atomic.LoadInt64(&h.ok) + atomic.LoadInt64(&h.fail)
}

func (w *c15World) c15fAttach() *c15fHook {
	ah, ok := w.srv.logger.(interface{ AddHook(logrus.Hook) })
	if !ok {
		return nil
	}
	h := &c15fHook{}
	ah.AddHook(h)
	return h
}

func (w *c15World) c15fSignal() error {
	for len(w.hup) > 0 {
		<-w.hup
	}
	if err := syscall.Kill(os.Getpid(), syscall.SIGHUP); err != nil {
		return err
	}
	w.reloads++
	select {
	case <-w.hup:
		return nil
	case <-time.After(c15Wait):
		return fmt.Errorf("SIGHUP not dispatched to the process within %v: %w", c15Wait, errVfTimeout)
	}
}

func (w *c15World) c15fProgress() error {
	if err := w.c.NC.FlushTimeout(c15Wait); err != nil {
		return fmt.Errorf("NATS round trip failed while waiting for the reload: %v: %w", err, errVfTimeout)
	}
	if err := w.srv.getRaft().Barrier(c15Wait).Error(); err != nil {
		return fmt.Errorf("Raft barrier failed while waiting for the reload: %v: %w", err, errVfTimeout)
	}
	return nil
}

// c15fReload delivers SIGHUP and waits for the logical effect: the enforcer's
// rule set equals what the file means.  applied=false is returned only under a
// stuck-state predicate: three signals, each seen on the twin channel, and after
// each either the handler itself reported the end of a reload (the reloads are
// handled one after the other, so the second and third report belong to reloads
// that began after the file was in place) or a watchdog period passed while
// NATS round trips and Raft barriers completed.
func (w *c15World) c15fReload(want map[string]bool, hook *c15fHook) (applied bool, reported int, err error) {
	for attempt := 0; attempt < 3; attempt++ {
		base := hook.total()
		if err := w.c15fSignal(); err != nil {
			return false, reported, err
		}
		vfWait(c15Wait/2, func() bool {
			return c15bSameSet(w.c15bLoaded(), want) || (hook != nil && hook.total() > base)
		})
		if c15bSameSet(w.c15bLoaded(), want) {
			return true, reported, nil
		}
		if hook != nil && hook.total() > base {
			reported++
			continue
		}
		if err := w.c15fProgress(); err != nil {
			return false, reported, err
		}
		w.hupBarrier++
	}
	if c15bSameSet(w.c15bLoaded(), want) {
		return true, reported, nil
	}
	return false, reported, nil
}

// ---------------------------------------------------------------- probes

type c15fProbe struct {
	method, cli, obj string
	req              gproto.Message
}

func c15fProbeList(round int) []c15fProbe {
	callers := append(append([]string{c15Admin}, c15Cli...), c15Stranger,
		c15IdentityKinds[(int(kit.Seed()%9)+2*round)%len(c15IdentityKinds)], c15IdentityKinds[(int(kit.Seed()%9)+2*round+1)%len(c15IdentityKinds)])
	var probes []c15fProbe
	for _, cli := range callers {
		probes = append(probes, c15fProbe{"FetchMetadata", cli, "*", &client.FetchMetadataRequest{}})
		for _, s := range c15Live {
			probes = append(probes, c15fProbe{"FetchPartitionMetadata", cli, s, &client.FetchPartitionMetadataRequest{Stream: s, Partition: 0}})
		}
	}
	return probes
}

// c15fProbes: after a reload that took effect, the decisions follow the new set.
func (w *c15World) c15fProbes(round int, lay *c15fLayout, form c15fForm, old, next *c15Policy) {
	rep := w.rep
	where := "path=" + lay.class + ":update=" + form.class
	for _, p := range c15fProbeList(round) {
		_, err := w.call(p.method, p.cli, p.req, c15Wait)
		was, now := old.has(p.cli, p.obj, p.method), next.has(p.cli, p.obj, p.method)
		rep.Eval()
		if err != nil && !c15AuthzError(err) {
			rep.Inconc(fmt.Sprintf("round %d %s/%s: probe %s by %s on %s failed for another reason: %v", round, lay.name, form.name, p.method, p.cli, p.obj, err))
			continue
		}
		rep.Count("probes", 1)
		if was != now {
			rep.Nontrivial(fmt.Sprintf("%s/%s/probe/%s/%v→%v", lay.name, form.name, p.method, was, now))
			rep.Count("probes_flipped", 1)
		}
		if (err == nil) == now {
			continue
		}
		fp := "C15:reload:wrong-decision:" + where
		if was != now {
			fp = "C15:reload:stale-policy:" + where
		}
		if cls := c15IdentityClass(p.cli); cls != "" {
			fp = "C15:" + p.method + ":not-refused:caller=" + cls
		}
		rep.Violation(fp, fmt.Sprintf("round %d: layout %s, policy replaced by %s and SIGHUP delivered; the enforcer holds the rules of the new file, yet %s by %s on %s must be allowed=%v (before: %v) and returned err=%v", round, lay.name, form.name, p.method, p.cli, p.obj, now, was, err),
			map[string]interface{}{"seed": kit.Seed(), "round": round, "layout": lay.name, "update_form": form.name, "client_lines_in_the_new_file": next.linesOf(p.cli, p.obj), "client_identity": c15DescribeClient(p.cli)})
	}
}

// c15fSafetyProbes: after a reload that failed, what the set in force denies is
// still refused.  (What it allows may work or not: not judged.)
func (w *c15World) c15fSafetyProbes(round int, lay *c15fLayout, kind string, old *c15Policy) {
	rep := w.rep
	for _, p := range c15fProbeList(round) {
		_, err := w.call(p.method, p.cli, p.req, c15Wait)
		rep.Eval()
		if old.has(p.cli, p.obj, p.method) {
			if err == nil {
				rep.Count("after_failed_reload/old_grant_still_works", 1)
			} else {
				rep.Count("after_failed_reload/old_grant_refused(not judged)", 1)
			}
			continue
		}
		rep.Nontrivial(fmt.Sprintf("%s/failed:%s/probe/%s/denied", lay.name, kind, p.method))
		if err != nil {
			rep.Count("after_failed_reload/old_denial_still_refused", 1)
			continue
		}
		fp := "C15:reload:fail-open-after-failed-reload:kind=" + kind
		if cls := c15IdentityClass(p.cli); cls != "" {
			fp = "C15:" + p.method + ":not-refused:caller=" + cls
		}
		rep.Violation(fp, fmt.Sprintf("round %d: layout %s: the policy path was made unloadable (%s) and SIGHUP delivered; the last successfully loaded set gives %s no entry for %s on %s, yet the call succeeded", round, lay.name, kind, p.cli, p.method, p.obj),
			map[string]interface{}{"seed": kit.Seed(), "round": round, "layout": lay.name, "failed_reload": kind, "client_identity": c15DescribeClient(p.cli), "rules_in_the_enforcer": len(w.c15bLoaded())})
	}
}

// ---------------------------------------------------------------- unit

func TestVerifC15ReloadForms(t *testing.T) {
	shard := kit.EnvInt("C15_SHARD", 0)
	shards := kit.EnvInt("C15_SHARDS", 1)
	unit := os.Getenv("VERIF_UNIT")
	if unit == "" {
		unit = fmt.Sprintf("reloadforms-%d", shard)
	}
	rep := kit.NewReport("C15", unit)
	defer rep.Write()
	lays := c15fLayouts()
	var desc []string
	for _, l := range lays {
		var fs []string
		for _, f := range l.forms {
			fs = append(fs, f.name)
		}
		desc = append(desc, l.name+" {"+strings.Join(fs, ", ")+"}")
	}
	rep.SetRule("One server per path layout of tls.client.authz.model / .policy (this shard runs the layouts whose index is congruent to its number): " + strings.Join(desc, "; ") + ". " +
		"For every update form of the layout, several rounds: a new policy set is generated from the seed (admin every line, c1..c3 independent random subsets, stranger none), installed by that form, and a real SIGHUP is delivered; the reload is awaited on its logical effect (the enforcer's rule set equals the rules of the new file). " +
		"Then FetchMetadata / FetchPartitionMetadata probes by admin, c1..c3, the stranger and two identity-less callers must be decided by the NEW file, and seeded full cases whose decision the update changed run under the digest / fence oracle of the ACL unit (revoked: refused and nothing changes; granted: works). " +
		"After the forms, reloads that fail: the path removed, made to dangle the way the layout allows (link to a missing version / ..data to a missing directory / current to a missing release), replaced by a directory, or holding a file that first grants every documented action on every resource to the stranger and then breaks off in a malformed line; each is signalled twice. Only safety is judged: every probe and a few full cases that the last successfully loaded set denies must be refused and change nothing. Then a good file installed by the layout's first form must take effect. " +
		"non-trivial = a probe whose decision the update flipped, or a denied probe after a failed reload; signature = layout/form/probe/method/old→new, layout/failed:kind/probe/method/denied.")
	c15Assumptions(rep)
	rep.Assume("The configured policy path names whatever the file system resolves it to at the time of the reload: 'SIGHUP reloads the authorization policy' (documentation/authentication_authorization.md) is read as 're-reads the configured path', as the repository does by handing the configured string to casbin's file adapter, which opens it anew at every load. Re-pointing a symbolic link in the path is therefore a replacement of the file like any other. A working directory that changes while the server runs is not exercised (the server never changes it; which file a relative path should then name is not specified).")
	rep.Assume("When a reload fails (casbin reports an error for a missing file, a directory, a malformed line) the documentation does not say what is in force. Judged: nothing that the last successfully loaded set denies may be accepted (casbin loads into a copy of the model and swaps it in only on success). Whether the old grants keep working is counted, not judged. Files that make casbin panic instead of returning an error are not exercised here.")
	rep.Assume("The end of a reload is also witnessed by the handler's own log lines (a logrus hook on the server's logger counts 'Reloaded authorization permissions successfully' / 'Error occurred while reloading authorization permissions'). The witness only replaces watchdog periods in the stuck-state predicate: 'reload never took effect' needs three signals, each dispatched (twin channel), each followed by such a report or by a watchdog period with NATS and Raft progress; reports two and three belong to reloads that began after the file was in place because the handler works through its signals one at a time.")
	methods := c15CheckMethodCoverage(rep)
	rounds := kit.EnvInt("C15_FORM_ROUNDS", kit.Scale(2, 12))
	base := kit.NewRNG(kit.Mix(kit.Seed(), 0xc15f))
	gen := 0
	for li, lay := range lays {
		if li%shards != shard {
			continue
		}
		if rep.NumViolations() >= 20 {
			break
		}
		rng := base.Fork(uint64(li))
		gen++
		st := &c15fState{}
		pol := c15GenPolicy(rng.Fork(0), gen)
		lay := lay
		w, err := c15NewWorldLayout(rep, fmt.Sprintf("f%d", li), pol, &c15PathLayout{Name: lay.name, Setup: func(dir, model, policy string) (string, string, error) {
			st.dir = dir
			return lay.setup(st, dir, model, policy)
		}})
		if err != nil {
			rep.Inconc(fmt.Sprintf("layout %s: server with authorisation did not come up: %v", lay.name, err))
			continue
		}
		rep.Count("layouts/"+lay.name, 1)
		hook := w.c15fAttach()
		c15fRunLayout(w, rep, lay, st, hook, methods, rng, rounds, &gen)
		rep.Count("sighup_sent", int64(w.reloads))
		w.close()
	}
}

func c15fRunLayout(w *c15World, rep *kit.Report, lay *c15fLayout, st *c15fState, hook *c15fHook, methods []string, rng *kit.RNG, rounds int, gen *int) {
	// is the completion witness alive on this tree?  (same content once more)
	if hook != nil {
		base := hook.total()
		if err := w.c15fSignal(); err != nil {
			rep.Inconc(fmt.Sprintf("layout %s: %v", lay.name, err))
			return
		}
		if !vfWait(c15Wait/2, func() bool { return hook.total() > base }) {
			hook = nil
		}
	}
	if hook != nil {
		rep.Count("reload_completion_witness/handler_log_lines", 1)
	} else {
		rep.Count("reload_completion_witness/watchdog_only", 1)
	}
	round := 0
	install := func(form c15fForm, tag string) (ok bool) {
		round++
		*gen++
		r := rng.Fork(uint64(1000 + round))
		next := c15GenPolicy(r.Fork(1), *gen)
		old := w.pol
		c15fClear(st)
		content := next.csv()
		if err := form.apply(st, content); err != nil {
			rep.Inconc(fmt.Sprintf("round %d %s/%s: the harness could not replace the file: %v", round, lay.name, form.name, err))
			return false
		}
		want := c15bParse(content)
		applied, reported, err := w.c15fReload(want, hook)
		if err != nil {
			rep.Inconc(fmt.Sprintf("round %d %s/%s: policy reload: %v", round, lay.name, form.name, err))
			return false
		}
		rep.Eval()
		rep.Count("reloads/"+lay.name+"/"+form.name+tag, 1)
		if !applied {
			seen, _ := os.ReadFile(st.abs)
			rep.Violation("C15:reload:not-applied:path="+lay.class+":update="+form.class,
				fmt.Sprintf("round %d: layout %s (configured policy path %s): the permissions were replaced by '%s' (%d rules; reading the configured path now yields %d rules) and SIGHUP was delivered 3 times (each seen on the twin signal channel; the handler reported the end of a reload %d time(s), NATS round trips and Raft barriers completed otherwise), but the enforcer still holds %d rule(s) that are not those of the file: what the new file revokes stays in force and what it grants is not honoured",
					round, lay.name, w.policyPath, form.name, len(want), len(c15bParse(string(seen))), reported, len(w.c15bLoaded())),
				map[string]interface{}{"seed": kit.Seed(), "round": round, "layout": lay.name, "update_form": form.name, "configured_policy_path": w.policyPath,
					"enforcer_still_answers_with_generation": fmt.Sprintf("old marker %s: %v, new marker %s: %v", old.marker(), w.enforce(c15Marker, "gen", old.marker()), next.marker(), w.enforce(c15Marker, "gen", next.marker()))})
			return false
		}
		rep.Count("policy_reloads_by_sighup", 1)
		w.pol = next
		if err := w.normalize(); err != nil {
			rep.Inconc(fmt.Sprintf("round %d %s/%s: restoring the default world: %v", round, lay.name, form.name, err))
			return false
		}
		w.c15fProbes(round, lay, form, old, next)
		// full cases whose decision the update changed, both directions
		n, revoked, granted := 0, 0, 0
		for _, c := range w.genCalls(methods, r.Fork(2)) {
			if n >= kit.Scale(3, 6) {
				break
			}
			dec := c.decide(next)
			if dec == c15Undet || len(c.Need) == 0 {
				continue
			}
			was := old.hasAll(c.Client, c.Need) && old.hasAll(c.Client, c.Extra)
			now := dec == c15Allowed
			if was == now || (now && granted > revoked) || (!now && revoked > granted+1) {
				continue
			}
			if now {
				granted++
			} else {
				revoked++
			}
			w.exec(round, c)
			n++
		}
		rep.Count("full_cases/revoked_by_the_update", int64(revoked))
		rep.Count("full_cases/granted_by_the_update", int64(granted))
		if round <= 2 {
			rep.Sample(map[string]interface{}{"round": round, "layout": lay.name, "update_form": form.name, "configured_policy_path": w.policyPath, "rules": len(want), "handler_reports_before_effect": reported, "full_cases": n})
		}
		return true
	}
	for _, form := range lay.forms {
		for i := 0; i < rounds; i++ {
			if !install(form, "") {
				return // reported (or inconclusive): the rest of the layout would only repeat it
			}
		}
	}
	// ---- reloads that fail
	type failing struct {
		kind  string
		apply func() error
	}
	grantAll := func() string {
		var sb strings.Builder
		for _, r := range c15Resources() {
			for _, a := range c15DocActions {
				fmt.Fprintf(&sb, "p, %s, %s, %s\n", c15Stranger, r, a)
			}
		}
		sb.WriteString("p, " + c15Stranger + ", s0, \"Publish\n")
		return sb.String()
	}
	fails := []failing{
		{"path-removed", func() error { return os.Remove(st.abs) }},
		{"grants-then-malformed-line", func() error {
			c15fClear(st)
			return lay.forms[0].apply(st, grantAll())
		}},
		{"directory-at-the-path", func() error {
			if err := os.Remove(st.abs); err != nil && !os.IsNotExist(err) {
				return err
			}
			return os.Mkdir(st.abs, 0755)
		}},
	}
	if lay.dangle != nil {
		fails = append(fails, failing{"dangling-link", func() error { c15fClear(st); return lay.dangle(st) }})
	}
	nf := kit.Scale(2, len(fails))
	off := int(kit.Seed() % uint64(len(fails)))
	for i := 0; i < nf && i < len(fails); i++ {
		f := fails[(off+i)%len(fails)]
		if lay.dangle != nil && i == nf-1 && !kit.Thorough() {
			f = fails[len(fails)-1] // the layout's own way to dangle comes up in every run
		}
		round++
		if err := w.normalize(); err != nil {
			rep.Inconc(fmt.Sprintf("round %d %s failed:%s: restoring the default world: %v", round, lay.name, f.kind, err))
			return
		}
		if err := f.apply(); err != nil {
			rep.Inconc(fmt.Sprintf("round %d %s failed:%s: the harness could not prepare the path: %v", round, lay.name, f.kind, err))
			return
		}
		before := w.c15bLoaded()
		witnessed := 0
		for k := 0; k < 2; k++ {
			base := hook.total()
			if err := w.c15fSignal(); err != nil {
				rep.Inconc(fmt.Sprintf("round %d %s failed:%s: %v", round, lay.name, f.kind, err))
				return
			}
			if hook != nil && vfWait(c15Wait/2, func() bool { return hook.total() > base }) {
				witnessed++
			} else if err := w.c15fProgress(); err != nil {
				rep.Inconc(fmt.Sprintf("round %d %s failed:%s: %v", round, lay.name, f.kind, err))
				return
			}
		}
		rep.Eval()
		rep.Count("failed_reloads/"+lay.name+"/"+f.kind, 1)
		rep.Count("failed_reloads_witnessed_by_the_handler", int64(witnessed))
		if c15bSameSet(before, w.c15bLoaded()) {
			rep.Count("after_failed_reload/rule_set_unchanged", 1)
		} else {
			rep.Count("after_failed_reload/rule_set_changed(judged by the calls only)", 1)
		}
		old := w.pol
		w.c15fSafetyProbes(round, lay, f.kind, old)
		// a few full cases the set in force denies (the admin's preparation calls
		// need the old grants: only when the rule set is the old one)
		if c15bSameSet(before, w.c15bLoaded()) {
			n := 0
			for _, c := range w.genCalls(methods, rng.Fork(uint64(5000+round))) {
				if n >= 3 {
					break
				}
				if c.decide(old) != c15Denied {
					continue
				}
				w.exec(round, c)
				n++
			}
		}
		// recovery: a good file by the layout's first form
		if !install(lay.forms[0], "/after-failed:"+f.kind) {
			return
		}
	}
}
