//go:build verif

package server

// C10, forward subscriptions with a compaction IN THE MIDDLE of the delivery.
//
// The other C10 units shape the log first and run Clean() at most while a
// subscription waits at the end of the log.  Here a forward subscription
// (through apiServer.SubscribeInternal -> partition.Subscribe) has consumed k
// messages of its range — so the subscribe loop's reader stands inside a
// chosen, non-active segment — when the harness runs partition.log.Clean() on
// a compaction-only stream whose keyed content was arranged so that the
// compaction (a) shrinks some segments and (b) removes some segments
// ENTIRELY.  Then the subscription is drained and judged by the order of
// events:
//
//   - deliveries strictly increasing, each offset once, content (offset, key,
//     value, timestamp) as appended, inside the requested range, committed;
//   - every message that is retained AFTER the clean, committed, above the last
//     offset delivered before the clean and inside the requested range is
//     delivered;
//   - a message the compaction removed may be skipped; the ONE message the
//     subscribe loop may already have read when the clean ran (the message
//     channel is unbuffered) may still arrive although it was removed;
//   - a finite range ends with ResourceExhausted as soon as a committed message
//     at or beyond the bound exists; "keeps waiting" is shown by a fence
//     message (append + commit) arriving as the next delivery.
//
// Retention-driven deletion under a running subscription is kept out (not
// documented, see c10Assumptions).  Watchdog expiry => inconclusive.

import (
	"context"
	"fmt"
	"testing"
	"time"

	client "github.com/liftbridge-io/liftbridge-api/v2/go"
	"google.golang.org/grpc/codes"

	kit "github.com/liftbridge-io/liftbridge/internal/verifkit"
	"github.com/liftbridge-io/liftbridge/server/commitlog"
)

var c10MidStarts = []string{"earliest", "off-oldest", "off-existing", "off-existing", "off-in-gap", "off-below-oldest", "off-neg", "ts-at", "ts-at-oldest", "ts-between-gap", "ts-between-segments"}
var c10MidStops = []string{"on-cancel", "on-cancel", "on-cancel", "latest", "latest", "latest", "off-existing", "off-in-gap", "off-hw", "off-newest",
	"off-uncommitted", "off-fence", "off-beyond", "ts-at", "ts-between-gap", "ts-at-newest", "ts-after-all"}

// c10MidAppend appends messages with the given keys straight to the partition
// log (no commit), in batches of up to batch messages.
func (e *c10Env) c10MidAppend(keys [][]byte, batch int) error {
	if batch < 1 {
		batch = 1
	}
	for len(keys) > 0 {
		b := batch
		if b > len(keys) {
			b = len(keys)
		}
		msgs := make([]*commitlog.Message, b)
		for i := range msgs {
			e.seq++
			msgs[i] = &commitlog.Message{MagicByte: 1, Timestamp: c10Now(), LeaderEpoch: e.p.log.LastLeaderEpoch(), Key: keys[i],
				Value: []byte(fmt.Sprintf("c10-%s-%05d", e.stream, e.seq)), Headers: map[string][]byte{}}
		}
		if _, err := e.p.log.Append(msgs); err != nil {
			return err
		}
		keys = keys[b:]
	}
	return nil
}

// c10MidSegs groups the retained messages by segment file (base offsets as
// reported by the log; labels and workload shaping only).
func (st *c10State) c10MidSegs() map[int64][]c10Msg {
	out := map[int64][]c10Msg{}
	for _, m := range st.All {
		b := st.segOf(m.Off)
		out[b] = append(out[b], m)
	}
	return out
}

// c10MidArrange appends newer messages for keys of the non-active segments so
// that the next compaction removes some of those segments entirely (every key
// superseded), shrinks others (some keys superseded) and leaves the rest
// alone, plus a few messages with fresh keys; then commits all of it or all
// but a short tail.  It returns the base offsets of the segments it aimed at.
func (e *c10Env) c10MidArrange(rng *kit.RNG, st *c10State) (touched map[int64]bool, err error) {
	var keys [][]byte
	touched = map[int64]bool{}
	segs := st.c10MidSegs()
	for i, b := range st.Bases {
		if i == len(st.Bases)-1 {
			break
		}
		ms := segs[b]
		if len(ms) == 0 {
			continue
		}
		seen := map[string]bool{}
		add := func(m c10Msg) {
			if m.Key != nil && !seen[string(m.Key)] {
				seen[string(m.Key)] = true
				keys = append(keys, append([]byte(nil), m.Key...))
				touched[b] = true
			}
		}
		switch x := rng.Intn(10); {
		case x < 4: // every key superseded: the segment disappears
			for _, m := range ms {
				add(m)
			}
		case x < 8: // some keys superseded: the segment shrinks
			for _, m := range ms {
				if rng.Bool() {
					add(m)
				}
			}
		}
	}
	for i, n := 0, rng.Range(1, 5); i < n; i++ {
		e.seq++
		keys = append(keys, []byte(fmt.Sprintf("n%d", e.seq)))
	}
	// order of the new messages does not matter for what they supersede
	for i := len(keys) - 1; i > 0; i-- {
		j := rng.Intn(i + 1)
		keys[i], keys[j] = keys[j], keys[i]
	}
	if err := e.c10MidAppend(keys, rng.Range(1, 3)); err != nil {
		return nil, err
	}
	l := e.p.log
	hw := l.NewestOffset()
	if rng.Chance(1, 3) {
		hw -= int64(rng.Range(1, 2))
	}
	if hw > l.HighWatermark() {
		l.SetHighWatermark(hw)
	}
	return touched, nil
}

type c10MidOutcome struct {
	ran, ok   bool
	delivered int
	where     string // position of the subscribe loop's reader relative to what the clean rewrote
	sig       string
}

// c10MidForward runs one request with a Clean() after k deliveries.
func (e *c10Env) c10MidForward(rng *kit.RNG, s c10Start, t c10Stop, pre *c10State, k int, nudge time.Duration) (out c10MidOutcome) {
	rep := e.rep
	w := pre.wantForward(s, t)
	reqStr := c10ReqString(s, t, false)
	preQueue := w.inRange(pre.committed())
	var (
		delivered []c10Msg
		post      *c10State
		queue     = append([]c10Msg(nil), preQueue...)
		phase     = "before the clean"
	)
	out.where = "?"
	witness := func(obs string) map[string]any {
		m := map[string]any{"seed": kit.Seed(), "shape_seed": e.seed, "shape": e.shape, "log_before_clean": pre.summary(),
			"request": reqStr, "consumed_before_clean": k, "reader_segment": out.where,
			"oracle":                map[string]any{"requested_start": w.SReq, "effective_start": w.SEff, "has_bound": w.HasBound, "bound": w.Bound, "bound_kind": w.BoundWhy},
			"expected_before_clean": c10Offs(preQueue), "delivered_offsets": c10Offs(delivered), "still_expected": c10Offs(queue), "phase": phase, "observed": obs}
		if post != nil {
			m["log_after_clean"] = post.summary()
		}
		return m
	}
	fail := func(kind, what string) {
		c10Unattributed.Add(1)
		rep.Violation(fmt.Sprintf("C10:fwd:midclean:%s:reader-segment-%s", kind, out.where),
			fmt.Sprintf("%s, Clean() after %d deliveries (reader in a segment that the clean %s), %s: %s", reqStr, k, out.where, phase, what), witness(what))
	}
	inconc := func(what string) {
		rep.Inconc(fmt.Sprintf("midclean %s (shape seed %d, k=%d), %s: %s", reqStr, e.seed, k, phase, what))
	}

	ctx, cancel := context.WithCancel(context.Background())
	defer cancel()
	sub, err := e.srv.api.SubscribeInternal(ctx, c10Request(e.stream, s, t, false))
	if err != nil {
		fail("subscribe-error", fmt.Sprintf("subscribe call failed with %v although the requested range is not empty (expected offsets %s)", err, c10Offs(preQueue)))
		return
	}
	defer sub.Close()
	out.ran = true

	// ---- phase 1: k deliveries on the unchanged log (exact)
	for i := 0; i < k; i++ {
		ev := c10Next(sub, c10Watchdog)
		switch ev.Kind {
		case "msg":
			delivered = append(delivered, ev.Msg)
			out.delivered++
			if !c10Same(ev.Msg, queue[0]) {
				fail("unexpected-delivery", fmt.Sprintf("delivered %v while %v was next", ev.Msg, queue[0]))
				return
			}
			queue = queue[1:]
		case "status":
			fail("ended-early", fmt.Sprintf("subscription ended with %v %q before delivering offset %d", ev.St.Code(), ev.St.Message(), queue[0].Off))
			return
		default:
			inconc(fmt.Sprintf("watchdog: neither offset %d nor an end arrived", queue[0].Off))
			return
		}
	}
	last := w.SEff - 1
	if k > 0 {
		last = delivered[k-1].Off
	}
	// The message channel is unbuffered: the loop may have read queue[0] already.
	var inflight *c10Msg
	if len(queue) > 0 {
		m := queue[0]
		inflight = &m
	}
	if nudge > 0 {
		time.Sleep(nudge) // scheduling aid only: lets the loop read its next message before the clean
	}

	// ---- the clean
	if err := e.p.log.Clean(); err != nil {
		inconc("Clean failed: " + err.Error())
		return
	}
	phase = "after the clean"
	post, err = e.state()
	if err != nil {
		inconc("log state unreadable after Clean: " + err.Error())
		return
	}
	if post.HW != pre.HW {
		inconc(fmt.Sprintf("HW moved from %d to %d during the case", pre.HW, post.HW))
		return
	}
	// where did the reader stand?  (segment of the message the loop read last:
	// the in-flight one, else the last delivered one, else the start)
	pos := last
	if inflight != nil {
		pos = inflight.Off
	}
	if pos < pre.Oldest {
		pos = pre.Oldest
	}
	segBase := pre.segOf(pos)
	segEnd := int64(1) << 62
	for _, b := range pre.Bases {
		if b > segBase {
			segEnd = b
			break
		}
	}
	var before, after int
	for _, m := range pre.All {
		if m.Off >= segBase && m.Off < segEnd {
			before++
		}
	}
	for _, m := range post.All {
		if m.Off >= segBase && m.Off < segEnd {
			after++
		}
	}
	switch {
	case len(pre.Bases) > 0 && segBase == pre.Bases[len(pre.Bases)-1]:
		out.where = "left-alone-active"
	case after == 0:
		out.where = "removed-entirely"
	case after < before:
		out.where = "shrank"
	default:
		out.where = "rewrote-unchanged"
	}
	rep.Count("clean_under_subscription", 1)
	rep.Count("reader_segment_"+out.where, 1)
	rep.Count("messages_removed_by_clean_under_subscription", int64(len(pre.All)-len(post.All)))
	if n := len(pre.Bases) - len(post.Bases); n > 0 {
		rep.Count("segments_removed_entirely_under_subscription", int64(n))
	}

	// what must arrive now: retained after the clean, committed, above the last
	// delivered offset, inside the requested range
	queue = queue[:0]
	for _, m := range w.inRange(post.committed()) {
		if m.Off > last {
			queue = append(queue, m)
		}
	}
	inflightRemoved := inflight != nil && !post.has(inflight.Off)
	if inflightRemoved {
		rep.Count("inflight_message_removed_by_clean", 1)
	}

	hwNow := post.HW
	fenceUsed := false
	doFence := func() bool {
		fenceUsed = true
		phase = "after the clean and the fence"
		added, err := e.fence(post)
		if err != nil {
			inconc("fence could not be appended: " + err.Error())
			return false
		}
		if len(added) > 0 {
			hwNow = added[len(added)-1].Off
		}
		queue = append(queue, w.inRange(added)...)
		return true
	}
	terminalDue := func() bool { return w.HasBound && w.Bound <= hwNow }
	seen := map[int64]bool{}
	for _, m := range delivered {
		seen[m.Off] = true
	}
	judge := func(m c10Msg) bool { // a delivery that is not the head of the queue
		delivered = append(delivered, m)
		out.delivered++
		if inflightRemoved && c10Same(m, *inflight) && m.Off > last {
			// read before the clean removed it
			inflightRemoved = false
			seen[m.Off] = true
			last = m.Off
			rep.Count("removed_inflight_message_still_delivered", 1)
			return true
		}
		pm, inPre := c10Msg{}, false
		if i, ok := pre.idx[m.Off]; ok {
			pm, inPre = pre.All[i], true
		}
		switch {
		case seen[m.Off]:
			fail("duplicate", fmt.Sprintf("offset %d delivered twice", m.Off))
		case m.Off <= last:
			fail("out-of-order", fmt.Sprintf("delivered offset %d after offset %d", m.Off, last))
		case len(queue) > 0 && m.Off == queue[0].Off:
			fail("content", fmt.Sprintf("delivered %v, the log holds %v", m, queue[0]))
		case w.HasBound && m.Off > w.Bound:
			fail("extra", fmt.Sprintf("delivered offset %d beyond the %s %d", m.Off, w.BoundWhy, w.Bound))
		case m.Off > hwNow:
			fail("uncommitted", fmt.Sprintf("delivered offset %d above the HW %d", m.Off, hwNow))
		case inPre && !post.has(m.Off) && c10Same(pm, m):
			fail("removed-message", fmt.Sprintf("delivered offset %d which the completed Clean() had removed (and which was not the one message the loop could have read before)", m.Off))
		case len(queue) > 0 && m.Off > queue[0].Off:
			fail("missing", fmt.Sprintf("offset %d was skipped: offset %d was delivered while %d (retained after the clean, committed, in range) was next", queue[0].Off, m.Off, queue[0].Off))
		default:
			fail("unexpected-delivery", fmt.Sprintf("delivered %v; still expected: %s", m, c10Offs(queue)))
		}
		return false
	}

	// ---- phase 2: drain
	for {
		wait := c10Grace
		if fenceUsed {
			wait = c10Watchdog
		}
		if len(queue) > 0 {
			ev := c10Next(sub, wait)
			switch ev.Kind {
			case "msg":
				if c10Same(ev.Msg, queue[0]) {
					delivered = append(delivered, ev.Msg)
					out.delivered++
					seen[ev.Msg.Off] = true
					last = ev.Msg.Off
					queue = queue[1:]
					inflightRemoved = false
					continue
				}
				if !judge(ev.Msg) {
					return
				}
				continue
			case "status":
				fail("ended-early", fmt.Sprintf("subscription ended with %v %q before delivering offset %d (retained after the clean; still expected: %s)",
					ev.St.Code(), ev.St.Message(), queue[0].Off, c10Offs(queue)))
				return
			default:
				if !fenceUsed {
					rep.Count("grace_expired_fence_sent_as_probe", 1)
					if !doFence() {
						return
					}
					continue
				}
				inconc(fmt.Sprintf("watchdog: neither offset %d nor an end arrived", queue[0].Off))
				return
			}
		}
		if terminalDue() {
			ev := c10Next(sub, wait)
			switch ev.Kind {
			case "status":
				if ev.St.Code() != codes.ResourceExhausted {
					fail("wrong-status", fmt.Sprintf("range ended with status %v %q, documented is ResourceExhausted", ev.St.Code(), ev.St.Message()))
					return
				}
				rep.Count("terminal_statuses_seen", 1)
				out.ok = true
				return
			case "msg":
				if !judge(ev.Msg) {
					return
				}
				continue
			default:
				if !fenceUsed {
					rep.Count("grace_expired_fence_sent_as_probe", 1)
					if !doFence() {
						return
					}
					continue
				}
				inconc(fmt.Sprintf("watchdog: the range ended at %d (<= HW %d) but neither a status nor a message arrived", w.Bound, hwNow))
				return
			}
		}
		if !fenceUsed {
			// A removed in-flight message may still be on its way: it has to
			// come BEFORE the fence, which the order check in judge() accepts.
			if !doFence() {
				return
			}
			rep.Count("fences", 1)
			continue
		}
		out.ok = true // keeps waiting, as asked: the fence arrived as the next delivery
		return
	}
}

func TestVerifC10MidClean(t *testing.T) {
	rep := kit.NewReport("C10", "midclean")
	defer rep.Write()
	c10InstallClock()
	c10Assumptions(rep)
	rep.Assume("midclean: the log content before and after the Clean() is read with an uncommitted reader (trusted, C08 checks it); the HW is not moved between the subscribe call and the end of the Clean(); of the messages the compaction removed, only the ONE the subscribe loop may already hold (unbuffered message channel: the next message of the range at the time of the clean) may still be delivered afterwards; removed messages may be skipped")
	rep.SetRule("seeded compaction-only streams on one single-node server (segment size 100..420 B = 1..6 messages per segment, 8-24 keyed messages, compacted once, 0-2 uncommitted tail messages); per case newer messages are appended for keys of the non-active segments so that the next compaction removes some segments ENTIRELY (4 in 10), shrinks some (4 in 10) and rewrites the rest unchanged, plus 1-5 fresh keys; a forward request (start classes " + fmt.Sprint(len(c10MidStarts)) + " x stop classes incl. on-cancel / latest / offset existing, in a gap, = HW, newest, uncommitted, beyond / timestamps) resolved on that log is issued through apiServer.SubscribeInternal, k messages are consumed (k chosen so that the subscribe loop's reader stands in a PRNG-chosen non-active segment; 1 in 4 any k), then partition.log.Clean() runs, then the subscription is drained; judged by order of events against the raw content before/after the clean; non-trivial = the reader stood in a segment that the clean removed entirely or shrank and the case completed; distinct = start class + stop class + fate of the reader's segment + k=0/k>0")
	c, srv, err := vfSingle("c10midclean", func(cfg *Config) {
		cfg.Streams.CleanerInterval = 3600 * 1e9
		cfg.LogSilent = false
		cfg.LogLevel = 2
	})
	if err != nil {
		rep.Inconc("server start: " + err.Error())
		return
	}
	defer c.Cleanup()
	nStreams := kit.Scale(56, 400)
	nCases := kit.Scale(6, 8)
	root := kit.NewRNG(kit.Mix(kit.Seed(), 0xC10C))
	seeds := make([]uint64, nStreams)
	for i := range seeds {
		seeds[i] = root.Uint64()
	}
	kit.Parallel(nStreams, kit.Workers(), func(i int) {
		if c10Unattributed.Load() >= c10UnattributedCap {
			return
		}
		rng := kit.NewRNG(seeds[i])
		sh := c10Shape{Kind: "compacted", Batch: rng.Range(1, 3)}
		sh.SegBytes = []int64{100, 160, 300, 420}[rng.Intn(4)]
		sh.N = rng.Range(8, 24)
		sh.Keys = rng.Range(2, 6)
		if rng.Chance(1, 4) {
			sh.Tail = rng.Range(1, 2)
		}
		e, err := c10Build(rep, c, srv, sh, seeds[i])
		if err != nil {
			rep.Inconc(fmt.Sprintf("stream %d (%+v) could not be built: %v", i, sh, err))
			return
		}
		defer e.destroy()
		rep.Count("streams", 1)
		for n := 0; n < nCases && c10Unattributed.Load() < c10UnattributedCap; n++ {
			st, err := e.state()
			if err != nil {
				rep.Inconc("log state unreadable: " + err.Error())
				return
			}
			if len(st.All) > 90 || len(st.Bases) > 40 {
				break
			}
			touched, err := e.c10MidArrange(rng, st)
			if err != nil {
				rep.Inconc("arranging the log failed: " + err.Error())
				return
			}
			pre, err := e.state()
			if err != nil {
				rep.Inconc("log state unreadable: " + err.Error())
				return
			}
			// a request whose range has something to deliver
			var (
				s     c10Start
				tt    c10Stop
				queue []c10Msg
				found bool
			)
			for try := 0; try < 12 && !found; try++ {
				var ok bool
				s, ok = pre.resolveStart(c10MidStarts[rng.Intn(len(c10MidStarts))], rng)
				if !ok {
					continue
				}
				w0 := pre.wantForward(s, c10Stop{Pos: client.StopPosition_STOP_ON_CANCEL})
				tt, ok = pre.resolveStop(c10MidStops[rng.Intn(len(c10MidStops))], rng, w0.SReq, w0.SEff)
				if !ok {
					continue
				}
				w := pre.wantForward(s, tt)
				if w.Unspecified != "" || w.MustFailEmpty || w.EmptyOK || e.causeForward(pre, s, tt, w) != "" {
					continue
				}
				queue = w.inRange(pre.committed())
				found = len(queue) >= 1
			}
			if !found {
				rep.Count("cases_without_a_suitable_request", 1)
				continue
			}
			// k: the loop will hold queue[k] when the clean runs; aim at a
			// PRNG-chosen non-active segment that the range touches
			k := rng.Intn(len(queue))
			if !rng.Chance(1, 4) && len(pre.Bases) > 1 {
				active := pre.Bases[len(pre.Bases)-1]
				var cand, aimed []int
				for j, m := range queue {
					if b := pre.segOf(m.Off); b != active {
						cand = append(cand, j)
						if touched[b] {
							aimed = append(aimed, j)
						}
					}
				}
				if len(aimed) > 0 && rng.Chance(2, 3) {
					cand = aimed // a segment whose keys the harness superseded
				}
				if len(cand) > 0 {
					// pick a segment first (so that short segments are not under-represented), then a message in it
					base := pre.segOf(queue[cand[rng.Intn(len(cand))]].Off)
					var in []int
					for _, j := range cand {
						if pre.segOf(queue[j].Off) == base {
							in = append(in, j)
						}
					}
					k = in[rng.Intn(len(in))]
				}
			}
			nudge := []time.Duration{0, time.Millisecond, 3 * time.Millisecond, 3 * time.Millisecond}[rng.Intn(4)]
			out := e.c10MidForward(rng, s, tt, pre, k, nudge)
			e.quiesce()
			if !out.ran {
				continue
			}
			rep.Eval()
			rep.Count("forward_requests", 1)
			rep.Count("messages_delivered_and_compared", int64(out.delivered))
			rep.Count("start_"+s.Class, 1)
			rep.Count("stop_"+tt.Class, 1)
			if out.ok && (out.where == "removed-entirely" || out.where == "shrank") {
				kk := "k>0"
				if k == 0 {
					kk = "k=0"
				}
				rep.Nontrivial("midclean|" + s.Class + "|" + tt.Class + "|" + out.where + "|" + kk)
			}
			if i < 2 && n < 2 {
				rep.Sample(map[string]any{"shape": sh, "log_before_clean": pre.summary(), "request": c10ReqString(s, tt, false), "k": k, "reader_segment": out.where})
			}
		}
	})
}
