//go:build verif

package server

// C17 — unit "overrides": encrypted streams created TOGETHER WITH other
// per-stream settings in the same CreateStreamRequest.
//
// The other server units ask for encryption alone (plus a segment size).  The
// stream configuration travels as ONE protobuf through the API, the Raft log,
// snapshots and StreamsConfig.ApplyOverrides, so whether a stream really gets
// its encryption handler can depend on which OTHER optional settings are
// present and on their values.  This unit takes the list of optional settings
// by reflection over client.CreateStreamRequest (every *Nullable... field; a
// field added later is driven automatically), and creates, for every field x
// {0, 1, typical} (booleans: true / false) and for seeded pairs / triples, an
// encrypted stream — encryption requested by the request (server default OFF),
// by the server default (request silent) and by both.  Oracle unchanged: the
// partition object owns an encryption handler, no file of the partition
// directory contains a published value, a subscriber from the earliest offset
// gets the published bytes back; all of it again after a restart (the stored
// configuration is applied again).

import (
	"bytes"
	"context"
	"fmt"
	"os"
	"reflect"
	"sort"
	"strings"
	"sync"
	"testing"
	"time"

	client "github.com/liftbridge-io/liftbridge-api/v2/go"

	kit "github.com/liftbridge-io/liftbridge/internal/verifkit"
)

type c17ovSet struct {
	Field string
	Kind  string // i64 / i32 / bool
	Val   int64  // bool: 0/1
}

func (s c17ovSet) String() string { return fmt.Sprintf("%s=%d", s.Field, s.Val) }

type c17ovField struct {
	Name string
	Kind string
	Vals []int64
}

// c17ovFields lists the optional stream settings of the request by reflection.
func c17ovFields() (fields []c17ovField, unknown []string) {
	typical := map[string]int64{
		"RetentionMaxBytes": 1 << 20, "RetentionMaxMessages": 1000, "RetentionMaxAge": 3600000,
		"CleanerInterval": 300000, "SegmentMaxBytes": 4096, "SegmentMaxAge": 3600000, "AutoPauseTime": 3600000,
	}
	t := reflect.TypeOf(client.CreateStreamRequest{})
	for i := 0; i < t.NumField(); i++ {
		f := t.Field(i)
		if !f.IsExported() || f.Name == "Encryption" {
			continue
		}
		if f.Type.Kind() != reflect.Ptr {
			continue // subject, name, group, replication factor, partitions
		}
		switch f.Type.Elem().Name() {
		case "NullableInt64":
			ty, ok := typical[f.Name]
			if !ok {
				ty = 1000
			}
			vals := []int64{0, 1, ty}
			if f.Name == "CleanerInterval" {
				// positive only: a non-positive interval is refused by
				// time.NewTicker inside the cleaner loop (process dies) — not
				// this property's business
				vals = []int64{1, 1000, ty}
			}
			fields = append(fields, c17ovField{f.Name, "i64", vals})
		case "NullableInt32":
			fields = append(fields, c17ovField{f.Name, "i32", []int64{0, 1, 2}})
		case "NullableBool":
			fields = append(fields, c17ovField{f.Name, "bool", []int64{1, 0}})
		default:
			unknown = append(unknown, f.Name+":"+f.Type.String())
		}
	}
	return
}

func c17ovApply(req *client.CreateStreamRequest, sets []c17ovSet) {
	rv := reflect.ValueOf(req).Elem()
	for _, s := range sets {
		f := rv.FieldByName(s.Field)
		switch s.Kind {
		case "i64":
			f.Set(reflect.ValueOf(&client.NullableInt64{Value: s.Val}))
		case "i32":
			f.Set(reflect.ValueOf(&client.NullableInt32{Value: int32(s.Val)}))
		case "bool":
			f.Set(reflect.ValueOf(&client.NullableBool{Value: s.Val != 0}))
		}
	}
}

type c17ovCase struct {
	idx    int
	route  string // request / config / both
	sets   []c17ovSet
	stream string
	// what the settings mean for the workload (computed from the documented
	// meaning of the settings, not from the server's behaviour)
	removal     bool // retention limit or compaction present: old messages may legitimately disappear
	noCommit    bool // MinIsr above the replica count: nothing is ever committed (no acks, no delivery)
	selfPausing bool // the partition pauses itself while the unit works
	occ         bool
	vals        [][]byte
	dead        bool // scenario ended without a verdict: nothing more is judged
}

func (c *c17ovCase) desc() string {
	var s []string
	for _, x := range c.sets {
		s = append(s, x.String())
	}
	return c.route + " " + strings.Join(s, ",")
}

func (c *c17ovCase) classify() {
	for _, s := range c.sets {
		switch {
		case strings.HasPrefix(s.Field, "RetentionMax") && s.Val > 0:
			c.removal = true
		case s.Field == "CompactEnabled" && s.Val != 0:
			c.removal = true
		case s.Field == "MinIsr" && s.Val > 1:
			c.noCommit = true
		case s.Field == "AutoPauseTime" && s.Val > 0 && s.Val < 600000:
			c.selfPausing = true
		case s.Field == "OptimisticConcurrencyControl" && s.Val != 0:
			c.occ = true
		}
	}
}

func (c *c17ovCase) replay() map[string]any {
	var s []string
	for _, x := range c.sets {
		s = append(s, x.String())
	}
	return map[string]any{"seed": kit.Seed(), "case": c.idx, "route": c.route, "stream": c.stream, "other_settings_in_the_request": s,
		"master_key": os.Getenv(c17KeyEnv)}
}

// c17ovPublishOne: one publish.  err "inconclusive: ..." carries no verdict.
func c17ovPublishOne(srv *Server, c *c17ovCase, i int, v []byte, wait time.Duration) error {
	req := &client.PublishRequest{Stream: c.stream, Key: []byte(fmt.Sprintf("k%d", i)), Value: v, AckPolicy: client.AckPolicy_LEADER}
	if c.occ {
		req.ExpectedOffset = int64(i)
	}
	if c.noCommit {
		req.AckPolicy = client.AckPolicy_NONE
	}
	var last error
	for attempt := 0; attempt < 3; attempt++ {
		ctx, cancel := context.WithTimeout(context.Background(), wait)
		resp, err := srv.api.Publish(ctx, req)
		cancel()
		if err == nil {
			if c.noCommit {
				return nil
			}
			if resp.Ack == nil {
				return fmt.Errorf("inconclusive: no ack in the publish response")
			}
			if resp.Ack.Offset != int64(i) {
				return fmt.Errorf("inconclusive: ack offset %d for message %d", resp.Ack.Offset, i)
			}
			return nil
		}
		if !c17PublishNoVerdict(err) {
			return err
		}
		last = err
		if !strings.Contains(err.Error(), "Failed to resume stream") {
			break
		}
	}
	return fmt.Errorf("inconclusive: publish got no verdict: %v", last)
}

// c17ovPublish publishes n new needles one after the other.
func c17ovPublish(rep *kit.Report, srv *Server, node *vfNode, c *c17ovCase, rng *kit.RNG, n int, phase string) bool {
	for k := 0; k < n; k++ {
		i := len(c.vals)
		l := []int{24, 8, 200, 2000, 33, 700}[i%6] + rng.Intn(5)
		v := rng.Bytes(l)
		if err := c17ovPublishOne(srv, c, i, v, 20*time.Second); err != nil {
			c.dead = true
			if strings.HasPrefix(err.Error(), "inconclusive") {
				rep.Inconc(fmt.Sprintf("overrides case %d (%s, %s): %v", c.idx, c.desc(), phase, err))
			} else {
				rep.Violation("C17:publish-failed:overrides", fmt.Sprintf("publish of a %d-byte value to an encrypted stream created with [%s] failed (%s): %v", len(v), c.desc(), phase, err), c17With(c.replay(), "phase", phase, "index", i))
			}
			return false
		}
		c.vals = append(c.vals, v)
		rep.Count("messages_published", 1)
	}
	if c.noCommit {
		// nothing is acknowledged: wait until the leader has appended them
		want := int64(len(c.vals) - 1)
		if !vfWait(30*time.Second, func() bool {
			p := node.Partition(c.stream, 0)
			return p != nil && p.log.NewestOffset() >= want
		}) {
			c.dead = true
			rep.Inconc(fmt.Sprintf("overrides case %d (%s, %s): watchdog, unacknowledged publishes were not appended", c.idx, c.desc(), phase))
			return false
		}
	}
	return true
}

func c17ovHandler(rep *kit.Report, node *vfNode, c *c17ovCase, phase string) (present, known bool) {
	p := node.Partition(c.stream, 0)
	if p == nil {
		rep.Inconc(fmt.Sprintf("overrides case %d (%s, %s): no partition object", c.idx, c.desc(), phase))
		c.dead = true
		return false, false
	}
	rep.Count("handler_checks", 1)
	if p.encryptionHandler == nil {
		fp := "C17:stream-not-encrypted:overrides:" + c.route
		if phase != "created" {
			fp += ":" + phase
		}
		rep.Violation(fp, fmt.Sprintf("stream requested as encrypted (%s) together with [%s] has no encryption handler (%s): values are stored in clear", c.route, c.desc(), phase), c17With(c.replay(), "phase", phase))
		return false, true
	}
	return true, true
}

// c17ovScan searches every file of the partition directory for every value.
func c17ovScan(rep *kit.Report, node *vfNode, c *c17ovCase, phase string) bool {
	files, err := c17SegmentFiles(node.Cfg.DataDir, c.stream)
	if err != nil {
		rep.Inconc("overrides: cannot read the segment files: " + err.Error())
		return false
	}
	var logBytes, need int64
	for name, b := range files {
		if strings.HasSuffix(name, ".log") {
			logBytes += int64(len(b))
		}
	}
	for _, v := range c.vals {
		need += int64(len(v))
	}
	if !c.removal && !(c.noCommit && phase != "created") && logBytes < need {
		rep.Inconc(fmt.Sprintf("overrides case %d (%s, %s): .log files hold %d bytes, less than the %d published: raw scan not meaningful", c.idx, c.desc(), phase, logBytes, need))
		return false
	}
	rep.Count("segment_bytes_scanned", logBytes)
	rep.Max("segment_files_of_one_partition", int64(len(files)))
	ok := true
	for i, v := range c.vals {
		rep.Count("needles_searched_in_raw_files", 1)
		for name, b := range files {
			if at := bytes.Index(b, v); at >= 0 {
				if ok { // one report per stream and phase is enough
					rep.Violation("C17:segment-file-contains-plaintext", fmt.Sprintf("encrypted stream created with [%s]: the %d-byte value published at offset %d is in clear in %s at byte %d (%s)", c.desc(), len(v), i, name[strings.LastIndex(name, "/")+1:], at, phase),
						c17With(c.replay(), "phase", phase, "offset", i, "value_hex", c17Hex(v), "file", name, "at", at))
				}
				ok = false
				break
			}
		}
	}
	return ok
}

// c17ovDeliver subscribes from the earliest offset and reads up to the newest
// published offset (the fence).  Every message delivered must carry exactly the
// bytes published at its offset; offsets may be missing only when the stream
// has a retention limit or compaction.
func c17ovDeliver(rep *kit.Report, srv *Server, c *c17ovCase, phase string) bool {
	last := int64(len(c.vals) - 1)
	for attempt := 0; ; attempt++ {
		got, msg, retry := c17ovDeliverOnce(rep, srv, c, phase, last)
		if retry && attempt < 3 {
			continue
		}
		if retry {
			rep.Inconc(fmt.Sprintf("overrides case %d (%s, %s): %s", c.idx, c.desc(), phase, msg))
			return false
		}
		return got
	}
}

func c17ovDeliverOnce(rep *kit.Report, srv *Server, c *c17ovCase, phase string, last int64) (ok bool, msg string, retry bool) {
	ctx, cancel := context.WithCancel(context.Background())
	defer cancel()
	sub, err := srv.api.SubscribeInternal(ctx, &client.SubscribeRequest{Stream: c.stream, Partition: 0, StartPosition: client.StartPosition_EARLIEST})
	if err != nil {
		if c.removal && strings.Contains(err.Error(), "segment has been closed") {
			return false, "subscribe raced a segment swap: " + err.Error(), true
		}
		if c17PublishNoVerdict(err) {
			return false, "subscribe got no verdict: " + err.Error(), true
		}
		rep.Violation("C17:subscriber-error:overrides:"+phase, fmt.Sprintf("subscribing to an encrypted stream created with [%s] failed (%s): %v", c.desc(), phase, err), c17With(c.replay(), "phase", phase))
		return false, "", false
	}
	defer sub.Close()
	wd := time.After(60 * time.Second)
	prev := int64(-1)
	n := 0
	for prev < last {
		select {
		case m := <-sub.Messages():
			if m.Offset <= prev || m.Offset > last {
				rep.Violation("C17:subscriber-offset:overrides:"+phase, fmt.Sprintf("[%s]: offset %d delivered after %d (newest published %d)", c.desc(), m.Offset, prev, last), c17With(c.replay(), "phase", phase))
				return false, "", false
			}
			if m.Offset != prev+1 && !c.removal {
				rep.Violation("C17:subscriber-offset:overrides:"+phase, fmt.Sprintf("[%s]: offset %d delivered after %d on a stream without retention limit / compaction", c.desc(), m.Offset, prev), c17With(c.replay(), "phase", phase))
				return false, "", false
			}
			if !bytes.Equal(m.Value, c.vals[m.Offset]) {
				rep.Violation("C17:subscriber-value-mismatch:overrides:"+phase, fmt.Sprintf("encrypted stream created with [%s]: offset %d delivered %d bytes that differ from the %d bytes published (%s)", c.desc(), m.Offset, len(m.Value), len(c.vals[m.Offset]), phase),
					c17With(c.replay(), "phase", phase, "offset", m.Offset, "published_hex", c17Hex(c.vals[m.Offset]), "received_hex", c17Hex(m.Value)))
				return false, "", false
			}
			prev = m.Offset
			n++
		case st := <-sub.Errors():
			if c.removal && strings.Contains(st.Message(), "segment has been closed") {
				return false, "reader raced a segment swap: " + st.Message(), true
			}
			rep.Violation("C17:subscriber-error:overrides:"+phase, fmt.Sprintf("subscriber of an encrypted stream created with [%s] got an error after %d messages (%s): %s", c.desc(), n, phase, st.Message()), c17With(c.replay(), "phase", phase, "received", n))
			return false, "", false
		case <-wd:
			rep.Inconc(fmt.Sprintf("overrides case %d (%s, %s): watchdog, subscriber reached offset %d of %d", c.idx, c.desc(), phase, prev, last))
			return false, "", false
		}
	}
	rep.Count("messages_delivered_identically", int64(n))
	if n < len(c.vals) {
		rep.Count("messages_removed_by_retention_or_compaction", int64(len(c.vals)-n))
	}
	return true, "", false
}

// c17ovSelfPausing: a partition that pauses itself after 1 ms of idleness.  A
// paused partition object is not judged (it is not serving anything); the unit
// publishes (which resumes the partition) and judges only what follows an
// ACKNOWLEDGED publish: the partition object that took it must own a handler
// and the files must not contain the value.  A publish that gets no answer
// (the partition paused again under it) is counted, not judged.
func c17ovSelfPausing(rep *kit.Report, srv *Server, node *vfNode, cs *c17ovCase, rng *kit.RNG, phase string) {
	judged := false
	for k := 0; k < 3 && !judged; k++ {
		i := len(cs.vals)
		v := rng.Bytes(24 + rng.Intn(100))
		err := c17ovPublishOne(srv, cs, i, v, 5*time.Second)
		if err != nil {
			if strings.Contains(strings.ToLower(err.Error()), "encrypt") {
				rep.Violation("C17:publish-failed:overrides", fmt.Sprintf("publish to an encrypted stream created with [%s] failed (%s): %v", cs.desc(), phase, err), c17With(cs.replay(), "phase", phase, "index", i))
				cs.dead = true
				return
			}
			rep.Count("self_pausing_publish_without_verdict", 1)
			if strings.Contains(err.Error(), "ack offset") {
				cs.dead = true // an earlier unanswered publish was appended after all: offsets unknown
				return
			}
			continue
		}
		cs.vals = append(cs.vals, v)
		rep.Count("messages_published", 1)
		present, known := c17ovHandler(rep, node, cs, phase)
		if !known {
			return
		}
		cs.removal = true // (only switches the size plausibility test of the scan off: the log may be closed)
		scanned := c17ovScan(rep, node, cs, phase)
		judged = true
		if present && scanned {
			rep.Nontrivial(c17ovSig(cs, phase+"|self-pausing"))
			rep.Count("self_pausing_streams_judged_"+phase, 1)
		}
		if !present {
			cs.dead = true
		}
	}
	if !judged {
		rep.Count("self_pausing_streams_not_judged_"+phase, 1)
	}
}

func c17ovSig(c *c17ovCase, phase string) string {
	var s []string
	for _, x := range c.sets {
		cl := "typ"
		if x.Val == 0 || x.Val == 1 || x.Kind != "i64" {
			cl = fmt.Sprint(x.Val)
		}
		s = append(s, x.Field+"="+cl)
	}
	sort.Strings(s)
	return c.route + "|" + phase + "|" + strings.Join(s, ",")
}

// c17ovPhase runs one phase (created / after-restart) of one case.
func c17ovPhase(rep *kit.Report, srv *Server, c *vfCluster, cs *c17ovCase, rng *kit.RNG, phase string, npub int) {
	rep.Eval()
	if cs.dead {
		return
	}
	node := c.Nodes["a"]
	if !cs.selfPausing {
		if err := c17WaitLeader(c, cs.stream); err != nil {
			rep.Inconc(fmt.Sprintf("overrides case %d (%s, %s): %v", cs.idx, cs.desc(), phase, err))
			cs.dead = true
			return
		}
	}
	if cs.selfPausing {
		if cs.noCommit {
			rep.Count("self_pausing_streams_not_judged_"+phase, 1) // no acknowledged publish possible
			return
		}
		c17ovSelfPausing(rep, srv, node, cs, rng, phase)
		return
	}
	present, known := c17ovHandler(rep, node, cs, phase)
	if !known {
		return
	}
	if cs.noCommit && cs.occ {
		// handler only: the stream cannot take unacknowledged publishes and
		// never acknowledges one (see Assume)
		if present {
			rep.Nontrivial(c17ovSig(cs, phase+"|handler-only"))
		}
		return
	}
	if phase != "created" && !cs.noCommit && present && len(cs.vals) > 0 {
		if !c17ovDeliver(rep, srv, cs, phase) {
			cs.dead = true
			return
		}
	}
	if phase != "created" && cs.noCommit {
		// what was never committed need not survive a restart: continue from
		// what the log holds now
		if p := node.Partition(cs.stream, 0); p != nil {
			if n := int(p.log.NewestOffset() + 1); n < len(cs.vals) {
				rep.Count("uncommitted_messages_gone_after_restart", int64(len(cs.vals)-n))
				cs.vals = cs.vals[:n]
			}
		}
	}
	if !c17ovPublish(rep, srv, node, cs, rng, npub, phase) {
		return
	}
	scanned := c17ovScan(rep, node, cs, phase)
	if !present {
		cs.dead = true // Read would be handed plaintext: nothing more to judge
		return
	}
	delivered := cs.noCommit || c17ovDeliver(rep, srv, cs, phase+"-new")
	if scanned && delivered {
		rep.Nontrivial(c17ovSig(cs, phase))
		rep.Count("streams_ok_"+phase, 1)
	} else if !delivered {
		cs.dead = true
	}
}

func TestVerifC17Overrides(t *testing.T) {
	rep := kit.NewReport("C17", "overrides")
	defer rep.Write()
	rep.SetRule("two single-node servers (A: streams.encryption off, B: on), one master key; the optional stream settings are taken by reflection over client.CreateStreamRequest (all *Nullable fields except Encryption); for every field x {0, 1, typical} (booleans true/false, CleanerInterval positive only) and for seeded pairs/triples of settings one stream is created on A with Encryption=true in the same request (route request) and one on B with the request silent about encryption or repeating it (routes config / both); 6 random values of 8..2000 bytes are published one at a time (with the exact expected offset when optimistic concurrency control is on); oracle: the partition object owns an encryption handler, no file of the partition directory contains a value, a subscriber from the earliest offset up to the newest published offset (fence) receives exactly the bytes published at each offset (offsets may be missing only with a retention limit / compaction); then both servers are restarted and every stream is judged again (handler, old values delivered, 2 more values, scan, delivery).  Controls: an unencrypted stream on A and a stream with Encryption=false on B must show their values in the files.  non-trivial = stream passed a phase with all checks made; distinct = route x phase x set of (field, value class)")
	rep.Assume("MinIsr above the replica count (2 on one replica): nothing is ever committed, so values are published without ack, awaited in the leader's log and only searched in the files (no delivery); combined with optimistic concurrency control (which refuses unacknowledged publishes) only the handler is checked")
	rep.Assume("AutoPauseTime of 1 ms: the partition pauses itself between any two steps of the unit; a paused partition object is not judged; up to 3 publishes (each resumes the partition) are tried with a 5 s wait and only an ACKNOWLEDGED one is judged (handler on the partition object that took it, files searched); unanswered ones are counted (self_pausing_*), never judged; no delivery check there (pause / resume of encrypted streams is unit lifecycle's subject)")
	rep.Assume("seeded tuples never combine a cleaner interval below 1 s with other settings (a hostile cleaner racing appends / restarts is C05's subject) ")
	fields, unknown := c17ovFields()
	rep.Count("optional_request_fields_driven", int64(len(fields)))
	for _, u := range unknown {
		rep.Inconc("optional field of CreateStreamRequest with a type this unit cannot set: " + u)
	}
	rng := kit.NewRNG(kit.Mix(kit.Seed(), 0xC170))
	var base [][]c17ovSet
	for _, f := range fields {
		for _, v := range f.Vals {
			base = append(base, []c17ovSet{{f.Name, f.Kind, v}})
		}
	}
	base = append(base, nil) // encryption alone
	for i := 0; i < kit.Scale(10, 80); i++ {
		k := 2 + rng.Intn(2)
		perm := c17ovPerm(rng, len(fields))[:k]
		sort.Ints(perm)
		var sets []c17ovSet
		for _, fi := range perm {
			f := fields[fi]
			v := f.Vals[rng.Intn(len(f.Vals))]
			if f.Name == "CleanerInterval" && v < 1000 {
				v = 1000
			}
			sets = append(sets, c17ovSet{f.Name, f.Kind, v})
		}
		base = append(base, sets)
	}
	key := c17PrintableKey(rng, []int{16, 32}[int(kit.Seed())%2])
	os.Setenv(c17KeyEnv, key)
	defer os.Unsetenv(c17KeyEnv)

	var wg sync.WaitGroup
	for si, side := range []string{"a", "b"} {
		var cases []*c17ovCase
		for i, sets := range base {
			route := "request"
			if side == "b" {
				route = []string{"config", "both"}[(i+int(kit.Seed()))%2]
			}
			cs := &c17ovCase{idx: si*1000 + i, route: route, sets: sets, stream: fmt.Sprintf("c17ov%s%d", side, i)}
			cs.classify()
			cases = append(cases, cs)
		}
		srng := rng.Fork(uint64(si))
		wg.Add(1)
		go func(side string, cases []*c17ovCase, srng *kit.RNG) {
			defer wg.Done()
			c17ovServer(rep, side, cases, srng)
		}(side, cases, srng)
	}
	wg.Wait()
}

func c17ovPerm(rng *kit.RNG, n int) []int {
	p := make([]int, n)
	for i := range p {
		p[i] = i
	}
	for i := n - 1; i > 0; i-- {
		j := rng.Intn(i + 1)
		p[i], p[j] = p[j], p[i]
	}
	return p
}

func c17ovServer(rep *kit.Report, side string, cases []*c17ovCase, rng *kit.RNG) {
	c, srv, err := vfSingle("c17ov-"+side, func(cfg *Config) {
		cfg.Streams.Encryption = side == "b"
	})
	if err != nil {
		rep.Inconc("server did not start: " + err.Error())
		return
	}
	defer c.Cleanup()
	rngs := make([]*kit.RNG, len(cases))
	for i := range cases {
		rngs[i] = rng.Fork(uint64(i) + 10)
	}
	var smu sync.Mutex
	nsample := 0
	kit.Parallel(len(cases), 4, func(i int) {
		cs := cases[i]
		req := &client.CreateStreamRequest{Subject: cs.stream, Name: cs.stream, ReplicationFactor: 1}
		if cs.route != "config" {
			req.Encryption = &client.NullableBool{Value: true}
		}
		c17ovApply(req, cs.sets)
		if err := c.CreateStream(req); err != nil {
			cs.dead = true
			rep.Eval()
			if c17CreateNoVerdict(err) {
				rep.Inconc(fmt.Sprintf("overrides case %d (%s): creating the stream got no verdict: %v", cs.idx, cs.desc(), err))
			} else {
				// a refusal of the combination stores nothing: no verdict on
				// this property, but it must be visible
				rep.Count("create_refused", 1)
				rep.Inconc(fmt.Sprintf("overrides case %d (%s): CreateStream refused: %v", cs.idx, cs.desc(), err))
			}
			return
		}
		rep.Count("encrypted_streams_created", 1)
		c17ovPhase(rep, srv, c, cs, rngs[i], "created", 6)
		smu.Lock()
		if nsample < 3 && len(cs.sets) > 1 {
			nsample++
			rep.Sample(map[string]any{"route": cs.route, "settings": cs.desc(), "values_published": len(cs.vals), "removal_possible": cs.removal, "no_commit": cs.noCommit})
		}
		smu.Unlock()
	})
	// control: streams that are NOT encrypted must show their values
	ctl := &c17ovCase{idx: -1, route: "control", stream: "c17ovplain" + side}
	creq := &client.CreateStreamRequest{Subject: ctl.stream, Name: ctl.stream, ReplicationFactor: 1}
	if side == "b" {
		creq.Encryption = &client.NullableBool{Value: false}
	}
	if err := c.CreateStream(creq); err == nil && c17WaitLeader(c, ctl.stream) == nil {
		found := 0
		var needles [][]byte
		for i := 0; i < 4; i++ {
			n := rng.Bytes(24)
			needles = append(needles, n)
			c17Publish(srv, ctl.stream, n)
		}
		if files, err := c17SegmentFiles(c.Nodes["a"].Cfg.DataDir, ctl.stream); err == nil {
			for _, n := range needles {
				for _, b := range files {
					if bytes.Contains(b, n) {
						found++
						break
					}
				}
			}
		}
		rep.Count("control_plain_needles_found_in_files", int64(found))
		if found != len(needles) {
			rep.Inconc(fmt.Sprintf("control (%s): only %d of %d values of an UNencrypted stream were found in its segment files", side, found, len(needles)))
		}
	}
	// restart: every partition is rebuilt from the stored configuration
	if _, err := c.MetaLeader(30 * time.Second); err != nil {
		rep.Inconc("no metadata leader before the restart: " + err.Error())
		return
	}
	if err := c.StopNode("a"); err != nil {
		rep.Inconc("stop failed: " + err.Error())
		return
	}
	if err := c.StartNode("a"); err != nil {
		rep.Inconc("restart failed: " + err.Error())
		return
	}
	srv = c.Nodes["a"].Srv
	if _, err := c.MetaLeader(60 * time.Second); err != nil {
		rep.Inconc("no metadata leader after the restart: " + err.Error())
		return
	}
	rep.Count("restarts", 1)
	kit.Parallel(len(cases), 4, func(i int) {
		if cases[i].dead {
			return
		}
		c17ovPhase(rep, srv, c, cases[i], rngs[i], "after-restart", 2)
	})
}
