//go:build verif

package server

// C12 — each partition is assigned to exactly one consumer of a group.
//
// Shared by the C12 units: a read-only *view* of a real consumerGroup's state
// (taken under the group's own lock), the ground truth the harness keeps about
// the operation history (who asked to subscribe to what, which streams exist
// with how many partitions — nothing about assignments), and the oracle that
// checks the view against what the property states.

import (
	"fmt"
	"sort"
	"strings"
)

// c12Member is what one member holds according to the real group.
type c12Member struct {
	Streams []string           // sorted
	Assign  map[string][]int32 // sorted copies
	Counter int                // consumer.assignedCount
}

// c12View is a consistent copy of a group's membership and assignments.
type c12View struct {
	Epoch       uint64
	Coordinator string
	Members     map[string]*c12Member
}

func c12Snapshot(g *consumerGroup) *c12View {
	g.mu.RLock()
	defer g.mu.RUnlock()
	v := &c12View{Epoch: g.epoch, Coordinator: g.coordinator, Members: make(map[string]*c12Member, len(g.members))}
	for id, m := range g.members {
		mv := &c12Member{Counter: m.assignedCount, Assign: make(map[string][]int32, len(m.assignments))}
		for s := range m.streams {
			mv.Streams = append(mv.Streams, s)
		}
		sort.Strings(mv.Streams)
		for s, ps := range m.assignments {
			cp := append([]int32(nil), ps...)
			sort.Slice(cp, func(i, j int) bool { return cp[i] < cp[j] })
			mv.Assign[s] = cp
		}
		v.Members[id] = mv
	}
	return v
}

func (v *c12View) memberIDs() []string {
	ids := make([]string, 0, len(v.Members))
	for id := range v.Members {
		ids = append(ids, id)
	}
	sort.Strings(ids)
	return ids
}

// String is the canonical text of epoch + assignments (used in witnesses).
func (v *c12View) String() string {
	if v == nil {
		return "<no group>"
	}
	var sb strings.Builder
	fmt.Fprintf(&sb, "epoch=%d", v.Epoch)
	for _, id := range v.memberIDs() {
		m := v.Members[id]
		fmt.Fprintf(&sb, " %s{sub=%v", id, m.Streams)
		ss := make([]string, 0, len(m.Assign))
		for s := range m.Assign {
			ss = append(ss, s)
		}
		sort.Strings(ss)
		for _, s := range ss {
			if len(m.Assign[s]) > 0 {
				fmt.Fprintf(&sb, " %s:%v", s, m.Assign[s])
			}
		}
		sb.WriteString("}")
	}
	return sb.String()
}

// c12SameAssignments: identical epoch, member set and per-member assignments
// (an empty partition list equals an absent one).
func c12SameAssignments(a, b *c12View) bool {
	if (a == nil) != (b == nil) {
		return false
	}
	if a == nil {
		return true
	}
	if a.Epoch != b.Epoch || len(a.Members) != len(b.Members) {
		return false
	}
	for id, ma := range a.Members {
		mb, ok := b.Members[id]
		if !ok {
			return false
		}
		if !c12AssignSubset(ma.Assign, mb.Assign) || !c12AssignSubset(mb.Assign, ma.Assign) {
			return false
		}
	}
	return true
}

func c12AssignSubset(a, b map[string][]int32) bool {
	for s, pa := range a {
		pb := b[s]
		if len(pa) != len(pb) {
			return false
		}
		for i := range pa {
			if pa[i] != pb[i] {
				return false
			}
		}
	}
	return true
}

// c12Truth is the ground truth derived from the operation history alone.
type c12Truth struct {
	Parts map[string]int32           // existing streams -> partition count
	Subs  map[string]map[string]bool // member -> streams it asked for that were not deleted since
}

type c12Finding struct {
	Class string
	What  string
}

// c12Check evaluates what the property states on one view.  It returns the
// findings (empty = held) and whether >= 2 members share a stream (used for
// the non-triviality rule).
func c12Check(v *c12View, t *c12Truth) (out []c12Finding, shared int) {
	add := func(class, format string, a ...interface{}) {
		out = append(out, c12Finding{Class: class, What: fmt.Sprintf(format, a...)})
	}
	// Membership bookkeeping (needed to know who "subscribed" at all).
	if len(v.Members) != len(t.Subs) {
		add("membership", "group has members %v, history says %v", v.memberIDs(), c12Keys(t.Subs))
		return
	}
	for id, want := range t.Subs {
		m, ok := v.Members[id]
		if !ok {
			add("membership", "member %s missing from the group (members %v)", id, v.memberIDs())
			return
		}
		same := len(m.Streams) == len(want)
		for _, s := range m.Streams {
			if !want[s] {
				same = false
			}
		}
		if !same {
			add("subscription", "member %s is recorded as subscribed to %v, history says %v (streams deleted since are dropped)", id, m.Streams, c12Keys(want))
		}
	}
	// Counter == real number of assignments; no foreign stream; no phantom partition.
	for id, m := range v.Members {
		n := 0
		for s, ps := range m.Assign {
			n += len(ps)
			if len(ps) == 0 {
				continue
			}
			if !t.Subs[id][s] {
				add("assignment-for-unsubscribed-stream", "member %s holds partitions %v of stream %s which it is not subscribed to (subscribed: %v)", id, ps, s, c12Keys(t.Subs[id]))
				continue
			}
			for _, p := range ps {
				if p < 0 || p >= t.Parts[s] {
					add("phantom-partition", "member %s holds partition %d of stream %s which has %d partitions", id, p, s, t.Parts[s])
					break
				}
			}
		}
		if n != m.Counter {
			add("assigned-count", "member %s: assignedCount=%d but it holds %d partitions (%v)", id, m.Counter, n, m.Assign)
		}
	}
	// Every partition of every stream with >= 1 subscriber: exactly one holder, a subscriber.
	subscribers := map[string][]string{}
	for id, ss := range t.Subs {
		for s := range ss {
			subscribers[s] = append(subscribers[s], id)
		}
	}
	for s, ids := range subscribers {
		if len(ids) > shared {
			shared = len(ids)
		}
		n := t.Parts[s]
		holders := make([][]string, n)
		for _, id := range ids {
			m := v.Members[id]
			if m == nil {
				continue
			}
			for _, p := range m.Assign[s] {
				if p >= 0 && p < n {
					holders[p] = append(holders[p], id)
				}
			}
		}
		for p := int32(0); p < n; p++ {
			switch len(holders[p]) {
			case 1:
			case 0:
				sort.Strings(ids)
				add("unassigned-partition", "partition %d of stream %s (subscribers %v) is assigned to nobody", p, s, ids)
			default:
				add("double-assigned", "partition %d of stream %s is assigned %d times: %v", p, s, len(holders[p]), holders[p])
			}
		}
	}
	// Single-stream group: counts differ by at most one among its subscribers.
	if len(subscribers) == 1 {
		for s, ids := range subscribers {
			lo, hi := int(^uint(0)>>1), -1
			for _, id := range ids {
				m := v.Members[id]
				if m == nil {
					continue
				}
				k := len(m.Assign[s])
				if k < lo {
					lo = k
				}
				if k > hi {
					hi = k
				}
			}
			if hi-lo > 1 {
				add("unbalanced", "single-stream group on %s (%d partitions, %d subscribers): partition counts range %d..%d", s, t.Parts[s], len(ids), lo, hi)
			}
		}
	}
	return
}

func c12Keys[V any](m map[string]V) []string {
	ks := make([]string, 0, len(m))
	for k := range m {
		ks = append(ks, k)
	}
	sort.Strings(ks)
	return ks
}

// c12CopyTruth deep-copies the ground truth (for witnesses).
func (t *c12Truth) String() string {
	var sb strings.Builder
	sb.WriteString("streams{")
	for _, s := range c12Keys(t.Parts) {
		fmt.Fprintf(&sb, "%s:%d ", s, t.Parts[s])
	}
	sb.WriteString("} subscribed{")
	for _, id := range c12Keys(t.Subs) {
		fmt.Fprintf(&sb, "%s:%v ", id, c12Keys(t.Subs[id]))
	}
	sb.WriteString("}")
	return sb.String()
}
