//go:build verif

package server

// A consumer attached to the C02 real-cluster scenarios: it subscribes (from
// its next offset) to whichever server currently leads the partition and
// re-subscribes after leader changes.  What it is handed is client-visible
// truth: the same offset must never be served with different content by two
// leaders, everything served must be at or below the serving leader's HW
// (sampled after delivery; the HW is monotone per log instance) and must
// agree with the committed table of the replica observer.

import (
	"context"
	"fmt"
	"time"

	client "github.com/liftbridge-io/liftbridge-api/v2/go"
)

type c02Served struct {
	Value  string
	Leader string
	Epoch  uint64
}

func (e *c02Env) consumer(stop <-chan struct{}, done chan<- struct{}) {
	defer close(done)
	next := int64(0)
	for {
		select {
		case <-stop:
			return
		default:
		}
		ln, err := e.c.PartitionLeader(e.stream, 0, 200*time.Millisecond)
		if err != nil {
			continue
		}
		srv := ln.Server()
		p := ln.Partition(e.stream, 0)
		if srv == nil || p == nil {
			continue
		}
		ctx, cancel := context.WithCancel(context.Background())
		sub, serr := srv.api.SubscribeInternal(ctx, &client.SubscribeRequest{Stream: e.stream, Partition: 0,
			StartPosition: client.StartPosition_OFFSET, StartOffset: next})
		if serr != nil {
			cancel()
			time.Sleep(20 * time.Millisecond)
			continue
		}
		_, lepoch := p.GetLeader()
	READ:
		for {
			select {
			case <-stop:
				cancel()
				sub.Close() // the loop may be blocked handing over a message
				return
			case m := <-sub.Messages():
				hw := p.log.HighWatermark()
				if m.Offset > hw {
					e.fail("C02:consumer-served-above-hw", fmt.Sprintf("leader %s (epoch %d) delivered offset %d (%q) to a subscriber while its HW is %d", ln.ID, lepoch, m.Offset, m.Value, hw))
				}
				e.mu.Lock()
				if old, ok := e.served[m.Offset]; ok {
					if old.Value != string(m.Value) && !e.failed {
						what := fmt.Sprintf("a subscriber was served %q at offset %d by leader %s (epoch %d) and %q at the same offset by leader %s (epoch %d)",
							old.Value, m.Offset, old.Leader, old.Epoch, m.Value, ln.ID, lepoch)
						e.mu.Unlock()
						e.fail("C02:consumer-saw-two-messages-at-one-offset", what)
						e.mu.Lock()
					}
				} else {
					e.served[m.Offset] = c02Served{Value: string(m.Value), Leader: ln.ID, Epoch: lepoch}
				}
				e.nserved++
				e.mu.Unlock()
				if m.Offset >= next {
					next = m.Offset + 1
				}
			case <-sub.Errors():
				break READ
			case <-sub.Closed():
				break READ
			case <-time.After(300 * time.Millisecond):
				// leader may have changed without this subscription noticing
				if l2, err := e.c.PartitionLeader(e.stream, 0, 10*time.Millisecond); err != nil || l2.ID != ln.ID || l2.Partition(e.stream, 0) != p {
					break READ
				}
			}
		}
		cancel()
		sub.Close()
	}
}

// checkServedCommitted: at the end everything the consumer was handed must be
// what the committed table holds at that offset.
func (e *c02Env) checkServedCommitted() {
	e.mu.Lock()
	type bad struct{ what string }
	var bads []bad
	for off, sv := range e.served {
		if tag, ok := e.tags[off]; ok && tag != sv.Value {
			bads = append(bads, bad{fmt.Sprintf("a subscriber was served %q at offset %d by leader %s (epoch %d) but the committed message at that offset is %q (first shown by %s)",
				sv.Value, off, sv.Leader, sv.Epoch, tag, e.commitBy[off])})
			break
		}
	}
	e.mu.Unlock()
	for _, b := range bads {
		e.fail("C02:consumer-served-uncommitted-content", b.what)
	}
}
