//go:build verif

package server

// C02: where the leader-epoch boundaries lie when a former leader reconciles
// its log after SEVERAL failovers.
//
// The leader answers a follower's "last offset of my epoch" request from its
// leader-epoch cache.  The entry it answers from was either recorded at its
// own election (start = last message BEFORE the epoch) or learned from a
// replicated message (start = FIRST message OF the epoch), and the recorded
// start offset can lie inside the answering leader's log, be its last message,
// or lie at/behind its end (an epoch without messages).  Which of these cases
// an execution produces depends on how many messages each epoch holds and how
// far they were replicated — the existing families always wrote two or more
// messages per epoch and let the third leader write before the first one
// returned, so "a replication-learned boundary that is the last message of the
// answering leader's log" never occurred.  Two generators produce the whole
// class:
//
//   stepsboundary  (step-driven: three REAL commit logs and the REAL
//                  partition.lastOffsetForLeaderEpoch / Truncate /
//                  handleReplicationResponse) — the complete grid of double
//                  failovers a -> b -> c over: committed prefix 0/2, tail of the
//                  first leader 1..3, messages of the middle epoch 0..3, how
//                  many of them the future third leader replicated (0..all) and
//                  in which batch size, middle epoch committed or not, messages
//                  of the third epoch before the first leader returns 0..2,
//                  rejoin order, leaders isolated or killed; followed by a
//                  third failover back to the first leader.
//   F13            the same shape on a real 3-server cluster: middle epoch with
//                  exactly ONE committed message (and 0 / 2 as neighbours),
//                  third leader silent (or not) when the first leader returns.
//
// Same oracle as everywhere in C02: the committed table (every offset at or
// below any replica's HW), every leader holds it, pairwise agreement after
// convergence.  The boundary class each offset request was answered from is
// computed from the answering leader's epoch cache and counted in the evidence.

import (
	"fmt"
	"os"
	"strings"
	"sync"
	"testing"
	"time"

	client "github.com/liftbridge-io/liftbridge-api/v2/go"

	kit "github.com/liftbridge-io/liftbridge/internal/verifkit"
)

// ---------------------------------------------------------------- step-driven grid

type c02bPlan struct {
	Pre, Tail, Mid, MidRepl, Batch int
	MidCommit                      bool
	L3w                            int
	BFirst                         bool // the second leader rejoins before the first
	Kill1, Kill2                   bool
}

func (p c02bPlan) String() string {
	return fmt.Sprintf("pre=%d tail=%d mid=%d midRepl=%d batch=%d midCommit=%v l3w=%d bFirst=%v kill1=%v kill2=%v",
		p.Pre, p.Tail, p.Mid, p.MidRepl, p.Batch, p.MidCommit, p.L3w, p.BFirst, p.Kill1, p.Kill2)
}

func c02bPlans(full bool) []c02bPlan {
	// quick: the grid up to 2 messages per epoch, leaders both isolated or
	// both killed (alternating over the grid); thorough: up to 3 messages,
	// every isolate/kill combination on every shape
	maxTail, maxMid, maxL3w, kills := 2, 2, 1, []int{0, 3}
	if full {
		maxTail, maxMid, maxL3w, kills = 3, 3, 2, []int{0, 1, 2, 3}
	}
	var out []c02bPlan
	for _, pre := range []int{2, 0} {
		for tail := 1; tail <= maxTail; tail++ {
			for mid := 0; mid <= maxMid; mid++ {
				for repl := 0; repl <= mid; repl++ {
					for _, batch := range []int{1, 3} {
						if batch == 3 && repl < 2 {
							continue // same execution as batch 1
						}
						for _, mc := range []bool{false, true} {
							if mc && repl == 0 {
								continue // nothing of the middle epoch can commit
							}
							for l3w := 0; l3w <= maxL3w; l3w++ {
								for _, bf := range []bool{false, true} {
									for ki, k := range kills {
										if !full && (pre+tail+mid+repl+batch+l3w+ki)%2 == 1 {
											continue
										}
										out = append(out, c02bPlan{Pre: pre, Tail: tail, Mid: mid, MidRepl: repl, Batch: batch, MidCommit: mc,
											L3w: l3w, BFirst: bf, Kill1: k&1 == 1, Kill2: k&2 == 2})
									}
								}
							}
						}
					}
				}
			}
		}
	}
	return out
}

// c02bAskClass classifies the entry the current leader will answer replica f's
// offset request from: recorded at its own election or learned by replication,
// and where its start offset lies relative to the leader's log end.
func c02bAskClass(w *c02sWorld, f int, electedAt map[[2]int64]bool) string {
	if w.leader < 0 || f == w.leader || w.failed {
		return ""
	}
	r, lr := w.reps[f], w.reps[w.leader]
	if !r.alive || !lr.alive || r.following == w.epoch {
		return ""
	}
	fe := int64(r.log.LastLeaderEpoch())
	for _, ent := range c02EpochEntriesDir(lr.dir) {
		if ent[0] <= fe {
			continue
		}
		kind := "learned"
		if electedAt[[2]int64{int64(w.leader), ent[0]}] {
			kind = "elected"
		}
		newest := lr.log.NewestOffset()
		pos := "inside-log"
		switch {
		case ent[1] == newest:
			pos = "is-last-message"
		case ent[1] > newest:
			pos = "behind-log-end"
		case ent[1] < 0:
			pos = "before-first-message"
		}
		return kind + ":" + pos
	}
	return "no-newer-epoch"
}

func c02bRun(rep *kit.Report, pl c02bPlan, maxSeg int64) (w *c02sWorld, classes []string, err error) {
	w, err = newC02sWorld(rep, maxSeg)
	if err != nil {
		return nil, nil, err
	}
	electedAt := map[[2]int64]bool{}
	elect := func(n int) bool {
		if !w.elect(n) {
			w.logf("SKIPPED elect(%s)", w.name(n))
			return false
		}
		electedAt[[2]int64{int64(n), int64(w.epoch)}] = true
		return true
	}
	follow := func(f int) {
		cls := c02bAskClass(w, f, electedAt)
		if w.follow(f) && cls != "" {
			classes = append(classes, cls)
			w.logf("  [asked %s: boundary %s]", w.name(w.leader), cls)
		}
	}
	const a, b, c = 0, 1, 2
	elect(a)
	follow(b)
	follow(c)
	if pl.Pre > 0 {
		w.pub(a, pl.Pre)
		w.fetch(b, 3)
		w.fetch(c, 3)
		w.fetch(b, 0)
		w.fetch(c, 0)
		w.commitStep()
		w.fetch(b, 0)
		w.fetch(c, 0)
	}
	w.pub(a, pl.Tail) // never replicated
	w.failLeader(pl.Kill1)
	if !elect(b) {
		return w, classes, nil
	}
	follow(c)
	if pl.Mid > 0 {
		w.pub(b, pl.Mid)
	}
	for left := pl.MidRepl; left > 0; {
		n := pl.Batch
		if n > left {
			n = left
		}
		w.fetch(c, n)
		left -= n
	}
	if pl.MidCommit {
		w.shrink(a)
		w.fetch(c, 0)
		w.commitStep()
		w.fetch(c, 0)
	}
	w.failLeader(pl.Kill2)
	if !elect(c) {
		return w, classes, nil
	}
	if pl.L3w > 0 {
		w.pub(c, pl.L3w)
	}
	order := []int{a, b}
	if pl.BFirst {
		order = []int{b, a}
	}
	for _, x := range order {
		w.restart(x)
		follow(x)
		w.fetch(x, 3)
		w.fetch(x, 3)
		w.fetch(x, 0)
		w.commitStep()
	}
	w.finish()
	// third failover: the first leader, reconciled and back in the ISR, leads again
	if !w.bad && w.failLeader(false) {
		if elect(a) {
			w.pub(a, 1)
		}
		w.finish()
	}
	return w, classes, nil
}

// TestVerifC02StepsBoundary: the complete grid of double failovers over the
// epoch sizes (see file header).
func TestVerifC02StepsBoundary(t *testing.T) {
	rep := kit.NewReport("C02", "stepsboundary")
	defer rep.Write()
	rep.SetRule("step-driven (real commit logs, real leader answer partition.lastOffsetForLeaderEpoch, real Truncate and follower append): EVERY double failover a->b->c of the grid {committed prefix 0|2} x {uncommitted tail of a 1..2(3)} x {messages b writes in its epoch 0..2(3)} x {how many of them c replicates 0..all, in batches of 1|3} x {middle epoch committed after removing a from the ISR | not} x {messages c writes before anybody returns 0..1(2)} x {a returns before b | after b} x {a, b both isolated | both killed (quick: alternating over the grid)}, then heal + converge, then a third failover back to a; quick runs the grid up to 2 messages per epoch (third epoch 0..1), thorough up to 3 (third epoch 0..2) and adds the mixed isolate/kill combinations; oracle as unit steps (committed table, every elected leader complete, final prefix agreement); each offset request is classified by the epoch-cache entry it is answered from (recorded at election | learned by replication) x (start offset inside the leader's log | its last message | behind the log end | before the first message); non-trivial = >=3 elections and >=1 offset request answered from a newer epoch; distinct = plan")
	rep.SetExhaustive(true)
	c02sAssumptions(rep)
	plans := c02bPlans(kit.Scale(0, 1) == 1)
	var mu sync.Mutex
	sampled := map[string]bool{}
	kit.Parallel(len(plans), kit.Workers(), func(i int) {
		if rep.NumViolations() >= 5 {
			return
		}
		pl := plans[i]
		w, classes, err := c02bRun(rep, pl, []int64{200, 1 << 20}[i%2])
		if err != nil {
			rep.Inconc(err.Error())
			return
		}
		defer w.close()
		rep.Eval()
		rep.Count("boundary_elections", int64(w.elections))
		rep.Count("boundary_truncating_follows", int64(w.truncs))
		rep.Count("boundary_committed_offsets", int64(len(w.commit)))
		newer := false
		for _, c := range classes {
			rep.Count("asked:"+c, 1)
			if c != "no-newer-epoch" {
				newer = true
			}
		}
		if w.elections >= 3 && newer {
			rep.Nontrivial(pl.String())
		}
		mu.Lock()
		for _, c := range classes {
			if strings.HasPrefix(c, "learned:is-last-message") && !sampled[c] {
				sampled[c] = true
				rep.Sample(map[string]any{"plan": pl.String(), "boundary": c, "schedule": strings.Join(w.trace, " ; ")})
			}
		}
		mu.Unlock()
	})
	rep.SetInfo("plans", len(plans))
	for _, must := range []string{"asked:learned:is-last-message", "asked:learned:inside-log", "asked:elected:is-last-message", "asked:elected:inside-log"} {
		if rep.Get(must) == 0 && rep.NumViolations() == 0 {
			rep.Inconc("boundary class never produced: " + must)
		}
	}
}

// ---------------------------------------------------------------- real cluster, family F13

var c02F13Seq int

func init() {
	c02Families["F13"] = c02F13
}

// c02F13: double failover l1 -> l2 -> l3 with a chosen number of messages in
// the middle epoch; l3 learned that epoch by replication; l1 returns with an
// uncommitted tail while l3 has (or has not) written anything.
func c02F13(e *c02Env, rng *kit.RNG) {
	idx := c02F13Seq
	c02F13Seq++
	// first round: the third leader is silent when the first one returns, with
	// one message in the middle epoch (the boundary itself), none (the third
	// leader's own election boundary is then its log end), two; later rounds
	// vary whether the third leader has written
	mid := []int{1, 0, 2}[idx%3]
	l3w := 0
	if idx >= 3 {
		l3w = rng.Intn(2)
	}
	tail := rng.Range(1, 3)
	e.step("plan: tail=%d mid=%d thirdLeaderWritesBeforeRejoin=%d", tail, mid, l3w)

	// classify what each offset request is answered from
	var cmu sync.Mutex
	elected := map[string]bool{}
	e.removers = append(e.removers, vfHooks.On("partition.becomeLeader", func(a ...interface{}) error {
		if a[1].(string) == e.stream {
			cmu.Lock()
			elected[fmt.Sprintf("%v/%v", a[0], a[3])] = true
			cmu.Unlock()
		}
		return nil
	}))
	e.removers = append(e.removers, vfHooks.On("partition.offsetResp", func(a ...interface{}) error {
		if a[1].(string) != e.stream {
			return nil
		}
		srv, reqEpoch := a[0].(string), a[3].(uint64)
		n := e.c.Nodes[srv]
		if n == nil || !n.IsUp() {
			return nil
		}
		p := n.Partition(e.stream, 0)
		if p == nil {
			return nil
		}
		for _, ent := range c02EpochEntries(p) {
			if ent[0] <= int64(reqEpoch) {
				continue
			}
			cmu.Lock()
			kind := "learned"
			if elected[fmt.Sprintf("%s/%d", srv, ent[0])] {
				kind = "elected"
			}
			cmu.Unlock()
			newest := p.log.NewestOffset()
			pos := "inside-log"
			switch {
			case ent[1] == newest:
				pos = "is-last-message"
			case ent[1] > newest:
				pos = "behind-log-end"
			case ent[1] < 0:
				pos = "before-first-message"
			}
			e.count("f13_asked:"+kind+":"+pos, 1)
			e.logf("offsetResp leader=%s reqEpoch=%d answered from entry (e%d,start=%d) %s, leader newest=%d", srv, reqEpoch, ent[0], ent[1], kind+":"+pos, newest)
			if kind == "learned" && pos == "is-last-message" {
				e.mu.Lock()
				e.covered = true
				e.mu.Unlock()
			}
			break
		}
		return nil
	}))

	l1 := e.leader()
	if l1 == nil {
		return
	}
	if !e.publishAcked(rng.Range(2, 3), client.AckPolicy_ALL, 30*time.Second) {
		e.inconclusive("initial publishes not acked")
		return
	}
	e.settle("f13-initial")
	e.pauseReplication(l1.ID)
	if !e.allAcked(e.publish(tail, client.AckPolicy_LEADER, 15*time.Second)) {
		e.inconclusive("uncommitted tail not written")
		return
	}
	e.stop(l1.ID)
	l2 := e.waitLeaderNot(l1.ID)
	if l2 == nil {
		return
	}
	e.checkLeaderComplete("f13-after-first-failover")
	third := c02Others(e.c, l1.ID, l2.ID)[0]
	l2p := l2.Partition(e.stream, 0)
	before := l2p.log.NewestOffset()
	if mid > 0 {
		// exactly one round: a second round would change the size of the epoch
		if !e.allAcked(e.publish(mid, client.AckPolicy_ALL, 45*time.Second)) {
			e.inconclusive("publishes to the second leader not acked")
			return
		}
	} else if !e.waitISR(2) {
		return
	}
	e.settle("f13-second-leader")
	got := int(l2p.log.NewestOffset() - before)
	e.step("middle epoch holds %d message(s): offsets %d..%d", got, before+1, before+int64(got))
	if got != mid {
		e.inconclusive("the middle epoch does not hold the planned number of messages")
		return
	}
	e.count(fmt.Sprintf("f13_middle_epoch_messages_%d", got), 1)
	// The third replica must be in sync to be electable; under load the second
	// leader may have dropped it for a while.
	if !e.waitISR(2) {
		return
	}
	inSync := false
	for _, id := range l2p.GetISR() {
		if id == third {
			inSync = true
		}
	}
	if !inSync {
		e.inconclusive("the third replica is not in the ISR of the second leader")
		return
	}
	// The second leader is only isolated (with the first one down it is needed
	// for the Raft quorum), and the controller's decision "the third replica
	// leads" is committed directly, as in F8/F9/F11: an isolated leader drops
	// its silent follower from the ISR after ReplicaMaxLagTime, the follower
	// reports it after ReplicaMaxLeaderTimeout, and which of the two wins is a
	// matter of load (if the shrink wins, nobody can be elected any more).
	e.pauseReplication(l2.ID)
	if !e.changeLeader(third) || !e.waitLeads(third) {
		return
	}
	e.step("newLeader=%s", third)
	e.unpause(l2.ID)
	if l3w > 0 {
		e.publish(l3w, client.AckPolicy_LEADER, 20*time.Second)
	}
	if !e.restart(l1.ID) {
		return
	}
	if !e.waitFollows(l1.ID, third) {
		return
	}
	e.publish(2, client.AckPolicy_ALL, 45*time.Second)
	e.settle("f13-first-leader-rejoined")
	if mid != 1 || l3w != 0 {
		// neighbours of the boundary: covered means "ran to the end"
		e.mu.Lock()
		e.covered = true
		e.mu.Unlock()
	}
}

var _ = os.Getenv
