//go:build verif

package server

// C07 on real clusters: the leadership invariants (exactly one leader per
// leader epoch, leader in ISR, ISR subset of replicas, epochs only increase)
// are observed on every running server while the C02 fault-sequence walks
// (leader isolation, stop/restart, held followers) drive real elections.
// Uses the C02 environment (units.d/C07.json declares deps: ["c02"]).

import (
	"fmt"
	"reflect"
	"sort"
	"sync"
	"testing"
	"time"

	kit "github.com/liftbridge-io/liftbridge/internal/verifkit"
)

type c07ClusterMon struct {
	mu       sync.Mutex
	rep      *kit.Report
	witness  func() map[string]any
	leaderOf map[uint64]string            // leader epoch -> leader (across all servers and time)
	lastLE   map[string]uint64            // server -> last leader epoch seen
	lastPE   map[string]uint64            // server -> last partition epoch seen
	obs      int
	epochs   map[uint64]bool
}

func (m *c07ClusterMon) observe(n *vfNode, p *partition) {
	// one consistent view under the partition's own lock
	p.mu.RLock()
	leader, le, pe := p.Leader, p.LeaderEpoch, p.Epoch
	isr := make([]string, 0, len(p.isr))
	for r := range p.isr {
		isr = append(isr, r)
	}
	replicas := make(map[string]bool, len(p.replicas))
	for r := range p.replicas {
		replicas[r] = true
	}
	p.mu.RUnlock()
	sort.Strings(isr)
	m.mu.Lock()
	defer m.mu.Unlock()
	m.obs++
	m.epochs[le] = true
	fail := func(fp, what string) { m.rep.Violation(fp, what, m.witness()) }
	inISR := false
	for _, r := range isr {
		if r == leader {
			inISR = true
		}
		if !replicas[r] {
			fail("C07:cluster:isr-not-subset-of-replicas", fmt.Sprintf("server %s: ISR %v contains %s which is not a replica", n.ID, isr, r))
		}
	}
	if leader != "" && !inISR {
		fail("C07:cluster:leader-not-in-isr", fmt.Sprintf("server %s: leader %s (epoch %d) is not in the ISR %v", n.ID, leader, le, isr))
	}
	if leader != "" {
		if old, ok := m.leaderOf[le]; ok && old != leader {
			fail("C07:cluster:two-leaders-in-one-epoch", fmt.Sprintf("leader epoch %d: server %s says leader %s, earlier observation said %s", le, n.ID, leader, old))
		}
		m.leaderOf[le] = leader
	}
	key := n.ID + "#" + fmt.Sprint(n.generation())
	if last, ok := m.lastLE[key]; ok && le < last {
		fail("C07:cluster:leader-epoch-decreased", fmt.Sprintf("server %s: leader epoch went from %d to %d", n.ID, last, le))
	}
	m.lastLE[key] = le
	if last, ok := m.lastPE[key]; ok && pe < last {
		fail("C07:cluster:partition-epoch-decreased", fmt.Sprintf("server %s: partition epoch went from %d to %d", n.ID, last, pe))
	}
	m.lastPE[key] = pe
}

// generation distinguishes incarnations of a node (a restarted server replays
// its log, during which epochs legitimately start low again).
func (n *vfNode) generation() uintptr {
	srv := n.Server()
	if srv == nil {
		return 0
	}
	return uintptr(len(srv.config.DataDir)) ^ uintptr(srvPtr(srv))
}

func TestVerifC07Cluster(t *testing.T) {
	rep := kit.NewReport("C07", "cluster")
	defer rep.Write()
	rep.SetRule("real 3-server clusters driven by the C02 fault-sequence walks (F2 double failover and F5 random walks): every 15 ms and after every step each running server's partition is read under its own lock; invariants: leader in ISR, ISR subset of replicas, the map leader epoch -> leader is a function across all servers and time, leader and partition epochs never decrease within one server incarnation; non-trivial = run saw >= 2 leader epochs; distinct = family/seed")
	root := kit.NewRNG(kit.Mix(kit.Seed(), 0xC07C))
	n := kit.Scale(2, 12)
	for i := 0; i < n && rep.NumViolations() < 3; i++ {
		family := []string{"F5", "F2"}[i%2]
		seed := root.Uint64()
		e, err := c02NewEnv(rep, family, seed)
		if err != nil {
			rep.Inconc(fmt.Sprintf("cluster start failed: %v", err))
			continue
		}
		e.quietOracle = true // C02's own oracles are judged by the C02 check
		mon := &c07ClusterMon{rep: rep, witness: e.witness, leaderOf: map[uint64]string{}, lastLE: map[string]uint64{}, lastPE: map[string]uint64{}, epochs: map[uint64]bool{}}
		stop, done := make(chan struct{}), make(chan struct{})
		go func() {
			defer close(done)
			for {
				select {
				case <-stop:
					return
				case <-time.After(15 * time.Millisecond):
				}
				for _, nd := range e.c.Running() {
					if p := nd.Partition(e.stream, 0); p != nil {
						mon.observe(nd, p)
					}
				}
			}
		}()
		c02Families[family](e, kit.NewRNG(seed))
		close(stop)
		<-done
		rep.Eval()
		mon.mu.Lock()
		rep.Count("cluster_observations", int64(mon.obs))
		rep.Count("cluster_leader_epochs_seen", int64(len(mon.epochs)))
		if len(mon.epochs) >= 2 {
			rep.Nontrivial(fmt.Sprintf("%s/%d", family, seed))
		}
		mon.mu.Unlock()
		e.mu.Lock()
		steps := append([]string(nil), e.steps...)
		e.mu.Unlock()
		rep.Sample(map[string]any{"family": family, "seed": seed, "steps": steps})
		e.close()
	}
}

func srvPtr(s *Server) uintptr { return reflect.ValueOf(s).Pointer() }
