//go:build verif

package server

// C18 — two further scenario families.
//
// backlog: the dispatcher cannot publish for a while (held at the
// activity.beforePublish hook, or __activity made read-only through the API)
// while hundreds of operations are committed, and a Raft snapshot is forced
// with the server's OWN Raft configuration untouched (no ReloadConfig).  The
// dispatcher reads the operations it still has to publish from the Raft log
// store, so the whole backlog must still be there after the snapshot: once
// publishing works again every operation has to be listed, in order.
//
// regain: the metadata leader loses the leadership and gets it BACK while its
// dispatcher of the earlier term is still blocked inside a publish (held at the
// hook, or really waiting in api.Publish for an in-sync follower of __activity
// that has just died).  A dispatcher only looks at the leadership-lost channel
// between entries, so two terms of the same server overlap in that goroutine.
// Every operation committed afterwards must still be listed.
//
// Liveness is decided by state, not by the clock: besides the watchdog
// (inconclusive) finish() knows the stuck state "this server finished its
// leader promotion in the current term and no goroutine of the process runs
// its dispatcher" (leaderWithoutDispatcher below).

import (
	"context"
	"fmt"
	"os"
	"regexp"
	"runtime"
	"strings"
	"testing"
	"time"

	"github.com/hashicorp/raft"
	client "github.com/liftbridge-io/liftbridge-api/v2/go"

	kit "github.com/liftbridge-io/liftbridge/internal/verifkit"
)

// ---------------------------------------------------------------- stuck state: no dispatcher

var c18DispatchFrameRe = regexp.MustCompile(`\(\*activityManager\)\.dispatch\((0x[0-9a-f]+)?`)

// c18DispatcherPresent reports whether some goroutine of this process may be
// the activity dispatcher of srv: it executes activityManager.dispatch with
// srv's manager as receiver (or with a receiver the dump does not show), it is
// inside the closure BecomeLeader starts, or it is a goroutine made by
// Server.startGoroutine that has not entered its function yet.
func c18DispatcherPresent(srv *Server) (present bool, dispatchers int) {
	present, dispatchers, _ = c18DispatcherScan(srv)
	return
}

func c18DispatcherScan(srv *Server) (present bool, dispatchers, own int) {
	buf := make([]byte, 16<<20)
	n := runtime.Stack(buf, true)
	want := fmt.Sprintf("%p", srv.activity)
	for _, g := range strings.Split(string(buf[:n]), "\n\n") {
		lines := strings.Split(g, "\n")
		if len(lines) > 1 && strings.Contains(lines[1], "server.(*Server).startGoroutine.func1(") {
			present = true // wrapper on top of the stack: its function has not started (or has just returned)
		}
		if strings.Contains(g, "(*activityManager).BecomeLeader.func") && !strings.Contains(g, "(*activityManager).dispatch(") {
			present = true
		}
		for _, m := range c18DispatchFrameRe.FindAllStringSubmatch(g, -1) {
			dispatchers++
			if m[1] == want {
				own++
			}
			if m[1] == "" || m[1] == want {
				present = true
			}
		}
	}
	return present, dispatchers, own
}

// leaderWithoutDispatcher is a stuck-state predicate.  IsLeader() is true only
// between the end of leadershipAcquired (which calls activity.BecomeLeader)
// and leadershipLost (which calls activity.BecomeFollower), and a dispatcher
// ends only when BecomeFollower closes its channel, when the server shuts down
// or by a panic.  So "IsLeader() in one and the same Raft term on every sample,
// the fence not published, and no goroutine that could be this server's
// dispatcher on any sample" is a state nothing but the next leadership change
// leaves: operations committed in this term are never listed.
func (e *c18Env) leaderWithoutDispatcher(fenceIdx uint64) string {
	srv := e.c.metaLeaderNow()
	if srv == nil || !srv.config.ActivityStream.Enabled {
		return ""
	}
	rn := srv.getRaft()
	if rn == nil {
		return ""
	}
	term := rn.Stats()["term"]
	others := 0
	for k := 0; k < 4; k++ {
		if k > 0 {
			time.Sleep(150 * time.Millisecond)
		}
		if !srv.IsRunning() || !srv.IsLeader() || rn.State() != raft.Leader || rn.Stats()["term"] != term {
			return ""
		}
		if srv.activity.LastPublishedRaftIndex() >= fenceIdx {
			return ""
		}
		present, n := c18DispatcherPresent(srv)
		if present {
			return ""
		}
		others = n
	}
	if e.c.metaLeaderNow() != srv {
		return ""
	}
	return fmt.Sprintf("server %s has finished its promotion to metadata leader in Raft term %s (IsLeader()=true, activity.BecomeLeader has returned) and the last published index %d is behind the committed fence, but no goroutine of the process runs its activity dispatcher (activityManager.dispatch frames with another receiver: %d); a dispatcher is only started by BecomeLeader, so nothing committed in this term is ever published",
		srv.config.Clustering.ServerID, term, srv.activity.LastPublishedRaftIndex(), others)
}

// c18WriteSig records a non-triviality signature (in a child: also in the file
// the parent reads).
func c18WriteSig(rep *kit.Report, sig string) {
	rep.Nontrivial(sig)
	if f := os.Getenv("C18_SIG_FILE"); f != "" {
		os.WriteFile(f, []byte(sig), 0644)
	}
}

// ---------------------------------------------------------------- backlog

func (e *c18Env) bad() bool {
	e.mu.Lock()
	defer e.mu.Unlock()
	return e.inconc || e.failed
}

func (e *c18Env) closeGate(gate chan struct{}) {
	e.mu.Lock()
	e.gate = nil
	e.mu.Unlock()
	close(gate)
}

// c18Backlog: variant 0 = dispatcher held at the hook; 1 = the same plus a
// restart after the snapshot (still held); 2 = __activity read-only through
// the API (every publish attempt fails, back-off).
func c18Backlog(rep *kit.Report, run int, seed uint64, variant, nops int) {
	e := c18NewEnv(rep, "backlog", run, seed)
	rng := e.rng
	c, _, err := vfSingle("c18b", e.mut(func(cfg *Config) { cfg.Groups.ConsumerTimeout = time.Hour }))
	if err != nil {
		rep.Inconc(fmt.Sprintf("[backlog run %d] server start failed: %v", run, err))
		return
	}
	e.c = c
	e.noAuto = true
	defer e.close()
	e.attach("a")
	e.installHooks(0, 0, 0, 0, false)
	for i, n := 0, rng.Range(4, 9); i < n && !e.bad(); i++ {
		e.doOp(e.genOp(1, false))
	}
	srv := e.leader()
	if srv == nil || e.bad() {
		e.account()
		return
	}
	e.doOp(c18Op{Kind: "create", Stream: "bulk", NParts: 1, RF: 1})
	delete(e.streams, "bulk") // not a candidate for the generated operations
	var gate chan struct{}
	if variant == 2 {
		e.doOp(c18Op{Kind: "readonly", Stream: c18ActivityStream, Flag: true})
	} else {
		gate = make(chan struct{})
		e.mu.Lock()
		e.gate = gate
		e.mu.Unlock()
	}
	// the backlog: mostly cheap read-only toggles, every tenth a generated operation
	ctx := context.Background()
	for i := 0; i < nops && !e.bad(); i++ {
		if i%10 == 9 {
			e.doOp(e.genOp(1, false))
			continue
		}
		cctx, cancel := context.WithTimeout(ctx, 12*time.Second)
		_, err := srv.api.SetStreamReadonly(cctx, &client.SetStreamReadonlyRequest{Name: "bulk", Readonly: i%2 == 0})
		cancel()
		if err != nil {
			e.inconclusive("bulk operation failed: " + err.Error())
		}
	}
	commit := srv.getRaft().getCommitIndex()
	lastPub := srv.activity.LastPublishedRaftIndex()
	e.step("backlog(ops=%d,variant=%d,commit=%d,lastPublished=%d)", nops, variant, commit, lastPub)
	rep.Count("backlog_raft_entries_behind_at_snapshot_(sum_over_scenarios)", int64(commit-lastPub))
	rep.Count("backlog_operations_committed_while_blocked", int64(nops))
	if e.bad() {
		if gate != nil {
			e.closeGate(gate)
		}
		e.account()
		return
	}
	// capture the committed log before the snapshot may compact it (the listener
	// was attached after the server's first entries had been committed)
	e.absorbStore(srv, "a")
	// the server's own Raft configuration is untouched
	if err := srv.getRaft().Snapshot().Error(); err != nil {
		e.inconclusive("forced snapshot failed: " + err.Error())
	} else {
		e.mu.Lock()
		e.snapshots++
		e.mu.Unlock()
		first, _ := srv.getRaft().store.FirstIndex()
		e.step("snapshot(firstIndexAfter=%d,lastPublished=%d)", first, srv.activity.LastPublishedRaftIndex())
	}
	for i, n := 0, rng.Range(0, 3); i < n && !e.bad(); i++ {
		e.doOp(e.genOp(1, false))
	}
	if variant == 1 && !e.bad() {
		if !e.restartNode("a") || e.leader() == nil {
			if gate != nil {
				e.closeGate(gate)
			}
			e.account()
			return
		}
	}
	if gate != nil {
		e.closeGate(gate)
	} else {
		e.doOp(c18Op{Kind: "readonly", Stream: c18ActivityStream, Flag: false})
	}
	e.step("unblocked")
	for i, n := 0, rng.Range(1, 4); i < n && !e.bad(); i++ {
		e.doOp(e.genOp(1, false))
	}
	e.finish(fmt.Sprintf("fence%d", run))
	e.account()
	if !e.bad() && e.snapshots > 0 {
		// a scenario of this unit is non-trivial by its backlog across the snapshot
		c18WriteSig(rep, fmt.Sprintf("backlog|variant=%d|ops=%d|raftEntriesBehind=%d|run=%d", variant, nops, commit-lastPub, run))
	}
}

// TestVerifC18Backlog: long dispatcher backlog across a forced Raft snapshot.
func TestVerifC18Backlog(t *testing.T) {
	rep := kit.NewReport("C18", "backlog")
	defer rep.Write()
	rep.SetRule(c18Rule + " ; backlog unit: single server, Raft configuration as the server builds it (no ReloadConfig); activity publishing is blocked (dispatcher held at the activity.beforePublish hook; or __activity set read-only through the API so that every attempt fails and backs off), 200..420 operations are committed meanwhile (read-only toggles and generated operations; each API call also writes a Raft barrier entry), a Raft snapshot is forced (raft.Snapshot()), in a third of the scenarios the server is also restarted while still blocked, publishing is unblocked: every operation must be listed, in commit order")
	rep.Assume("backlog sizes exercised: 200..420 operations = about 400..900 Raft entries behind the head of the log when the snapshot is taken (thorough tier: up to 1200 operations); the documented at-least-once guarantee is checked for these sizes only - a backlog longer than what Raft's default TrailingLogs (10240 entries) retains is not produced")
	root := kit.NewRNG(kit.Mix(kit.Seed(), 0xC18B))
	n := kit.Scale(3, 12)
	specs := make([]c18ChildSpec, n)
	for i := range specs {
		ops := root.Range(200, 420)
		if kit.Thorough() && i%4 == 3 {
			ops = root.Range(600, 1200)
		}
		specs[i] = c18ChildSpec{Unit: "backlog", Run: i, Seed: root.Uint64(), Variant: i % 3, Bulk: ops}
	}
	c18RunChildren(rep, "backlog", specs, 4)
}

// ---------------------------------------------------------------- regain

// transferTo moves the metadata leadership from the current leader to node id
// and waits until that server has finished its promotion.
func (e *c18Env) transferTo(from *Server, id string) bool {
	target := e.c.Nodes[id].Server()
	if target == nil || from == nil {
		return false
	}
	sid := target.config.Clustering.ServerID
	for attempt := 0; attempt < 3; attempt++ {
		cur := e.c.metaLeaderNow()
		if cur == target {
			return true
		}
		var src *Server
		for _, n := range e.c.Running() {
			if s := n.Server(); s != nil && s.getRaft() != nil && s.getRaft().State() == raft.Leader {
				src = s
			}
		}
		if src == nil {
			time.Sleep(200 * time.Millisecond)
			continue
		}
		var addr raft.ServerAddress
		if f := src.getRaft().GetConfiguration(); f.Error() == nil {
			for _, s := range f.Configuration().Servers {
				if string(s.ID) == sid {
					addr = s.Address
				}
			}
		}
		if addr == "" {
			return false
		}
		if err := src.getRaft().LeadershipTransferToServer(raft.ServerID(sid), addr).Error(); err != nil {
			e.logf("leadership transfer %s -> %s: %v", e.nodeOf(src), id, err)
		}
		if vfWait(10*time.Second, func() bool { return e.c.metaLeaderNow() == target }) {
			e.mu.Lock()
			e.failovers++
			e.mu.Unlock()
			return true
		}
	}
	return false
}

// c18Regain: variant 0 = the dispatcher is held at the beforePublish hook while
// the leadership leaves and comes back; variant 2 = the same, and the held
// publish FAILS when the block ends (the dispatcher of the earlier term then
// notices the lost leadership in its back-off and leaves the event to the new
// one); variant 1 = an in-sync follower of
// __activity is stopped, so the dispatcher really waits inside api.Publish
// (ack policy ALL) until the dead follower leaves the ISR.
func c18Regain(rep *kit.Report, run int, seed uint64, variant int) {
	e := c18NewEnv(rep, "regain", run, seed)
	rng := e.rng
	// variant 1 needs __activity replicated on all servers (peer bootstrap)
	peers := variant == 1 || (run/2)%2 == 0
	lag := 1500 * time.Millisecond
	if variant == 1 {
		lag = 7 * time.Second
	}
	c, err := vfNewCluster("c18r", 3, e.mut(func(cfg *Config) {
		if peers {
			cfg.Clustering.RaftBootstrapSeed = false
			cfg.Clustering.RaftBootstrapPeers = []string{e.prefix + "a", e.prefix + "b", e.prefix + "c"}
		}
		cfg.Clustering.ReplicaMaxLeaderTimeout = time.Minute
		cfg.Clustering.ReplicaMaxIdleWait = 250 * time.Millisecond
		cfg.Clustering.ReplicaFetchTimeout = 400 * time.Millisecond
		cfg.Clustering.ReplicaMaxLagTime = lag
		cfg.Groups.ConsumerTimeout = time.Hour
		cfg.Groups.CoordinatorTimeout = time.Hour
		// the publish that is blocked must outlive the two leadership changes
		cfg.ActivityStream.PublishTimeout = 40 * time.Second
	}))
	if err != nil {
		rep.Inconc(fmt.Sprintf("[regain run %d] cluster start failed: %v", run, err))
		return
	}
	e.c = c
	defer e.close()
	for _, id := range c.IDs {
		e.attach(id)
	}
	e.installHooks(0, 0, 0, 0, false)
	e.step("cluster(activityReplicas=%d,variant=%d)", e.activityReplicas(), variant)
	for i, n := 0, rng.Range(3, 7); i < n && !e.bad(); i++ {
		e.doOp(e.genOp(3, false))
	}
	l := e.leader()
	if l == nil || e.bad() {
		e.account()
		return
	}
	home := e.nodeOf(l)
	// let the dispatcher catch up, so that the publish it blocks in is the one
	// of the operation committed next
	e.absorbAll()
	var target uint64
	if ops, _, _ := e.listedOps(); len(ops) > 0 {
		target = ops[len(ops)-1].Index
	}
	if !vfWait(60*time.Second, func() bool { return l.activity.LastPublishedRaftIndex() >= target }) {
		e.inconclusive("dispatcher did not catch up before the leadership changes")
		e.account()
		return
	}
	var gate chan struct{}
	victim := ""
	var away []string
	for _, id := range c.IDs {
		if id != home {
			away = append(away, id)
		}
	}
	e.mu.Lock()
	inFlightBase := e.hitsBefore - e.hitsAfter
	e.mu.Unlock()
	if variant == 1 {
		// the victim: a follower of __activity that is neither the metadata
		// leader nor the leader of __activity
		var al *vfNode
		if vfWait(20*time.Second, func() bool {
			for _, n := range c.Running() {
				p := n.Partition(c18ActivityStream, 0)
				if p == nil || len(p.GetISR()) != 3 {
					return false
				}
				if p.IsLeader() {
					al = n
				}
			}
			return al != nil
		}) {
			for _, id := range away {
				if id != al.ID {
					victim = id
				}
			}
		}
		if victim == "" {
			e.inconclusive("__activity not replicated on all three servers")
			e.account()
			return
		}
		e.step("stopFollower(%s)", victim)
		e.absorbAll()
		if err := c.StopNode(victim); err != nil {
			e.logf("stop %s: %v", victim, err)
		}
		var rest []string
		for _, id := range away {
			if id != victim {
				rest = append(rest, id)
			}
		}
		away = rest
	} else {
		gate = make(chan struct{})
		e.mu.Lock()
		e.gate = gate
		e.gateFail = variant == 2
		e.mu.Unlock()
	}
	release := func() {
		if gate != nil {
			e.closeGate(gate)
			gate = nil
		}
	}
	defer release()
	// the operation whose publish blocks
	e.doOp(c18Op{Kind: "create", Stream: fmt.Sprintf("blk%d", run), NParts: 1, RF: 1})
	if variant != 1 {
		ok := vfWait(30*time.Second, func() bool {
			e.mu.Lock()
			defer e.mu.Unlock()
			return e.gateWaiting >= 1
		})
		if !ok {
			e.inconclusive("the dispatcher did not reach the beforePublish hook")
			e.account()
			return
		}
	} else {
		// a publish has started (beforePublish) and not completed (afterPublish)
		ok := vfWait(30*time.Second, func() bool {
			e.mu.Lock()
			defer e.mu.Unlock()
			return e.hitsBefore-e.hitsAfter > inFlightBase
		})
		if !ok {
			e.inconclusive("the dispatcher did not start the publish that was to block")
			e.account()
			return
		}
	}
	blockedBefore := func() bool {
		// is the earlier term's dispatcher still inside its publish?
		e.mu.Lock()
		defer e.mu.Unlock()
		if variant != 1 {
			return e.gate != nil && e.gateExpired == 0
		}
		return e.hitsBefore-e.hitsAfter > inFlightBase
	}
	flaps := rng.Range(1, 2)
	regained := 0
	for k := 0; k < flaps && !e.bad(); k++ {
		to := away[rng.Intn(len(away))]
		if !e.transferTo(l, to) {
			e.logf("flap %d: leadership did not move to %s", k, to)
			break
		}
		e.step("transfer(%s->%s)", home, to)
		if rng.Bool() && variant != 1 {
			// an operation committed under the other leader (its dispatcher is held too)
			e.doOp(e.genOp(3, false))
		}
		if !e.transferTo(e.c.Nodes[to].Server(), home) {
			e.logf("flap %d: leadership did not come back to %s", k, home)
			break
		}
		still := blockedBefore()
		_, n, own := c18DispatcherScan(e.c.Nodes[home].Server())
		e.step("regained(%s,earlierDispatcherStillBlocked=%v,dispatchGoroutines=%d,own=%d)", home, still, n, own)
		if still {
			regained++
			rep.Count("leadership_regained_while_earlier_dispatcher_blocked", 1)
			rep.Count("dispatch_goroutines_of_the_regaining_server_at_regain_(sum)", int64(own))
		} else {
			rep.Count("leadership_regained_after_the_publish_had_returned", 1)
		}
	}
	release()
	if variant == 1 {
		// publishing resumes once the dead follower has left the ISR
		vfWait(60*time.Second, func() bool {
			for _, n := range c.Running() {
				if p := n.Partition(c18ActivityStream, 0); p != nil && p.IsLeader() {
					return len(p.GetISR()) <= 2
				}
			}
			return false
		})
	}
	for i, n := 0, rng.Range(3, 7); i < n && !e.bad(); i++ {
		e.doOp(e.genOp(2, false))
	}
	e.finish(fmt.Sprintf("fence%d", run))
	e.account()
	if regained > 0 && !e.bad() {
		c18WriteSig(rep, fmt.Sprintf("regain|variant=%d|peers=%v|flaps=%d|%s", variant, peers, regained, strings.Join(e.steps, " ")))
	}
}

// TestVerifC18Regain: metadata leadership lost and regained by the same server
// while its dispatcher is blocked in a publish.
func TestVerifC18Regain(t *testing.T) {
	rep := kit.NewReport("C18", "regain")
	defer rep.Write()
	rep.SetRule(c18Rule + " ; regain unit: 3 servers (peer bootstrap: __activity on all three; seed bootstrap: on the first controller only); the dispatcher of the metadata leader is blocked inside the publish of one event (variant 0: held at the activity.beforePublish hook; variant 2: held there and the publish fails when the block ends; variant 1: an in-sync follower of __activity is stopped, the publish with ack policy ALL waits inside api.Publish until that follower leaves the ISR) while the metadata leadership is transferred to another server and back to the SAME server (Raft LeadershipTransferToServer, 1..2 round trips, sometimes an operation under the other leader); then the block ends and further operations are committed; bounded progress is decided by the stuck-state predicate 'promotion finished in this term and no goroutine runs this server's dispatcher', the watchdog alone is inconclusive; non-trivial = leadership came back while the earlier dispatcher was still blocked")
	rep.Assume("whether the earlier dispatcher was still blocked when the leadership came back is read from the hook counters (gate still closed / beforePublish hits > afterPublish hits), not assumed from timing; scenarios where it had already returned are counted separately")
	root := kit.NewRNG(kit.Mix(kit.Seed(), 0xC18E))
	n := kit.Scale(4, 24)
	specs := make([]c18ChildSpec, n)
	for i := range specs {
		v := []int{0, 2, 0, 1}[i%4]
		specs[i] = c18ChildSpec{Unit: "regain", Run: i, Seed: root.Uint64(), Variant: v}
	}
	c18RunChildren(rep, "regain", specs, 4)
}
