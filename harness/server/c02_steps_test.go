//go:build verif

package server

// C02, step-driven: three REAL commit logs and the REAL replication functions
// (log.Append, NewLeaderEpoch, replicationProtocolWriter framing,
// partition.handleReplicationResponse, partition.lastOffsetForLeaderEpoch,
// log.Truncate, commitlog.New recovery) are driven one protocol step at a time,
// without NATS / Raft / timers, so that thousands of failover schedules —
// including every short schedule over a reduced alphabet — can be executed in
// the time one real-cluster scenario takes.  The controller's decisions (which
// replica is in the ISR, who may be elected, when the leader commits) are played
// by the harness according to the rules the server implements (stated in
// rep.Assume); what is under test is whether, given any such schedule, the
// replicas' logs still satisfy the property.  Findings of this unit are
// re-validated on real clusters (family F6 of TestVerifC02) before being
// reported as defects.

import (
	"fmt"
	"os"
	"sort"
	"strings"
	"testing"

	"github.com/nats-io/nats.go"

	kit "github.com/liftbridge-io/liftbridge/internal/verifkit"
	"github.com/liftbridge-io/liftbridge/server/commitlog"
	"github.com/liftbridge-io/liftbridge/server/logger"
	proto "github.com/liftbridge-io/liftbridge/server/protocol"
)

type c02sReplica struct {
	id        int
	dir       string
	log       commitlog.CommitLog
	p         *partition
	alive     bool
	following uint64 // leader epoch this replica follows or leads (0 = not started)
	zombie    bool   // deposed leader that has not yet learned about its successor
	hwSeen    []int64
}

type c02sWorld struct {
	rep     *kit.Report
	base    string
	maxSeg  int64
	reps    []*c02sReplica
	leader  int // index, -1 none
	epoch   uint64
	isr     map[int]bool
	known   map[int]int64 // leader's knowledge of follower offsets (this epoch)
	caught  map[int]bool  // follower was seen caught up by the current leader
	lastReq map[int]int64 // latest offset each follower reported to the current leader
	failed  bool          // current leader failed (dead or isolated)
	nmsg    int
	commit  map[int64]uint64
	ctag    map[int64]string
	cby     map[int64]string
	trace   []string
	bad     bool
	elections, truncs, fetches, crashes int
	srv     *Server
	useFallback bool
	unknownEpoch bool // a follower's last leader epoch was unknown to the leader it asked
	fallbackCut  map[int]int64 // replica -> lowest offset removed by a HW-fallback truncation
}

func (w *c02sWorld) logf(f string, a ...interface{}) {
	w.trace = append(w.trace, fmt.Sprintf(f, a...))
}

func (w *c02sWorld) fail(fp, what string) {
	if w.bad {
		return
	}
	w.bad = true
	w.rep.Violation(fp, what, map[string]any{"schedule": strings.Join(w.trace, " ; "), "follower_maxSegmentBytes": w.maxSeg})
}

func c02sOpen(dir string, maxSeg int64) (commitlog.CommitLog, error) {
	lg := logger.NewLogger(0)
	lg.Silent(true)
	return commitlog.New(commitlog.Options{Path: dir, MaxSegmentBytes: maxSeg, Logger: lg,
		HWCheckpointInterval: 100000 * 3600 * 1e9, CleanerInterval: 100000 * 3600 * 1e9})
}

func newC02sWorld(rep *kit.Report, maxSeg int64) (*c02sWorld, error) {
	lg := logger.NewLogger(0)
	lg.Silent(true)
	w := &c02sWorld{rep: rep, base: vfWorkDir("c02s"), maxSeg: maxSeg, leader: -1, isr: map[int]bool{}, known: map[int]int64{},
		caught: map[int]bool{}, lastReq: map[int]int64{}, fallbackCut: map[int]int64{}, commit: map[int64]uint64{}, ctag: map[int64]string{}, cby: map[int64]string{},
		srv: &Server{logger: lg, config: NewDefaultConfig()}}
	for i := 0; i < 3; i++ {
		r := &c02sReplica{id: i, dir: fmt.Sprintf("%s/r%d", w.base, i), alive: true}
		l, err := c02sOpen(r.dir, maxSeg)
		if err != nil {
			return nil, err
		}
		r.log = l
		r.p = &partition{Partition: &proto.Partition{Stream: "s", Id: 0}, log: l, srv: w.srv}
		w.reps = append(w.reps, r)
		w.isr[i] = true
	}
	return w, nil
}

func (w *c02sWorld) close() {
	for _, r := range w.reps {
		if r.alive {
			r.log.Close()
		}
	}
	os.RemoveAll(w.base)
}

func (w *c02sWorld) name(i int) string { return string(rune('a' + i)) }

// ---------------------------------------------------------------- steps (each returns false if not enabled)

// elect makes replica n the leader (the controller only picks from the ISR,
// never the failed leader; the first election picks any replica).
func (w *c02sWorld) elect(n int) bool {
	r := w.reps[n]
	if !r.alive || !w.isr[n] {
		return false
	}
	if w.leader >= 0 && (!w.failed || n == w.leader) {
		return false
	}
	// Every server applies the leader changes in Raft order: before it can be
	// elected for the next epoch it has become follower of the current leader
	// (truncating through the leader's answer, or through the HW fallback if
	// the leader cannot be reached — see follow).  A restarted server does the
	// same with the latest metadata.
	if w.leader >= 0 && r.following != w.epoch {
		return false
	}
	old := w.leader
	w.epoch += 3
	w.leader, w.failed = n, false
	w.known = map[int]int64{}
	w.caught = map[int]bool{}
	w.lastReq = map[int]int64{}
	for i := range w.reps {
		if i != n {
			w.known[i] = -1
			w.lastReq[i] = -1
		}
	}
	if old >= 0 && w.reps[old].alive {
		w.reps[old].zombie = true // keeps acting as leader of the old epoch until it follows
	}
	// becomeLeader
	r.zombie = false
	r.following = w.epoch
	r.p.mu.Lock()
	r.p.LeaderEpoch = w.epoch
	r.p.isFollowing = false
	r.p.mu.Unlock()
	if err := r.log.NewLeaderEpoch(w.epoch); err != nil {
		w.fail("C02:steps:harness", "NewLeaderEpoch: "+err.Error())
		return true
	}
	w.elections++
	w.logf("elect(%s,e%d,newest=%d)", w.name(n), w.epoch, r.log.NewestOffset())
	w.checkLeaderComplete()
	return true
}

// follow: replica f learns about the current leader and becomes its follower
// (truncateUncommitted through the real leader-side answer and Truncate).
func (w *c02sWorld) follow(f int) bool {
	r := w.reps[f]
	if w.leader < 0 || f == w.leader || !r.alive || r.following == w.epoch {
		return false
	}
	lr := w.reps[w.leader]
	unreachable := !lr.alive || w.failed
	if unreachable && !w.useFallback {
		// The real follower falls back to truncating to its own HW when the
		// leader does not answer (a documented, lossy path); it is explored
		// only by the dedicated fallback profile.
		return false
	}
	r.zombie = false
	r.following = w.epoch
	r.p.mu.Lock()
	r.p.LeaderEpoch = w.epoch
	r.p.isFollowing = true
	r.p.mu.Unlock()
	if unreachable {
		hw, newest := r.log.HighWatermark(), r.log.NewestOffset()
		if newest != hw {
			if err := r.log.Truncate(hw + 1); err != nil {
				w.fail("C02:steps:truncate-error", err.Error())
			}
			if cut, ok := w.fallbackCut[f]; !ok || hw+1 < cut {
				w.fallbackCut[f] = hw + 1
			}
		}
		w.truncs++
		w.logf("follow(%s)=hwfallback(to=%d)", w.name(f), hw+1)
		return true
	}
	fe := r.log.LastLeaderEpoch()
	knows, newer := fe == 0, false
	for _, ent := range c02EpochEntriesDir(lr.dir) {
		if ent[0] == int64(fe) {
			knows = true
		}
		if ent[0] > int64(fe) {
			newer = true
		}
	}
	if !knows && newer {
		w.unknownEpoch = true
	}
	last := lr.p.lastOffsetForLeaderEpoch(fe)
	if err := r.log.Truncate(last + 1); err != nil {
		w.fail("C02:steps:truncate-error", err.Error())
		return true
	}
	w.truncs++
	w.logf("follow(%s,ask e%d->%d,truncate %d)", w.name(f), r.log.LastLeaderEpoch(), last, last+1)
	return true
}

// pub: the leader (or a zombie ex-leader) appends k messages in its own epoch.
func (w *c02sWorld) pub(who, k int) bool {
	r := w.reps[who]
	if !r.alive || (who != w.leader && !r.zombie) || r.following == 0 {
		return false
	}
	msgs := make([]*commitlog.Message, k)
	for i := range msgs {
		w.nmsg++
		msgs[i] = &commitlog.Message{Value: []byte(fmt.Sprintf("m%04d@%s/e%d", w.nmsg, w.name(who), r.following)), Timestamp: int64(1000 + w.nmsg),
			LeaderEpoch: r.following, Key: []byte{byte('a' + w.nmsg%3)}}
	}
	if _, err := r.log.Append(msgs); err != nil {
		w.fail("C02:steps:harness", "Append: "+err.Error())
		return true
	}
	w.logf("pub(%s,%d)", w.name(who), k)
	return true
}

// fetch: one replication round trip of follower f with the live leader.
func (w *c02sWorld) fetch(f, batch int) bool {
	r := w.reps[f]
	if w.leader < 0 || w.failed || f == w.leader || !r.alive || r.following != w.epoch {
		return false
	}
	lr := w.reps[w.leader]
	if !lr.alive {
		return false
	}
	reqOffset := r.log.NewestOffset()
	// leader side: replicator.start
	w.lastReq[f] = reqOffset
	if w.isr[f] {
		if reqOffset > w.known[f] {
			w.known[f] = reqOffset
		}
	}
	latest := lr.log.NewestOffset()
	repl := &replicator{epoch: w.epoch, partition: lr.p}
	stop := make(chan struct{})
	writer := newReplicationProtocolWriter(repl, stop)
	defer close(stop)
	if reqOffset >= latest {
		w.caught[f] = true
	} else {
		reader, err := lr.log.NewReader(reqOffset+1, true)
		if err != nil {
			w.fail("C02:steps:leader-reader", fmt.Sprintf("leader cannot serve follower offset %d: %v", reqOffset+1, err))
			return true
		}
		hb := make([]byte, 28)
		for k := 0; k < batch && reqOffset+1+int64(k) <= latest; k++ {
			m, off, _, _, err := reader.ReadMessage(vfCancelledCtx, hb)
			if err != nil {
				break
			}
			writer.Write(off, hb, m)
		}
	}
	var resp []byte
	writer.Flush(func(d []byte) error { resp = append([]byte(nil), d...); return nil })
	n := 0
	func() {
		defer func() {
			if p := recover(); p != nil {
				w.fail("C02:steps:follower-panic", fmt.Sprintf("handleReplicationResponse panicked: %v", p))
			}
		}()
		n = r.p.handleReplicationResponse(&nats.Msg{Data: resp})
	}()
	w.fetches++
	w.logf("fetch(%s,req=%d,got=%d,hw=%d)", w.name(f), reqOffset, n, r.log.HighWatermark())
	w.observe(f, "fetch")
	return true
}

// commit: the leader's commit loop: HW = min over the ISR of the known offsets.
func (w *c02sWorld) commitStep() bool {
	if w.leader < 0 || w.failed {
		return false
	}
	lr := w.reps[w.leader]
	if !lr.alive {
		return false
	}
	min := lr.log.NewestOffset()
	for i := range w.reps {
		if i == w.leader || !w.isr[i] {
			continue
		}
		if w.known[i] < min {
			min = w.known[i]
		}
	}
	before := lr.log.HighWatermark()
	lr.log.SetHighWatermark(min)
	if lr.log.HighWatermark() == before {
		return false
	}
	w.logf("commit(hw=%d)", lr.log.HighWatermark())
	w.observe(w.leader, "commit")
	return true
}

func (w *c02sWorld) shrink(f int) bool {
	if w.leader < 0 || w.failed || f == w.leader || !w.isr[f] || !w.reps[w.leader].alive {
		return false
	}
	delete(w.isr, f)
	w.logf("shrink(%s)", w.name(f))
	return true
}

// expand: the leader re-adds a follower that it saw caught up (replicator.tick:
// lastCaughtUp within ReplicaMaxLagTime) and that has reported an offset >= HW.
func (w *c02sWorld) expand(f int) bool {
	if w.leader < 0 || w.failed || f == w.leader || w.isr[f] || !w.caught[f] || !w.reps[f].alive || !w.reps[w.leader].alive {
		return false
	}
	// ... and whose latest reported offset has reached the leader's HW
	if w.lastReq[f] < w.reps[w.leader].log.HighWatermark() {
		return false
	}
	w.isr[f] = true
	w.known[f] = -1
	w.logf("expand(%s)", w.name(f))
	return true
}

// failLeader: the partition leader stops answering (isolated) or its process dies.
func (w *c02sWorld) failLeader(kill bool) bool {
	if w.leader < 0 || w.failed {
		return false
	}
	w.failed = true
	if kill {
		w.crash(w.leader, false)
	}
	w.logf("failLeader(%s,kill=%v)", w.name(w.leader), kill)
	return true
}

// crash: process death; the HW checkpoint on disk is the last value the
// periodic checkpoint wrote, i.e. any HW the replica had earlier.
func (w *c02sWorld) crash(i int, staleHW bool) bool {
	r := w.reps[i]
	if !r.alive {
		return false
	}
	hw := r.log.HighWatermark()
	r.log.Close()
	r.alive = false
	if staleHW && len(r.hwSeen) > 0 {
		hw = r.hwSeen[(w.nmsg+len(r.hwSeen))%len(r.hwSeen)]
		os.WriteFile(r.dir+"/replication-offset-checkpoint", []byte(fmt.Sprint(hw)), 0644)
	}
	w.crashes++
	if i != w.leader {
		w.logf("crash(%s,hwOnDisk=%d)", w.name(i), hw)
	}
	return true
}

func (w *c02sWorld) restart(i int) bool {
	r := w.reps[i]
	if r.alive {
		return false
	}
	l, err := c02sOpen(r.dir, w.maxSeg)
	if err != nil {
		w.fail("C02:steps:reopen-failed", fmt.Sprintf("replica %s cannot reopen its log: %v", w.name(i), err))
		return true
	}
	r.log = l
	r.p.log = l
	r.alive = true
	r.zombie = false
	r.following = 0
	w.logf("restart(%s,hw=%d,newest=%d)", w.name(i), l.HighWatermark(), l.NewestOffset())
	return true
}

// ---------------------------------------------------------------- oracle

func (w *c02sWorld) observe(i int, label string) {
	r := w.reps[i]
	if !r.alive || w.bad {
		return
	}
	hw := r.log.HighWatermark()
	r.hwSeen = append(r.hwSeen, hw)
	recs, err := vfReadLog(r.log, 0, true)
	if err != nil {
		w.fail("C02:steps:read-error", fmt.Sprintf("replica %s: %v", w.name(i), err))
		return
	}
	for _, rec := range recs {
		if rec.Offset > hw {
			break
		}
		d := c02Digest(rec)
		if old, ok := w.commit[rec.Offset]; ok {
			if old != d {
				fp := "C02:steps:divergence-below-hw"
				if w.unknownEpoch {
					fp += ":follower-epoch-unknown-to-leader"
				}
				w.fail(fp, fmt.Sprintf("replica %s (%s) holds %q at offset %d <= its HW %d, but %s showed %q committed there",
					w.name(i), label, rec.Value, rec.Offset, hw, w.cby[rec.Offset], w.ctag[rec.Offset]))
				return
			}
			continue
		}
		w.commit[rec.Offset] = d
		w.ctag[rec.Offset] = string(rec.Value)
		w.cby[rec.Offset] = w.name(i) + "@" + label
	}
}

func (w *c02sWorld) checkLeaderComplete() {
	if w.leader < 0 || w.bad {
		return
	}
	r := w.reps[w.leader]
	recs, err := vfReadLog(r.log, 0, true)
	if err != nil {
		w.fail("C02:steps:read-error", err.Error())
		return
	}
	have := map[int64]vfLogRec{}
	for _, rec := range recs {
		have[rec.Offset] = rec
	}
	var offs []int64
	for o := range w.commit {
		offs = append(offs, o)
	}
	sort.Slice(offs, func(a, b int) bool { return offs[a] < offs[b] })
	for _, o := range offs {
		rec, ok := have[o]
		if !ok {
			kind := "C02:steps:committed-lost"
			if cut, ok := w.fallbackCut[w.leader]; ok && cut <= o {
				// this replica dropped the offset when it truncated to its own
				// (lagging) HW because the leader of that time was unreachable
				kind = "C02:steps:committed-lost:after-hw-fallback-truncation"
			}
			w.fail(kind, fmt.Sprintf("new leader %s (epoch %d) does not hold committed offset %d (%q, first shown by %s)", w.name(w.leader), w.epoch, o, w.ctag[o], w.cby[o]))
			return
		}
		if c02Digest(rec) != w.commit[o] {
			w.fail("C02:steps:committed-changed", fmt.Sprintf("new leader %s (epoch %d) serves %q at committed offset %d, committed content was %q", w.name(w.leader), w.epoch, rec.Value, o, w.ctag[o]))
			return
		}
	}
}

func (w *c02sWorld) observeAll(label string) {
	for i := range w.reps {
		w.observe(i, label)
	}
}

// ---------------------------------------------------------------- schedules

type c02sStep struct {
	op   string
	a, b int
}

func (s c02sStep) String() string { return fmt.Sprintf("%s(%d,%d)", s.op, s.a, s.b) }

func (w *c02sWorld) apply(s c02sStep) bool {
	switch s.op {
	case "elect":
		return w.elect(s.a)
	case "follow":
		return w.follow(s.a)
	case "pub":
		who := w.leader
		if s.a == 1 { // a zombie ex-leader, if any
			who = -1
			for i, r := range w.reps {
				if r.zombie && r.alive {
					who = i
				}
			}
		}
		if who < 0 {
			return false
		}
		return w.pub(who, s.b)
	case "fetch":
		return w.fetch(s.a, s.b)
	case "commit":
		return w.commitStep()
	case "shrink":
		return w.shrink(s.a)
	case "expand":
		return w.expand(s.a)
	case "fail":
		return w.failLeader(s.a == 1)
	case "crash":
		if s.a == w.leader {
			return false
		}
		return w.crash(s.a, s.b == 1)
	case "restart":
		return w.restart(s.a)
	}
	return false
}

// finish: heal everything and let the cluster converge, then the full oracle.
func (w *c02sWorld) finish() {
	if w.bad {
		return
	}
	for i := range w.reps {
		w.restart(i)
	}
	if w.leader >= 0 && w.failed {
		// elect any in-sync live replica other than the failed leader
		for i := range w.reps {
			if i != w.leader && w.isr[i] && w.reps[i].alive {
				if w.elect(i) {
					break
				}
			}
		}
	}
	if w.leader < 0 || w.failed {
		w.observeAll("final-no-leader")
		return
	}
	for i := range w.reps {
		w.follow(i)
	}
	for round := 0; round < 400; round++ {
		progressed := false
		for i := range w.reps {
			if i == w.leader {
				continue
			}
			before := w.reps[i].log.NewestOffset()
			w.fetch(i, 3)
			if w.reps[i].log.NewestOffset() != before {
				progressed = true
			}
			if w.caught[i] && !w.isr[i] {
				w.expand(i)
			}
		}
		if w.commitStep() {
			progressed = true
		}
		if !progressed {
			break
		}
	}
	for i := range w.reps {
		if i != w.leader {
			w.fetch(i, 3) // learn the final HW
		}
	}
	w.observeAll("final")
	w.checkLeaderComplete()
	// final agreement: every replica's log up to the leader HW equals the leader's
	lr := w.reps[w.leader]
	lrecs, _ := vfReadLog(lr.log, 0, true)
	lhw := lr.log.HighWatermark()
	for i, r := range w.reps {
		if i == w.leader || !r.alive || w.bad {
			continue
		}
		recs, _ := vfReadLog(r.log, 0, true)
		for k, rec := range recs {
			if rec.Offset > lhw || rec.Offset > r.log.HighWatermark() {
				break
			}
			if k >= len(lrecs) || c02Digest(lrecs[k]) != c02Digest(rec) {
				fp := "C02:steps:divergence-below-hw"
				if w.unknownEpoch {
					fp += ":follower-epoch-unknown-to-leader"
				}
				w.fail(fp, fmt.Sprintf("after convergence replica %s holds %q at offset %d, leader %s holds something else", w.name(i), rec.Value, rec.Offset, w.name(w.leader)))
				break
			}
		}
	}
}

func c02sRandomStep(w *c02sWorld, rng *kit.RNG) c02sStep {
	switch x := rng.Intn(100); {
	case x < 22:
		return c02sStep{"pub", 0, rng.Range(1, 3)}
	case x < 27:
		return c02sStep{"pub", 1, rng.Range(1, 2)}
	case x < 50:
		return c02sStep{"fetch", rng.Intn(3), rng.Range(0, 3)}
	case x < 60:
		return c02sStep{"commit", 0, 0}
	case x < 66:
		return c02sStep{"shrink", rng.Intn(3), 0}
	case x < 72:
		return c02sStep{"expand", rng.Intn(3), 0}
	case x < 79:
		return c02sStep{"fail", rng.Intn(2), 0}
	case x < 86:
		return c02sStep{"elect", rng.Intn(3), 0}
	case x < 93:
		return c02sStep{"follow", rng.Intn(3), 0}
	case x < 96:
		return c02sStep{"crash", rng.Intn(3), rng.Intn(2)}
	default:
		return c02sStep{"restart", rng.Intn(3), 0}
	}
}

// c02sDirected: replica indexes 0=a 1=b 2=c.
func c02sDirected() [][]c02sStep {
	st := func(op string, a, b int) c02sStep { return c02sStep{op, a, b} }
	return [][]c02sStep{
		// D1: second leader learned its epoch boundary by replication; first leader rejoins with a tail
		{st("elect", 0, 0), st("follow", 1, 0), st("follow", 2, 0), st("pub", 0, 3), st("fetch", 1, 3), st("fetch", 2, 3), st("fetch", 1, 0), st("fetch", 2, 0), st("commit", 0, 0),
			st("pub", 0, 2), st("fail", 0, 0), st("elect", 1, 0), st("follow", 2, 0), st("pub", 0, 2), st("fetch", 2, 3), st("fetch", 2, 0), st("commit", 0, 0), st("fetch", 2, 0),
			st("fail", 0, 0), st("elect", 2, 0), st("follow", 0, 0), st("follow", 1, 0), st("pub", 0, 1)},
		// D2: a lagging follower (c, at offset 2) receives one batch [3(e old), 4, 5(e new)] that spans two leader epochs, is elected later, and the first leader rejoins with a tail
		{st("elect", 0, 0), st("follow", 1, 0), st("follow", 2, 0), st("pub", 0, 2), st("fetch", 1, 3), st("fetch", 2, 3), st("pub", 0, 2), st("fetch", 1, 3), st("fetch", 2, 1), st("fetch", 1, 0),
			st("shrink", 2, 0), st("commit", 0, 0), st("fetch", 1, 0),
			st("pub", 0, 2), st("fail", 0, 0), st("elect", 1, 0), st("follow", 2, 0), st("pub", 0, 2), st("fetch", 2, 3), st("fetch", 2, 0), st("expand", 2, 0), st("fetch", 2, 0),
			st("commit", 0, 0), st("fetch", 2, 0), st("fail", 0, 0), st("elect", 2, 0), st("follow", 0, 0), st("follow", 1, 0), st("pub", 0, 1)},
		// D3: leader elected on an empty log, writes, dies; successor elected on an empty log too; first leader rejoins
		{st("elect", 0, 0), st("follow", 1, 0), st("follow", 2, 0), st("pub", 0, 2), st("fail", 0, 1), st("elect", 1, 0), st("follow", 2, 0), st("pub", 0, 3), st("fetch", 2, 3),
			st("fetch", 2, 0), st("commit", 0, 0), st("restart", 0, 0), st("follow", 0, 0), st("fetch", 0, 3), st("fetch", 0, 3)},
		// D4: follower seen caught up, leader commits alone, follower re-expansion attempted while behind, leader dies
		{st("elect", 0, 0), st("follow", 1, 0), st("follow", 2, 0), st("pub", 0, 1), st("fetch", 1, 3), st("fetch", 1, 0), st("shrink", 1, 0), st("shrink", 2, 0), st("pub", 0, 3), st("commit", 0, 0),
			st("expand", 1, 0), st("fail", 0, 1), st("elect", 1, 0), st("follow", 2, 0), st("pub", 0, 1)},
	}
}

func c02sAssumptions(rep *kit.Report) {
	rep.Assume("step-driven units: the controller is played by the harness with the rules the server implements — election only of a live ISR member other than the failed leader; commit = min over the ISR of the offsets reported in fetch requests (a re-added member counts as -1 until it fetches); shrink of any follower at any time (lag timeout); expand of a follower the current leader has seen caught up within the lag window and whose latest reported offset has reached the leader's HW (replicator.tick); a deposed leader keeps appending in its old epoch until it follows the new one; a crash leaves any earlier HW value in the checkpoint file")
	rep.Assume("step-driven units execute the real log / epoch-cache / truncation / replication-framing / follower-handler code; NATS, Raft and timers are not involved; a finding of these units is confirmed on a real cluster before it is reported as a defect")
}

// TestVerifC02Steps: seeded random schedules.
func TestVerifC02Steps(t *testing.T) {
	rep := kit.NewReport("C02", "steps")
	defer rep.Write()
	rep.SetRule("seeded random schedules (25-70 steps) over {pub at leader, pub at deposed zombie leader, fetch(follower,batch 0-3), commit, shrink, expand, fail leader (isolate/kill), elect(ISR member), follow (epoch-based truncation via the real leader answer), crash with stale HW checkpoint, restart} on three real commit logs with tiny segments, then heal + converge; oracle: one committed table fed from every replica's (HW, log) after each fetch/commit, every elected leader holds all committed offsets unchanged, final prefix agreement; non-trivial = schedule had >=2 elections and >=1 truncating follow; distinct = schedule text")
	c02sAssumptions(rep)
	// Directed schedules: the shapes that are known to be delicate are always
	// executed, whatever the seed (replication-learned epoch boundary; a
	// replicated batch that spans two leader epochs; election on an empty log;
	// re-expansion of the ISR).
	for di, d := range c02sDirected() {
		w, err := newC02sWorld(rep, 1<<20)
		if err != nil {
			rep.Inconc(err.Error())
			continue
		}
		for _, st := range d {
			if w.bad {
				break
			}
			if !w.apply(st) {
				w.logf("SKIPPED %s (not enabled)", st)
			}
		}
		w.finish()
		rep.Eval()
		rep.Count("directed_schedules", 1)
		if w.elections >= 2 {
			rep.Nontrivial(fmt.Sprintf("directed-%d", di))
		}
		if di < 2 {
			rep.Sample(map[string]any{"directed": di, "schedule": strings.Join(w.trace, " ; ")})
		}
		w.close()
	}
	root := kit.NewRNG(kit.Mix(kit.Seed(), 0xC025))
	n := kit.Scale(500, 8000)
	seeds := make([]uint64, n)
	for i := range seeds {
		seeds[i] = root.Uint64()
	}
	kit.Parallel(n, kit.Workers(), func(i int) {
		if rep.NumViolations() >= 5 {
			return
		}
		rng := kit.NewRNG(seeds[i])
		w, err := newC02sWorld(rep, []int64{100, 300, 1 << 20}[rng.Intn(3)])
		if err != nil {
			rep.Inconc(err.Error())
			return
		}
		defer w.close()
		w.elect(rng.Intn(3))
		for k := 0; k < 3; k++ {
			w.follow(k)
		}
		steps := rng.Range(25, 70)
		for k := 0; k < steps && !w.bad; k++ {
			w.apply(c02sRandomStep(w, rng))
		}
		w.finish()
		rep.Eval()
		rep.Count("steps_elections", int64(w.elections))
		rep.Count("steps_truncating_follows", int64(w.truncs))
		rep.Count("steps_fetches", int64(w.fetches))
		rep.Count("steps_crashes", int64(w.crashes))
		rep.Count("steps_committed_offsets", int64(len(w.commit)))
		if w.elections >= 2 && w.truncs >= 1 {
			rep.Nontrivial(strings.Join(w.trace, ";"))
		}
		if i < 2 {
			rep.Sample(map[string]any{"schedule": strings.Join(w.trace, " ; ")})
		}
	})
}

// TestVerifC02StepsFallback: the same random schedules, but a replica that has
// to follow a leader it cannot reach takes the real fallback (truncate to its
// own HW), as truncateUncommitted does after its retries.
func TestVerifC02StepsFallback(t *testing.T) {
	rep := kit.NewReport("C02", "stepsfallback")
	defer rep.Write()
	rep.SetRule("as unit steps, plus: follow(replica) while the leader is unreachable (failed or dead) takes the HW-truncation fallback of truncateUncommitted; non-trivial = schedule used the fallback at least once and had >=2 elections; distinct = schedule text")
	c02sAssumptions(rep)
	root := kit.NewRNG(kit.Mix(kit.Seed(), 0xC025F))
	n := kit.Scale(300, 4000)
	seeds := make([]uint64, n)
	for i := range seeds {
		seeds[i] = root.Uint64()
	}
	kit.Parallel(n, kit.Workers(), func(i int) {
		if rep.NumViolations() >= 5 {
			return
		}
		rng := kit.NewRNG(seeds[i])
		w, err := newC02sWorld(rep, []int64{100, 300, 1 << 20}[rng.Intn(3)])
		if err != nil {
			rep.Inconc(err.Error())
			return
		}
		defer w.close()
		w.useFallback = true
		w.elect(rng.Intn(3))
		for k := 0; k < 3; k++ {
			w.follow(k)
		}
		steps := rng.Range(25, 70)
		for k := 0; k < steps && !w.bad; k++ {
			w.apply(c02sRandomStep(w, rng))
		}
		w.finish()
		rep.Eval()
		rep.Count("fallback_truncations", int64(len(w.fallbackCut)))
		rep.Count("steps_elections", int64(w.elections))
		if w.elections >= 2 && len(w.fallbackCut) > 0 {
			rep.Nontrivial(strings.Join(w.trace, ";"))
		}
		if i < 2 {
			rep.Sample(map[string]any{"schedule": strings.Join(w.trace, " ; ")})
		}
	})
}

// TestVerifC02StepsEnum: ALL schedules up to a length bound over a reduced
// alphabet, each run after a fixed prefix that creates the interesting start
// state (a committed prefix, a leader with an uncommitted tail).
func TestVerifC02StepsEnum(t *testing.T) {
	rep := kit.NewReport("C02", "stepsenum")
	defer rep.Write()
	depth := kit.Scale(4, 5)
	rep.SetRule(fmt.Sprintf("small-scope enumeration: after the fixed prefix [elect a; follow b,c; pub 2; fetch b,c; commit; pub 1 (uncommitted tail on a)] ALL sequences of length <= %d over {fail(isolate), elect b, elect c, follow a, follow b, follow c, pub1 at leader, pub1 at zombie, fetch b, fetch c, fetch a, commit, shrink a, expand a} are executed (steps that are not enabled are skipped and the sequence is pruned), then heal + converge; same oracle as the seeded schedules; non-trivial = sequence had >=1 election after the prefix; distinct = sequence", depth))
	rep.SetExhaustive(true)
	c02sAssumptions(rep)
	alphabet := []c02sStep{{"fail", 0, 0}, {"elect", 1, 0}, {"elect", 2, 0}, {"follow", 0, 0}, {"follow", 1, 0}, {"follow", 2, 0},
		{"pub", 0, 1}, {"pub", 1, 1}, {"fetch", 1, 2}, {"fetch", 2, 2}, {"fetch", 0, 2}, {"commit", 0, 0}, {"shrink", 0, 0}, {"expand", 0, 0}}
	// enumerate index sequences
	var seqs [][]int
	var gen func(prefix []int)
	gen = func(prefix []int) {
		if len(prefix) > 0 {
			seqs = append(seqs, append([]int(nil), prefix...))
		}
		if len(prefix) == depth {
			return
		}
		for i := range alphabet {
			gen(append(prefix, i))
		}
	}
	// full enumeration of 14^depth is too large beyond depth 5: the first step
	// after the prefix that matters is the leader failure, so sequences start
	// with it and enumerate the remaining depth-1 steps freely.
	gen([]int{0})
	var executed, pruned int64
	var mu = make(chan struct{}, 1)
	mu <- struct{}{}
	kit.Parallel(len(seqs), kit.Workers(), func(idx int) {
		if rep.NumViolations() >= 5 {
			return
		}
		seq := seqs[idx]
		w, err := newC02sWorld(rep, 200)
		if err != nil {
			rep.Inconc(err.Error())
			return
		}
		defer w.close()
		w.elect(0)
		w.follow(1)
		w.follow(2)
		w.pub(0, 2)
		w.fetch(1, 3)
		w.fetch(2, 3)
		w.fetch(1, 0)
		w.fetch(2, 0)
		w.commitStep()
		w.fetch(1, 0)
		w.pub(0, 1)
		ok := true
		for _, si := range seq {
			if !w.apply(alphabet[si]) {
				ok = false // not enabled here: an equivalent shorter sequence covers it
				break
			}
			if w.bad {
				break
			}
		}
		<-mu
		if ok {
			executed++
		} else {
			pruned++
		}
		mu <- struct{}{}
		if !ok {
			return
		}
		w.finish()
		rep.Eval()
		if w.elections >= 2 {
			rep.Nontrivial(fmt.Sprint(seq))
		}
		if w.elections >= 2 && rep.Get("enum_sampled") < 3 {
			rep.Count("enum_sampled", 1)
			rep.Sample(map[string]any{"schedule": strings.Join(w.trace, " ; ")})
		}
	})
	rep.SetInfo("sequences_enumerated", len(seqs))
	rep.SetInfo("sequences_executed", executed)
	rep.SetInfo("sequences_pruned_not_enabled", pruned)
}
