//go:build verif

package server

// C13 — only one member of a consumer group consumes a partition at a time.
//
// This file is the monitor: a "case" drives the real partition.Subscribe of a
// single-node server with a program of rounds of CONCURRENT actions (group
// subscribes, client cancellations, Close(), releasing drain gates, releasing
// parked loop clean-ups) and records, with a logical clock, every call
// (invocation / return stamp, result) and for accepted calls the subscription
// object.  The verif hook point "sub.beforeRemoveGroup" (top of
// partition.removeGroupSubscriber, reached by every exiting group loop before
// it touches partition.consumers) is used to delay / park the deferred
// clean-up of an exited loop.
//
// Oracle (all decisions from logical facts, never from wall-clock time; every
// wait is a watchdog whose expiry is "inconclusive"):
//
//   ACTIVE(S)  = S was accepted, its Closed() channel is open, the harness did
//                not cancel its context, and its consumer goroutine has not
//                received the loop's terminal status (confirmed by a probe
//                round-trip through that goroutine, so the loop has not left
//                its body => its own clean-up has not run).
//   (A) after every round (no call in flight) at most one subscription per
//       group is ACTIVE;
//   (B) an ACTIVE subscription is the one partition.GetGroupConsumer names
//       (pointer identity) — entries are installed only by an accepted call
//       and an accepted call closes its predecessor first, so with no call in
//       flight anything else means the entry of a live subscription was lost
//       and the next member would not cancel it (this consequence is then
//       demonstrated: a third member subscribes and both receive a fence
//       message);
//   (C) a FailedPrecondition refusal with epoch e needs an accepted
//       subscription of the group with epoch > e that may have been the entry
//       at some instant of the call (candidates are dropped only once an
//       observation with no call in flight showed the entry is another one);
//   (D) every Closed() subscription that neither the harness nor its own
//       consumer closed needs an accepted call of the same group with an
//       equal or newer epoch that did not return before it was invoked
//       (refused / invalid / older-epoch calls must leave the holder alone).
//   (E) with no call in flight, a subscription whose Closed() channel is open
//       and which is NOT the group entry of the partition object it was
//       subscribed on must have left its loop by itself: the entry of a
//       subscription is only ever taken away by its own loop's clean-up (which
//       passes the hook sub.beforeRemoveGroup first) or by an accepted
//       Subscribe, which cancels (Close()) the member it replaces before it
//       returns.  So every such subscription needs a hook passage of its own
//       (group, consumer id) that fired after its Subscribe was invoked; one
//       without is a replaced member that was never cancelled.  This is a
//       state predicate evaluated at once - nothing is waited for - and it
//       does not depend on what the member's consumer did with a status it may
//       have been handed (a status on Errors() is not "closed").
//   (F) fence (rounds marked Fence): with no call in flight two messages are
//       published one after the other and awaited on the group's holder (the
//       entry, if its consumer is receiving); a subscription of the group that
//       is not the entry, whose Closed() channel is still open afterwards and
//       that was handed the first fence as well, is a second member consuming
//       the partition (after (E)'s reading of the entry nothing may be
//       delivered through it: its loop had already reached its clean-up).
//       "Not handed the fence" is never concluded from elapsed time.
//
// Consumers (drain) are parked in ONE select over Messages(), Errors() and
// Closed() like api.Subscribe's forwarding loop and any in-process user of
// SubscribeInternal.  What a consumer does with a status: cancel its context
// (default), Close() + cancel (CloseAfterEnd, what api.Subscribe's deferred
// Close() does), or record it and keep listening (Keep); a NoErr consumer does
// not listen on Errors() at all (Messages() and Closed() only; it closes the
// subscription itself when its context ends).

import (
	"context"
	"fmt"
	"runtime"
	"sort"
	"strings"
	"sync"
	"sync/atomic"
	"time"

	client "github.com/liftbridge-io/liftbridge-api/v2/go"
	"google.golang.org/grpc/codes"
	"google.golang.org/grpc/status"

	kit "github.com/liftbridge-io/liftbridge/internal/verifkit"
)

var c13Watchdog = time.Duration(kit.EnvInt("C13_WATCHDOG_MS", 30000)) * time.Millisecond

const (
	c13BaseEpoch = 5
	c13Accepted  = "accepted"
	c13NotLeader = "not-partition-leader(api gate, Subscribe not called)"
	c13InitMsgs  = 5
)

// ---------------------------------------------------------------- program

type c13Act struct {
	Kind          string `json:"kind"` // sub | cancel | close | undrain | release | partition lifecycle events (c13_lifecycle_test.go): bounce | follow | lead | ro | rw | pause | resume
	G             int    `json:"group"`
	Cid           string `json:"consumer,omitempty"`
	Epoch         uint64 `json:"epoch,omitempty"`
	Mode          string `json:"mode,omitempty"` // new | earliest | recent | stopOffset | stopLatest | invalid
	A             int    `json:"a,omitempty"`
	B             int    `json:"b,omitempty"`
	Gate          bool   `json:"drainGate,omitempty"`     // consumer goroutine starts receiving only when released
	CloseAfterEnd bool   `json:"closeAfterEnd,omitempty"` // consumer calls sub.Close() after the terminal status (as api.Subscribe does)
	Linger        bool   `json:"linger,omitempty"`        // consumer does NOT cancel the context when it sees Closed() (the loop stays parked in ReadMessage until quiescence)
	Keep          bool   `json:"keep,omitempty"`          // consumer records a status and KEEPS listening on all three channels (does not cancel, does not close)
	NoErr         bool   `json:"noErr,omitempty"`         // consumer does not listen on Errors() (only Messages() and Closed()); only for subscriptions without a stop position
	Target        string `json:"target,omitempty"`        // latest | random (cancel, close, undrain)
	All           bool   `json:"all,omitempty"`           // release: all parked clean-ups (else the oldest)
	Pre           int    `json:"pre,omitempty"`           // schedule perturbation before the action
	Pick          uint64 `json:"pick,omitempty"`
}

func (a c13Act) String() string {
	switch a.Kind {
	case "sub":
		s := fmt.Sprintf("sub(g%d,%s,e%d,%s", a.G, a.Cid, a.Epoch, a.Mode)
		if a.Gate {
			s += ",gated"
		}
		if a.Keep {
			s += ",keep"
		}
		if a.NoErr {
			s += ",noerr"
		}
		return s + ")"
	case "release":
		if a.All {
			return "release(all)"
		}
		return "release(1)"
	case "bounce", "follow", "lead", "ro", "rw", "pause", "resume":
		return c13LifecycleNames[a.Kind]
	}
	return fmt.Sprintf("%s(g%d,%s)", a.Kind, a.G, a.Target)
}

type c13Round struct {
	Acts       []c13Act `json:"acts"`
	WaitParked int      `json:"waitParked,omitempty"` // after the round wait until this many clean-ups are parked
	WaitEnded  bool     `json:"waitEnded,omitempty"`  // after the round wait until undrained self-ending subscriptions ended
	Quiesce    bool     `json:"quiesce,omitempty"`
	Settle     bool     `json:"settle,omitempty"` // before the round: every receiving consumer is brought back into its select (probe round trip + yields)
	Fence      bool     `json:"fence,omitempty"`  // after the round's check: rule (F)
}

func c13ProgString(p []c13Round) string {
	var sb strings.Builder
	for i, r := range p {
		if i > 0 {
			sb.WriteString(" ; ")
		}
		for j, a := range r.Acts {
			if j > 0 {
				sb.WriteString(" || ")
			}
			sb.WriteString(a.String())
		}
		if r.WaitParked > 0 {
			fmt.Fprintf(&sb, " +waitParked%d", r.WaitParked)
		}
		if r.Fence {
			sb.WriteString(" +fence")
		}
		if r.Quiesce {
			sb.WriteString(" +quiesce")
		}
	}
	return sb.String()
}

// ---------------------------------------------------------------- records

type c13Call struct {
	Idx     int
	Round   int
	G       int
	Group   string
	Cid     string
	Epoch   uint64
	Mode    string
	Inv     int64
	Ret     int64
	Result  string // "accepted" or the status code
	Msg     string
	sub     *c13Sub
	checked bool
	gid     int64 // id of the goroutine that made the call (creator of the subscribe loop's goroutine)
}

type c13Sub struct {
	Idx           int
	c             *c13Case
	call          *c13Call
	sub           *subscription
	part          *partition // the partition object the subscription was made on
	ctx           context.Context
	cancel        context.CancelFunc
	keep          bool
	noErr         bool
	gate          chan struct{}
	gateOnce      sync.Once
	probe         chan chan struct{}
	done          chan struct{}
	closeAfterEnd bool
	linger        bool
	forever       bool

	endedAt      atomic.Int64 // consumer goroutine received the loop's terminal status
	endCode      atomic.Value
	ctxCancelAt  atomic.Int64 // harness cancelled the context
	harnessClose atomic.Int64 // harness called sub.Close()
	selfClose    atomic.Int64 // consumer goroutine called sub.Close() after the terminal status
	sawClosedAt  atomic.Int64 // consumer goroutine observed Closed()
	goneAt       atomic.Int64 // observed (no call in flight) that the group entry is not this subscription
	lastOff      atomic.Int64
	nmsgs        atomic.Int64
	aliveAt      atomic.Int64 // latest stamp at which the subscription was confirmed ACTIVE (taken before the probe)
	nstatus      atomic.Int64 // statuses taken from Errors()
	msgAfterEnd  atomic.Int64 // a message was received AFTER the last status (stamp)

	stMu     sync.Mutex
	statuses []c13Event // every status the consumer took from Errors()

	closureChecked bool
}

func (s *c13Sub) open() bool {
	select {
	case <-s.sub.Closed():
		return false
	default:
		return true
	}
}

// active: a status taken from Errors() counts as the loop's terminal status
// (the loop sends one as its last action) unless a message was delivered after
// it - then the loop is demonstrably still running.
func (s *c13Sub) active() bool {
	if !s.open() || s.ctxCancelAt.Load() != 0 {
		return false
	}
	e := s.endedAt.Load()
	return e == 0 || s.msgAfterEnd.Load() > e
}

func (s *c13Sub) receiving() bool {
	select {
	case <-s.gate:
	default:
		return false
	}
	select {
	case <-s.done:
		return false
	default:
		return true
	}
}

func (s *c13Sub) kind() string {
	k := "status=>cancel-context"
	switch {
	case s.noErr:
		k = "not-listening-on-Errors()"
	case s.keep:
		k = "status=>record-and-keep-listening"
	case s.closeAfterEnd:
		k = "status=>Close()+cancel-context(api.Subscribe)"
	}
	return k
}

func (s *c13Sub) undrain() { s.gateOnce.Do(func() { close(s.gate) }) }

// alive: a round-trip through the consumer goroutine.  true => at the moment
// of the answer that goroutine had neither received a terminal status nor
// observed Closed(), i.e. the subscribe loop cannot have returned through its
// status path.  ok=false => watchdog (inconclusive).
func (s *c13Sub) alive() (alive, ok bool) {
	r := make(chan struct{})
	t := time.NewTimer(c13Watchdog)
	defer t.Stop()
	select {
	case s.probe <- r:
		<-r
		return true, true
	case <-s.done:
		return false, true
	case <-t.C:
		return false, false
	}
}

// confirmedActive: ACTIVE as defined in the header.
func (s *c13Sub) confirmedActive() (act, ok bool) {
	if !s.active() {
		return false, true
	}
	s.c.n("probes", 1)
	before := s.c.tick()
	a, ok := s.alive()
	if !ok {
		return false, false
	}
	if !a {
		return false, true
	}
	if !s.active() {
		return false, true
	}
	// ACTIVE when the probe was answered: the loop had not left its body then,
	// so its clean-up (hook passage) can only fire after the stamp taken before
	// the probe was sent (rule (E))
	for {
		cur := s.aliveAt.Load()
		if cur >= before || s.aliveAt.CompareAndSwap(cur, before) {
			break
		}
	}
	return true, true
}

// drain is the consumer goroutine of one accepted subscription.  It behaves
// like api.Subscribe's loop: ONE select over Messages(), Errors() and Closed();
// on a status it cancels the context / closes the subscription / keeps
// listening, depending on the consumer kind.  It never takes the case mutex.
func (s *c13Sub) drain() {
	defer close(s.done)
	var msgs <-chan *client.Message
	var errs <-chan *status.Status
	var ctxDone <-chan struct{}
	if s.noErr {
		ctxDone = s.ctx.Done()
	}
	gate := (<-chan struct{})(s.gate)
	for {
		select {
		case <-gate:
			gate = nil
			msgs = s.sub.Messages()
			if !s.noErr {
				errs = s.sub.Errors()
			}
		case m := <-msgs:
			if s.endedAt.Load() != 0 {
				s.msgAfterEnd.Store(s.c.tick())
			}
			s.nmsgs.Add(1)
			s.lastOff.Store(m.Offset)
		case st := <-errs:
			t := s.c.tick()
			s.stMu.Lock()
			s.statuses = append(s.statuses, c13Event{t, st.Code().String() + ": " + st.Message()})
			s.stMu.Unlock()
			s.nstatus.Add(1)
			s.endCode.Store(st.Code().String() + ": " + st.Message())
			s.endedAt.Store(t)
			if s.keep {
				// an in-process consumer that only records the status: it goes on
				// until the subscription is cancelled (Closed())
				continue
			}
			if s.closeAfterEnd {
				s.selfClose.Store(s.c.tick())
				s.sub.Close()
			}
			s.cancel() // api.Subscribe returns here, which ends the gRPC stream context
			return
		case <-s.sub.Closed():
			s.sawClosedAt.Store(s.c.tick())
			if !s.linger {
				// api.Subscribe returns on Closed(), which ends the gRPC
				// stream context; that is what wakes a loop parked in
				// ReadMessage at the end of the log.
				s.cancel()
			}
			return
		case <-ctxDone:
			// a consumer that does not listen on Errors() ends its subscription
			// itself when its context ends (otherwise the loop would stay parked
			// in its status send for ever)
			s.selfClose.Store(s.c.tick())
			s.sub.Close()
			return
		case r := <-s.probe:
			close(r)
		}
	}
}

// c13Pass is one passage of an exiting loop through the clean-up hook.
type c13Pass struct {
	Group      string
	Cid        string
	Creator    int64 // id of the goroutine that created the exiting loop's goroutine (0: not readable)
	Fire       int64
	Release    int64
	How        string
	ActiveSeen []int // subscriptions of the group that were ACTIVE when the clean-up was let go
	LookFrom   int64
	doneBy     int64 // a quiescent point by which this clean-up had completed (0: not known)
	ReadAt     int64
	entrySeen  *subscription // the group entry right before this clean-up went on to removeGroupSubscriber's critical section
	entryDesc  string
	gate       chan struct{}
}

type c13Event struct {
	T    int64
	What string
}

type c13Stream struct {
	name string
	mu   sync.Mutex
	p    *partition // replaced when the partition is resumed after a pause
}

func (st *c13Stream) part() *partition {
	st.mu.Lock()
	defer st.mu.Unlock()
	return st.p
}

func (st *c13Stream) setPart(p *partition) {
	st.mu.Lock()
	st.p = p
	st.mu.Unlock()
}

// ---------------------------------------------------------------- case

type c13Case struct {
	rep    *kit.Report
	unit   string
	id     int
	seed   uint64
	srv    *Server
	st     *c13Stream
	groups []string
	prog   []c13Round
	policy string // hook policy: random | park | pass
	label  string
	clock  atomic.Int64

	mu         sync.Mutex
	calls      []*c13Call
	subs       []*c13Sub
	passes     []*c13Pass
	parked     []*c13Pass
	events     []c13Event
	hookRng    *kit.RNG
	quiescing  bool
	hookFired  int
	hookExited int
	counts     map[string]int64

	lcStamps     []c13LcStamp
	lcEvents     []string // lifecycle events executed: kind:#active subscriptions at that moment
	lcWithActive int
	lifecycle    bool // the program contains partition lifecycle events: subscribes are gated the way api.Subscribe gates them (partition leader, not paused)
	viaAPI       bool // group subscribes enter through apiServer.SubscribeInternal (the body of the Subscribe RPC) instead of partition.Subscribe

	fencesJudged   int  // rule (F) evaluations that had a holder receiving both fences
	fencedReplaced int  // ... with >= 1 other accepted subscription of the group (a replaced / ended member) looked at
	ntReplaced     bool // unit replaced: non-trivial = a fence was judged next to a replaced member

	failed      bool
	inconc      bool
	round       int
	concurrent  int // rounds with >=2 subscribes of one group of which >=1 accepted
	stalePasses int
}

// c13Groups routes hook firings (by group id) to the running case.
var c13Groups sync.Map

// c13Demoed: fingerprints for which the consequence was already demonstrated.
var (
	c13DemoMu sync.Mutex
	c13Demoed = map[string]bool{}
)

func c13Hook(args ...interface{}) error {
	if len(args) < 4 {
		return nil
	}
	group, _ := args[2].(string)
	cid, _ := args[3].(string)
	if v, ok := c13Groups.Load(group); ok {
		v.(*c13Case).onHook(group, cid)
	}
	return nil
}

func c13NewCase(rep *kit.Report, unit string, id int, seed uint64, srv *Server, st *c13Stream, ngroups int, policy string, prog []c13Round) *c13Case {
	c := &c13Case{rep: rep, unit: unit, id: id, seed: seed, srv: srv, st: st, prog: prog, policy: policy,
		hookRng: kit.NewRNG(kit.Mix(seed, 0x13c)), counts: map[string]int64{}}
	for g := 0; g < ngroups; g++ {
		name := fmt.Sprintf("%s-c%d-g%d", unit, id, g)
		c.groups = append(c.groups, name)
		c13Groups.Store(name, c)
	}
	return c
}

func (c *c13Case) tick() int64 { return c.clock.Add(1) }

func (c *c13Case) n(k string, d int64) {
	c.mu.Lock()
	c.counts[k] += d
	c.mu.Unlock()
}

func (c *c13Case) logf(t int64, f string, a ...interface{}) {
	c.mu.Lock()
	c.events = append(c.events, c13Event{t, fmt.Sprintf(f, a...)})
	c.mu.Unlock()
}

// onHook runs in the goroutine of an exiting subscribe loop, at the top of
// removeGroupSubscriber, with no partition lock held.
func (c *c13Case) onHook(group, cid string) {
	p := &c13Pass{Group: group, Cid: cid, Creator: c13CreatorID(), Fire: c.tick()}
	c.mu.Lock()
	c.hookFired++
	c.passes = append(c.passes, p)
	how, n := "pass", 0
	if !c.quiescing {
		switch c.policy {
		case "park":
			how = "park"
		case "random":
			switch x := c.hookRng.Intn(100); {
			case x < 25:
			case x < 45:
				how, n = "yield", c.hookRng.Range(1, 40)
			case x < 60:
				how, n = "sleep", c.hookRng.Range(20, 1500)
			default:
				how = "park"
			}
		}
	}
	if how == "park" {
		p.gate = make(chan struct{})
		c.parked = append(c.parked, p)
	}
	p.How = how
	c.counts["hook_"+how]++
	c.mu.Unlock()
	switch how {
	case "yield":
		for i := 0; i < n; i++ {
			runtime.Gosched()
		}
	case "sleep":
		time.Sleep(time.Duration(n) * time.Microsecond)
	case "park":
		<-p.gate
	}
	// What is the group entry this clean-up is about to look at, and which
	// subscriptions of the group are ACTIVE while it is let go?  (An ACTIVE
	// one cannot be the loop that is exiting here.)
	lookFrom := c.tick()
	var seenSub *subscription
	var desc string
	if e := c.st.part().GetGroupConsumer(group); e != nil {
		seenSub = e.sub
		desc = fmt.Sprintf("{consumer %s epoch %d}", e.consumerID, e.groupEpoch)
	}
	readAt := c.tick()
	c.mu.Lock()
	p.LookFrom, p.ReadAt, p.entrySeen, p.entryDesc = lookFrom, readAt, seenSub, desc
	subs := append([]*c13Sub(nil), c.subs...)
	c.mu.Unlock()
	var seen []int
	same, other := false, false
	for _, s := range subs {
		if s.call.Group != group {
			continue
		}
		if a, ok := s.confirmedActive(); ok && a {
			seen = append(seen, s.Idx)
			if s.call.Cid == cid {
				same = true
			} else {
				other = true
			}
		}
	}
	c.mu.Lock()
	p.ActiveSeen = seen
	if len(seen) > 0 {
		c.stalePasses++
	}
	if same {
		c.counts["cleanup_released_while_newer_sub_active_same_consumer_id"]++
	}
	if other {
		c.counts["cleanup_released_while_newer_sub_active_other_consumer_id"]++
	}
	p.Release = c.tick()
	c.hookExited++
	c.mu.Unlock()
}

func (c *c13Case) releaseParked(all bool) int {
	c.mu.Lock()
	var rel []*c13Pass
	if all {
		rel, c.parked = c.parked, nil
	} else if len(c.parked) > 0 {
		rel, c.parked = c.parked[:1], c.parked[1:]
	}
	c.mu.Unlock()
	for _, p := range rel {
		close(p.gate)
	}
	return len(rel)
}

// ---------------------------------------------------------------- actions

func (c *c13Case) request(a c13Act) *client.SubscribeRequest {
	newest := c.st.part().log.NewestOffset()
	req := &client.SubscribeRequest{Stream: c.st.name, Partition: 0,
		Consumer: &client.Consumer{GroupId: c.groups[a.G], ConsumerId: a.Cid, GroupEpoch: a.Epoch}}
	switch a.Mode {
	case "new":
		req.StartPosition = client.StartPosition_NEW_ONLY
	case "earliest":
		req.StartPosition = client.StartPosition_EARLIEST
	case "recent": // no stop position, starts over a backlog of the last <= 24 messages
		start := newest - 24
		if start < 0 {
			start = 0
		}
		req.StartPosition = client.StartPosition_OFFSET
		req.StartOffset = start
	case "stopOffset":
		start := newest - int64(a.A)
		if start < 0 {
			start = 0
		}
		stop := start + int64(a.B)
		if stop > newest {
			stop = newest
		}
		req.StartPosition = client.StartPosition_OFFSET
		req.StartOffset = start
		req.StopPosition = client.StopPosition_STOP_OFFSET
		req.StopOffset = stop
	case "stopLatest":
		req.StartPosition = client.StartPosition_EARLIEST
		if a.A%2 == 1 {
			req.StartPosition = client.StartPosition_LATEST
		}
		req.StopPosition = client.StopPosition_STOP_LATEST
	case "invalid": // stop offset before start offset: refused after the group check, before anything is changed
		req.StartPosition = client.StartPosition_OFFSET
		req.StartOffset = newest
		req.StopPosition = client.StopPosition_STOP_OFFSET
		req.StopOffset = newest - 1 - int64(a.A)
	}
	return req
}

func (c *c13Case) doSub(a c13Act) *c13Call {
	call := &c13Call{Round: c.round, G: a.G, Group: c.groups[a.G], Cid: a.Cid, Epoch: a.Epoch, Mode: a.Mode}
	p := c.st.part()
	if c.lifecycle && !c.apiWouldSubscribe(p) {
		// api.Subscribe refuses a subscription on a server that is not the
		// partition leader (and group subscriptions may not read from a
		// follower); a paused partition is not subscribed to either.
		call.Inv = c.tick()
		call.Ret = c.tick()
		call.Result = c13NotLeader
		c.mu.Lock()
		call.Idx = len(c.calls)
		c.calls = append(c.calls, call)
		c.counts["subscribes_refused_by_the_api_gate(not_leader_or_paused)"]++
		c.mu.Unlock()
		return call
	}
	req := c.request(a)
	ctx, cancel := context.WithCancel(context.Background())
	call.Inv = c.tick()
	var sub *subscription
	var st *status.Status
	// The call runs in a goroutine of its own: the subscribe loop is started by
	// the goroutine that calls Subscribe, so the loop's clean-up (hook passage)
	// can be attributed to exactly this call by its creator goroutine id.
	returned := make(chan struct{})
	go func() {
		defer close(returned)
		call.gid = c13GoID()
		if c.viaAPI {
			// the entry point of the Subscribe RPC: apiServer.SubscribeInternal ->
			// apiServer.subscribe -> partition.Subscribe
			s, err := c.srv.api.SubscribeInternal(ctx, req)
			if err != nil {
				st = status.Convert(err)
			} else {
				sub = s
			}
		} else {
			sub, st = p.Subscribe(ctx, req)
		}
	}()
	<-returned
	call.Ret = c.tick()
	var s *c13Sub
	if st != nil {
		cancel()
		call.Result = st.Code().String()
		call.Msg = st.Message()
	} else {
		call.Result = c13Accepted
		forever := a.Mode == "new" || a.Mode == "earliest" || a.Mode == "recent"
		s = &c13Sub{c: c, call: call, sub: sub, part: p, ctx: ctx, cancel: cancel, gate: make(chan struct{}),
			probe: make(chan chan struct{}), done: make(chan struct{}), closeAfterEnd: a.CloseAfterEnd && !a.Keep, linger: a.Linger,
			keep: a.Keep, noErr: a.NoErr && !a.Keep && forever && !c.lifecycle,
			forever: forever}
		s.lastOff.Store(-1)
		call.sub = s
		if !a.Gate {
			s.undrain()
		}
	}
	c.mu.Lock()
	call.Idx = len(c.calls)
	c.calls = append(c.calls, call)
	if s != nil {
		s.Idx = len(c.subs)
		c.subs = append(c.subs, s)
	}
	c.counts["subscribe_calls"]++
	c.counts["result_"+call.Result]++
	c.counts["mode_"+a.Mode]++
	if s != nil {
		c.counts["consumer_kind:"+s.kind()]++
	}
	c.mu.Unlock()
	if s != nil {
		go s.drain()
	}
	return call
}

// target picks the subscription a cancel / close / undrain acts on.
func (c *c13Case) target(a c13Act) *c13Sub {
	c.mu.Lock()
	defer c.mu.Unlock()
	var cand []*c13Sub
	for _, s := range c.subs {
		if s.call.G != a.G || !s.open() || s.ctxCancelAt.Load() != 0 || s.harnessClose.Load() != 0 {
			continue
		}
		if a.Kind == "undrain" {
			select {
			case <-s.gate:
				continue
			default:
			}
		}
		cand = append(cand, s)
	}
	if len(cand) == 0 {
		return nil
	}
	if a.Target == "latest" {
		return cand[len(cand)-1]
	}
	return cand[a.Pick%uint64(len(cand))]
}

func (c *c13Case) exec(a c13Act) {
	switch a.Pre {
	case 1:
		for i := uint64(0); i < a.Pick%20; i++ {
			runtime.Gosched()
		}
	case 2:
		time.Sleep(time.Duration(a.Pick%300) * time.Microsecond)
	}
	switch a.Kind {
	case "sub":
		c.doSub(a)
	case "cancel":
		if s := c.target(a); s != nil {
			if s.ctxCancelAt.CompareAndSwap(0, c.tick()) {
				c.n("client_ctx_cancels", 1)
			}
			s.cancel()
		}
	case "close":
		if s := c.target(a); s != nil {
			if s.harnessClose.CompareAndSwap(0, c.tick()) {
				c.n("client_closes", 1)
			}
			s.sub.Close()
		}
	case "undrain":
		if s := c.target(a); s != nil {
			s.undrain()
			c.n("drain_gates_released_by_program", 1)
		}
	case "release":
		c.n("parked_cleanups_released_by_program", int64(c.releaseParked(a.All)))
	default:
		c.execLifecycle(a)
	}
}

func (c *c13Case) wait(cond func() bool) bool {
	deadline := time.Now().Add(c13Watchdog)
	for i := 0; ; i++ {
		if cond() {
			return true
		}
		if time.Now().After(deadline) {
			c13Expired.Add(1)
			return false
		}
		if i < 20 {
			runtime.Gosched()
		} else {
			time.Sleep(100 * time.Microsecond)
		}
	}
}

func (c *c13Case) subscriberCount() int64 {
	p := c.st.part()
	p.mu.RLock()
	defer p.mu.RUnlock()
	return p.subscriberCount
}

// quiesce releases every gate and waits until every loop that should end has
// ended and has run its clean-up: each exited group loop passes the hook
// exactly once, and decreaseSubscriberCount is deferred before
// removeGroupSubscriber, i.e. runs after it.
func (c *c13Case) quiesce(final bool) bool {
	c.mu.Lock()
	c.quiescing = true
	subs := append([]*c13Sub(nil), c.subs...)
	c.mu.Unlock()
	for _, s := range subs {
		s.undrain()
		if final {
			s.harnessClose.CompareAndSwap(0, c.tick())
			s.sub.Close()
		}
		if !s.active() {
			s.cancel() // wake lingering loops of dead subscriptions (a dead subscription never becomes ACTIVE again)
		}
	}
	c.releaseParked(true)
	var state string
	stable := false
	ok := c.wait(func() bool {
		c.releaseParked(true)
		nact := 0
		ending := c.lifecycle && c.logEnds()
		for _, s := range subs {
			if s.active() {
				nact++
				if !s.forever || ending {
					return false // has a stop position (or the log is read-only / closed) and its consumer is receiving: it will end by itself
				}
			} else {
				s.cancel()
			}
		}
		c.mu.Lock()
		fired, exited := c.hookFired, c.hookExited
		c.mu.Unlock()
		cnt := c.subscriberCount()
		if fired == exited && exited == len(subs)-nact && cnt == int64(nact) && !stable {
			// look twice: a loop that has not yet counted itself and a
			// clean-up that has not yet uncounted itself cancel out
			stable = true
			time.Sleep(200 * time.Microsecond)
			return false
		}
		if !(fired == exited && exited == len(subs)-nact && cnt == int64(nact)) {
			stable = false
		}
		state = fmt.Sprintf("accepted=%d active=%d cleanups entered=%d left=%d partition.subscriberCount=%d", len(subs), nact, fired, exited, cnt)
		return fired == exited && exited == len(subs)-nact && cnt == int64(nact)
	})
	c.mu.Lock()
	c.quiescing = false
	if ok {
		now := c.tick()
		for _, p := range c.passes {
			if p.doneBy == 0 && p.Release != 0 {
				p.doneBy = now
			}
		}
	}
	c.mu.Unlock()
	if !ok && !c.failed {
		c.inconc = true
		c.rep.Inconc(fmt.Sprintf("%s case %d: watchdog while waiting for quiescence (loops that should have ended and cleaned up): %s; %s; program %s", c.unit, c.id, state, c.stuckState(subs), c13ProgString(c.prog)))
	}
	return ok
}

// ---------------------------------------------------------------- oracle

func (c *c13Case) history() []string {
	c.mu.Lock()
	ev := append([]c13Event(nil), c.events...)
	for _, k := range c.calls {
		ev = append(ev, c13Event{k.Inv, fmt.Sprintf("call#%d invoked: Subscribe(group=g%d consumer=%s epoch=%d mode=%s)", k.Idx, k.G, k.Cid, k.Epoch, k.Mode)})
		r := k.Result
		if k.sub != nil {
			r = fmt.Sprintf("accepted -> sub#%d", k.sub.Idx)
		} else if k.Msg != "" {
			r += " (" + k.Msg + ")"
		}
		ev = append(ev, c13Event{k.Ret, fmt.Sprintf("call#%d returned: %s", k.Idx, r)})
	}
	for _, s := range c.subs {
		s.stMu.Lock()
		for _, e := range s.statuses {
			ev = append(ev, c13Event{e.T, fmt.Sprintf("sub#%d consumer (%s) took status %q from Errors()", s.Idx, s.kind(), e.What)})
		}
		s.stMu.Unlock()
		if t := s.msgAfterEnd.Load(); t != 0 {
			ev = append(ev, c13Event{t, fmt.Sprintf("sub#%d consumer received a message (offset <= %d) AFTER that status: its loop is still running", s.Idx, s.lastOff.Load())})
		}
		if t := s.ctxCancelAt.Load(); t != 0 {
			ev = append(ev, c13Event{t, fmt.Sprintf("client cancels the context of sub#%d", s.Idx)})
		}
		if t := s.harnessClose.Load(); t != 0 {
			ev = append(ev, c13Event{t, fmt.Sprintf("client calls Close() on sub#%d", s.Idx)})
		}
		if t := s.selfClose.Load(); t != 0 {
			ev = append(ev, c13Event{t, fmt.Sprintf("consumer of sub#%d calls Close() after the terminal status", s.Idx)})
		}
		if t := s.sawClosedAt.Load(); t != 0 {
			ev = append(ev, c13Event{t, fmt.Sprintf("consumer of sub#%d observes Closed()", s.Idx)})
		}
	}
	for _, p := range c.passes {
		ev = append(ev, c13Event{p.Fire, fmt.Sprintf("an exited loop of (%s, consumer %s) reaches removeGroupSubscriber [%s]", p.Group, p.Cid, p.How)})
		if p.ReadAt != 0 {
			entry := "nil"
			if p.entrySeen != nil {
				entry = p.entryDesc
				for _, s := range c.subs {
					if s.sub == p.entrySeen {
						entry = fmt.Sprintf("sub#%d %s", s.Idx, p.entryDesc)
					}
				}
			}
			ev = append(ev, c13Event{p.ReadAt, fmt.Sprintf("that clean-up of (%s, consumer %s) goes on into removeGroupSubscriber; group entry just before: %s; ACTIVE subscriptions of the group: %v", p.Group, p.Cid, entry, p.ActiveSeen)})
		}
	}
	c.mu.Unlock()
	sort.SliceStable(ev, func(i, j int) bool { return ev[i].T < ev[j].T })
	out := make([]string, len(ev))
	for i, e := range ev {
		out[i] = fmt.Sprintf("t=%d %s", e.T, e.What)
	}
	return out
}

func (c *c13Case) violation(fp, what string, extra map[string]interface{}) {
	c.failed = true
	replay := map[string]interface{}{
		"unit": c.unit, "VERIF_SEED": kit.Seed(), "tier": kit.Tier(), "case": c.id, "case_seed": c.seed,
		"hook_policy": c.policy, "label": c.label, "program": c13ProgString(c.prog), "program_json": c.prog,
		"history": c.history(), "observed_vs_expected": what,
	}
	for k, v := range extra {
		replay[k] = v
	}
	c.rep.Violation(fp, what, replay)
}

// staleClass names the clean-up that removed the entry of the ACTIVE
// subscription o.  Exact when a clean-up saw o's subscription as the group
// entry right before entering removeGroupSubscriber's critical section;
// otherwise (o was installed between that look and the removal) the clean-ups
// that looked before o's Subscribe returned are the only possible culprits.
func (c *c13Case) staleClass(o *c13Sub) string {
	c.mu.Lock()
	defer c.mu.Unlock()
	same, other, exact := false, false, false
	for _, p := range c.passes {
		if p.Group != o.call.Group || (p.doneBy != 0 && p.doneBy < o.call.Inv) {
			continue // other group, or completed before o was even requested
		}
		// p can have removed o's entry if it saw it, or if it looked before
		// o's Subscribe returned (o installed between the look and the removal)
		if p.entrySeen == o.sub || p.LookFrom == 0 || p.LookFrom < o.call.Ret {
			if p.entrySeen == o.sub {
				exact = true
			}
			if p.Cid == o.call.Cid {
				same = true
			} else {
				other = true
			}
		}
	}
	if !exact {
		// no clean-up was seen holding o's entry: a partition lifecycle event
		// that ran after o was installed is the nearer suspect
		if ev := c.eventClassAfter(o.call.Ret); ev != "" {
			return "after-partition-event:" + ev
		}
	}
	switch {
	case same: // the unchanged removeGroupSubscriber only removes an entry of its own consumer id
		return "stale-cleanup-same-consumer-id"
	case other:
		return "stale-cleanup-other-consumer-id"
	}
	return "no-cleanup-involved"
}

// demo shows the consequence of a lost entry: a third member with the same
// epoch subscribes; per the property it replaces and cancels o.
func (c *c13Case) demo(o *c13Sub) map[string]interface{} {
	out := map[string]interface{}{}
	if !o.forever {
		out["note"] = "orphaned subscription has a stop position; consequence not demonstrated"
		return out
	}
	o.undrain()
	k := c.doSub(c13Act{Kind: "sub", G: o.call.G, Cid: "third-member", Epoch: o.call.Epoch, Mode: "new"})
	out["third_member_call"] = fmt.Sprintf("Subscribe(group=g%d consumer=third-member epoch=%d NEW_ONLY) -> %s", o.call.G, o.call.Epoch, k.Result)
	if k.sub == nil {
		return out
	}
	out["orphan_still_open_after_third_member_accepted"] = o.open()
	ctx, cancel := context.WithTimeout(context.Background(), c13Watchdog)
	defer cancel()
	resp, err := c.srv.api.Publish(ctx, &client.PublishRequest{Stream: c.st.name, Value: []byte("c13-fence"), AckPolicy: client.AckPolicy_ALL})
	if err != nil || resp.Ack == nil {
		out["fence"] = fmt.Sprintf("publish failed: %v", err)
		return out
	}
	off := resp.Ack.Offset
	got := c.wait(func() bool { return o.lastOff.Load() >= off && k.sub.lastOff.Load() >= off })
	out["fence_offset"] = off
	out["fence_received_by_orphan_sub"] = o.lastOff.Load() >= off
	out["fence_received_by_third_member_sub"] = k.sub.lastOff.Load() >= off
	out["both_open_after_fence"] = o.open() && k.sub.open()
	if got {
		out["conclusion"] = fmt.Sprintf("two members of group g%d (sub#%d consumer %s and sub#%d consumer third-member) consume the partition at the same time: both were delivered offset %d", o.call.G, o.Idx, o.call.Cid, k.sub.Idx, off)
	}
	return out
}

// check runs the oracle; it is called with no harness action in flight.
func (c *c13Case) check(quiescent bool) {
	if c.failed {
		return
	}
	c.n("oracle_checks", 1)
	if quiescent {
		c.n("quiescent_points", 1)
	}
	c.mu.Lock()
	subs := append([]*c13Sub(nil), c.subs...)
	calls := append([]*c13Call(nil), c.calls...)
	c.mu.Unlock()
	// (E) last: what (A)-(D) already name keeps its own fingerprint
	defer c.checkReplaced()

	for g, group := range c.groups {
		var gs []*c13Sub
		for _, s := range subs {
			if s.call.G == g {
				gs = append(gs, s)
			}
		}
		e := c.st.part().GetGroupConsumer(group)
		now := c.tick()
		var named *c13Sub
		for _, s := range gs {
			if e != nil && e.sub == s.sub {
				named = s
			} else {
				s.goneAt.CompareAndSwap(0, now)
			}
		}
		entry := "nil"
		if e != nil {
			entry = fmt.Sprintf("{consumer %s epoch %d}", e.consumerID, e.groupEpoch)
			if named != nil {
				entry = fmt.Sprintf("sub#%d %s", named.Idx, entry)
			}
		}
		if e != nil && named == nil {
			c.violation("C13:entry-names-unknown-subscription",
				fmt.Sprintf("GetGroupConsumer(g%d) = %s names a subscription that no successful Subscribe call returned (all calls have returned)", g, entry), nil)
			return
		}
		if named != nil && (e.consumerID != named.call.Cid || e.groupEpoch != named.call.Epoch) {
			c.violation("C13:entry-fields-mismatch",
				fmt.Sprintf("GetGroupConsumer(g%d) = %s but that subscription was created for consumer %s epoch %d", g, entry, named.call.Cid, named.call.Epoch), nil)
			return
		}

		// (A) at most one ACTIVE
		var act []*c13Sub
		for _, s := range gs {
			a, ok := s.confirmedActive()
			if !ok {
				c.inconc = true
				c.rep.Inconc(fmt.Sprintf("%s case %d: probe of sub#%d not answered", c.unit, c.id, s.Idx))
				return
			}
			if a {
				act = append(act, s)
			}
		}
		if len(act) > 1 {
			older := act[0] // the one the partition does not know (any more)
			if older == named {
				older = act[1]
			}
			cls := c.staleClass(older)
			var l []string
			for _, s := range act {
				l = append(l, fmt.Sprintf("sub#%d(consumer %s epoch %d, call#%d)", s.Idx, s.call.Cid, s.call.Epoch, s.call.Idx))
			}
			c.violation("C13:two-active:"+cls,
				fmt.Sprintf("group g%d has %d ACTIVE subscriptions after all calls returned: %s (Closed() open, not cancelled, loop running); expected at most one — the later accepted Subscribe must have closed the earlier. GetGroupConsumer = %s",
					g, len(act), strings.Join(l, ", "), entry), nil)
			return
		}
		// (B) the ACTIVE one is the one the partition knows
		if len(act) == 1 && named != act[0] {
			o := act[0]
			if a, ok := o.confirmedActive(); ok && a {
				cls := c.staleClass(o)
				fp := "C13:entry-lost:" + cls
				extra := map[string]interface{}{}
				// the first case that reports a fingerprint also demonstrates
				// the consequence; serialised so that its replay is the one kept
				c13DemoMu.Lock()
				defer c13DemoMu.Unlock()
				if !c13Demoed[fp] {
					c13Demoed[fp] = true
					extra["consequence"] = c.demo(o)
				}
				c.violation(fp,
					fmt.Sprintf("sub#%d (group g%d consumer %s epoch %d, accepted by call#%d) is ACTIVE (Closed() open, loop running) but GetGroupConsumer(g%d) = %s with no call in flight: the partition no longer knows this live subscription (its entry was removed or overwritten without cancelling it; culprit class: %s), so the next member will not cancel it",
						o.Idx, g, o.call.Cid, o.call.Epoch, o.call.Idx, g, entry, cls), extra)
				return
			}
		}
		if len(act) == 0 && quiescent && e != nil {
			c.n("stale_entry_at_quiescence(observation)", 1)
			c.rep.SetInfo("stale_entry_example", map[string]interface{}{"case": c.id, "program": c13ProgString(c.prog), "entry": entry, "history": c.history()})
		}
		if len(act) == 1 {
			c.n("checks_with_active_holder_named_by_GetGroupConsumer", 1)
		}

		// (D) closures need a cause
		for _, s := range gs {
			if s.closureChecked || s.open() {
				continue
			}
			s.closureChecked = true
			if s.harnessClose.Load() != 0 || s.selfClose.Load() != 0 {
				continue
			}
			explained := false
			var olderBy, failedBy *c13Call
			for _, k := range calls {
				if k.G != g || k == s.call || k.Ret < s.call.Inv {
					continue
				}
				if k.Result == c13Accepted {
					if k.Epoch >= s.call.Epoch {
						explained = true
						break
					}
					olderBy = k
				} else if k.Ret > s.call.Ret {
					failedBy = k
				}
			}
			if explained {
				c.n("replacements_observed(closed_by_equal_or_newer_epoch)", 1)
				continue
			}
			switch {
			case olderBy != nil:
				c.violation("C13:cancelled-by-older-epoch",
					fmt.Sprintf("sub#%d (g%d consumer %s epoch %d) was closed although neither the client nor an equal/newer-epoch subscriber did it; the only accepted call after it is call#%d with OLDER epoch %d, which should have been refused and leave the holder untouched",
						s.Idx, g, s.call.Cid, s.call.Epoch, olderBy.Idx, olderBy.Epoch), nil)
			case failedBy != nil:
				c.violation("C13:cancelled-by-failed-call:"+failedBy.Result,
					fmt.Sprintf("sub#%d (g%d consumer %s epoch %d) was closed although no Subscribe of the group succeeded after it; call#%d (epoch %d, mode %s) returned %s and must leave the current subscriber untouched",
						s.Idx, g, s.call.Cid, s.call.Epoch, failedBy.Idx, failedBy.Epoch, failedBy.Mode, failedBy.Result), nil)
			default:
				c.violation("C13:cancelled-without-cause",
					fmt.Sprintf("sub#%d (g%d consumer %s epoch %d) was closed by nobody the harness knows", s.Idx, g, s.call.Cid, s.call.Epoch), nil)
			}
			return
		}

		// (C) refusals need a strictly newer holder
		for _, k := range calls {
			if k.G != g || k.checked {
				continue
			}
			k.checked = true
			switch {
			case k.Result == c13Accepted:
				continue
			case k.Result == codes.InvalidArgument.String() && k.Mode == "invalid":
				continue
			case k.Result == c13NotLeader:
				continue
			case k.Result != codes.FailedPrecondition.String() && c.lifecycle:
				// a partition lifecycle event may end a call in other ways
				c.n("unexpected_result_"+k.Result+"_mode_"+k.Mode, 1)
				continue
			}
			// Without lifecycle events a well-formed group subscribe is either
			// accepted or refused because of a strictly newer holder, whatever
			// status code the refusal carries.
			codeCls := ""
			if k.Result != codes.FailedPrecondition.String() {
				c.n("unexpected_result_"+k.Result+"_mode_"+k.Mode, 1)
				codeCls = ":" + k.Result
			}
			c.n("refusals_checked", 1)
			max, ncand := uint64(0), 0
			for _, s := range gs {
				if s.call == k || s.call.Inv > k.Ret {
					continue
				}
				if t := s.goneAt.Load(); t != 0 && t < k.Inv {
					continue
				}
				ncand++
				if s.call.Epoch > max {
					max = s.call.Epoch
				}
			}
			if ncand > 0 && max > k.Epoch && codeCls == "" {
				continue
			}
			cls := "no-holder"
			if ncand > 0 && max == k.Epoch {
				cls = "equal-epoch-holder"
			} else if ncand > 0 && max > k.Epoch {
				cls = "newer-epoch-holder"
			} else if ncand > 0 {
				cls = "older-epoch-holder"
			}
			if codeCls != "" && cls == "newer-epoch-holder" {
				// refused for the right reason with an unusual code: not judged
				continue
			}
			c.violation("C13:refused:"+cls+codeCls,
				fmt.Sprintf("call#%d Subscribe(g%d consumer %s epoch %d) was refused with %s (%s), but no subscription of the group with a strictly newer epoch can have been the holder during the call (%d candidate holders, newest epoch %d); an equal or newer epoch must replace the current subscriber",
					k.Idx, g, k.Cid, k.Epoch, k.Result, k.Msg, ncand, max), nil)
			return
		}
	}
}

// ---------------------------------------------------------------- run

func (c *c13Case) run() {
	if c.cutShort() {
		return
	}
	defer c.finish()
	for ri, r := range c.prog {
		if c.failed || c.inconc {
			return
		}
		c.round = ri
		if r.Settle {
			c.settle()
		}
		start := make(chan struct{})
		var wg sync.WaitGroup
		for _, a := range r.Acts {
			wg.Add(1)
			go func(a c13Act) {
				defer wg.Done()
				<-start
				c.exec(a)
			}(a)
		}
		close(start)
		wg.Wait()
		// concurrency coverage
		perG := map[int][2]int{}
		for _, a := range r.Acts {
			if a.Kind == "sub" {
				v := perG[a.G]
				v[0]++
				perG[a.G] = v
			}
		}
		c.mu.Lock()
		for _, k := range c.calls {
			if k.Round == ri && k.Result == c13Accepted {
				v := perG[k.G]
				v[1]++
				perG[k.G] = v
			}
		}
		c.mu.Unlock()
		for _, v := range perG {
			if v[0] >= 2 && v[1] >= 1 {
				c.concurrent++
			}
		}
		// (E) is a state predicate: judged at once, before anything is waited for
		if r.WaitParked > 0 || r.WaitEnded {
			c.checkReplaced()
			if c.failed {
				return
			}
		}
		if r.WaitParked > 0 {
			if !c.wait(func() bool { c.mu.Lock(); defer c.mu.Unlock(); return len(c.parked) >= r.WaitParked }) {
				c.inconc = true
				c.rep.Inconc(fmt.Sprintf("%s case %d: watchdog: expected %d parked clean-ups", c.unit, c.id, r.WaitParked))
				return
			}
		}
		if r.WaitEnded {
			c.mu.Lock()
			subs := append([]*c13Sub(nil), c.subs...)
			c.mu.Unlock()
			if !c.wait(func() bool {
				for _, s := range subs {
					if !s.forever && s.open() && s.endedAt.Load() == 0 {
						return false
					}
				}
				return true
			}) {
				c.inconc = true
				c.rep.Inconc(fmt.Sprintf("%s case %d: watchdog: self-ending subscription did not end", c.unit, c.id))
				return
			}
		}
		c.check(false)
		if r.Fence && !c.failed && !c.inconc {
			c.fenceCheck()
		}
		if r.Quiesce && !c.failed {
			if c.quiesce(false) {
				c.check(true)
			}
		}
	}
}

func (c *c13Case) signature() string {
	c.mu.Lock()
	defer c.mu.Unlock()
	cids := map[string]int{}
	var sb strings.Builder
	for _, k := range c.calls {
		if _, ok := cids[k.Cid]; !ok {
			cids[k.Cid] = len(cids)
		}
		r := "A"
		if k.Result != c13Accepted {
			r = k.Result[:1]
		}
		ck := ""
		if k.sub != nil {
			switch {
			case k.sub.noErr:
				ck = "/n"
			case k.sub.keep:
				ck = "/k"
			case k.sub.closeAfterEnd:
				ck = "/a"
			}
		}
		fmt.Fprintf(&sb, "%d.g%d%c%+d%s%s%s ", k.Round, k.G, 'a'+cids[k.Cid], int(k.Epoch)-c13BaseEpoch, k.Mode[:1], r, ck)
	}
	for _, p := range c.passes {
		fmt.Fprintf(&sb, "|%s:%d", p.How[:2], len(p.ActiveSeen))
	}
	for _, e := range c.lcEvents {
		sb.WriteString("|ev:" + e)
	}
	return sb.String()
}

// finish closes everything, waits until the partition has no loop left (the
// stream is reused by the next case) and merges the counters.
func (c *c13Case) finish() {
	ok := c.quiesce(true)
	if !ok {
		// keep trying to release anything parked later so that nothing hangs
		go func() {
			for i := 0; i < 200; i++ {
				time.Sleep(50 * time.Millisecond)
				c.mu.Lock()
				c.quiescing = true
				c.mu.Unlock()
				c.releaseParked(true)
			}
		}()
	}
	if c.lifecycle {
		c.restore()
	}
	for _, g := range c.groups {
		if ok {
			c13Groups.Delete(g)
		}
	}
	c.rep.Eval()
	sig := c.signature()
	c.mu.Lock()
	for k, v := range c.counts {
		c.rep.Count(k, v)
	}
	c.rep.Count("cleanup_hook_passages", int64(c.hookFired))
	c.rep.Count("rounds_with_concurrent_same_group_subscribes", int64(c.concurrent))
	c.rep.Count("cleanups_released_while_another_sub_of_the_group_was_active", int64(c.stalePasses))
	nt := c.stalePasses > 0 || c.concurrent > 0
	if c.lifecycle {
		nt = c.lcWithActive > 0
	}
	if c.ntReplaced {
		nt = c.fencedReplaced > 0
	}
	c.mu.Unlock()
	if nt {
		c.rep.Nontrivial(sig)
	}
}

// ---------------------------------------------------------------- server

type c13Env struct {
	cl   *vfCluster
	srv  *Server
	pool chan *c13Stream
	off  func()
}

func c13Start(rep *kit.Report, tag string, nstreams int) *c13Env {
	return c13StartWith(rep, tag, nstreams, nil)
}

func c13StartWith(rep *kit.Report, tag string, nstreams int, mut func(*Config)) *c13Env {
	cl, srv, err := vfSingle(tag, mut)
	if err != nil {
		rep.Inconc("server did not start: " + err.Error())
		return nil
	}
	env := &c13Env{cl: cl, srv: srv, pool: make(chan *c13Stream, nstreams)}
	for i := 0; i < nstreams; i++ {
		name := fmt.Sprintf("%s-s%d", tag, i)
		if err := cl.CreateStream(&client.CreateStreamRequest{Subject: name, Name: name, ReplicationFactor: 1}); err != nil {
			rep.Inconc("create stream: " + err.Error())
			cl.Cleanup()
			return nil
		}
		if _, err := cl.PartitionLeader(name, 0, c13Watchdog); err != nil {
			rep.Inconc(err.Error())
			cl.Cleanup()
			return nil
		}
		for m := 0; m < c13InitMsgs; m++ {
			ctx, cancel := context.WithTimeout(context.Background(), c13Watchdog)
			_, err := srv.api.Publish(ctx, &client.PublishRequest{Stream: name, Value: []byte(fmt.Sprintf("m%d", m)), AckPolicy: client.AckPolicy_ALL})
			cancel()
			if err != nil {
				rep.Inconc("publish: " + err.Error())
				cl.Cleanup()
				return nil
			}
		}
		p := cl.Nodes["a"].Partition(name, 0)
		if !vfWait(c13Watchdog, func() bool { return p.log.HighWatermark() == c13InitMsgs-1 }) {
			rep.Inconc("HW did not reach the published messages")
			cl.Cleanup()
			return nil
		}
		env.pool <- &c13Stream{name: name, p: p}
	}
	env.off = vfHooks.On("sub.beforeRemoveGroup", c13Hook)
	return env
}

func (e *c13Env) stop() {
	e.off()
	e.cl.Cleanup()
}
