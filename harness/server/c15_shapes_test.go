//go:build verif

package server

// C15, input class "request shapes".  The ACL units call every API method in a
// few hand-written request shapes.  A denial can be lost on a path that is only
// taken when an OPTIONAL field of the request is set, or only in a particular
// server environment.  This unit derives the request shapes from the request
// messages themselves: for every method of client.APIServer the fields of its
// request message are listed through the protobuf descriptor (a field added
// later is varied like the others, by its kind) and every field is driven
// through the values of its kind — unset, zero-but-present, set, negative,
// every declared enum value and an undeclared one, empty / one / several /
// duplicate list elements, unset / empty / set sub-messages — one field at a
// time around a valid base request, plus seeded combinations of several fields.
// The whole sweep is repeated under every server environment a request shape
// can depend on (LIFTBRIDGE_ENCRYPTION_KEY unset, valid with 32 and 16 bytes,
// invalid) and lands on targets in different states (a paused partition, a
// read-only stream, a plain one, an encrypted stream, a stream with optimistic
// concurrency control).
//
// Oracle (unchanged): a call by a caller without the policy entry must return
// an error (an error response per message for PublishAsync, nothing handed to a
// Subscribe caller) and leave the state digest unchanged; after every method's
// sweep one authorised fence per partition shows that nothing was appended
// late and every standing subscription got the fence next.  A seeded sample of
// the shapes is also run by the admin client, which holds every line: it must
// never be refused for lack of authorisation, and whether the shape is accepted
// by the server at all is recorded (a denied case whose shape the server also
// accepts from an authorised client is the non-trivial one).

import (
	"fmt"
	"math"
	"os"
	"sort"
	"strings"
	"testing"
	"time"

	client "github.com/liftbridge-io/liftbridge-api/v2/go"
	gproto "google.golang.org/protobuf/proto"
	"google.golang.org/protobuf/reflect/protoreflect"

	kit "github.com/liftbridge-io/liftbridge/internal/verifkit"
)

const (
	c15sEnc = "xe" // encrypted stream, one partition
	c15sOCC = "xo" // stream with optimistic concurrency control, one partition
	c15sKey = "LIFTBRIDGE_ENCRYPTION_KEY"
)

type c15sEnv struct {
	name   string
	set    bool
	val    string
	usable bool
}

// The environments a request shape can depend on.
var c15sEnvs = []c15sEnv{
	{"key-valid-32", true, "0123456789abcdef0123456789abcdef", true},
	{"key-unset", false, "", false},
	{"key-invalid", true, "five5", false},
	{"key-valid-16", true, "0123456789abcdef", true},
}

func (e c15sEnv) apply() {
	if e.set {
		os.Setenv(c15sKey, e.val)
	} else {
		os.Unsetenv(c15sKey)
	}
}

// ---------------------------------------------------------------- values by kind

type c15sVal struct {
	label string
	set   func(m protoreflect.Message, fd protoreflect.FieldDescriptor)
}

func c15sClear(m protoreflect.Message, fd protoreflect.FieldDescriptor) { m.Clear(fd) }

// c15sScalar: a protoreflect value of the field's kind from a small integer /
// string seed (used for list elements and sub-message fields).
func c15sScalar(fd protoreflect.FieldDescriptor, n int64, s string) (protoreflect.Value, bool) {
	switch fd.Kind() {
	case protoreflect.BoolKind:
		return protoreflect.ValueOfBool(n != 0), true
	case protoreflect.Int32Kind, protoreflect.Sint32Kind, protoreflect.Sfixed32Kind:
		return protoreflect.ValueOfInt32(int32(n)), true
	case protoreflect.Int64Kind, protoreflect.Sint64Kind, protoreflect.Sfixed64Kind:
		return protoreflect.ValueOfInt64(n), true
	case protoreflect.Uint32Kind, protoreflect.Fixed32Kind:
		return protoreflect.ValueOfUint32(uint32(n)), true
	case protoreflect.Uint64Kind, protoreflect.Fixed64Kind:
		return protoreflect.ValueOfUint64(uint64(n)), true
	case protoreflect.FloatKind:
		return protoreflect.ValueOfFloat32(float32(n)), true
	case protoreflect.DoubleKind:
		return protoreflect.ValueOfFloat64(float64(n)), true
	case protoreflect.StringKind:
		return protoreflect.ValueOfString(s), true
	case protoreflect.BytesKind:
		return protoreflect.ValueOfBytes([]byte(s)), true
	case protoreflect.EnumKind:
		return protoreflect.ValueOfEnum(protoreflect.EnumNumber(n)), true
	}
	return protoreflect.Value{}, false
}

func c15sSigned(fd protoreflect.FieldDescriptor) bool {
	switch fd.Kind() {
	case protoreflect.Int32Kind, protoreflect.Sint32Kind, protoreflect.Sfixed32Kind, protoreflect.Int64Kind, protoreflect.Sint64Kind, protoreflect.Sfixed64Kind:
		return true
	}
	return false
}

func c15sIs64(fd protoreflect.FieldDescriptor) bool {
	switch fd.Kind() {
	case protoreflect.Int64Kind, protoreflect.Sint64Kind, protoreflect.Sfixed64Kind, protoreflect.Uint64Kind, protoreflect.Fixed64Kind:
		return true
	}
	return false
}

// c15sFill sets every scalar field of a sub-message (NullableInt64, Consumer,
// whatever is added later) from the seeds.
func c15sFill(sub protoreflect.Message, n int64, s string) {
	fs := sub.Descriptor().Fields()
	for i := 0; i < fs.Len(); i++ {
		f := fs.Get(i)
		if f.IsList() || f.IsMap() || f.Kind() == protoreflect.MessageKind || f.Kind() == protoreflect.GroupKind {
			continue
		}
		if v, ok := c15sScalar(f, n, s); ok {
			sub.Set(f, v)
		}
	}
}

// c15sValues: the values of a field's kind.  strs: strings that mean something
// to this server (stream names, group ids, ...), used for string-typed fields
// in addition to the generic ones.
func c15sValues(fd protoreflect.FieldDescriptor, strs []string) []c15sVal {
	out := []c15sVal{{"unset", c15sClear}}
	scalar := func(label string, n int64, s string) {
		out = append(out, c15sVal{label, func(m protoreflect.Message, fd protoreflect.FieldDescriptor) {
			if v, ok := c15sScalar(fd, n, s); ok {
				m.Set(fd, v)
			}
		}})
	}
	switch {
	case fd.IsMap():
		mk := func(label string, kv ...string) {
			out = append(out, c15sVal{label, func(m protoreflect.Message, fd protoreflect.FieldDescriptor) {
				mp := m.Mutable(fd).Map()
				for i := 0; i+1 < len(kv); i += 2 {
					k, ok1 := c15sScalar(fd.MapKey(), int64(i), kv[i])
					v, ok2 := c15sScalar(fd.MapValue(), int64(i), kv[i+1])
					if ok1 && ok2 {
						mp.Set(k.MapKey(), v)
					}
				}
			}})
		}
		mk("one-entry", "h", "v")
		mk("empty-key", "", "")
		mk("server-keys", "subject", "x", "reply", "r")
		mk("several", "a", "1", "b", "2", "c", "3")
	case fd.IsList():
		mk := func(label string, ns []int64, ss []string) {
			out = append(out, c15sVal{label, func(m protoreflect.Message, fd protoreflect.FieldDescriptor) {
				l := m.Mutable(fd).List()
				for i := range ns {
					if fd.Kind() == protoreflect.MessageKind {
						e := l.NewElement()
						c15sFill(e.Message(), ns[i], ss[i])
						l.Append(e)
					} else if v, ok := c15sScalar(fd, ns[i], ss[i]); ok {
						l.Append(v)
					}
				}
			}})
		}
		a, b := "s0", "s1"
		if len(strs) > 1 {
			a, b = strs[0], strs[1]
		}
		mk("one-zero", []int64{0}, []string{a})
		mk("one", []int64{1}, []string{b})
		mk("several", []int64{0, 1}, []string{a, b})
		mk("duplicate", []int64{1, 1}, []string{a, a})
		mk("unknown", []int64{7}, []string{"nope"})
		mk("negative-or-empty", []int64{-1}, []string{""})
	case fd.Kind() == protoreflect.MessageKind || fd.Kind() == protoreflect.GroupKind:
		out = append(out,
			c15sVal{"present-zero", func(m protoreflect.Message, fd protoreflect.FieldDescriptor) { m.Mutable(fd) }},
			c15sVal{"set", func(m protoreflect.Message, fd protoreflect.FieldDescriptor) {
				c15sFill(m.Mutable(fd).Message(), 1, "x")
			}},
			c15sVal{"set-2", func(m protoreflect.Message, fd protoreflect.FieldDescriptor) {
				c15sFill(m.Mutable(fd).Message(), 2, "y")
			}},
			c15sVal{"set-negative", func(m protoreflect.Message, fd protoreflect.FieldDescriptor) {
				c15sFill(m.Mutable(fd).Message(), -1, "")
			}},
			c15sVal{"set-large", func(m protoreflect.Message, fd protoreflect.FieldDescriptor) {
				c15sFill(m.Mutable(fd).Message(), 1<<20, strings.Repeat("z", 300))
			}})
	case fd.Kind() == protoreflect.EnumKind:
		vs := fd.Enum().Values()
		for i := 0; i < vs.Len(); i++ {
			if vs.Get(i).Number() == 0 {
				continue // = unset
			}
			scalar("enum-"+string(vs.Get(i).Name()), int64(vs.Get(i).Number()), "")
		}
		scalar("enum-undeclared", 99, "")
	case fd.Kind() == protoreflect.BoolKind:
		scalar("true", 1, "")
	case fd.Kind() == protoreflect.StringKind:
		scalar("other", 0, "x")
		scalar("dotted", 0, "a.b")
		scalar("blank", 0, " ")
		for _, s := range strs {
			scalar("name:"+s, 0, s)
		}
	case fd.Kind() == protoreflect.BytesKind:
		scalar("one-byte", 0, "v")
		scalar("long", 0, strings.Repeat("v", 4096))
	default: // numbers
		scalar("one", 1, "")
		scalar("two", 2, "")
		scalar("seven", 7, "")
		if c15sSigned(fd) {
			scalar("minus-one", -1, "")
			scalar("minus-two", -2, "")
		}
		if c15sIs64(fd) {
			// 64-bit fields are offsets, epochs and timestamps.  32-bit fields can
			// be counts the server allocates for before anything else: no huge
			// value there.
			scalar("max", math.MaxInt64, "")
		}
	}
	return out
}

// ---------------------------------------------------------------- methods

type c15sSpec struct {
	// base: a valid request on target t that the admin client may make.
	base func(t string) gproto.Message
	// targets of the method, in rotation.
	targets []string
	// resource: fields that select the ACL resource; left alone when the caller
	// is a named client that merely lacks the entry on the base resource, and
	// for the admin client.
	resource []string
	// need: the entries the documentation requires (nil: no documented action;
	// judged for callers without any line only).
	need func(t string) [][2]string
	// strs: meaningful strings for the string fields.
	strs    []string
	group   bool
	noDoc   bool // read-only RPC without a documented action
	stream  bool // streaming RPC
	msgSeq  bool // PublishAsync: the shape is one message of a sequence
	subPart func(m gproto.Message) (string, int32)
}

func c15sStreamTargets() []string { return append(append([]string{}, c15Live...), c15sEnc, c15sOCC) }

func c15sSpecs(w *c15World) map[string]*c15sSpec {
	coord := func(g string) (string, uint64) {
		if w != nil && w.srv != nil {
			if grp := w.srv.metadata.GetConsumerGroup(g); grp != nil {
				return grp.GetCoordinator()
			}
		}
		return "a", 0
	}
	names := append(append(append(c15sStreamTargets(), c15Del...), c15New...), c15CurStr, "__activity", "nope")
	one := func(act string) func(string) [][2]string {
		return func(t string) [][2]string { return [][2]string{{t, act}} }
	}
	pub := func(t string) *client.PublishRequest {
		return &client.PublishRequest{Stream: t, Value: []byte("shape"), AckPolicy: client.AckPolicy_LEADER, CorrelationId: "c"}
	}
	groups := []string{c15MetaGrp, c15StdGroup, "gnew", "s0"}
	return map[string]*c15sSpec{
		"CreateStream": {
			base: func(t string) gproto.Message {
				return &client.CreateStreamRequest{Name: t, Subject: c15Subject(t), Partitions: 1, ReplicationFactor: 1}
			},
			targets: c15New, resource: []string{"name", "subject"}, need: one("CreateStream"), strs: names,
		},
		"DeleteStream": {
			base:    func(t string) gproto.Message { return &client.DeleteStreamRequest{Name: t} },
			targets: append(append([]string{}, c15Del...), "s2"), resource: []string{"name"}, need: one("DeleteStream"), strs: names,
		},
		"PauseStream": {
			base:    func(t string) gproto.Message { return &client.PauseStreamRequest{Name: t} },
			targets: c15sStreamTargets(), resource: []string{"name"}, need: one("PauseStream"), strs: names,
		},
		"SetStreamReadonly": {
			base:    func(t string) gproto.Message { return &client.SetStreamReadonlyRequest{Name: t, Readonly: true} },
			targets: c15sStreamTargets(), resource: []string{"name"}, need: one("SetStreamReadonly"), strs: names,
		},
		"Subscribe": {
			base: func(t string) gproto.Message {
				return &client.SubscribeRequest{Stream: t, StartPosition: client.StartPosition_EARLIEST}
			},
			targets: c15sStreamTargets(), resource: []string{"stream"}, need: one("Subscribe"), strs: names, stream: true,
		},
		"FetchMetadata": {
			base:    func(t string) gproto.Message { return &client.FetchMetadataRequest{} },
			targets: []string{"*"}, need: one("FetchMetadata"), strs: append(append([]string{}, names...), groups...),
		},
		"FetchPartitionMetadata": {
			base:    func(t string) gproto.Message { return &client.FetchPartitionMetadataRequest{Stream: t} },
			targets: c15sStreamTargets(), resource: []string{"stream"}, need: one("FetchPartitionMetadata"), strs: names,
		},
		"Publish": {
			base:    func(t string) gproto.Message { return pub(t) },
			targets: append(c15sStreamTargets(), c15CurStr), resource: []string{"stream"}, need: one("Publish"), strs: names,
		},
		"PublishAsync": {
			base:    func(t string) gproto.Message { return pub(t) },
			targets: c15sStreamTargets(), resource: []string{"stream"}, need: one("Publish"), strs: names, stream: true, msgSeq: true,
		},
		"PublishToSubject": {
			base: func(t string) gproto.Message {
				return &client.PublishToSubjectRequest{Subject: c15Subject(t), Value: []byte("shape"), AckPolicy: client.AckPolicy_LEADER}
			},
			targets: c15Live, resource: []string{"subject"},
			need: func(t string) [][2]string { return [][2]string{{c15Subject(t), "PublishToSubject"}} },
			strs: []string{c15Subject("s0"), c15Subject("s1") + ".1", c15Subject(c15sEnc), "s0", "nope", "__cursors"},
		},
		"SetCursor": {
			base: func(t string) gproto.Message {
				return &client.SetCursorRequest{Stream: t, CursorId: "cur0", Offset: 11}
			},
			targets: c15Live, resource: []string{"stream"},
			need: func(t string) [][2]string { return [][2]string{{t, "SetCursor"}, {c15CurStr, "Publish"}} }, strs: names,
		},
		"FetchCursor": {
			base:    func(t string) gproto.Message { return &client.FetchCursorRequest{Stream: t, CursorId: "cur0"} },
			targets: c15Live, resource: []string{"stream"}, need: one("FetchCursor"), strs: names,
		},
		"JoinConsumerGroup": {
			base: func(t string) gproto.Message {
				return &client.JoinConsumerGroupRequest{GroupId: t, ConsumerId: "shape", Streams: []string{"s0"}}
			},
			targets: []string{c15MetaGrp, "gnew"}, resource: []string{"groupId", "streams"}, strs: groups, group: true,
		},
		"LeaveConsumerGroup": {
			base:    func(t string) gproto.Message { return &client.LeaveConsumerGroupRequest{GroupId: t, ConsumerId: "m2"} },
			targets: []string{c15MetaGrp}, resource: []string{"groupId"}, strs: append([]string{"m1", "m2"}, groups...), group: true,
		},
		"FetchConsumerGroupAssignments": {
			base: func(t string) gproto.Message {
				_, ep := coord(t)
				return &client.FetchConsumerGroupAssignmentsRequest{GroupId: t, ConsumerId: "m1", Epoch: ep}
			},
			targets: []string{c15MetaGrp}, resource: []string{"groupId"}, strs: append([]string{"m1", "m2"}, groups...), group: true, noDoc: true,
		},
		"ReportConsumerGroupCoordinator": {
			base: func(t string) gproto.Message {
				co, ep := coord(t)
				return &client.ReportConsumerGroupCoordinatorRequest{GroupId: t, ConsumerId: "m1", Coordinator: co, Epoch: ep}
			},
			targets: []string{c15MetaGrp}, resource: []string{"groupId"}, strs: append([]string{"m1", "m2", "a"}, groups...), group: true,
		},
	}
}

// ---------------------------------------------------------------- shapes

type c15sShape struct {
	label  string // field=value or combo#n
	target string
	req    gproto.Message
	pos    int  // PublishAsync: position of the varied message in the sequence
	noDl   bool // unary call without a deadline
	resVar bool // a resource field was varied
}

func c15sIn(list []string, s string) bool {
	for _, x := range list {
		if x == s {
			return true
		}
	}
	return false
}

// c15sShapesOf: one-field-at-a-time shapes around the base, then seeded
// combinations.  keepRes: leave the resource fields alone.
func c15sShapesOf(spec *c15sSpec, keepRes bool, combos int, rng *kit.RNG) []c15sShape {
	var out []c15sShape
	n := 0
	target := func() string { n++; return spec.targets[n%len(spec.targets)] }
	probe := spec.base(spec.targets[0]).ProtoReflect()
	fs := probe.Descriptor().Fields()
	for i := 0; i < fs.Len(); i++ {
		fd := fs.Get(i)
		isRes := c15sIn(spec.resource, string(fd.Name()))
		if isRes && keepRes {
			continue
		}
		for _, v := range c15sValues(fd, spec.strs) {
			t := target()
			req := spec.base(t)
			v.set(req.ProtoReflect(), fd)
			out = append(out, c15sShape{label: string(fd.Name()) + "=" + v.label, target: t, req: req, pos: n % 3, noDl: n%4 == 0, resVar: isRes})
		}
	}
	for c := 0; c < combos; c++ {
		t := target()
		req := spec.base(t)
		var parts []string
		resVar := false
		for i := 0; i < fs.Len(); i++ {
			fd := fs.Get(i)
			isRes := c15sIn(spec.resource, string(fd.Name()))
			if (isRes && keepRes) || !rng.Chance(1, 2) {
				continue
			}
			vs := c15sValues(fd, spec.strs)
			v := vs[rng.Intn(len(vs))]
			v.set(req.ProtoReflect(), fd)
			parts = append(parts, string(fd.Name())+"="+v.label)
			resVar = resVar || isRes
		}
		out = append(out, c15sShape{label: fmt.Sprintf("combo[%s]", strings.Join(parts, ",")), target: t, req: req, pos: n % 3, noDl: n%4 == 0, resVar: resVar})
	}
	return out
}

// ---------------------------------------------------------------- execution

type c15sOut struct {
	err       error
	resp      interface{}
	delivered int
	resps     []*client.PublishResponse
	nmsgs     int
	inconc    string
	panicked  string
}

// c15sRun performs one call in the given shape.
func (w *c15World) c15sRun(method string, spec *c15sSpec, sh c15sShape, cli string, watchdog time.Duration) (o *c15sOut) {
	o = &c15sOut{}
	defer func() {
		if p := recover(); p != nil {
			o.panicked = fmt.Sprint(p)
		}
	}()
	switch {
	case spec.msgSeq:
		// the varied message at position pos of a sequence of three
		var reqs []gproto.Message
		for i := 0; i < 3; i++ {
			if i == sh.pos {
				reqs = append(reqs, gproto.Clone(sh.req))
			} else {
				b := spec.base(sh.target).(*client.PublishRequest)
				b.CorrelationId = fmt.Sprintf("b%d", i)
				reqs = append(reqs, b)
			}
		}
		o.nmsgs = len(reqs)
		st, err := w.stream(method, cli, reqs...)
		if err != nil {
			o.err = err
			return
		}
		close(st.in)
		if !st.waitDone(watchdog) {
			st.cancel()
			o.inconc = method + " handler did not return after the client closed the stream"
			return
		}
		o.err = st.result()
		for _, m := range st.drain() {
			if r, ok := m.(*client.PublishResponse); ok {
				o.resps = append(o.resps, r)
			}
		}
	case spec.stream:
		st, err := w.stream(method, cli, gproto.Clone(sh.req))
		if err != nil {
			o.err = err
			return
		}
		first, to := st.next(watchdog)
		if to {
			st.cancel()
			o.inconc = method + " neither confirmed nor returned"
			return
		}
		if first != nil {
			o.delivered = 1
		}
		st.cancel()
		if !st.waitDone(watchdog) {
			o.inconc = method + " handler did not return after its context ended"
			return
		}
		o.delivered += len(st.drain())
		if first == nil {
			o.err = st.result()
		}
	default:
		d := watchdog
		if sh.noDl {
			d = 0
		}
		o.resp, o.err = w.call(method, cli, gproto.Clone(sh.req), d)
	}
	return
}

// c15sSettle: subscription loops other than the standing ones have wound down.
func (w *c15World) c15sSettle() {
	vfWait(5*time.Second, func() bool {
		for _, st := range w.srv.metadata.GetStreams() {
			for id, p := range st.GetPartitions() {
				p.mu.RLock()
				n := p.subscriberCount
				p.mu.RUnlock()
				if n != w.openStandingOn(st.GetName(), id) {
					return false
				}
			}
		}
		return true
	})
}

// c15sHostile puts the world into the state the sweep runs against: partition
// 0 of s0 paused, s1 read-only, s2 untouched; standing subscriptions on what
// can carry them.
func (w *c15World) c15sHostile() error {
	if err := w.normalize(); err != nil {
		return err
	}
	if err := w.adminCall("PauseStream", &client.PauseStreamRequest{Name: "s0", Partitions: []int32{0}}); err != nil {
		return err
	}
	if err := w.adminCall("SetStreamReadonly", &client.SetStreamReadonlyRequest{Name: "s1", Readonly: true}); err != nil {
		return err
	}
	if err := w.ensureStanding(); err != nil {
		return err
	}
	if !w.quiesce() {
		return fmt.Errorf("subscription loops ended by the preparation did not wind down: %w", errVfTimeout)
	}
	return nil
}

type c15sBatch struct {
	method  string
	env     string
	calls   []string
	last    c15Digest // digest after the previous call of the sweep (nothing happens in between)
	sampled int
}

// c15sDenied runs one call that must be refused and judges it.  It returns
// false when the world has to be rebuilt (state changed).
func (w *c15World) c15sDenied(b *c15sBatch, spec *c15sSpec, sh c15sShape, cli, why string) bool {
	rep := w.rep
	tag := fmt.Sprintf("env=%s %s[%s] client=%s target=%s", b.env, b.method, sh.label, cli, sh.target)
	d0 := b.last
	if d0 == nil {
		d0 = w.digest()
	}
	b.last = nil
	o := w.c15sRun(b.method, spec, sh, cli, c15Call45)
	if o.inconc != "" {
		rep.Inconc(tag + ": " + o.inconc)
		return false
	}
	if spec.stream && !spec.msgSeq {
		w.c15sSettle()
	}
	d1 := w.digest()
	b.last = d1
	rep.Eval()
	rep.Count("calls/"+b.method, 1)
	rep.Count("env/"+b.env, 1)
	b.calls = append(b.calls, sh.label)
	diff := c15DiffKeys(d0, d1)
	var appended []string
	nb, na := c15bNewest(d0), c15bNewest(d1)
	for k, a := range na {
		if p, ok := nb[k]; ok && a > p {
			appended = append(appended, fmt.Sprintf("%s: %d message(s) appended", k, a-p))
		}
	}
	sort.Strings(appended)
	field := sh.label
	if i := strings.Index(field, "="); i > 0 && !strings.HasPrefix(field, "combo") {
		rep.Nontrivial(b.method + "/" + field + "/denied")
	} else {
		rep.Nontrivial(b.method + "/combo/denied")
	}
	rep.Nontrivial(b.method + "/" + b.env + "/denied")
	if kind := c15IdentityKind(cli); kind != "" {
		rep.Count("denied_identity/"+kind, 1)
	} else if cli == c15Stranger {
		rep.Count("denied_stranger", 1)
	} else {
		rep.Count("denied_named_client_without_the_entry", 1)
	}
	witness := map[string]interface{}{"seed": kit.Seed(), "environment": b.env, "client": cli, "client_identity": c15DescribeClient(cli), "why_denied": why,
		"method": b.method, "shape": sh.label, "request": c15Text(sh.req), "target_state": c15sTargetState(sh.target), "returned_error": fmt.Sprint(o.err),
		"state_diff": c15DescribeDiff(d0, d1, diff), "appended": appended, "messages_handed_to_the_caller": o.delivered}
	if o.panicked != "" {
		fp := "C15:" + b.method + ":panic-on-unauthorised-call"
		rep.Violation(fp, fmt.Sprintf("%s: the handler panicked on a call of a caller without the policy entry (a gRPC server without a recovery interceptor dies with it: every subscription is disturbed): %s", tag, o.panicked), witness)
		return len(diff) == 0 && len(appended) == 0 // the sweep goes on unless the world has to be rebuilt
	}
	refused := o.err != nil
	if spec.msgSeq && o.err == nil {
		nerr := 0
		for _, r := range o.resps {
			if r.AsyncError != nil {
				nerr++
			}
		}
		refused = nerr >= o.nmsgs
		witness["error_responses"] = fmt.Sprintf("%d of %d messages", nerr, o.nmsgs)
	}
	if spec.stream && !spec.msgSeq && o.delivered > 0 {
		refused = false
	}
	byCheck := c15AuthzError(o.err)
	if spec.msgSeq && o.err == nil {
		byCheck = true
		for _, r := range o.resps {
			if r.AsyncError != nil && r.AsyncError.Code != client.PublishAsyncError_PERMISSION_DENIED {
				byCheck = false
			}
		}
	}
	if b.sampled < 2 {
		b.sampled++
		rep.Sample(map[string]interface{}{"case": tag, "request": c15Text(sh.req), "why_denied": why, "returned_error": fmt.Sprint(o.err), "error_responses": len(o.resps),
			"state_diff": c15DescribeDiff(d0, d1, diff), "appended": appended})
	}
	if refused && byCheck {
		rep.Count("refused_by_the_authorisation_check/"+b.method, 1)
	} else if refused {
		rep.Count("refused_by_validation_first/"+b.method, 1)
	}
	has := func(prefix string) bool {
		for _, k := range diff {
			if strings.HasPrefix(k, prefix) {
				return true
			}
		}
		return false
	}
	effect := ""
	switch {
	case b.method == "Subscribe" && has("paused/"):
		effect = "resumed-before-check"
	case b.method == "Subscribe" && (has("sub/") || has("pcons/")):
		effect = "group-takeover-before-check"
	case b.method == "Subscribe" && o.delivered > 0:
		effect = "delivered-despite-denial"
	case strings.HasPrefix(b.method, "Publish") && len(appended) > 0:
		effect = "published-despite-denial"
	case strings.HasPrefix(b.method, "Publish") && has("paused/"):
		effect = "resumed-despite-denial"
	case !refused && spec.group:
		effect = "no-check"
	case !refused:
		effect = "not-refused"
	case len(appended) > 0:
		effect = "published-despite-denial"
	case len(diff) > 0:
		cls := diff[0]
		if i := strings.Index(cls, "/"); i > 0 {
			cls = cls[:i]
		}
		effect = "state-changed:" + cls
	}
	if effect == "" {
		rep.Count("denied_refused_unchanged/"+b.method, 1)
		return true
	}
	if effect == "no-check" && spec.noDoc && len(diff) == 0 && len(appended) == 0 {
		rep.Count("observed_unguarded_readonly/"+b.method, 1)
		return true
	}
	if cls := c15IdentityClass(cli); cls != "" {
		effect += ":caller=" + cls
	}
	rep.Violation("C15:"+b.method+":"+effect,
		fmt.Sprintf("%s: %s (expected: refused, nothing changes). Observed: refused=%v err=%v; state changed:%s; %s; request %s",
			tag, why, refused, o.err, c15DescribeDiff(d0, d1, diff), strings.Join(appended, "; "), c15Text(sh.req)), witness)
	return len(diff) == 0
}

// c15sAdminPublish: an authorised marker on one of the extra streams (-1: no
// expectation on the offset, which a stream with optimistic concurrency
// control demands).
func (w *c15World) c15sAdminPublish(stream string, val string) (int64, error) {
	r, err := w.call("Publish", c15Admin, &client.PublishRequest{Stream: stream, Key: c15Fencer, Value: []byte(val), AckPolicy: client.AckPolicy_ALL, ExpectedOffset: -1}, c15Wait)
	if err != nil {
		w.adminRefused("Publish", stream, err)
		return 0, fmt.Errorf("admin Publish %s/0: %v", stream, err)
	}
	resp := r.(*client.PublishResponse)
	if resp.Ack == nil {
		return 0, fmt.Errorf("admin Publish %s/0: no ack", stream)
	}
	return resp.Ack.Offset, nil
}

// c15sEnsureExtra creates (fresh) or removes one of the extra streams.
func (w *c15World) c15sEnsureExtra(name string, present bool) error {
	if w.srv.metadata.GetStream(name) != nil {
		if err := w.adminCall("DeleteStream", &client.DeleteStreamRequest{Name: name}); err != nil {
			return err
		}
	}
	if !present {
		return nil
	}
	yes := &client.NullableBool{Value: true}
	req := &client.CreateStreamRequest{Name: name, Subject: c15Subject(name), Partitions: 1, ReplicationFactor: 1}
	if name == c15sEnc {
		req.Encryption = yes
	} else {
		req.OptimisticConcurrencyControl = yes
	}
	if err := w.adminCall("CreateStream", req); err != nil {
		return err
	}
	if err := w.waitLeaders(name, 1); err != nil {
		return err
	}
	_, err := w.c15sAdminPublish(name, "seed")
	return err
}

// c15sBenign: values an operator would put into a request.  The admin sample is
// limited to them: it is there to show that a shape is accepted from an
// authorised client, not to probe the server's input validation (a negative
// cleaner interval accepted from an authorised client makes the partition's
// cleaner goroutine panic — not this property's business).
func c15sBenign(label string) bool {
	for _, bad := range []string{"present-zero", "negative", "large", "minus-", "=max", "undeclared", "=long", "unknown", "blank", "empty-key"} {
		if strings.Contains(label, bad) {
			return false
		}
	}
	return true
}

func c15sTargetState(t string) string {
	switch t {
	case "s0":
		return "partition 0 paused"
	case "s1":
		return "read-only"
	case c15sEnc:
		return "encrypted stream"
	case c15sOCC:
		return "optimistic concurrency control"
	}
	return "default"
}

// c15sFenceBatch: after a method's sweep, one authorised marker per writable
// partition must land right behind what was there when the sweep began, and be
// the next thing every standing subscription receives.
func (w *c15World) c15sFenceBatch(b *c15sBatch, dB0 c15Digest) {
	rep := w.rep
	if len(b.calls) == 0 {
		return
	}
	dB1 := w.digest()
	f := w.fence(dB0, dB1)
	tag := fmt.Sprintf("env=%s %s: fence after %d refused call(s)", b.env, b.method, len(b.calls))
	if len(f.inconc) > 0 {
		for _, s := range f.inconc {
			rep.Inconc(tag + ": " + s)
		}
		return
	}
	nb := c15bNewest(dB0)
	offs := f.offsets
	// the extra streams are not part of the shared fence
	for _, s := range []string{c15sEnc, c15sOCC} {
		if p := w.srv.metadata.GetPartition(s, 0); p == nil || p.IsPaused() || p.IsReadonly() {
			continue
		}
		if off, err := w.c15sAdminPublish(s, "fence-"+s); err == nil {
			offs[c15PartKey(s, 0)] = off
		} else {
			rep.Inconc(tag + ": " + err.Error())
			return
		}
	}
	rep.Eval()
	var bad []string
	for k, off := range offs {
		if n0, ok := nb[k]; ok && off != n0+1 {
			bad = append(bad, fmt.Sprintf("%s: fence landed on offset %d, newest before the sweep was %d", k, off, n0))
		}
	}
	for key, n := range f.extra {
		if n != 0 {
			bad = append(bad, fmt.Sprintf("standing subscription %s received %d message(s) before the fence", key, n))
		}
	}
	for _, k := range f.closed {
		bad = append(bad, "standing subscription "+k+" ended")
	}
	sort.Strings(bad)
	if len(bad) == 0 {
		rep.Count("fences_clean", int64(len(offs)))
		return
	}
	calls := b.calls
	if len(calls) > 12 {
		calls = append(append([]string{}, calls[:12]...), fmt.Sprintf("…(+%d)", len(b.calls)-12))
	}
	rep.Violation("C15:"+b.method+":published-despite-denial",
		fmt.Sprintf("%s: every call of the sweep was made by a caller without the policy entry and was answered, yet: %s", tag, strings.Join(bad, "; ")),
		map[string]interface{}{"seed": kit.Seed(), "environment": b.env, "method": b.method, "refused_calls": calls})
}

// c15sAllowed: the shape by the admin client (holds every line on the base
// resource).  Never to be refused for lack of authorisation; whether the server
// accepts the shape at all is recorded.
func (w *c15World) c15sAllowed(env, method string, spec *c15sSpec, sh c15sShape) {
	rep := w.rep
	tag := fmt.Sprintf("env=%s %s[%s] client=admin target=%s", env, method, sh.label, sh.target)
	o := w.c15sRun(method, spec, sh, c15Admin, 8*time.Second)
	rep.Eval()
	rep.Count("admin_calls/"+method, 1)
	denied := c15AuthzError(o.err)
	for _, r := range o.resps {
		if r.AsyncError != nil && (r.AsyncError.Code == client.PublishAsyncError_PERMISSION_DENIED || strings.Contains(r.AsyncError.Message, "not authorized")) {
			denied = true
		}
	}
	switch {
	case o.panicked != "":
		// not an authorisation matter: recorded, the world is rebuilt by the caller
		rep.Count("admin_shape_panicked(not judged here)/"+method+"["+sh.label+"]", 1)
	case o.inconc != "":
		rep.Count("admin_shape_no_answer_within_watchdog/"+method, 1)
	case denied:
		rep.Violation("C15:"+method+":refused-although-authorised",
			fmt.Sprintf("%s: the admin client holds every entry the documentation requires for this call, yet it was refused for lack of authorisation: %v %v", tag, o.err, o.resps),
			map[string]interface{}{"seed": kit.Seed(), "environment": env, "method": method, "shape": sh.label, "request": c15Text(sh.req), "returned_error": fmt.Sprint(o.err)})
	case o.err != nil:
		rep.Count("admin_shape_rejected_for_another_reason/"+method, 1)
	default:
		rep.Count("admin_shape_accepted/"+method, 1)
		rep.Nontrivial(method + "/" + strings.SplitN(sh.label, "[", 2)[0] + "/accepted-from-admin/" + env)
	}
}

// c15sLackers: named clients that lack an entry the call needs, per target.
func c15sLackers(pol *c15Policy, spec *c15sSpec) (out [][2]string) {
	if spec.need == nil {
		return nil
	}
	for _, t := range spec.targets {
		for _, c := range c15Cli {
			if !pol.hasAll(c, spec.need(t)) {
				out = append(out, [2]string{c, t})
			}
		}
	}
	return
}

// TestVerifC15Shapes: request shapes derived from the request messages x
// server environments x target states, for callers without the entry.
func TestVerifC15Shapes(t *testing.T) {
	rep := kit.NewReport("C15", "shapes")
	defer rep.Write()
	rep.SetRule("For every method of client.APIServer (listed by reflection; a method without a base request fails the run) the fields of its request message are taken from the protobuf descriptor and each is driven, one at a time around a valid base request, through the values of its kind: unset, set, other small numbers, negative, 64-bit maximum, every declared enum value and an undeclared one, lists (empty, one, several, duplicate, unknown, negative / empty element), maps, bytes, and sub-messages (absent, present-but-zero, set, negative, large); then seeded combinations of several fields. For PublishAsync the varied message takes the first, middle or last place in a sequence of three; unary calls go with and without a deadline. " +
		"Callers: (a) a caller without any policy line — the stranger and the nine identity-less / look-alike kinds in rotation — for whom also the resource-selecting fields are varied (reserved names, other streams, empty), and (b) a named client c1..c3 that lacks the entry on the base resource (resource fields left alone). " +
		"Targets rotate over a stream with a paused partition, a read-only stream, a plain stream, an encrypted stream and a stream with optimistic concurrency control (creatable / deletable names for CreateStream / DeleteStream). The sweep is repeated under every environment in " + fmt.Sprint(func() []string {
		var n []string
		for _, e := range c15sEnvs {
			n = append(n, e.name)
		}
		return n
	}()) + " (LIFTBRIDGE_ENCRYPTION_KEY, read by the server per request). " +
		"Every such call must return an error (an error response for each message of PublishAsync; nothing handed to a Subscribe caller) and leave the digest unchanged (streams, flags, groups, cursors, standing subscriptions, newest offsets); after each method's sweep one authorised fence per writable partition must land right behind the offsets of before and be the next message of every standing subscription. " +
		"A seeded sample of the shapes (all of them in the thorough tier) is also called by the admin client on the default world: never to be refused for lack of authorisation; accepted / rejected-for-another-reason is counted. non-trivial = a refused-and-unchanged case; signature = method/field=value/denied, method/env/denied, method/field=value/accepted-from-admin/env.")
	c15Assumptions(rep)
	rep.Assume("A caller without any policy line must be refused whatever the request says — the decision needs no reading of the request, so every generated shape has a determined verdict. For a named client the decision depends on the resource the request names, so the resource-selecting fields (name / stream / subject / groupId / streams) keep their base value there. 'Refused' includes refusals by input validation that precedes the authorisation check (counted separately): the property demands an error and no effect, not a particular error. 32-bit numeric fields are not driven to huge values (CreateStream allocates by the partition count before any check; exhausting the harness' memory decides nothing).")
	methods := c15CheckMethodCoverage(rep)
	specs := c15sSpecs(nil)
	for _, m := range methods {
		if specs[m] == nil {
			rep.Violation("C15:method-without-shape-base:"+m, "client.APIServer has a method "+m+" for which the request-shape sweep has no base request: its request shapes are not examined", nil)
		}
	}
	base := kit.NewRNG(kit.Mix(kit.Seed(), 0xc15e))
	pol := c15GenPolicy(base.Fork(0), 0)
	for _, s := range []string{c15sEnc, c15sOCC} {
		for _, a := range c15DocActions {
			pol.grant(c15Admin, s, a)
			pol.grant(c15Admin, c15Subject(s), a)
		}
	}
	// the admin repairs whatever a broken tree lets an unauthorised shape create
	// (a group or stream called "x"): it holds every action on the generated names too
	for _, s := range []string{"x", "y", "a.b", "nope", "m1", "m2", "a", "shape", strings.Repeat("z", 300)} {
		for _, a := range append(append([]string{}, c15DocActions...), c15GroupMethods...) {
			pol.grant(c15Admin, s, a)
		}
	}
	c15sEnvs[0].apply() // a valid key: the encrypted stream of the world can be created
	w, err := c15NewWorld(rep, "sh", pol)
	if err != nil {
		rep.Inconc("server with authorisation did not come up: " + err.Error())
		return
	}
	defer w.close()
	specs = c15sSpecs(w)
	if err := w.c15sEnsureExtra(c15sOCC, true); err != nil {
		rep.Inconc("creating the stream with optimistic concurrency control: " + err.Error())
		return
	}
	// quick: a usable key, no key, an unusable key; thorough: also the other key size
	nenv := kit.EnvInt("C15_SHAPE_ENVS", kit.Scale(3, len(c15sEnvs)))
	if nenv > len(c15sEnvs) {
		nenv = len(c15sEnvs)
	}
	combos := kit.Scale(6, 40)
	lineless := append([]string{c15Stranger}, c15IdentityKinds...)
	rot := int(kit.Seed() % uint64(len(lineless)))
	for ei := 0; ei < nenv; ei++ {
		env := c15sEnvs[ei]
		env.apply()
		// An encrypted stream exists only on a server that has a usable key (the
		// environment of a real process does not change): it is created anew under
		// every usable key and removed before the key is taken away.
		if err := w.c15sEnsureExtra(c15sEnc, env.usable); err != nil {
			rep.Inconc(fmt.Sprintf("env=%s: encrypted stream: %v", env.name, err))
			return
		}
		rng := base.Fork(uint64(100 + ei))
		if err := w.c15sHostile(); err != nil {
			rep.Inconc(fmt.Sprintf("env=%s: preparing the world: %v", env.name, err))
			return
		}
		// ---- refused sweeps, method by method
		for mi, m := range methods {
			spec := specs[m]
			if spec == nil {
				continue
			}
			if rep.NumViolations() >= 25 {
				break
			}
			dB0 := w.digest()
			b := &c15sBatch{method: m, env: env.name, last: dB0}
			if mi != (ei*5+int(kit.Seed()))%len(methods) {
				b.sampled = 2 // samples: one method per environment
			}
			// one list of (shape, caller): callers without any line first, then
			// named clients that lack the entry on the base resource
			type c15sCase struct {
				sh       c15sShape
				cli, why string
			}
			var cases []c15sCase
			for si, sh := range c15sShapesOf(spec, false, combos, rng.Fork(uint64(mi))) {
				cli := lineless[(rot+si+mi+3*ei)%len(lineless)]
				cases = append(cases, c15sCase{sh, cli, "the caller (" + c15DescribeClient(cli) + ") holds no policy entry at all"})
			}
			if lack := c15sLackers(pol, spec); len(lack) > 0 {
				for si, sh := range c15sShapesOf(spec, true, combos/2, rng.Fork(uint64(1000+mi))) {
					// a (client, target) pair without the entry; the variation is carried over to a base on that target
					pr := lack[(si+ei)%len(lack)]
					cases = append(cases, c15sCase{c15sReTarget(spec, sh, pr[1], spec.base(pr[1])), pr[0],
						fmt.Sprintf("client %s lacks an entry of %v (its lines there: %v)", pr[0], spec.need(pr[1]), pol.linesOf(pr[0], pr[1]))})
				}
			}
			rebuilt := 0
			for _, c := range cases {
				if w.c15sDenied(b, spec, c.sh, c.cli, c.why) {
					continue
				}
				// the world changed (or the call never answered): what was swept so
				// far is fenced as it stands, the world is rebuilt, the sweep goes on
				rebuilt++
				if err := w.c15sHostile(); err != nil {
					rep.Inconc(fmt.Sprintf("env=%s: rebuilding the world after %s[%s]: %v", env.name, m, c.sh.label, err))
					return
				}
				dB0 = w.digest()
				b.last, b.calls = dB0, nil
				if rebuilt >= 3 {
					break
				}
			}
			w.c15sFenceBatch(b, dB0)
		}
		// ---- the shapes from the admin client, on the default world
		if err := w.normalize(); err != nil {
			rep.Inconc(fmt.Sprintf("env=%s: restoring the default world: %v", env.name, err))
			return
		}
		for mi, m := range methods {
			spec := specs[m]
			if spec == nil {
				continue
			}
			for si, sh := range c15sShapesOf(spec, true, kit.Scale(1, 6), rng.Fork(uint64(2000+mi))) {
				if !c15sBenign(sh.label) {
					continue
				}
				if !kit.Thorough() && (si+ei+int(kit.Seed()))%3 != 0 && !strings.Contains(sh.label, "ncryption") {
					continue
				}
				w.c15sAllowed(env.name, m, spec, sh)
				if err := w.normalize(); err != nil {
					rep.Inconc(fmt.Sprintf("env=%s: restoring the default world after admin %s[%s]: %v", env.name, m, sh.label, err))
					return
				}
			}
		}
		// barrier: whatever the admin calls left in flight is appended before the
		// next environment's sweeps take their digests
		w.quiesce()
		d := w.digest()
		w.fence(d, d)
		rep.Count("environments", 1)
	}
}

// c15sReTarget rebuilds a keep-resource shape on another target: the variation
// is found again by its label among the shapes of that base.
func c15sReTarget(spec *c15sSpec, sh c15sShape, target string, base gproto.Message) c15sShape {
	out := sh
	out.target = target
	src, dst := sh.req.ProtoReflect(), base.ProtoReflect()
	fs := src.Descriptor().Fields()
	for i := 0; i < fs.Len(); i++ {
		fd := fs.Get(i)
		if c15sIn(spec.resource, string(fd.Name())) {
			continue
		}
		if src.Has(fd) {
			dst.Set(fd, src.Get(fd))
		} else {
			dst.Clear(fd)
		}
	}
	out.req = base
	return out
}
