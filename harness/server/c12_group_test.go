//go:build verif

package server

// C12, group level: directly constructed consumerGroups (the harness supplies
// the partition-count function, exactly like metadataAPI.countStreamPartitions:
// 0 for a stream that does not exist) are driven with operation sequences the
// FSM can produce, and the oracle of c12_common_test.go is evaluated after
// every operation on two independent instances:
//
//   instance A  serverID == coordinator  (liveness timers exist, GetAssignments served)
//   instance B  another server           (same committed operations)
//
// Epochs are Raft indexes: one global, strictly increasing counter per
// operation; a new group starts at epoch 0 (CreateConsumerGroupOp carries no
// epoch); the group is closed and forgotten when its last member leaves, and
// the next join creates a fresh group (metadataAPI.RemoveConsumerFromGroup /
// JoinConsumerGroup).  Member timeouts are one hour, so no real timer fires;
// expiry is driven by invoking the timer callback (consumerGroup.consumerExpired)
// on the coordinator instance, with the harness playing the Raft round trip.

import (
	"fmt"
	"runtime/debug"
	"sort"
	"strings"
	"sync/atomic"
	"testing"
	"time"

	kit "github.com/liftbridge-io/liftbridge/internal/verifkit"
	"github.com/liftbridge-io/liftbridge/server/logger"
	proto "github.com/liftbridge-io/liftbridge/server/protocol"
)

type c12Op struct {
	Kind byte   // 'J' join, 'L' leave, 'X' expire, 'D' stream deleted, 'C' stream (re)created
	M    int    // member index (J, L, X)
	Mask uint32 // J: set of stream indexes
	S    int    // D, C: stream index
	P    int32  // C: partitions
	Dup  bool   // J: the request lists its first stream twice
}

func (o c12Op) String() string {
	switch o.Kind {
	case 'J':
		var ss []string
		for i := 0; i < 32; i++ {
			if o.Mask&(1<<uint(i)) != 0 {
				ss = append(ss, fmt.Sprintf("s%d", i))
			}
		}
		d := ""
		if o.Dup {
			d = "+dup"
		}
		return fmt.Sprintf("join(m%d,{%s}%s)", o.M, strings.Join(ss, ","), d)
	case 'L':
		return fmt.Sprintf("leave(m%d)", o.M)
	case 'X':
		return fmt.Sprintf("expire(m%d)", o.M)
	case 'D':
		return fmt.Sprintf("streamDeleted(s%d)", o.S)
	case 'C':
		return fmt.Sprintf("streamCreated(s%d,%d)", o.S, o.P)
	}
	return "?"
}

func c12SeqString(ops []c12Op) string {
	ss := make([]string, len(ops))
	for i, o := range ops {
		ss[i] = o.String()
	}
	return strings.Join(ss, " ")
}

func c12Shape(ops []c12Op) string {
	b := make([]byte, len(ops))
	for i, o := range ops {
		b[i] = o.Kind
	}
	return string(b)
}

var c12Logger = func() logger.Logger {
	l := logger.NewLogger(0)
	l.Silent(true)
	return l
}()

const c12GroupID = "g"

// c12FailedCases: cases that ended in a violation (a unit stops generating
// more witnesses of the same thing after 200; each unit is its own process).
var c12FailedCases atomic.Int64

// c12EnumRecovery: VERIF_C12_ENUM_REC=0 switches the recovering instance of the
// enumeration off (cost measurements only).
var c12EnumRecovery = kit.EnvInt("VERIF_C12_ENUM_REC", 1) != 0

// observations of the recovering instance (enum and seeded units)
var c12RecCompared, c12RecServed, c12RecGroupsStarted, c12RecMulti atomic.Int64

type c12Inst struct {
	serverID string
	g        *consumerGroup
	onExpire func(groupID, consumerID string) error
	expired  int
}

// c12World holds the two real instances and the ground truth of the history.
type c12World struct {
	rep     *kit.Report
	insts   [2]*c12Inst
	truth   c12Truth
	idx     uint64 // Raft index of the last operation
	prev    [2]uint64
	prevOK  [2]bool // prev is the epoch of the current incarnation of the group
	failed  bool
	ops     []c12Op
	initial map[string]int32
	// observations
	maxShared, groupsCreated, groupsClosed, served, restoreDiffers, restoreChecked int
	withRestore                                                                    bool
	checkFrom                                                                      int // steps below this index were already checked on an identical prefix
	// rec: a third instance with the coordinator's server id that applies the
	// same operations in RECOVERY mode (newConsumerGroup(recovered=true), what
	// the FSM does while it replays the Raft log after a restart) up to and
	// including step recUntil, is then started with StartRecovered (what
	// finishedRecovery does) and applies the rest live.  nil = not used.
	rec                                   *c12Inst
	recUntil                              int
	recStarted                            bool
	recCompared, recServed, recStartedGrp int
	recMulti                              int // groups started with >= 2 streams that have >= 2 subscribers or a shared member
	recPrev                               uint64
	recPrevOK                             bool
	recLight                              bool
}

// c12ViewsIdentical: same epoch, members, recorded subscriptions, assignments
// and assignedCount.
func c12ViewsIdentical(a, b *c12View) bool {
	if !c12SameAssignments(a, b) {
		return false
	}
	for id, ma := range a.Members {
		mb := b.Members[id]
		if ma.Counter != mb.Counter || len(ma.Streams) != len(mb.Streams) {
			return false
		}
		for i := range ma.Streams {
			if ma.Streams[i] != mb.Streams[i] {
				return false
			}
		}
	}
	return true
}

// withRecovery adds the recovering instance; it leaves recovery mode after the
// operation with index until (an index beyond the history: at finishRecovery).
func (w *c12World) withRecovery(until int) {
	w.rec = &c12Inst{serverID: "A"}
	w.recUntil = until
}

var c12StreamNames, c12MemberNames = func() (a, b [32]string) {
	for i := range a {
		a[i], b[i] = fmt.Sprintf("s%d", i), fmt.Sprintf("m%d", i)
	}
	return
}()

func c12Stream(i int) string   { return c12StreamNames[i] }
func c12MemberID(i int) string { return c12MemberNames[i] }

func newC12World(rep *kit.Report, parts []int32) *c12World {
	w := &c12World{rep: rep}
	w.truth.Parts = make(map[string]int32, len(parts))
	w.truth.Subs = map[string]map[string]bool{}
	w.initial = map[string]int32{}
	for i, p := range parts {
		if p > 0 {
			w.truth.Parts[c12Stream(i)] = p
			w.initial[c12Stream(i)] = p
		}
	}
	w.insts[0] = &c12Inst{serverID: "A"}
	w.insts[1] = &c12Inst{serverID: "B"}
	return w
}

func (w *c12World) partitions(stream string) int32 { return w.truth.Parts[stream] }

func (w *c12World) fail(class, what string, step int) {
	w.failed = true
	wit := map[string]interface{}{
		"initial_streams": w.initial, "sequence": c12SeqString(w.ops), "failed_after_step": step,
		"instance_A": c12ViewOf(w.insts[0]).String(), "instance_B": c12ViewOf(w.insts[1]).String(),
		"history_truth": w.truth.String(),
	}
	if w.rec != nil {
		wit["recovering_instance"] = c12ViewOf(w.rec).String()
		wit["recovery_mode_until_step"] = w.recUntil
		wit["note"] = "the recovering instance has the coordinator's server id; it is created with newConsumerGroup(recovered=true), applies the same operations with the same epochs, and StartRecovered() is called after the step shown (Server.finishedRecovery)"
	}
	w.rep.Violation("C12:group:"+class, what, wit)
}

func c12ViewOf(in *c12Inst) *c12View {
	if in.g == nil {
		return nil
	}
	return c12Snapshot(in.g)
}

func (w *c12World) close() {
	for _, in := range w.insts {
		if in.g != nil {
			in.g.Close()
			in.g = nil
		}
	}
	if w.rec != nil && w.rec.g != nil {
		w.rec.g.Close()
		w.rec.g = nil
	}
}

// applyRec mirrors one operation of the history on the recovering instance.
// streams: the join request's stream list.
func (w *c12World) applyRec(op c12Op, step int, streams []string) {
	in := w.rec
	switch op.Kind {
	case 'J':
		id := c12MemberID(op.M)
		if in.g == nil {
			pg := &proto.ConsumerGroup{Id: c12GroupID, Coordinator: "A",
				Members: []*proto.Consumer{{Id: id, Streams: append([]string(nil), streams...)}}}
			in.g = newConsumerGroup(in.serverID, time.Hour, pg, !w.recStarted, c12Logger,
				func(gid, cid string) error { return nil }, w.partitions)
			w.recPrevOK = false
		} else if err := in.g.AddMember(id, append([]string(nil), streams...), w.idx); err != nil {
			w.fail("recovery:op-error", fmt.Sprintf("recovering instance: AddMember(%s,%v,epoch %d) of a valid history failed: %v", id, streams, w.idx, err), step)
			return
		}
	case 'L', 'X':
		// no liveness timer exists in recovery mode; the committed leave is applied
		if in.g == nil {
			w.fail("recovery:membership", fmt.Sprintf("recovering instance has no group at %s", op), step)
			return
		}
		last, err := in.g.RemoveMember(c12MemberID(op.M), w.idx)
		if err != nil {
			w.fail("recovery:op-error", fmt.Sprintf("recovering instance: RemoveMember(%s,epoch %d) of a valid history failed: %v", c12MemberID(op.M), w.idx, err), step)
			return
		}
		if last != (len(w.truth.Subs) == 0) {
			w.fail("recovery:membership", fmt.Sprintf("recovering instance: RemoveMember(%s) reported lastMember=%v, history says %v", c12MemberID(op.M), last, len(w.truth.Subs) == 0), step)
			return
		}
		if last {
			in.g.Close()
			in.g = nil
		}
	case 'D':
		if in.g != nil {
			if err := in.g.StreamDeleted(c12Stream(op.S), w.idx); err != nil {
				w.fail("recovery:op-error", fmt.Sprintf("recovering instance: StreamDeleted(%s,epoch %d) of a valid history failed: %v", c12Stream(op.S), w.idx, err), step)
				return
			}
		}
	}
	if !w.recStarted && step >= w.recUntil {
		w.finishRecovery(step)
	}
}

// finishRecovery is what Server.finishedRecovery does with every group.
func (w *c12World) finishRecovery(step int) {
	if w.rec == nil || w.recStarted {
		return
	}
	w.recStarted = true
	if g := w.rec.g; g != nil {
		if !g.StartRecovered() {
			w.fail("recovery:not-in-recovery", "StartRecovered() = false on a group that was created in recovery mode", step)
			return
		}
		w.recStartedGrp++
		if w.truthMultiStream() {
			w.recMulti++
		}
	}
}

// truthMultiStream: some member is subscribed to >= 2 streams and shares one
// of them with another member (the situation in which the assignment of a
// stream depends on when it was last balanced).
func (w *c12World) truthMultiStream() bool {
	for id, ss := range w.truth.Subs {
		if len(ss) < 2 {
			continue
		}
		for s := range ss {
			for id2, ss2 := range w.truth.Subs {
				if id2 != id && ss2[s] {
					return true
				}
			}
		}
	}
	return false
}

// checkRec: once started, the recovered instance is an ordinary server that
// applied the same operations: it must satisfy the oracle by itself, serve what
// it holds, and agree with the live coordinator (assignments and epoch).
func (w *c12World) checkRec(step int, live *c12View) {
	in := w.rec
	if in.g == nil {
		if live != nil {
			w.fail("recovery:membership", "recovered instance has no group but the live coordinator has one", step)
		}
		return
	}
	v := c12Snapshot(in.g)
	extra := func() string { return fmt.Sprintf(" | recovered instance (recovery mode up to step %d): %s", w.recUntil, v) }
	// A view identical to the live coordinator's (which the oracle has just
	// judged at this step) needs no second evaluation of the same data.
	identical := live != nil && step >= w.checkFrom && c12ViewsIdentical(live, v)
	if !identical {
		if finds, _ := c12Check(v, &w.truth); len(finds) > 0 {
			w.fail("recovery:"+finds[0].Class, fmt.Sprintf("recovered instance after %s: %s%s", w.ops[step], finds[0].What, extra()), step)
			return
		}
	}
	probed := false
	for id, m := range v.Members {
		if w.recLight && identical && probed {
			break // enumeration: one member per sequence (map order) is asked what the restarted coordinator serves
		}
		probed = true
		got, ep, err := in.g.GetAssignments(id, v.Epoch)
		if err != nil {
			w.fail("recovery:not-served", fmt.Sprintf("recovered coordinator: GetAssignments(%s, current epoch %d) failed: %v%s", id, v.Epoch, err, extra()), step)
			return
		}
		w.recServed++
		norm := map[string][]int32{}
		for s, ps := range got {
			cp := append([]int32(nil), ps...)
			sort.Slice(cp, func(a, b int) bool { return cp[a] < cp[b] })
			norm[s] = cp
		}
		if ep != v.Epoch || !c12AssignSubset(norm, m.Assign) || !c12AssignSubset(m.Assign, norm) {
			w.fail("recovery:served-differs", fmt.Sprintf("recovered coordinator: GetAssignments(%s) = %v epoch %d, group state has %v epoch %d", id, norm, ep, m.Assign, v.Epoch), step)
			return
		}
	}
	w.recCompared++
	if live == nil || live.Epoch != v.Epoch {
		w.fail("recovery:epochs-disagree", fmt.Sprintf("after %s the live coordinator holds %s%s", w.ops[step], live, extra()), step)
		return
	}
	if !c12SameAssignments(live, v) {
		w.fail("recovery:replayed-server-disagrees", fmt.Sprintf("after %s the server that applied the operations live and the server that applied the same operations in recovery mode and was then started hand out different assignments for group epoch %d: live: %s%s", w.ops[step], v.Epoch, live, extra()), step)
	}
}

// apply executes one operation of a valid history on both instances.
func (w *c12World) apply(op c12Op) {
	step := len(w.ops)
	w.ops = append(w.ops, op)
	w.idx++
	switch op.Kind {
	case 'C':
		w.truth.Parts[c12Stream(op.S)] = op.P
	case 'J':
		id := c12MemberID(op.M)
		streams := c12JoinStreams(op)
		set := map[string]bool{}
		for _, s := range streams {
			set[s] = true
		}
		w.truth.Subs[id] = set
		for _, in := range w.insts {
			if in.g == nil {
				in := in
				pg := &proto.ConsumerGroup{Id: c12GroupID, Coordinator: "A",
					Members: []*proto.Consumer{{Id: id, Streams: append([]string(nil), streams...)}}}
				in.g = newConsumerGroup(in.serverID, time.Hour, pg, false, c12Logger,
					func(gid, cid string) error { return in.onExpire(gid, cid) }, w.partitions)
				w.groupsCreated++
				continue
			}
			if err := in.g.AddMember(id, append([]string(nil), streams...), w.idx); err != nil {
				w.fail("op-error", fmt.Sprintf("instance %s: AddMember(%s,%v,epoch %d) of a valid history failed: %v", in.serverID, id, streams, w.idx, err), step)
				return
			}
		}
	case 'L', 'X':
		id := c12MemberID(op.M)
		delete(w.truth.Subs, id)
		wantLast := len(w.truth.Subs) == 0
		for ii, in := range w.insts {
			var last bool
			var err error
			if op.Kind == 'X' && in.serverID == "A" {
				// The liveness timer of the coordinator fires: its callback asks the
				// controller to remove the member; the committed leave is applied.
				called := false
				in.onExpire = func(gid, cid string) error {
					called = true
					if gid != c12GroupID || cid != id {
						return fmt.Errorf("expiry handler called for %s/%s, expected %s/%s", gid, cid, c12GroupID, id)
					}
					last, err = in.g.RemoveMember(cid, w.idx)
					return nil
				}
				in.g.consumerExpired(id)()
				in.onExpire = nil
				in.expired++
				if !called {
					w.fail("expiry-callback", fmt.Sprintf("timer callback of %s did not call the member-expired handler", id), step)
					return
				}
			} else {
				last, err = in.g.RemoveMember(id, w.idx)
			}
			if err != nil {
				w.fail("op-error", fmt.Sprintf("instance %s: RemoveMember(%s,epoch %d) of a valid history failed: %v", in.serverID, id, w.idx, err), step)
				return
			}
			if last != wantLast {
				w.fail("membership", fmt.Sprintf("instance %s: RemoveMember(%s) reported lastMember=%v, history says %v", in.serverID, id, last, wantLast), step)
				return
			}
			if last {
				in.g.Close()
				in.g = nil
				w.groupsClosed++
				w.prevOK[ii] = false
			}
		}
	case 'D':
		s := c12Stream(op.S)
		delete(w.truth.Parts, s) // countStreamPartitions now answers 0
		for _, ss := range w.truth.Subs {
			delete(ss, s)
		}
		for _, in := range w.insts {
			if in.g == nil {
				continue
			}
			if err := in.g.StreamDeleted(s, w.idx); err != nil {
				w.fail("op-error", fmt.Sprintf("instance %s: StreamDeleted(%s,epoch %d) of a valid history failed: %v", in.serverID, s, w.idx, err), step)
				return
			}
		}
	}
	if w.rec != nil && !w.failed {
		var streams []string
		if op.Kind == 'J' {
			streams = c12JoinStreams(op)
		}
		w.applyRec(op, step, streams)
		if w.failed {
			return
		}
	}
	if sh := w.truthShared(); sh > w.maxShared {
		w.maxShared = sh
	}
	if step < w.checkFrom {
		// identical prefix already monitored in the previous sequence of this
		// enumeration branch: only keep the epoch bookkeeping going
		for i, in := range w.insts {
			if in.g != nil {
				_, ep := in.g.GetCoordinator()
				w.prev[i], w.prevOK[i] = ep, true
			}
		}
		return
	}
	w.check(step)
}

// c12JoinStreams: the stream list of a join request.
func c12JoinStreams(op c12Op) []string {
	var streams []string
	for i := 0; i < 32; i++ {
		if op.Mask&(1<<uint(i)) != 0 {
			streams = append(streams, c12Stream(i))
		}
	}
	if op.Dup {
		streams = append(streams, streams[0])
	}
	// The request order is not sorted on purpose (rotate by the member index).
	if n := len(streams); n > 1 {
		k := op.M % n
		streams = append(append([]string(nil), streams[k:]...), streams[:k]...)
	}
	return streams
}

// truthShared: the largest number of members subscribed to one stream.
func (w *c12World) truthShared() int {
	best := 0
	for s := range w.truth.Parts {
		n := 0
		for _, ss := range w.truth.Subs {
			if ss[s] {
				n++
			}
		}
		if n > best {
			best = n
		}
	}
	return best
}

// check runs the monitors after an operation.
func (w *c12World) check(step int) {
	var views [2]*c12View
	for i, in := range w.insts {
		if in.g == nil {
			if len(w.truth.Subs) != 0 {
				w.fail("membership", fmt.Sprintf("instance %s has no group but the history has members %v", in.serverID, c12Keys(w.truth.Subs)), step)
				return
			}
			continue
		}
		v := c12Snapshot(in.g)
		views[i] = v
		finds, _ := c12Check(v, &w.truth)
		if len(finds) > 0 {
			f := finds[0]
			w.fail(f.Class, fmt.Sprintf("instance %s after %s: %s", in.serverID, w.ops[step], f.What), step)
			return
		}
		if w.prevOK[i] && v.Epoch < w.prev[i] {
			w.fail("epoch-regressed", fmt.Sprintf("instance %s: group epoch went from %d to %d", in.serverID, w.prev[i], v.Epoch), step)
			return
		}
		if v.Epoch > w.idx {
			w.fail("epoch-from-nowhere", fmt.Sprintf("instance %s: group epoch %d is larger than the last applied Raft index %d", in.serverID, v.Epoch, w.idx), step)
			return
		}
		// What the group serves.
		for id, m := range v.Members {
			got, ep, err := in.g.GetAssignments(id, v.Epoch)
			if in.serverID != v.Coordinator {
				if err != ErrBrokerNotCoordinator {
					w.fail("served-by-non-coordinator", fmt.Sprintf("instance %s (not the coordinator) answered GetAssignments(%s): %v %v", in.serverID, id, got, err), step)
					return
				}
				break // one probe per step is enough on the other server
			}
			if err != nil {
				w.fail("not-served", fmt.Sprintf("coordinator: GetAssignments(%s, current epoch %d) failed: %v", id, v.Epoch, err), step)
				return
			}
			w.served++
			norm := map[string][]int32{}
			for s, ps := range got {
				cp := append([]int32(nil), ps...)
				sort.Slice(cp, func(a, b int) bool { return cp[a] < cp[b] })
				norm[s] = cp
			}
			if ep != v.Epoch || !c12AssignSubset(norm, m.Assign) || !c12AssignSubset(m.Assign, norm) {
				w.fail("served-differs", fmt.Sprintf("coordinator: GetAssignments(%s) = %v epoch %d, group state has %v epoch %d", id, norm, ep, m.Assign, v.Epoch), step)
				return
			}
			if w.prevOK[i] && w.prev[i] != v.Epoch {
				if _, _, err := in.g.GetAssignments(id, w.prev[i]); err == nil {
					w.fail("stale-epoch-served", fmt.Sprintf("coordinator answered GetAssignments(%s) for the old epoch %d (current %d)", id, w.prev[i], v.Epoch), step)
					return
				}
			}
		}
		w.prev[i], w.prevOK[i] = v.Epoch, true
	}
	// Determinism across servers: same operations => same assignments, same epoch.
	if !c12SameAssignments(views[0], views[1]) {
		w.fail("nondeterministic", fmt.Sprintf("after %s two instances that applied the same operations differ: A: %s | B: %s", w.ops[step], views[0], views[1]), step)
		return
	}
	if w.rec != nil && w.recStarted {
		w.checkRec(step, views[0])
		if w.failed {
			return
		}
	}
	if w.withRestore && views[0] != nil {
		w.observeRestore(views[0])
	}
}

// observeRestore: a third instance built the way fsm.Restore builds a group
// from a snapshot (members in map order).  Recorded as an observation only:
// the property speaks about servers that applied the same operations.
func (w *c12World) observeRestore(live *c12View) {
	members := w.insts[0].g.GetMembers()
	pms := make([]*proto.Consumer, 0, len(members))
	for id, ss := range members {
		pms = append(pms, &proto.Consumer{Id: id, Streams: ss})
	}
	pg := &proto.ConsumerGroup{Id: c12GroupID, Coordinator: "A", Epoch: live.Epoch, Members: pms}
	g := newConsumerGroup("R", time.Hour, pg, true, c12Logger, func(string, string) error { return nil }, w.partitions)
	v := c12Snapshot(g)
	g.Close()
	w.restoreChecked++
	if finds, _ := c12Check(v, &w.truth); len(finds) > 0 {
		w.fail("restored:"+finds[0].Class, "group rebuilt from a snapshot of the members: "+finds[0].What, len(w.ops)-1)
		return
	}
	if !c12SameAssignments(live, v) {
		w.restoreDiffers++
	}
}

// recObserved adds this world's recovery observations to the unit counters.
func (w *c12World) recObserved() {
	c12RecCompared.Add(int64(w.recCompared))
	c12RecServed.Add(int64(w.recServed))
	c12RecGroupsStarted.Add(int64(w.recStartedGrp))
	c12RecMulti.Add(int64(w.recMulti))
}

func c12RecCounts(rep *kit.Report) {
	rep.Count("recovered_instance_groups_started(StartRecovered)", c12RecGroupsStarted.Load())
	rep.Count("recovered_instance_started_with_members_sharing_>=2_streams", c12RecMulti.Load())
	rep.Count("recovered_instance_states_compared_with_live", c12RecCompared.Load())
	rep.Count("recovered_instance_getassignments_compared", c12RecServed.Load())
}

func (w *c12World) finish(sig string) {
	w.close()
	w.rep.Eval()
	if w.maxShared >= 2 {
		w.rep.Nontrivial(sig)
	}
}

// ---------------------------------------------------------------- enumeration

// c12Model is the harness-side state needed to know which operations are
// valid next (the preconditions checked by the metadata leader).
type c12Model struct {
	member [16]uint32 // subscription mask + 1<<31 when a member
	exist  uint32
}

const c12IsMember = uint32(1) << 31

func (m *c12Model) enabled(nMembers, nStreams int, withExpire bool, buf []c12Op) []c12Op {
	buf = buf[:0]
	for i := 0; i < nMembers; i++ {
		if m.member[i]&c12IsMember != 0 {
			buf = append(buf, c12Op{Kind: 'L', M: i})
			if withExpire {
				buf = append(buf, c12Op{Kind: 'X', M: i})
			}
			continue
		}
		for mask := uint32(1); mask < 1<<uint(nStreams); mask++ {
			if mask&^m.exist == 0 {
				buf = append(buf, c12Op{Kind: 'J', M: i, Mask: mask})
			}
		}
	}
	for s := 0; s < nStreams; s++ {
		if m.exist&(1<<uint(s)) != 0 {
			buf = append(buf, c12Op{Kind: 'D', S: s})
		}
	}
	return buf
}

func (m c12Model) next(op c12Op) c12Model {
	switch op.Kind {
	case 'J':
		m.member[op.M] = c12IsMember | op.Mask
	case 'L', 'X':
		m.member[op.M] = 0
	case 'D':
		m.exist &^= 1 << uint(op.S)
		for i := range m.member {
			m.member[i] &^= 1 << uint(op.S)
		}
	}
	return m
}

func c12RunSequence(rep *kit.Report, parts []int32, ops []c12Op, checkFrom int) *c12World {
	w := newC12World(rep, parts)
	w.checkFrom = checkFrom
	if len(ops) > 0 && c12EnumRecovery {
		// third instance: the whole sequence is replayed in recovery mode and the
		// group is started after the last operation
		w.withRecovery(len(ops) - 1)
		w.recLight = true
	}
	for _, op := range ops {
		w.apply(op)
		if w.failed {
			break
		}
	}
	return w
}

// TestVerifC12Enum: ALL valid operation sequences up to a length bound.
func TestVerifC12Enum(t *testing.T) {
	rep := kit.NewReport("C12", "enum")
	defer rep.Write()
	defer debug.SetGCPercent(debug.SetGCPercent(800)) // millions of tiny short-lived groups
	const nMembers, nStreams = 4, 3
	passes := c12EnumPasses()
	var desc []string
	for _, p := range passes {
		desc = append(desc, fmt.Sprintf("length %d x %d partition-count vectors %v", p.Len, len(p.Vectors), p.Vectors))
	}
	rep.SetRule(fmt.Sprintf("small-scope enumeration on directly constructed consumerGroups: ALL valid sequences of the stated length (every shorter sequence is a prefix and is monitored on the way; sequences that run out of valid operations earlier are included) over {join(m, any non-empty subset of the existing streams), leave(m), expire(m) via the timer callback, streamDeleted(s)} for 4 members, 3 streams; passes: %s; epochs = Raft indexes as the FSM supplies them; after EVERY operation (each distinct prefix once) on 2 instances (coordinator / other server): exactly-one assignment per partition among subscribers, nothing assigned outside the subscription, assignedCount == real count, single-stream balance within one, GetAssignments == state, instance A == instance B (assignments and epoch); at the end of every sequence a third instance with the coordinator's server id that applied the whole sequence in RECOVERY mode (newConsumerGroup(recovered=true), as the FSM does while replaying its log after a restart) is started with StartRecovered and must satisfy the same oracle, serve what it holds and equal instance A (assignments and epoch); non-trivial = at some step >= 2 members shared a stream; distinct signature = (operation-kind shape, partition vector, max sharing) — the exact number of non-trivial sequences is in counts.nontrivial_sequences", strings.Join(desc, "; ")))
	rep.SetExhaustive(true)
	rep.Assume("join requests name only existing streams and non-members, leave/expire only members (metadata leader preconditions checkJoin/checkLeaveConsumerGroupPreconditions); the group disappears with its last member and a later join creates a new one at epoch 0")
	rep.Assume("a member is 'subscribed' to the streams it named when joining minus the streams deleted since; a member left without streams stays a member and is ignored by the balance clause")
	var total, nontrivial, steps, served, expired, created, closed, checked atomic.Int64
	var sampled atomic.Int64
	for _, pass := range passes {
		maxLen, configs := pass.Len, pass.Vectors
		c12EnumPassRun(rep, nMembers, nStreams, maxLen, configs, &total, &nontrivial, &steps, &served, &expired, &created, &closed, &checked, &sampled)
	}
	rep.Count("sequences", total.Load())
	rep.Count("nontrivial_sequences", nontrivial.Load())
	rep.Count("operations_executed", steps.Load())
	rep.Count("distinct_prefixes_monitored", checked.Load())
	rep.Count("getassignments_compared", served.Load())
	rep.Count("expiry_callbacks", expired.Load())
	rep.Count("groups_created", created.Load())
	rep.Count("groups_closed_with_last_member", closed.Load())
	c12RecCounts(rep)
	rep.SetInfo("passes", passes)
}

func c12EnumPassRun(rep *kit.Report, nMembers, nStreams, maxLen int, configs [][]int32,
	total, nontrivial, steps, served, expired, created, closed, checked, sampled *atomic.Int64) {
	// work items: every valid prefix of length min(2,maxLen) x partition vector
	type item struct {
		prefix []c12Op
		model  c12Model
		cfg    []int32
	}
	var prefixes []item
	plen := 2
	if maxLen < plen {
		plen = maxLen
	}
	var gen func(m c12Model, pre []c12Op)
	gen = func(m c12Model, pre []c12Op) {
		if len(pre) == plen {
			prefixes = append(prefixes, item{prefix: append([]c12Op(nil), pre...), model: m})
			return
		}
		en := m.enabled(nMembers, nStreams, true, nil)
		if len(en) == 0 {
			prefixes = append(prefixes, item{prefix: append([]c12Op(nil), pre...), model: m})
			return
		}
		for _, op := range en {
			gen(m.next(op), append(pre, op))
		}
	}
	gen(c12Model{exist: 1<<nStreams - 1}, nil)
	var items []item
	for _, cfg := range configs {
		for _, p := range prefixes {
			items = append(items, item{prefix: p.prefix, model: p.model, cfg: cfg})
		}
	}
	kit.Parallel(len(items), kit.Workers(), func(i int) {
		it := items[i]
		seq := make([]c12Op, 0, maxLen)
		seq = append(seq, it.prefix...)
		bufs := make([][]c12Op, maxLen+1)
		var prevLeaf []c12Op
		first := true
		var dfs func(m c12Model)
		dfs = func(m c12Model) {
			if rep.NumViolations() >= 6 || c12FailedCases.Load() >= 200 {
				return
			}
			var en []c12Op
			if len(seq) < maxLen {
				en = m.enabled(nMembers, nStreams, true, bufs[len(seq)])
				bufs[len(seq)] = en
			}
			if len(en) == 0 {
				common := 0
				if !first {
					for common < len(prevLeaf) && common < len(seq) && prevLeaf[common] == seq[common] {
						common++
					}
				}
				first = false
				prevLeaf = append(prevLeaf[:0], seq...)
				w := c12RunSequence(rep, it.cfg, seq, common)
				if w.failed {
					c12FailedCases.Add(1)
				}
				checked.Add(int64(len(w.ops) - common))
				w.recObserved()
				total.Add(1)
				steps.Add(int64(len(w.ops)))
				served.Add(int64(w.served))
				expired.Add(int64(w.insts[0].expired))
				created.Add(int64(w.groupsCreated))
				closed.Add(int64(w.groupsClosed))
				if w.maxShared >= 2 {
					nontrivial.Add(1)
				}
				if len(seq) == maxLen && w.maxShared >= 3 && sampled.Add(1) <= 4 {
					rep.Sample(map[string]interface{}{"partitions": it.cfg, "sequence": c12SeqString(seq), "final": c12ViewOf(w.insts[0]).String()})
				}
				w.finish(fmt.Sprintf("%s|%v|%d", c12Shape(seq), it.cfg, w.maxShared))
				return
			}
			for _, op := range en {
				seq = append(seq, op)
				dfs(m.next(op))
				seq = seq[:len(seq)-1]
			}
		}
		dfs(it.model)
	})
}

// c12AllVectors: {1,2,3}^3.
func c12AllVectors() [][]int32 {
	var out [][]int32
	for a := int32(1); a <= 3; a++ {
		for b := int32(1); b <= 3; b++ {
			for c := int32(1); c <= 3; c++ {
				out = append(out, []int32{a, b, c})
			}
		}
	}
	return out
}

type c12EnumPass struct {
	Len     int
	Vectors [][]int32
}

// c12EnumPasses: which (length, partition-count vectors (s0,s1,s2)) are
// enumerated completely.  quick: length 4 over 8 vectors; thorough: length 4
// over all 27 vectors and length 5 over 2 vectors.
func c12EnumPasses() []c12EnumPass {
	twelve := [][]int32{{3, 3, 3}, {1, 2, 3}, {3, 2, 1}, {2, 3, 1}, {2, 2, 2}, {1, 1, 1}, {3, 1, 2}, {1, 3, 3}, {2, 1, 3}, {3, 3, 1}, {1, 1, 3}, {2, 2, 3}}
	if l := kit.EnvInt("VERIF_C12_LEN", 0); l > 0 {
		return []c12EnumPass{{Len: l, Vectors: twelve[:kit.EnvInt("VERIF_C12_NVEC", 12)]}}
	}
	if kit.Thorough() {
		return []c12EnumPass{{Len: 4, Vectors: c12AllVectors()}, {Len: 5, Vectors: twelve[:2]}}
	}
	return []c12EnumPass{{Len: 4, Vectors: twelve[:8]}}
}

// ---------------------------------------------------------------- seeded long sequences

// TestVerifC12Seeded: long random valid histories with more members, streams
// and partitions, including re-creation of deleted streams with a different
// partition count and join requests listing a stream twice.
func TestVerifC12Seeded(t *testing.T) {
	rep := kit.NewReport("C12", "seeded")
	defer rep.Write()
	defer debug.SetGCPercent(debug.SetGCPercent(800))
	rep.SetRule("seeded valid histories of 20..80 operations on directly constructed consumerGroups: up to 10 members, 7 streams, 1..9 partitions; join (subset sizes skewed small, sometimes all, sometimes a duplicate stream name in the request), leave, expire (timer callback), streamDeleted, stream re-created under the same name with another partition count; same per-operation monitors as the enumeration; a recovering instance (coordinator's server id, created in recovery mode, same operations and epochs) leaves recovery mode through StartRecovered after a seeded step (every third history: after the last one) and is from then on checked after every operation like the others and compared with the live coordinator (assignments and epoch); additionally a third group is rebuilt from the member list the way a snapshot restore does and must be valid (whether it equals the live assignment is only counted); non-trivial = at some step >= 2 members shared a stream and the history contains a delete and a leave/expire; distinct = 64-bit hash of initial streams + full history text")
	rep.Assume("same validity assumptions as the enumeration; a re-created stream is a new stream nobody is subscribed to")
	root := kit.NewRNG(kit.Mix(kit.Seed(), 0xC12))
	n := kit.Scale(20000, 300000)
	seeds := make([]uint64, n)
	for i := range seeds {
		seeds[i] = root.Uint64()
	}
	var ops, restoreChecked, restoreDiffers, served, expired atomic.Int64
	kit.Parallel(n, kit.Workers(), func(i int) {
		if rep.NumViolations() >= 6 || c12FailedCases.Load() >= 200 {
			return
		}
		rng := kit.NewRNG(seeds[i])
		nMembers := rng.Range(2, 10)
		nStreams := rng.Range(1, 7)
		maxP := []int{1, 2, 3, 5, 9}[rng.Intn(5)]
		parts := make([]int32, nStreams)
		for s := range parts {
			parts[s] = int32(rng.Range(1, maxP))
		}
		w := newC12World(rep, parts)
		w.withRestore = i%4 == 0
		var m c12Model
		m.exist = 1<<uint(nStreams) - 1
		length := rng.Range(20, 80)
		// recovering instance: leaves recovery mode after a seeded step (every
		// third history: only at the very end, i.e. the whole history is replayed)
		recUntil := length // beyond the history: started by finishRecovery below
		if i%3 != 0 {
			recUntil = rng.Intn(length)
		}
		w.withRecovery(recUntil)
		dels, leaves := 0, 0
		for k := 0; k < length && !w.failed; k++ {
			var op c12Op
			nmem := 0
			for j := 0; j < nMembers; j++ {
				if m.member[j]&c12IsMember != 0 {
					nmem++
				}
			}
			x := rng.Intn(100)
			switch {
			case x < 50 && nmem < nMembers && m.exist != 0:
				j := rng.Intn(nMembers)
				for m.member[j]&c12IsMember != 0 {
					j = (j + 1) % nMembers
				}
				var mask uint32
				switch rng.Intn(4) {
				case 0: // everything that exists
					mask = m.exist
				case 1: // one stream
					for mask == 0 {
						mask = m.exist & (1 << uint(rng.Intn(nStreams)))
					}
				default:
					for mask == 0 {
						mask = m.exist & uint32(rng.Uint64())
					}
				}
				op = c12Op{Kind: 'J', M: j, Mask: mask, Dup: rng.Chance(1, 8)}
			case x < 78 && nmem > 0:
				j := rng.Intn(nMembers)
				for m.member[j]&c12IsMember == 0 {
					j = (j + 1) % nMembers
				}
				op = c12Op{Kind: 'L', M: j}
				if rng.Bool() {
					op.Kind = 'X'
				}
				leaves++
			case x < 90 && m.exist != 0:
				s := rng.Intn(nStreams)
				for m.exist&(1<<uint(s)) == 0 {
					s = (s + 1) % nStreams
				}
				op = c12Op{Kind: 'D', S: s}
				dels++
			default:
				s := -1
				for j := 0; j < nStreams; j++ {
					if m.exist&(1<<uint(j)) == 0 {
						s = j
						break
					}
				}
				if s < 0 {
					continue
				}
				op = c12Op{Kind: 'C', S: s, P: int32(rng.Range(1, maxP))}
				m.exist |= 1 << uint(s)
			}
			m = m.next(op)
			w.apply(op)
		}
		if !w.failed && !w.recStarted && len(w.ops) > 0 {
			// the whole history was replayed in recovery mode: start and compare now
			w.finishRecovery(len(w.ops) - 1)
			if !w.failed {
				w.checkRec(len(w.ops)-1, c12ViewOf(w.insts[0]))
			}
		}
		if w.failed {
			c12FailedCases.Add(1)
		}
		w.recObserved()
		ops.Add(int64(len(w.ops)))
		restoreChecked.Add(int64(w.restoreChecked))
		restoreDiffers.Add(int64(w.restoreDiffers))
		served.Add(int64(w.served))
		expired.Add(int64(w.insts[0].expired))
		if i < 2 {
			rep.Sample(map[string]interface{}{"initial_streams": w.initial, "sequence": c12SeqString(w.ops), "final": c12ViewOf(w.insts[0]).String()})
		}
		w.close()
		rep.Eval()
		if w.maxShared >= 2 && dels > 0 && leaves > 0 {
			rep.Nontrivial(c12Hash(fmt.Sprint(w.initial) + c12SeqString(w.ops)))
		}
		rep.Max("max_members_sharing_a_stream", int64(w.maxShared))
	})
	rep.Count("operations_checked", ops.Load())
	rep.Count("getassignments_compared", served.Load())
	rep.Count("expiry_callbacks", expired.Load())
	c12RecCounts(rep)
	rep.Count("snapshot_rebuilds_checked", restoreChecked.Load())
	rep.Count("snapshot_rebuild_assignment_differs_from_live(observation)", restoreDiffers.Load())
}

// c12Hash: FNV-1a 64 of a history text (signatures of long histories).
func c12Hash(s string) string {
	h := uint64(14695981039346656037)
	for i := 0; i < len(s); i++ {
		h ^= uint64(s[i])
		h *= 1099511628211
	}
	return fmt.Sprintf("%016x", h)
}
