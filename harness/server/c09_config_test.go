//go:build verif

package server

// C09 — configuration units: the limits a partition's log ENFORCES are the ones
// its stream's configuration MEANS.
//
// The commit-log units of C09 hand the three retention limits to the log
// directly.  A stream's log however gets them from (server-wide streams.*
// settings) x (the stream's own StreamConfig overrides), every time the
// partition object is (re)built: at creation, when a paused stream is resumed,
// at restart (Raft log replay or Raft snapshot).  Documented rule
// (documentation/configuration.md, "a value of 0 indicates no limit / no TTL";
// stream-level settings override the server-wide ones): for each setting, an
// override that is SET wins - also when it is 0 - otherwise the server-wide
// value applies.  The rule is re-stated here (c09cEffective) independently of
// StreamsConfig.ApplyOverrides.
//
// Unit "config": partitions are built through Server.newPartition on servers
// that are never started (no ports, no Raft).  A multi-segment log with
// harness-chosen timestamps (hours apart) is written by a server without any
// limit, measured, and then opened by a second server over the same data
// directory whose server-wide limits and stream overrides are aimed at the
// measured layout; Clean() runs and the survivors are judged with the C09
// reference semantics against the limits the configuration means.
//
// Unit "configsrv": real single-node servers; streams created through the API
// with override combinations, messages published through the API, and the
// partition rebuilt by PauseStream + resuming publish, restart, and forced Raft
// snapshot + restart before Clean() is judged again.
//
// The age limit needs the real clock here (computeTTL is private to package
// commitlog): every segment is either older than the limit by at least
// minutes (harness timestamps) / by construction (limit 1 ms after a 5 ms
// pause) or younger by at least an hour; the expiry flags are computed with the
// time before and after the clean and a disagreement is inconclusive.

import (
	"context"
	"fmt"
	"os"
	"path/filepath"
	"sort"
	"strconv"
	"strings"
	"testing"
	"time"

	client "github.com/liftbridge-io/liftbridge-api/v2/go"

	kit "github.com/liftbridge-io/liftbridge/internal/verifkit"
	"github.com/liftbridge-io/liftbridge/server/commitlog"
	proto "github.com/liftbridge-io/liftbridge/server/protocol"
)

type c09cLimits struct {
	Age   time.Duration
	Msgs  int64
	Bytes int64
}

func (l c09cLimits) String() string {
	return fmt.Sprintf("age=%s msgs=%d bytes=%d", l.Age, l.Msgs, l.Bytes)
}

func (l c09cLimits) kinds() string {
	var k []string
	if l.Age > 0 {
		k = append(k, "age")
	}
	if l.Msgs > 0 {
		k = append(k, "msgs")
	}
	if l.Bytes > 0 {
		k = append(k, "bytes")
	}
	if len(k) == 0 {
		return "none"
	}
	return strings.Join(k, "+")
}

// c09cSetting is one setting as configured: the server-wide value and the
// stream's override (nil = absent).
type c09cSetting struct {
	Server   int64
	Override *int64
}

func (s c09cSetting) String() string {
	if s.Override == nil {
		return fmt.Sprintf("server-wide=%d,override=absent", s.Server)
	}
	return fmt.Sprintf("server-wide=%d,override=%d", s.Server, *s.Override)
}

// effective: a set override wins, also when it is 0.
func (s c09cSetting) effective() int64 {
	if s.Override != nil {
		return *s.Override
	}
	return s.Server
}

// class of the configuration for coverage / signatures.
func (s c09cSetting) class() string {
	switch {
	case s.Override == nil && s.Server == 0:
		return "off"
	case s.Override == nil:
		return "server"
	case *s.Override == 0 && s.Server == 0:
		return "zero-over-off"
	case *s.Override == 0:
		return "ZERO-over-server"
	case s.Server == 0:
		return "override-over-off"
	case *s.Override > s.Server:
		return "looser-override"
	default:
		return "stricter-override"
	}
}

// c09cConfig: ages in milliseconds (the unit of the stream-level override).
type c09cConfig struct {
	AgeMs, Msgs, Bytes c09cSetting
}

func (c c09cConfig) String() string {
	return fmt.Sprintf("age[ms]{%s} msgs{%s} bytes{%s}", c.AgeMs, c.Msgs, c.Bytes)
}

func (c c09cConfig) classes() string {
	return "age:" + c.AgeMs.class() + ",msgs:" + c.Msgs.class() + ",bytes:" + c.Bytes.class()
}

func c09cEffective(c c09cConfig) c09cLimits {
	return c09cLimits{Age: time.Duration(c.AgeMs.effective()) * time.Millisecond, Msgs: c.Msgs.effective(), Bytes: c.Bytes.effective()}
}

// alternative (wrong) readings of the configuration, used only to name a
// finding: overrides ignored altogether / a zero override treated as absent.
func c09cServerOnly(c c09cConfig) c09cLimits {
	return c09cLimits{Age: time.Duration(c.AgeMs.Server) * time.Millisecond, Msgs: c.Msgs.Server, Bytes: c.Bytes.Server}
}

func c09cZeroAsAbsent(c c09cConfig) c09cLimits {
	f := func(s c09cSetting) int64 {
		if s.Override != nil && *s.Override != 0 {
			return *s.Override
		}
		return s.Server
	}
	return c09cLimits{Age: time.Duration(f(c.AgeMs)) * time.Millisecond, Msgs: f(c.Msgs), Bytes: f(c.Bytes)}
}

func (c c09cConfig) apply(cfg *Config) {
	cfg.Streams.RetentionMaxAge = time.Duration(c.AgeMs.Server) * time.Millisecond
	cfg.Streams.RetentionMaxMessages = c.Msgs.Server
	cfg.Streams.RetentionMaxBytes = c.Bytes.Server
}

func (c c09cConfig) streamConfig(sc *proto.StreamConfig) *proto.StreamConfig {
	if c.AgeMs.Override != nil {
		sc.RetentionMaxAge = &proto.NullableInt64{Value: *c.AgeMs.Override}
	}
	if c.Msgs.Override != nil {
		sc.RetentionMaxMessages = &proto.NullableInt64{Value: *c.Msgs.Override}
	}
	if c.Bytes.Override != nil {
		sc.RetentionMaxBytes = &proto.NullableInt64{Value: *c.Bytes.Override}
	}
	return sc
}

func (c c09cConfig) request(req *client.CreateStreamRequest) {
	if c.AgeMs.Override != nil {
		req.RetentionMaxAge = &client.NullableInt64{Value: *c.AgeMs.Override}
	}
	if c.Msgs.Override != nil {
		req.RetentionMaxMessages = &client.NullableInt64{Value: *c.Msgs.Override}
	}
	if c.Bytes.Override != nil {
		req.RetentionMaxBytes = &client.NullableInt64{Value: *c.Bytes.Override}
	}
}

// c09cRealise chooses how an effective value is configured.  other = a
// different positive value that the server-wide setting may carry when the
// override decides (aimed at the layout by the caller, so that a wrong reading
// of the configuration changes what the cleaner does).
func c09cRealise(rng *kit.RNG, eff, other int64) c09cSetting {
	v := eff
	if eff == 0 {
		switch rng.Intn(4) {
		case 0:
			return c09cSetting{} // off everywhere
		case 1:
			return c09cSetting{Server: 0, Override: &v} // explicit 0 over "off"
		default:
			return c09cSetting{Server: other, Override: &v} // explicit 0 LIFTS the server-wide limit
		}
	}
	switch rng.Intn(4) {
	case 0:
		return c09cSetting{Server: eff}
	case 1:
		return c09cSetting{Server: 0, Override: &v}
	default:
		return c09cSetting{Server: other, Override: &v}
	}
}

// ---------------------------------------------------------------- scan + oracle

type c09cSeg struct {
	Base, Count, Bytes, LastTS int64
	Recs                       []vfLogRec
}

func (s c09cSeg) String() string {
	return fmt.Sprintf("{base=%d n=%d bytes=%d}", s.Base, s.Count, s.Bytes)
}

func c09cBases(st []c09cSeg) []int64 {
	b := make([]int64, len(st))
	for i, s := range st {
		b[i] = s.Base
	}
	return b
}

// c09cScan: segment files of the partition directory (base offset from the
// name, bytes from the size) + every message read back through the log.
func c09cScan(dir string, l commitlog.CommitLog) ([]c09cSeg, error) {
	ents, err := os.ReadDir(dir)
	if err != nil {
		return nil, err
	}
	var segs []c09cSeg
	for _, en := range ents {
		if !strings.HasSuffix(en.Name(), ".log") {
			continue
		}
		base, err := strconv.ParseInt(strings.TrimSuffix(en.Name(), ".log"), 10, 64)
		if err != nil {
			return nil, fmt.Errorf("segment file name %q", en.Name())
		}
		fi, err := en.Info()
		if err != nil {
			return nil, err
		}
		segs = append(segs, c09cSeg{Base: base, Bytes: fi.Size()})
	}
	sort.Slice(segs, func(i, j int) bool { return segs[i].Base < segs[j].Base })
	if len(segs) == 0 {
		return nil, fmt.Errorf("no segment files in %s", dir)
	}
	recs, err := vfReadLog(l, 0, true)
	if err != nil {
		return nil, err
	}
	i := 0
	for k, r := range recs {
		if k > 0 && r.Offset != recs[k-1].Offset+1 {
			return nil, fmt.Errorf("read-back has a gap: offset %d follows %d", r.Offset, recs[k-1].Offset)
		}
		for i+1 < len(segs) && r.Offset >= segs[i+1].Base {
			i++
		}
		if r.Offset < segs[i].Base {
			return nil, fmt.Errorf("offset %d read back lies before the oldest segment file (base %d)", r.Offset, segs[i].Base)
		}
		segs[i].Recs = append(segs[i].Recs, r)
	}
	for i := range segs {
		s := &segs[i]
		s.Count = int64(len(s.Recs))
		if s.Count > 0 {
			s.LastTS = s.Recs[s.Count-1].Timestamp
			if s.Recs[0].Offset != s.Base {
				return nil, fmt.Errorf("segment file base %d: first message read back has offset %d", s.Base, s.Recs[0].Offset)
			}
		}
		if (s.Count == 0) != (s.Bytes == 0) {
			return nil, fmt.Errorf("segment file base %d has %d bytes but %d messages were read back from it", s.Base, s.Bytes, s.Count)
		}
	}
	if n := len(recs); n > 0 && recs[n-1].Offset != l.NewestOffset() {
		return nil, fmt.Errorf("read-back ends at %d, NewestOffset is %d", recs[n-1].Offset, l.NewestOffset())
	}
	return segs, nil
}

func c09cExpired(s c09cSeg, lim c09cLimits, now time.Time) bool {
	return lim.Age > 0 && s.Count > 0 && s.LastTS < now.Add(-lim.Age).UnixNano()
}

// c09cViolated: the reference semantics of the other C09 units (age = the
// OLDEST segment is past its TTL; messages / bytes = the log holds more than
// the maximum).
func c09cViolated(st []c09cSeg, lim c09cLimits, now time.Time) []string {
	var v []string
	if len(st) > 0 && c09cExpired(st[0], lim, now) {
		v = append(v, "age")
	}
	var msgs, bytes int64
	for _, s := range st {
		msgs += s.Count
		bytes += s.Bytes
	}
	if lim.Msgs > 0 && msgs > lim.Msgs {
		v = append(v, "msgs")
	}
	if lim.Bytes > 0 && bytes > lim.Bytes {
		v = append(v, "bytes")
	}
	return v
}

func c09cKeep(st []c09cSeg, lim c09cLimits, now time.Time) int {
	for k := 0; k < len(st)-1; k++ {
		if len(c09cViolated(st[k:], lim, now)) == 0 {
			return k
		}
	}
	return len(st) - 1
}

func c09cAgeFlags(st []c09cSeg, lim c09cLimits, now time.Time) string {
	if lim.Age == 0 {
		return "-"
	}
	b := make([]byte, len(st))
	for i, s := range st {
		b[i] = 'n'
		if c09cExpired(s, lim, now) {
			b[i] = 'E'
		}
	}
	return string(b)
}

type c09cJudge struct {
	rep   *kit.Report
	unit  string
	conf  c09cConfig
	trace []string
	extra map[string]any
	// decided: the last judged clean had an outcome that a wrong reading of
	// the overrides would have changed
	decided bool
}

func (j *c09cJudge) witness(pre, post []c09cSeg, lim c09cLimits, now time.Time) map[string]any {
	m := map[string]any{"unit": j.unit, "seed": kit.Seed(), "configuration": j.conf.String(), "configuration_classes": j.conf.classes(),
		"limits_the_configuration_means": lim.String(), "segments_before": fmt.Sprint(pre), "segments_after": fmt.Sprint(c09cBases(post)),
		"expired_flags_before": c09cAgeFlags(pre, lim, now), "steps": strings.Join(j.trace, " ")}
	for k, v := range j.extra {
		m[k] = v
	}
	return m
}

// cleanAndJudge scans, runs the real Clean() and judges the survivors against
// the limits the configuration means.  removed = -1: not judged.
func (j *c09cJudge) cleanAndJudge(dir string, l commitlog.CommitLog, how string) (removed int, ok bool) {
	rep := j.rep
	lim := c09cEffective(j.conf)
	pre, err := c09cScan(dir, l)
	if err != nil {
		rep.Violation("C09:config:scan", fmt.Sprintf("%s, before Clean: %v", how, err), j.witness(nil, nil, lim, time.Now()))
		return -1, false
	}
	t0 := time.Now()
	j.trace = append(j.trace, fmt.Sprintf("Clean%v", c09cBases(pre)))
	if err := l.Clean(); err != nil {
		rep.Violation("C09:config:clean-error", fmt.Sprintf("%s: Clean failed: %v", how, err), j.witness(pre, nil, lim, t0))
		return -1, false
	}
	t1 := time.Now()
	post, err := c09cScan(dir, l)
	if err != nil {
		rep.Violation("C09:config:scan", fmt.Sprintf("%s, after Clean: %v", how, err), j.witness(pre, nil, lim, t0))
		return -1, false
	}
	for _, s := range pre {
		if c09cExpired(s, lim, t0) != c09cExpired(s, lim, t1) {
			rep.Inconc(fmt.Sprintf("%s: segment base %d crossed the age limit while the clean ran", how, s.Base))
			return -1, false
		}
	}
	wit := j.witness(pre, post, lim, t0)
	want := c09cKeep(pre, lim, t0)
	wit["documented_semantics_keep_from_index"] = want
	if len(post) == 0 || post[len(post)-1].Base != pre[len(pre)-1].Base {
		rep.Violation("C09:config:newest-removed", fmt.Sprintf("%s: the newest segment (base %d) is gone; before %v after %v", how, pre[len(pre)-1].Base, c09cBases(pre), c09cBases(post)), wit)
		return -1, false
	}
	k := len(pre) - len(post)
	for i := range post {
		if k < 0 || post[i].Base != pre[k+i].Base {
			rep.Violation("C09:config:not-a-suffix", fmt.Sprintf("%s: surviving segments %v are not a contiguous suffix of %v", how, c09cBases(post), c09cBases(pre)), wit)
			return -1, false
		}
		q := pre[k+i]
		same := q.Count == post[i].Count && q.Bytes == post[i].Bytes
		for x := 0; same && x < len(q.Recs); x++ {
			a, b := q.Recs[x], post[i].Recs[x]
			same = a.Offset == b.Offset && a.Timestamp == b.Timestamp && string(a.Value) == string(b.Value)
		}
		if !same {
			rep.Violation("C09:config:survivor-changed", fmt.Sprintf("%s: surviving segment changed: before %v after %v", how, q, post[i]), wit)
			return -1, false
		}
	}
	// which reading of the configuration explains what the cleaner did?
	reading := func() string {
		switch k {
		case c09cKeep(pre, c09cZeroAsAbsent(j.conf), t0):
			return "as-if-zero-overrides-were-absent"
		case c09cKeep(pre, c09cServerOnly(j.conf), t0):
			return "as-if-overrides-were-ignored"
		}
		return "other"
	}
	for x := k - 1; x >= 0; x-- {
		if v := c09cViolated(pre[x:], lim, t0); len(v) == 0 {
			rep.Violation("C09:config:removed-more-than-needed:"+reading(),
				fmt.Sprintf("%s: segment base %d (index %d) was removed although the log from it on satisfies every limit the stream's configuration means (%s <= %s; expired flags %s): kept from index %d, documented semantics keep from index %d; before %v",
					how, pre[x].Base, x, lim, j.conf, c09cAgeFlags(pre, lim, t0), k, want, pre), wit)
			return k, false
		}
	}
	if len(post) > 1 {
		if v := c09cViolated(post, lim, t0); len(v) > 0 {
			rep.Violation("C09:config:limit-not-enforced:"+strings.Join(v, "+")+":"+reading(),
				fmt.Sprintf("%s: after Clean the log still violates %v of the limits the stream's configuration means (%s <= %s; expired flags before %s) with %d segments left: %v; documented semantics keep from index %d of %v",
					how, v, lim, j.conf, c09cAgeFlags(pre, lim, t0), len(post), post, want, pre), wit)
			return k, false
		}
	}
	if got := l.OldestOffset(); post[0].Count > 0 && got != post[0].Recs[0].Offset {
		rep.Violation("C09:config:oldest-offset", fmt.Sprintf("%s: OldestOffset=%d after Clean, first surviving offset is %d", how, got, post[0].Recs[0].Offset), wit)
		return k, false
	}
	rep.Count("cleans_judged", 1)
	rep.Count("segments_removed", int64(k))
	j.decided = false
	switch {
	case k == 0 && want == 0 && (c09cKeep(pre, c09cZeroAsAbsent(j.conf), t0) > 0 || c09cKeep(pre, c09cServerOnly(j.conf), t0) > 0):
		rep.Count("cleans_where_a_wrong_reading_of_the_overrides_would_remove_segments", 1)
		j.decided = true
	case k > 0 && (c09cKeep(pre, c09cZeroAsAbsent(j.conf), t0) != k || c09cKeep(pre, c09cServerOnly(j.conf), t0) != k):
		rep.Count("cleans_where_a_wrong_reading_of_the_overrides_would_keep_a_different_suffix", 1)
		j.decided = true
	}
	return k, true
}

// ---------------------------------------------------------------- unit "config"

func c09cBareServer(dir string, mut func(*Config)) *Server {
	cfg := NewDefaultConfig()
	cfg.Clustering.ServerID = "a"
	cfg.Clustering.Namespace = "vf"
	cfg.DataDir = dir
	cfg.LogSilent = true
	cfg.Telemetry.Enabled = false
	if mut != nil {
		mut(cfg)
	}
	return New(cfg)
}

func c09cProtoPartition(name string) *proto.Partition {
	return &proto.Partition{Subject: name, Stream: name, Replicas: []string{"a"}, Leader: "a", Isr: []string{"a"}}
}

// c09cAim picks effective limits aimed at the measured layout.
func c09cAim(rng *kit.RNG, segs []c09cSeg, now time.Time, agesMs []int64) c09cLimits {
	var lim c09cLimits
	on := [3]bool{rng.Chance(3, 5), rng.Chance(3, 5), rng.Chance(3, 5)}
	suffix := func(j int) (m, b int64) {
		for _, s := range segs[j:] {
			m += s.Count
			b += s.Bytes
		}
		return
	}
	if on[0] && len(agesMs) > 0 {
		lim.Age = time.Duration(agesMs[rng.Intn(len(agesMs))]) * time.Millisecond
	}
	if on[1] {
		m, _ := suffix(rng.Intn(len(segs)))
		lim.Msgs = max(1, m+int64(rng.Range(-1, 1)))
	}
	if on[2] {
		_, b := suffix(rng.Intn(len(segs)))
		lim.Bytes = max(1, b+int64([]int{-1, 0, 1, -20, 20}[rng.Intn(5)]))
	}
	return lim
}

// c09cOther: a positive value different from eff, aimed at the layout too.
func c09cOther(rng *kit.RNG, eff int64, cands []int64) int64 {
	for tries := 0; tries < 8; tries++ {
		if c := cands[rng.Intn(len(cands))]; c > 0 && c != eff {
			return c
		}
	}
	return eff + 1
}

func TestVerifC09Config(t *testing.T) {
	rep := kit.NewReport("C09", "config")
	defer rep.Write()
	rep.SetRule("partitions built through Server.newPartition on never-started servers: a log of 2-12 segments (SegmentMaxBytes 1/150/300 server-wide or as stream override, 1-3 messages per batch, harness timestamps 20-40 min apart and hours in the past) is written by a server without limits and measured from the segment files + read-back; a second server over the same data directory gets server-wide streams.retention.max.{age,messages,bytes} and the stream per-setting overrides (absent / positive stricter or looser / explicit 0 over an unset or a BINDING server-wide value) realising effective limits aimed at the measured layout (suffix sums -1/0/+1, age cutoffs between segments with >=10 min margin); Clean() is judged (prefix-only removal, newest kept, necessity, sufficiency, survivors untouched, OldestOffset) against the limits the configuration MEANS (set override wins, also 0), then 1-2 more rounds: append + clean, or close + rebuild the partition from the same configuration (as pause/resume and restart do) + clean; non-trivial = some setting is decided by an override that differs from a positive server-wide value and a wrong reading of the overrides would have changed the clean's outcome; distinct = configuration classes + layout")
	rep.Assume("override rule re-stated from documentation/configuration.md: a stream-level setting that is set replaces the server-wide one, 0 = no limit / no TTL")
	rep.Assume("age: real clock with margins of >= 10 minutes (expiry flags computed before and after the clean must agree, else inconclusive)")
	root := kit.NewRNG(kit.Mix(kit.Seed(), 0xC09F))
	n := kit.Scale(140, 2000)
	seeds := make([]uint64, n)
	for i := range seeds {
		seeds[i] = root.Uint64()
	}
	kit.Parallel(n, kit.Workers(), func(i int) {
		if rep.NumViolations() >= 8 {
			return
		}
		c09cBareCase(rep, i, seeds[i])
	})
}

func c09cBareCase(rep *kit.Report, idx int, seed uint64) {
	rng := kit.NewRNG(seed)
	dir := vfWorkDir("c09c")
	defer func() {
		// checkpoint / cleaner goroutines of closed logs may still touch the
		// directory for a moment
		go func() { time.Sleep(2 * time.Second); os.RemoveAll(dir) }()
	}()
	name := fmt.Sprintf("c09c%d", idx)
	pdir := filepath.Join(dir, "streams", name, "0")
	segBytes := []int64{1, 1, 150, 300}[rng.Intn(4)]
	builder := c09cBareServer(dir, func(cfg *Config) {
		cfg.Streams.SegmentMaxBytes = segBytes
		cfg.Streams.RetentionMaxAge = 0
	})
	p, err := builder.newPartition(c09cProtoPartition(name), false, nil)
	if err != nil {
		rep.Inconc("builder partition: " + err.Error())
		return
	}
	start := time.Now()
	ts := start.Add(-18 * time.Hour)
	next := int64(0)
	j := &c09cJudge{rep: rep, unit: "config", extra: map[string]any{"case": idx, "case_seed": seed, "SegmentMaxBytes": segBytes}}
	appendBatches := func(l commitlog.CommitLog, nb int) bool {
		for b := 0; b < nb; b++ {
			ts = ts.Add(time.Duration(rng.Range(20, 40)) * time.Minute)
			n := rng.Range(1, 3)
			msgs := make([]*commitlog.Message, n)
			for i := range msgs {
				v := []byte(fmt.Sprintf("v%05d", next+int64(i)))
				for len(v) < []int{6, 10, 30, 80}[rng.Intn(4)] {
					v = append(v, '.')
				}
				msgs[i] = &commitlog.Message{Value: v, Timestamp: ts.UnixNano() + int64(i), LeaderEpoch: 1}
			}
			offs, err := l.Append(msgs)
			if err != nil || len(offs) != n || offs[0] != next {
				rep.Violation("C09:config:append", fmt.Sprintf("Append returned %v, %v (expected %d offsets from %d)", offs, err, n, next), j.witness(nil, nil, c09cLimits{}, time.Now()))
				return false
			}
			next += int64(n)
			j.trace = append(j.trace, fmt.Sprintf("A%d@-%s", n, start.Sub(ts).Round(time.Minute)))
		}
		l.SetHighWatermark(next - 1)
		return true
	}
	nb := rng.Range(2, 7)
	if segBytes > 1 {
		nb = rng.Range(4, 12)
	}
	if !appendBatches(p.log, nb) {
		p.Close()
		return
	}
	segs, err := c09cScan(pdir, p.log)
	p.Close()
	if err != nil {
		rep.Violation("C09:config:scan", "after the build: "+err.Error(), j.witness(nil, nil, c09cLimits{}, time.Now()))
		return
	}
	// age candidates: cutoffs 10 minutes before / after a segment's last write
	var ages []int64
	for _, s := range segs {
		if s.Count > 0 {
			for _, d := range []time.Duration{-10 * time.Minute, 10 * time.Minute} {
				ages = append(ages, int64(start.Sub(time.Unix(0, s.LastTS).Add(d))/time.Millisecond))
			}
		}
	}
	eff := c09cAim(rng, segs, start, ages)
	var msgC, byteC []int64
	for x := range segs {
		var m, b int64
		for _, s := range segs[x:] {
			m += s.Count
			b += s.Bytes
		}
		msgC, byteC = append(msgC, m, max(1, m-1)), append(byteC, b, max(1, b-1))
	}
	conf := c09cConfig{
		AgeMs: c09cRealise(rng, int64(eff.Age/time.Millisecond), c09cOther(rng, int64(eff.Age/time.Millisecond), ages)),
		Msgs:  c09cRealise(rng, eff.Msgs, c09cOther(rng, eff.Msgs, msgC)),
		Bytes: c09cRealise(rng, eff.Bytes, c09cOther(rng, eff.Bytes, byteC)),
	}
	j.conf = conf
	// the segment size: server-wide, or a stream override over a different server-wide value
	segOverride := rng.Chance(1, 3)
	srv := c09cBareServer(dir, func(cfg *Config) {
		conf.apply(cfg)
		cfg.Streams.SegmentMaxBytes = segBytes
		if segOverride {
			cfg.Streams.SegmentMaxBytes = 1 << 20
		}
	})
	var sc *proto.StreamConfig
	if segOverride || conf.AgeMs.Override != nil || conf.Msgs.Override != nil || conf.Bytes.Override != nil || rng.Chance(1, 2) {
		sc = conf.streamConfig(&proto.StreamConfig{})
		if segOverride {
			sc.SegmentMaxBytes = &proto.NullableInt64{Value: segBytes}
		}
	}
	j.trace = append(j.trace, "Open("+conf.String()+")")
	p, err = srv.newPartition(c09cProtoPartition(name), false, sc)
	if err != nil {
		rep.Inconc("partition: " + err.Error())
		return
	}
	defer func() { p.Close() }()
	removedTotal := 0
	decided := false
	rounds := rng.Range(1, 3)
	how := "first clean after the partition was built"
	for r := 0; r < rounds; r++ {
		if r > 0 {
			if rng.Bool() {
				if !appendBatches(p.log, rng.Range(1, 4)) {
					return
				}
				how = "clean after further appends"
			} else {
				if err := p.Close(); err != nil {
					rep.Inconc("close: " + err.Error())
					return
				}
				p, err = srv.newPartition(c09cProtoPartition(name), rng.Bool(), sc)
				if err != nil {
					rep.Inconc("rebuild partition: " + err.Error())
					return
				}
				j.trace = append(j.trace, "Rebuild")
				rep.Count("partition_rebuilds", 1)
				how = "clean after the partition was rebuilt from the same configuration"
			}
		}
		k, ok := j.cleanAndJudge(pdir, p.log, how)
		if !ok {
			return
		}
		removedTotal += k
		decided = decided || j.decided
		// a second clean removes nothing
		if k2, ok := j.cleanAndJudge(pdir, p.log, "second clean"); !ok {
			return
		} else if k2 != 0 {
			rep.Violation("C09:config:second-clean-removed", fmt.Sprintf("a second Clean removed %d more segments", k2), j.witness(nil, nil, c09cEffective(conf), time.Now()))
			return
		}
	}
	rep.Eval()
	for _, s := range []c09cSetting{conf.AgeMs, conf.Msgs, conf.Bytes} {
		rep.Count("setting_"+s.class(), 1)
	}
	if decided {
		rep.Nontrivial(fmt.Sprintf("%s|%d|%v", conf.classes(), segBytes, c09cBases(segs)))
	}
	if idx < 3 {
		rep.Sample(j.witness(nil, nil, c09cEffective(conf), time.Now()))
	}
	_ = removedTotal
}

// ---------------------------------------------------------------- unit "configsrv"

type c09cStream struct {
	name   string
	conf   c09cConfig
	j      *c09cJudge
	seq    int
	paused bool
}

func TestVerifC09ConfigSrv(t *testing.T) {
	rep := kit.NewReport("C09", "configsrv")
	defer rep.Write()
	rep.SetRule("real single-node servers (Raft, private NATS) with server-wide streams.segment.max.bytes=220 and a seeded choice of server-wide retention limits (bytes 0/700, messages 0/6, age 7d default / 1 ms / 0); 6 streams per server created through the API with per-setting overrides absent / positive / explicit 0 (bytes 500/1500, messages 4/11, age 1 ms / 1 h); 10-18 messages of ~100 bytes are published through the API per round (segments of 2-3 messages), and after every lifecycle event (creation, PauseStream + resuming publish, restart = Raft log replay, forced Raft snapshot + restart) every stream gets new messages, a 5 ms pause, then Clean() on the rebuilt partition's log judged against the limits the stream's configuration means; non-trivial = stream with an override that differs from a positive server-wide value and a clean whose outcome a wrong reading of the overrides would have changed; distinct = configuration classes + events")
	rep.Assume("age limits used here are 1 ms (every message is older after the 5 ms pause) or >= 1 h (none is); expiry flags computed before and after the clean must agree, else inconclusive")
	root := kit.NewRNG(kit.Mix(kit.Seed(), 0xC09A))
	n := kit.Scale(3, 12)
	rngs := make([]*kit.RNG, n)
	for i := range rngs {
		rngs[i] = root.Fork(uint64(i))
	}
	kit.Parallel(n, 3, func(i int) {
		if rep.NumViolations() >= 4 {
			return
		}
		c09cSrvScenario(rep, i, rngs[i])
	})
}

func c09cSrvScenario(rep *kit.Report, id int, rng *kit.RNG) {
	i64 := func(v int64) *int64 { return &v }
	serverWide := c09cConfig{
		AgeMs: c09cSetting{Server: []int64{int64(7 * 24 * time.Hour / time.Millisecond), 1, 0}[(id+rng.Intn(2))%3]},
		Msgs:  c09cSetting{Server: []int64{6, 0}[rng.Intn(2)]},
		Bytes: c09cSetting{Server: []int64{700, 0}[rng.Intn(2)]},
	}
	if id == 0 { // at least one server with all three server-wide limits binding
		serverWide.AgeMs.Server, serverWide.Msgs.Server, serverWide.Bytes.Server = 1, 6, 700
	}
	c, _, err := vfSingle(fmt.Sprintf("c09s-%d", id), func(cfg *Config) {
		serverWide.apply(cfg)
		cfg.Streams.SegmentMaxBytes = 220
	})
	if err != nil {
		rep.Inconc("server did not start: " + err.Error())
		return
	}
	defer c.Cleanup()
	srv := func() *Server { return c.Nodes["a"].Server() }
	var events []string
	events = append(events, "server("+serverWide.String()+")")
	inconc := func(what string) {
		rep.Inconc(fmt.Sprintf("scenario %d [%s]: %s", id, strings.Join(events, " "), what))
	}
	pick := func(s c09cSetting, pos []int64) c09cSetting {
		switch rng.Intn(5) {
		case 0:
			return s
		case 1, 2:
			s.Override = i64(0)
		default:
			s.Override = i64(pos[rng.Intn(len(pos))])
		}
		return s
	}
	var streams []*c09cStream
	for i := 0; i < 6; i++ {
		st := &c09cStream{name: fmt.Sprintf("c09s%d-%d", id, i)}
		st.conf = c09cConfig{
			AgeMs: pick(serverWide.AgeMs, []int64{1, 3600000}),
			Msgs:  pick(serverWide.Msgs, []int64{4, 11}),
			Bytes: pick(serverWide.Bytes, []int64{500, 1500}),
		}
		if i == 0 { // every binding server-wide limit lifted by an explicit 0
			st.conf.AgeMs.Override, st.conf.Msgs.Override, st.conf.Bytes.Override = i64(0), i64(0), i64(0)
		}
		st.j = &c09cJudge{rep: rep, unit: "configsrv", conf: st.conf, extra: map[string]any{"scenario": id, "stream": st.name}}
		req := &client.CreateStreamRequest{Subject: st.name, Name: st.name, ReplicationFactor: 1}
		st.conf.request(req)
		if err := c.CreateStream(req); err != nil {
			inconc("create stream: " + err.Error())
			return
		}
		if _, err := c.PartitionLeader(st.name, 0, 30*time.Second); err != nil {
			inconc(err.Error())
			return
		}
		streams = append(streams, st)
	}
	publish := func(st *c09cStream, n int) bool {
		for i := 0; i < n; i++ {
			st.seq++
			v := []byte(fmt.Sprintf("%s#%04d", st.name, st.seq))
			for len(v) < 60+rng.Intn(40) {
				v = append(v, '.')
			}
			ctx, cancel := context.WithTimeout(context.Background(), 20*time.Second)
			_, err := srv().api.Publish(ctx, &client.PublishRequest{Stream: st.name, Value: v, AckPolicy: client.AckPolicy_LEADER})
			cancel()
			if err != nil {
				inconc(fmt.Sprintf("publish to %s: %v", st.name, err))
				return false
			}
			st.paused = false
		}
		return true
	}
	decided := map[string]bool{}
	judgeAll := func(event string) bool {
		for _, st := range streams {
			wasPaused := st.paused
			if !publish(st, rng.Range(10, 18)) {
				return false
			}
			if wasPaused {
				rep.Count("publishes_that_resumed_a_paused_partition", 1)
			}
		}
		time.Sleep(5 * time.Millisecond) // a minimum age, not a deadline
		for _, st := range streams {
			p := c.Nodes["a"].Partition(st.name, 0)
			if p == nil || p.IsPaused() {
				inconc("partition of " + st.name + " not available after " + event)
				return false
			}
			st.j.extra["events"] = append([]string(nil), events...)
			pdir := filepath.Join(c.Nodes["a"].Cfg.DataDir, "streams", st.name, "0")
			if _, ok := st.j.cleanAndJudge(pdir, p.log, "clean after "+event); !ok {
				return false
			}
			if st.j.decided {
				decided[st.name] = true
			}
			rep.Count("cleans_after_"+event, 1)
		}
		return true
	}
	settle := func() bool {
		if _, err := c.MetaLeader(40 * time.Second); err != nil {
			inconc("no metadata leader after restart: " + err.Error())
			return false
		}
		for _, st := range streams {
			st := st
			ok := vfWait(40*time.Second, func() bool {
				s := srv()
				if s == nil {
					return false
				}
				stream := s.metadata.GetStream(st.name)
				if stream == nil {
					return false
				}
				p := stream.GetPartition(0)
				return p != nil && (p.IsPaused() || p.IsLeader())
			})
			if !ok {
				inconc("stream " + st.name + " not back after restart")
				return false
			}
		}
		return true
	}
	restart := func() bool {
		if err := c.StopNode("a"); err != nil {
			inconc("stop: " + err.Error())
			return false
		}
		if err := c.StartNode("a"); err != nil {
			inconc("restart: " + err.Error())
			return false
		}
		return settle()
	}
	if !judgeAll("create") {
		return
	}
	order := []string{"pause-resume", "restart", "snapshot-restart"}
	// seeded order, every event once (thorough: one more random event)
	for i := len(order) - 1; i > 0; i-- {
		k := rng.Intn(i + 1)
		order[i], order[k] = order[k], order[i]
	}
	if kit.Thorough() {
		order = append(order, []string{"pause-restart", "pause-snapshot-restart"}[rng.Intn(2)])
	}
	pauseSome := func() bool {
		for _, st := range streams {
			if rng.Chance(2, 3) {
				ctx, cancel := context.WithTimeout(context.Background(), 20*time.Second)
				_, err := srv().api.PauseStream(ctx, &client.PauseStreamRequest{Name: st.name})
				cancel()
				if err != nil {
					inconc("pause " + st.name + ": " + err.Error())
					return false
				}
				st.paused = true
				rep.Count("streams_paused", 1)
			}
		}
		return true
	}
	snapshot := func() bool {
		if err := srv().getRaft().Snapshot().Error(); err != nil {
			inconc("raft snapshot: " + err.Error())
			return false
		}
		return true
	}
	for _, ev := range order {
		events = append(events, ev)
		rep.Count("event_"+ev, 1)
		ok := true
		switch ev {
		case "pause-resume":
			ok = pauseSome()
		case "restart":
			ok = restart()
		case "snapshot-restart":
			ok = snapshot() && restart()
		case "pause-restart":
			ok = pauseSome() && restart()
		case "pause-snapshot-restart":
			ok = pauseSome() && snapshot() && restart()
		}
		if !ok || !judgeAll(ev) {
			return
		}
	}
	rep.Eval()
	for _, st := range streams {
		for _, x := range []c09cSetting{st.conf.AgeMs, st.conf.Msgs, st.conf.Bytes} {
			rep.Count("setting_"+x.class(), 1)
		}
		if decided[st.name] {
			rep.Nontrivial(fmt.Sprintf("%s|%s|%s", serverWide.String(), st.conf.classes(), strings.Join(order, ",")))
		}
	}
	if id < 2 {
		rep.Sample(map[string]any{"scenario": id, "events": events, "streams": func() []string {
			var out []string
			for _, st := range streams {
				out = append(out, st.name+": "+st.conf.String())
			}
			return out
		}()})
	}
}
